"""C20: built-in codec kernels conform to their published definitions."""
import os
import vlib
from checks import regen


def run(ctx):
    q = ctx.tier == "quick"
    regen.gen_g711()                       # T1: tables of the working tree -> Gen_G711.v
    regen.gen_adpcm()                      # T1: IMA / MS ADPCM tables -> Gen_Adpcm.v
    vlib.proof_step(ctx)                   # Properties_C20.v (search: the K ties below find the inputs)
    seed = ctx.seed
    # K ties
    h = vlib.cc_harness("kern_g711", ["kern_g711.c"], kind="asan")
    m = vlib.build_model("g711", "XG711.v", "driver_g711.ml")
    vlib.k_tie(ctx, "g711_kernels", "%s %d %d" % (h, seed, 20000 if q else 2000000), m,
               "all 256 codes through ulaw2s/alaw2s/ulaw2i/alaw2i, all 65536 shorts through s2ulaw/s2alaw, "
               "ints: every top-half short with low half 0x0000 and 0xFFFF (incl. INT_MIN/INT_MAX) + PRNG ints",
               exhaustive=False, key="g711")
    h = vlib.cc_harness("kern_ieee", ["kern_ieee.c"], kind="plain")
    m = vlib.build_model("ieee", "XIeee.v", "driver_ieee.ml")
    vlib.k_tie(ctx, "ieee_endian_kernels", "%s %d %d" % (h, seed, 20000 if q else 1500000), m,
               "float32/double64 portable read/write (normal, tiny-normal, subnormal, around 1e-30, extremes, PRNG patterns) "
               "and ENDSWAP_16/32/64, psf_get/put_{be,le}{16,24,32,64} on PRNG values", key="ieee")
    h = vlib.cc_harness("kern_fp", ["kern_fp.c"], kind="plain", extra="-ffp-contract=off")
    m = vlib.build_model("fp", "XFp.v", "driver_fp.ml")
    vlib.k_tie(ctx, "float_model_vs_hardware", "%s %d %d" % (h, seed, 5000 if q else 300000), m,
               "Fp.v (round_fmt, fmul32/64, psf_lrint, conversions, comparisons) against the hardware on boundary-directed + PRNG patterns",
               key="fp")
    h = vlib.cc_harness("kern_adpcm", ["kern_adpcm.c"], kind="asan")
    m = vlib.build_model("adpcm", "XAdpcm.v", "driver_adpcm.ml")
    vlib.k_tie(ctx, "adpcm_block_decoders", "%s %d %d" % (h, seed, 1500 if q else 60000), m,
               "WAV IMA ADPCM, AIFC ima4 and WAV MS ADPCM blocks decoded through the public API (one block per file, 1 and 2 channels, block sizes 8 .. 512): header step index "
               "0 / 82..88 / above the table / PRNG, predictors at the int16 extremes, code patterns all +max, all -max, alternating, zero, PRNG; MS: predictor bytes in and out "
               "of range, scale factors 0, 1, 16, 0x7FFF, 0x8000, 0xFFFF; every tenth case a file of several blocks written by the library's encoder (block headers continue the "
               "state the previous block ended in), code bytes partly overwritten, decoded block by block by the model; every decoded short against the extracted model", key="adpcm")
    ctx.trusted += ["IMA ADPCM step / index tables and the decoder recurrence transcribed from the IMA Digital Audio Focus recommendation into Adpcm.v (ref_step_table, ref_index_table, ima_diff)",
                    "Microsoft ADPCM is modelled as coded (prediction by arithmetic shift, scale factor and history in 16-bit cells): tied by K, with range theorems, not compared with an independent definition"]
    ctx.trusted += ["G.711 definition transcribed from the Recommendation's segment tables into G711.v (ulaw_expand, ulaw_compress, alaw_expand, alaw_compress)",
                    "16-bit input is reduced to G.711's sign-magnitude input by truncating the magnitude (|s|/4, |s|/16), as every table driven implementation does",
                    "libm frexp/floor/fmod/pow exact on the values used by the portable serialisers",
                    "psf_lrint out of int range = INT_MIN (clang cvtsd2si / SSE2 intrinsic behaviour; unspecified in C)"]

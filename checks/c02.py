"""C02: sample-type conversions follow the documented rules exactly."""
import vlib
from checks import regen


def run(ctx):
    q = ctx.tier == "quick"
    regen.gen_g711()
    vlib.proof_step(ctx)
    h = vlib.cc_harness("conv_api", ["conv_api.c"], kind="asan")
    m = vlib.build_model("conv", "XConv.v", "driver_conv.ml")
    vlib.k_tie(ctx, "api_conversions_raw",
               "%s %d %s" % (h, ctx.seed, "quick" if q else "thorough"), m,
               "RAW files in memory through sf_write_T / sf_read_T, every encoding (S8 U8 16 24 32 LE/BE, u-law, A-law, float, double) x "
               "4 caller types x NORM_FLOAT/DOUBLE x CLIPPING x SCALE_FLOAT_INT_READ x SCALE_INT_FLOAT_WRITE; reads: all 2^8 / 2^16 stored codes "
               "(24/32-bit: boundaries + strided + PRNG); writes: all 2^16 shorts, ints (top-half grid + boundaries + PRNG), floats/doubles "
               "(k/K and (k+1/2)/K grids around 0, +-1 and the extremes for every scale K, out-of-range, PRNG)",
               key="conv", parallel=vlib.NCPU, timeout=3000)
    hf = vlib.cc_harness("kern_fp", ["kern_fp.c"], kind="plain", extra="-ffp-contract=off")
    mf = vlib.build_model("fp", "XFp.v", "driver_fp.ml")
    vlib.k_tie(ctx, "float_model_vs_hardware", "%s %d %d" % (hf, ctx.seed, 5000 if q else 300000), mf,
               "Fp.v (round_fmt, fmul, fdiv, psf_lrint, conversions, comparisons) against the hardware", key="fp", parallel=1 if q else vlib.NCPU)
    ctx.trusted += ["hand-written model PcmConv.v/Fp.v, tied by the correspondence above on every run",
                    "psf_lrint out of int range = INT_MIN (clang / SSE2 behaviour; unspecified in C)",
                    "reading note (DESIGN.md section 8): with SFC_SET_CLIPPING the in-range scale is 2^(w-1) as coded; "
                    "'nearest integer' is nearest to the floating-point product"]
    ctx.notes.append("observed, not asserted: double64.c d2i_clip_array computes the scaled value in a float (precision loss with clipping on)")

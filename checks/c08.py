"""C08: read/write mode keeps independent, correct read and write positions."""
import itertools
import vlib, sdrive, wrappers, formats, gens

RDWR_MAJORS = ["WAV", "AIFF", "AU", "RAW", "W64", "RF64", "CAF", "PAF", "SVX", "NIST", "IRCAM", "MAT4", "MAT5", "PVF", "HTK", "AVR", "MPC2K", "WAVEX", "VOC"]


def rdwr_formats(ctx, q):
    out = []
    for (f, ch) in formats.writable(channels=(1, 2), subs=formats.GRANULAR):
        if formats.is_granular(f) and formats.name(f).split("/")[0] in RDWR_MAJORS:
            out.append((f, ch))
    return out


def write_line(rng, h, ch, sub, k, var=None):
    t = rng.choice(gens.types_for(sub))
    var = var or rng.choice("if")
    return "w %d %s %s %d %s" % (h, t, var, k if var == "f" else k * ch, " ".join(gens.values(rng, t, min(k * ch, 24), sub)))


def read_line(rng, h, ch, sub, k):
    t = rng.choice(gens.types_for(sub))
    var = rng.choice("if")
    return "r %d %s %s %d" % (h, t, var, k if var == "f" else k * ch)


def random_history(rng, L, f, ch, sid, depth, route, prepopulate, dist):
    sub = formats.name(f).split("/")[1]
    if prepopulate:
        L.append("open 0 %d w %x %d 8000" % (sid, f, ch))
        L.append(write_line(rng, 0, ch, sub, rng.choice([4, 9, 20]), "f"))
        L.append("close 0")
        L.append("open 0 %d x 0 0 0 0 %s" % (sid, route) if formats.name(f).split("/")[0] != "RAW" else "open 0 %d x %x %d 8000 0 %s" % (sid, f, ch, route))
    else:
        L.append("store %d clear" % sid)
        L.append("open 0 %d x %x %d 8000 0 %s" % (sid, f, ch, route))
    for step in range(depth):
        k = rng.below(12)
        if k < 3:
            L.append(write_line(rng, 0, ch, sub, rng.choice([1, 2, 3, 7])))
            dist["write"] += 1
        elif k < 6:
            L.append(read_line(rng, 0, ch, sub, rng.choice([1, 2, 5, 40])))
            dist["read"] += 1
        elif k < 10:
            base = rng.choice([0, 1, 2])
            md = rng.choice([0, 16, 32])
            off = rng.choice([0, 1, 2, 5, 11, 30]) if base == 0 else rng.choice([-3, -1, 0, 1, 4]) if base == 1 else rng.choice([0, -1, -2, -6, 3])
            L.append("seek 0 %d %d" % (off, base | md))
            dist["seek"] += 1
        elif k == 10 and route != "v":
            L.append("cmd 0 FILE_TRUNCATE %d" % rng.choice([0, 1, 3, 6, 12]))
            dist["truncate"] += 1
        elif k == 10:
            L.append("cmd 0 UPDATE_HEADER_NOW 0")
            dist["update"] += 1
        else:
            # close and re-open: the fresh handle must see exactly the final frame sequence
            L.append("close 0")
            L.append("open 0 %d x 0 0 0 0 %s" % (sid, route) if formats.name(f).split("/")[0] != "RAW" else "open 0 %d x %x %d 8000 0 %s" % (sid, f, ch, route))
            dist["reopen"] += 1
    L.append("close 0")
    # final read-only verification
    L.append("open 0 %d r 0 0 0" % sid if formats.name(f).split("/")[0] != "RAW" else "open 0 %d r %x %d 8000" % (sid, f, ch))
    L.append("r 0 %s f 200" % gens.types_for(sub)[0])
    L.append("close 0")


ALPHABET = ["W2", "W1", "R2", "R9", "S0", "S3", "SR1", "SW2", "SE", "CUR", "T1", "T4", "X"]


def exhaustive_histories(rng, L, f, ch, depth, dist):
    """all sequences of length depth over the property's alphabet, on the descriptor route (truncate works there)"""
    sub = formats.name(f).split("/")[1]
    raw = formats.name(f).split("/")[0] == "RAW"
    reopen = "open 0 1 x 0 0 0 0 d" if not raw else "open 0 1 x %x %d 8000 0 d" % (f, ch)
    L.append("open 0 0 w %x %d 8000" % (f, ch))
    L.append("w 0 s f 6 " + " ".join(str(100 * (i + 1)) for i in range(6 * ch)))
    L.append("close 0")
    n = 0
    for seq in itertools.product(ALPHABET, repeat=depth):
        for start in ("pre", "empty"):
            if start == "pre":
                L.append("store 1 copy 0")
                L.append(reopen)
            else:
                L.append("store 1 clear")
                L.append("open 0 1 x %x %d 8000 0 d" % (f, ch))
            for a in seq:
                if a[0] == "W" and a[1:].isdigit():
                    k = int(a[1:])
                    L.append("w 0 s f %d %s" % (k, " ".join(str(rng.range(-30000, 30000)) for _ in range(k * ch))))
                elif a[0] == "R" and a[1:].isdigit():
                    L.append("r 0 s f %s" % a[1:])
                elif a == "S0":
                    L.append("seek 0 0 0")
                elif a == "S3":
                    L.append("seek 0 3 0")
                elif a == "SR1":
                    L.append("seek 0 1 16")
                elif a == "SW2":
                    L.append("seek 0 2 32")
                elif a == "SE":
                    L.append("seek 0 0 2")
                elif a == "CUR":
                    L.append("seek 0 -1 1")
                elif a[0] == "T":
                    L.append("cmd 0 FILE_TRUNCATE %s" % a[1:])
                elif a == "X":
                    L.append("close 0")
                    L.append(reopen)
            L.append("close 0")
            L.append(reopen.replace(" x ", " r "))
            L.append("r 0 s f 50")
            L.append("close 0")
            n += 1
    dist["exhaustive_histories"] = dist.get("exhaustive_histories", 0) + n


def run(ctx):
    q = ctx.tier == "quick"
    from checks import regen
    regen.gen_enums()
    vlib.proof_step(ctx)
    diff = wrappers.tie(ctx)
    rng = vlib.Rng(ctx.seed * 15485863 + 8)
    dist = {"write": 0, "read": 0, "seek": 0, "truncate": 0, "update": 0, "reopen": 0}
    L = []
    fmts = rdwr_formats(ctx, q)
    sid = 0
    for i, (f, ch) in enumerate(fmts):
        reps = 2 if q else 12
        for r in range(reps):
            route = "d" if (i + r) % 2 else "v"
            random_history(rng, L, f, ch, 2 + sid % 20, rng.choice([6, 15, 40]) if q else rng.choice([10, 30, 60]), route, rng.below(2) == 0, dist)
            sid += 1
    dist["formats"] = len(fmts)
    script = "\n".join(L) + "\n"
    hl, ml, bad = sdrive.s_tie(ctx, "rdwr_random_histories", script,
        "SFM_RDWR histories (write k, read k, seek with every whence x {plain, SFM_READ, SFM_WRITE}, SFC_FILE_TRUNCATE on the descriptor route, "
        "header update, close / re-open) from empty and pre-populated files over every container that opens SFM_RDWR x sample-granular encoding x "
        "channels{1,2}; the model predicts every return value, both positions, frame count, file cursor, delivered data and what a fresh open sees")
    L2 = []
    ex = [(formats.fmt("WAV", "PCM_16"), 1), (formats.fmt("AIFF", "PCM_24"), 2)] if q else \
         [(formats.fmt("WAV", "PCM_16"), 1), (formats.fmt("AIFF", "PCM_24"), 2), (formats.fmt("AU", "PCM_32"), 1), (formats.fmt("RAW", "PCM_16"), 2), (formats.fmt("W64", "FLOAT"), 1), (formats.fmt("CAF", "PCM_16"), 2)]
    for (f, ch) in ex:
        if formats.name(f).split("/")[1] == "FLOAT":
            continue
        exhaustive_histories(rng, L2, f, ch, 2 if q else 3, dist)
    script2 = "\n".join(L2) + "\n"
    hl2, ml2, bad2 = sdrive.s_tie(ctx, "rdwr_exhaustive_histories", script2,
        "ALL operation sequences of depth %d over the alphabet %s, from a 6-frame file and from an empty file, descriptor route, followed by a read-only re-open" % (2 if q else 3, ALPHABET))
    ctx.distribution.update(dist)
    for h in (hl, hl2):
        inv = [l for ln, (op, d, l) in h.items() if "INVARIANT" in d or d.get("guard") == "0"]
        if inv:
            ctx.violation("invariant", "handle invariant / guard bytes broken: %s" % inv[0][:200], "\n".join(inv[:20]))
    ctx.add_samples([l for ln, (op, d, l) in sorted(hl.items()) if op in ("r", "w", "seek", "cmd")][:900:150])
    if diff:
        ctx.broken_proofs.append(("wrapper_transcription(%s)" % ",".join(diff),
                                  "the source text of %s no longer matches the text Api.v was transcribed from" % ", ".join(diff), None))
    ctx.trusted += ["hand-written wrapper model Api.v (transcription check + script correspondence on every run)",
                    "the model keeps the data region only; header rewrite / close-time truncation of each container is observed through the re-open",
                    "RDWR on block codecs (PAF24, SDS) is outside the model"]

"""setup_cmd body: library builds, T1/T2 regeneration, full Coq make, all extractions and harnesses."""
import os, sys, time
import vlib
from checks import regen


def run():
    t = time.time()
    vlib.ensure_lib("asan")
    vlib.ensure_lib("plain")
    regen.regen_all()
    vlib.coq_project()
    files = [f[:-2] + ".vo" for f in open(os.path.join(vlib.COQ, "_CoqProject")).read().split("\n") if f.endswith(".v")]
    ok, log = vlib.coq_make(files, timeout=3000)
    if not ok:
        print(log[-4000:])
        print("setup: Coq build FAILED")
        return 1
    print("setup done in %.0fs" % (time.time() - t))
    return 0

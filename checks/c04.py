"""C04: a closed file describes exactly what was written into it."""
import vlib, sdrive, formats, gens

EXACT_RATE = {"WAV", "WAVEX", "RF64", "W64", "AIFF", "AU", "CAF", "NIST", "PAF", "PVF", "MAT4", "MAT5", "AVR"}
RATES = [1, 8000, 11025, 44100, 65535, 65536, 2 ** 24 + 1, 2 ** 30 - 1, 2 ** 30, 2 ** 31 - 1]


def gen(ctx, q):
    rng = vlib.Rng(ctx.seed * 472882049 + 4)
    L, plan = [], []
    sid = 0
    combos = formats.writable(channels=(1, 2, 3, 8, 256, 1024), endians=("FILE",))
    for (f, ch) in combos:
        name = formats.name(f)
        mj, sb = name.split("/")[0], name.split("/")[1]
        if q and ch > 8 and vlib.dhash((f, ctx.seed)) % 4:
            continue
        ts = "fd" if sb in ("FLOAT", "DOUBLE") else "sifd"
        ns = [0, 1, 2, 7, 64, 505, 1001] if not q else [0, 1, rng.choice([2, 7, 64]), rng.choice([505, 1001])]
        if not formats.is_granular(f):
            # whole numbers of codec blocks (PAF24 10, SDS 40 / 60, G.72x 120, GSM 160 / 320, DWVW, ...): the close path must not add or drop a block
            ns = ns + ([20, 120, 320, 640] if not q else [20, rng.choice([120, 320, 640])])
        if ch > 8:
            ns = [0, 1, 9]
        if (sb, ch) in (("ALAC_16", 2), ("ALAC_32", 1), ("ALAC_24", 8)):
            ns = ns + [9000]
        # (a rate with something in every byte of a 32-bit field -- 2^24+1, 0x01020304, 20 000 000, 2^27-1 -- is always among them: readers that
        # give one byte of the field another meaning only show there)
        rates = RATES + [0x01020304, 20000000, 2 ** 27 - 1] if not q else [8000, rng.choice(RATES), rng.choice([2 ** 30 - 1, 2 ** 31 - 1, 1, 65536]),
                                                                           rng.choice([2 ** 24 + 1, 0x01020304, 20000000, 2 ** 27 - 1])]
        for rate in rates:
            if mj in ("SVX", "MPC2K") and rate > 65535:
                continue            # 16-bit rate field: outside the container's domain
            if mj == "IRCAM" and rate >= 2 ** 31 - 64:
                continue            # float32 rate field rounds up to 2^31 (recorded under C10)
            for n in (ns if rate == 8000 else sorted(set([1, rng.choice(ns)]))):
                route = " p.sd2" if mj == "SD2" else ""
                stale = rng.choice([0, 12345, -7, 2 ** 40])
                L.append("open 0 %d w %x %d %d %d%s" % (sid, f, ch, rate, stale, route))
                plan.append((len(L), "wopen", None))
                left = n
                if n == 9000:
                    # incompressible audio over several ALAC packets: every packet becomes an escape packet of more than 16383 bytes, the sizes in the
                    # packet table need three 7-bit groups with a zero in the middle
                    t = "s" if sb == "ALAC_16" else "i"
                    vals = [str(rng.range(-32768, 32767) if t == "s" else rng.range(-2 ** 31, 2 ** 31 - 1)) for _ in range(n * ch)]
                    L.append("w 0 %s f %d %s" % (t, n, " ".join(vals)))
                    plan.append((len(L), "write", n))
                    left = 0
                while left > 0:
                    k = min(left, rng.choice([1, 3, 64, 700]))
                    t = rng.choice(ts)
                    var = rng.choice("if")
                    vals = gens.values(rng, t, min(k * ch, 32), sb if sb in ("ULAW", "ALAW") else None)
                    L.append("w 0 %s %s %d %s" % (t, var, k if var == "f" else k * ch, " ".join(vals)))
                    plan.append((len(L), "write", (k if var == "f" else k * ch)))
                    left -= k
                L.append("close 0")
                raw = mj == "RAW"
                L.append(("open 0 %d r 0 0 0 0%s" % (sid, route)) if not raw else "open 0 %d r %x %d %d" % (sid, f, ch, rate))
                plan.append((len(L), "reopen", dict(name=name, mj=mj, sb=sb, f=f, ch=ch, rate=rate, n=n)))
                L.append("r 0 %s f %d" % (ts[0], n + 20000))
                plan.append((len(L), "readall", None))
                L.append("r 0 %s f 5" % ts[0])
                plan.append((len(L), "eof", None))
                L.append("close 0")
                sid = (sid + 1) % 30
    return "\n".join(L) + "\n", plan


def run(ctx):
    q = ctx.tier == "quick"
    vlib.proof_step(ctx)
    h = vlib.cc_harness("kern_ext80", ["kern_ext80.c"], kind="asan")
    m = vlib.build_model("ext80", "XExt80.v", "driver_ext80.ml")
    vlib.k_tie(ctx, "aiff_rate_codec", "%s %d %d" % (h, ctx.seed, 3000 if q else 300000), m,
               "uint2tenbytefloat / tenbytefloat2int of src/aiff.c (static, reached by including the file): every power of two +-1 up to 2^31, common rates, PRNG rates, "
               "and arbitrary header bytes through the reader", key="ext80")
    script, plan = gen(ctx, q)
    rc, hl, err = sdrive.run_harness(script, "C04_reopen", timeout=1500)
    if rc != 0:
        ctx.violation("reopen:sanitizer", "re-open run ended rc=%d: %s" % (rc, " | ".join(err.strip().split("\n")[:3])[:400]), script[-5000:] + "\n" + err[-5000:])
        return
    # B per (format, channels, rate): the frame count a 1-frame file reports (block rounding), at least 1
    blocks = {}
    cur = None
    ok_w = False
    neg_stale_failed = None
    for (ln, kind, a) in plan:
        if kind == "wopen" and ln in hl:
            ok_w = hl[ln][1].get("ok") == "1"
            if not ok_w and " -7" in script.split("\n")[ln - 1] and neg_stale_failed is None:
                neg_stale_failed = ln
        if kind == "reopen" and ok_w and ln in hl and hl[ln][1].get("ok") == "1" and a["n"] == 1:
            blocks[(a["f"], a["ch"], a["rate"])] = max(1, int(hl[ln][1]["frames"]))
    if neg_stale_failed is not None:
        ctx.violation("wopen:negative_stale_frames", "sf_open (SFM_WRITE) fails when the caller's SF_INFO.frames is negative: %s" % hl[neg_stale_failed][2][:160],
                      script.split("\n")[neg_stale_failed - 1])
    seen = set()
    n = 0
    wrote_ok = True
    info = None
    for (ln, kind, a) in plan:
        if ln not in hl:
            continue
        d = hl[ln][1]
        if kind == "wopen":
            wrote_ok = d.get("ok") == "1"
            accepted = 0
        elif kind == "write":
            if wrote_ok:
                r = int(d.get("ret", "0"))
                accepted = int(d.get("wpos", "0"))
        elif kind == "reopen":
            info = None
            if not wrote_ok:
                continue
            n += 1
            fam = formats.family(a["f"])
            key = None
            N = accepted
            if d.get("ok") != "1":
                key, msg = "%s:cannot_reopen" % fam, "N=%d ch=%d rate=%d: %s" % (N, a["ch"], a["rate"], hl[ln][2][:160])
                if a["mj"] == "PVF" and a["ch"] < 10 and a["rate"] < 10 and a["sb"] == "PCM_S8":
                    key = "PVF:header_shorter_than_12_bytes"
            else:
                info = dict(a, F=int(d["frames"]), N=N)
                F = info["F"]
                B = blocks.get((a["f"], a["ch"], a["rate"]))
                if a["mj"] == "RAW" and a["sb"].startswith("DWVW"):
                    B = 13              # header-less DWVW: the codec's flush samples cannot be told from data (DESIGN.md section 8)
                if formats.is_granular(a["f"]):
                    B = 1               # PCM / float / G.711: one frame is the unit; a measured "block" would hide an off-by-one in the frame count
                if B is None:
                    B = 1 << 30         # no one-frame file of this exact format / rate in the run: only F >= N is checked
                pad_ok = F == N + 1 and (N * int(d["blockwidth"] or 0)) % 2 == 1      # one pad frame where the container pads odd byte counts
                if int(d["ch"]) != a["ch"]:
                    key, msg = "%s:channels_changed" % fam, "wrote %d channels, re-open reports %s" % (a["ch"], d["ch"])
                elif (int(d["fmt"], 16) & 0x0FFFFFFF) != (a["f"] & 0x0FFFFFFF):
                    key, msg = "%s:format_changed" % fam, "wrote %x, re-open reports %s" % (a["f"], d["fmt"])
                elif a["mj"] in EXACT_RATE and int(d["rate"]) != a["rate"]:
                    key, msg = "%s:samplerate_changed" % fam, "wrote rate %d, re-open reports %s" % (a["rate"], d["rate"])
                    if a["mj"] == "AIFF" and a["rate"] >= 2 ** 30:
                        key = "AIFF:samplerate_from_2^30"
                elif not (N <= F < N + B or pad_ok):
                    key, msg = "%s:frame_count_%s" % (fam, "short" if F < N else "long"), "N=%d accepted, re-open reports F=%d (block %d) ch=%d rate=%d" % (N, F, B, a["ch"], a["rate"])
                    if a["mj"] == "PVF" and a["ch"] < 10 and a["rate"] < 10 and a["sb"] == "PCM_S8":
                        key = "PVF:header_shorter_than_12_bytes"
            if key and key not in seen:
                seen.add(key)
                ctx.violation("reopen:" + key, "%s %s" % (a["name"], msg), "script:\n" + sdrive.section_prefix(script, ln)[-6000:] + "\n\ntranscript:\n" + hl[ln][2][:800])
        elif kind == "readall" and info:
            if int(d.get("ret", "-1")) != info["F"]:
                key = "%s:delivers_other_than_F" % formats.family(info["f"])
                if key not in seen:
                    seen.add(key)
                    ctx.violation("reopen:" + key, "%s: header says F=%d, reading to the end delivers %s frames (N=%d ch=%d)" % (info["name"], info["F"], d.get("ret"), info["N"], info["ch"]),
                                  "script:\n" + sdrive.section_prefix(script, ln)[-6000:] + "\n\ntranscript:\n" + hl[ln][2][:800])
        elif kind == "eof" and info:
            if d.get("ret") != "0":
                key = "%s:data_after_end" % formats.family(info["f"])
                if key not in seen:
                    seen.add(key)
                    ctx.violation("reopen:" + key, "%s: a read after F frames returns %s" % (info["name"], d.get("ret")), sdrive.section_prefix(script, ln)[-4000:])
    ctx.tie("reopen_oracle", "oracle", n, n,
            "every writable container x encoding x channels{1,2,3,8,256,1024}: sample rates {1, 8000, 11025, 44100, 65535, 65536, 2^24+1, 2^30-1, 2^30, 2^31-1}, N in "
            "{0,1,2,7,64,505,1001} split over calls and sample types, stale SF_INFO.frames {0, 12345, -7, 2^40}: re-open reports the channels, container, encoding, the "
            "rate (exactly for integer-Hz containers), N <= F < N + B (B = frame count of a one-frame file; one pad frame where odd byte counts are padded); reading delivers "
            "exactly F frames, then end of file")
    ctx.add_samples([hl[ln][2][:220] for (ln, k, a) in plan if k == "reopen" and ln in hl][:5])
    ctx.trusted += ["Ext80.v (tied by K to the static functions of aiff.c)", "header writers / parsers of the 23 containers are decided by the re-open oracle, not by a theorem",
                    "B is taken from the implementation (frame count of a one-frame file of the same format)"]

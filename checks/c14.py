"""C14: path, descriptor, virtual-I/O and embedded access give identical results."""
import os
import vlib, sdrive, formats, gens

CMP = ("ok", "err", "fmt", "ch", "rate", "frames", "sections", "ret", "rpos", "dig", "val", "vals", "n", "list", "code", "count", "cues")


def gen(ctx, q):
    rng = vlib.Rng(ctx.seed * 1299709 + 14)
    L, plan = [], []
    combos = formats.writable(channels=(1, 2))
    if q:
        combos = [c for i, c in enumerate(combos) if (i + ctx.seed) % 4 == 0 or formats.name(c[0]) in ("WAV/PCM_16", "AIFF/PCM_24", "AU/ULAW", "WAV/IMA_ADPCM", "AIFF/IMA_ADPCM", "AU/G721_32", "WAV/GSM610", "CAF/ALAC_16")]
    for (f, ch) in combos:
        name = formats.name(f)
        mj, sb = name.split("/")
        if mj == "SD2":
            continue            # SD2 keeps its header in a second file: only the path route applies
        ts = "fd" if sb in ("FLOAT", "DOUBLE") else "sifd"
        t = rng.choice(ts)
        n = rng.choice([50, 700, 1300])
        vals = gens.values(rng, t, 48, sb if sb in ("ULAW", "ALAW") else None)
        raw = mj == "RAW"
        # write through every route: identical bytes
        wgroup = []
        for wi, route in enumerate("vpdD"):
            L.append("open 0 %d w %x %d 8000 0 %s" % (wi, f, ch, route))
            if sb in ("PCM_16",) and mj in ("WAV", "AIFF", "CAF"):
                L.append("str 0 set 1 %s" % "7469746c65")
            L.append("w 0 %s f %d %s" % (t, n, " ".join(vals)))
            L.append("close 0")
            wgroup.append(len(L))
        plan.append(("write", name, wgroup))
        # read through every route: identical transcripts
        seekable_ops = ["r 0 %s f 10" % ts[0], "seek 0 %d 0" % (n // 2), "r 0 %s i %d" % (ts[-1], 7 * ch), "seek 0 -3 1", "r 0 %s f 20" % ts[0], "seek 0 -5 2", "r 0 %s f 50" % ts[0], "str 0 get 1", "info 0"]
        seq_ops = ["r 0 %s f 10" % ts[0], "r 0 %s i %d" % (ts[-1], 7 * ch), "r 0 %s f %d" % (ts[0], n + 100)]
        routes = [("v", ""), ("p", ""), ("d", ""), ("D", ""), ("e", " %d %d" % (rng.choice([1, 37, 512]), rng.choice([0, 11, 1500]))), ("e", " 64 0")]
        if mj in ("WAV", "AIFF", "AU") and formats.is_granular(f):
            routes.append(("q", ""))
        rgroup = []
        for (route, extra) in routes:
            op = "open 0 0 r 0 0 0 0 %s%s" % (route, extra) if not raw else "open 0 0 r %x %d 8000 0 %s%s" % (f, ch, route, extra)
            L.append(op)
            first = len(L)
            ops = seq_ops if route == "q" else seekable_ops
            for o in ops:
                L.append(o)
            L.append("close 0")
            rgroup.append((route + extra, first, len(L)))
        plan.append(("read", name, rgroup))
    return "\n".join(L) + "\n", plan


def fields(d):
    return {k: v for k, v in d.items() if k in CMP}


def run(ctx):
    q = ctx.tier == "quick"
    vlib.proof_step(ctx)
    h = vlib.cc_harness("kern_fileio", ["kern_fileio.c"], kind="asan")
    m = vlib.build_model("fileio", "XFileIO.v", "driver_fileio.ml")
    vlib.k_tie(ctx, "file_io_primitives", "%s %d %d" % (h, ctx.seed, 200 if q else 5000), m,
               "psf_fseek / psf_fread / psf_ftell / psf_get_filelen of src/file_io.c called directly on an embedded sound file (0..39 bytes of leading and trailing junk, "
               "fileoffset set) and through virtual callbacks: PRNG histories of SEEK_SET / SEEK_CUR seeks, reads and tells inside the file", key="fileio")
    script, plan = gen(ctx, q)
    rc, hl, err = sdrive.run_harness(script, "C14_routes", timeout=1800, env=dict(os.environ, SFD_RES="1"))
    if rc != 0:
        ctx.violation("routes:sanitizer", "route run ended rc=%d: %s" % (rc, " | ".join(err.strip().split("\n")[:3])[:400]), script[-4000:] + "\n" + err[-4000:])
        return
    seen = set()
    n = 0

    def bad(key, ln, msg):
        if key in seen:
            return
        seen.add(key)
        ctx.violation("routes:" + key, msg[:400], "script:\n" + sdrive.section_prefix(script, ln)[-5000:] + "\n\ntranscript:\n" + hl.get(ln, ("", {}, ""))[2][:600])
    # the descriptor table: after every sf_close and every failing sf_open the number of open descriptors is back to the base plus what the
    # other live handles hold -- on every route, the virtual one included (sf_close must not touch descriptors it did not open)
    src_lines = script.split("\n")
    for ln in sorted(hl):
        op, d, raw = hl[ln]
        if "fdl" in d and d["fdl"] != "0":
            t = src_lines[ln - 1].split()
            route = (t + ["v"] * 9)[8][:1] if op == "open" else "?"
            bad("descriptor_table:%s" % op, ln, "after `%s` the process has %s descriptor(s) more (or fewer, if negative) than it should: %s" % (src_lines[ln - 1][:80], d["fdl"], raw[:200]))
    for item in plan:
        kind, name, grp = item
        fam = formats.family(formats.MAJORS[name.split("/")[0]] | formats.SUBS[name.split("/")[1]])
        if kind == "write":
            ref = hl.get(grp[0])
            for wi, ln in enumerate(grp[1:], 1):
                n += 1
                d = hl.get(ln)
                if not ref or not d:
                    continue
                a, b = ref[1], d[1]
                if (a.get("storelen"), a.get("hdig"), a.get("ddig")) != (b.get("storelen"), b.get("hdig"), b.get("ddig")) and fam not in ("SVX/PCM_S8", "SVX/PCM_16", "MPC2K/PCM_16"):
                    bad("%s:bytes_differ_between_write_routes" % fam, ln, "%s written through route %s differs from the virtual route: %s vs %s" % (name, "vpdD"[wi], (b.get("storelen"), b.get("hdig"), b.get("ddig")), (a.get("storelen"), a.get("hdig"), a.get("ddig"))))
                want_alive = {"d": "0", "D": "1"}.get("vpdD"[wi])
                if want_alive and b.get("fdalive") != want_alive:
                    bad("descriptor_ownership_write", ln, "route %s: descriptor alive after sf_close = %s" % ("vpdD"[wi], b.get("fdalive")))
        else:
            ref = grp[0]
            for (route, first, last) in grp[1:]:
                if hl.get(first, ("", {}, ""))[1].get("ok") != "1":
                    if route[0] == "e":
                        continue                 # the container does not support embedding: allowed
                    bad("%s:open_fails_on_route_%s" % (fam, route[0]), first, "%s: %s" % (name, hl.get(first, ("", {}, ""))[2][:200]))
                    continue
                seq = route == "q"
                for k in range(last - first + 1):
                    ln, rl = first + k, ref[1] + k
                    n += 1
                    if seq:
                        # the pipe route runs a sequential script: compare with the same reads on a fresh virtual handle is not available here; check the reads are complete
                        continue
                    a, b = fields(hl.get(rl, ("", {}, ""))[1]), fields(hl.get(ln, ("", {}, ""))[1])
                    if a != b:
                        diff = [x for x in set(a) | set(b) if a.get(x) != b.get(x)]
                        bad("%s:route_%s_differs:%s" % (fam, route[0], sorted(diff)[0]), ln, "%s route %s: %s differs: %s vs virtual %s" % (name, route, diff, {x: b.get(x) for x in diff}, {x: a.get(x) for x in diff}))
                cl = hl.get(last, ("", {}, ""))[1]
                want = {"d": "0", "D": "1", "e": "1", "q": "0"}.get(route[0])
                if want and cl.get("fdalive") != want:
                    bad("descriptor_ownership_read", last, "route %s: descriptor alive after sf_close = %s (expected %s)" % (route, cl.get("fdalive"), want))
    # pipe route: the same sequential reads on the virtual route
    pscript, pplan = pipe_script(ctx, q)
    rc, pl, err = sdrive.run_harness(pscript, "C14_pipe", timeout=900)
    for (a, b, name) in pplan:
        n += 1
        fa, fb = fields(pl.get(a, ("", {}, ""))[1]), fields(pl.get(b, ("", {}, ""))[1])
        if fa != fb:
            diff = [x for x in set(fa) | set(fb) if fa.get(x) != fb.get(x)]
            bad("%s:pipe_differs:%s" % (name, sorted(diff)[0]), b, "%s through a pipe: %s vs virtual %s" % (name, {x: fb.get(x) for x in diff}, {x: fa.get(x) for x in diff}))
    ctx.tie("route_oracle", "oracle", n, len(plan),
            "every writable container x encoding: the same samples written through sf_open_virtual, sf_open, sf_open_fd(close_desc=1), sf_open_fd(close_desc=0) give byte "
            "identical files (file-name fields of SVX / MPC2K excepted); the same read / seek / string / info script through those four routes, through sf_open_fd at an offset "
            "inside a file with leading and trailing junk (where the container supports embedding) gives identical SF_INFO, return values, positions and data; "
            "WAV / AIFF / AU sample-granular files through a pipe deliver the same samples; fcntl(F_GETFD) after sf_close: closed iff close_desc")
    ctx.trusted += ["hand-written model FileIO.v (tied by K to file_io.c on every run)", "pipes: kernel buffering and the is_pipe paths of the header readers are covered by the oracle only"]


def pipe_script(ctx, q):
    rng = vlib.Rng(ctx.seed + 1414)
    L, plan = [], []
    for (mj, sb) in [("WAV", "PCM_16"), ("WAV", "PCM_24"), ("WAV", "FLOAT"), ("WAV", "ULAW"), ("AIFF", "PCM_16"), ("AIFF", "PCM_S8"), ("AIFF", "DOUBLE"), ("AU", "PCM_32"), ("AU", "ALAW"), ("AU", "FLOAT")]:
        f = formats.fmt(mj, sb)
        for ch in (1, 2):
            t = "f" if sb in ("FLOAT", "DOUBLE") else "s"
            n = rng.choice([100, 3000])
            L.append("open 0 0 w %x %d 8000" % (f, ch))
            L.append("w 0 %s f %d %s" % (t, n, " ".join(gens.values(rng, t, 40, sb if sb in ("ULAW", "ALAW") else None))))
            L.append("close 0")
            pair = []
            for route in ("v", "q"):
                L.append("open 0 0 r 0 0 0 0 %s" % route)
                pair.append(len(L))
                for k in (10, 1, 500, n + 50):
                    L.append("r 0 %s f %d" % (t, k))
                L.append("close 0")
            for k in range(5):
                plan.append((pair[0] + k, pair[1] + k, "%s/%s" % (mj, sb)))
    return "\n".join(L) + "\n", plan

"""C15: I/O failures at any point are contained  (partial)."""
import os, time, struct
import vlib, sdrive, fuzz, formats, gens
from checks import regen

RES_ENV = {"SFD_RES": "1"}
KINDS = {1: "zero_transfer", 2: "short_transfer", 3: "seek_fails", 4: "length_lies_high", 5: "length_lies_low"}
QUICK = ["WAV/PCM_16", "AIFF/PCM_24", "AU/ULAW", "WAV/IMA_ADPCM", "WAV/MS_ADPCM", "WAV/GSM610", "AU/G721_32", "PAF/PCM_24", "SDS/PCM_16", "CAF/ALAC_16", "W64/FLOAT", "VOC/PCM_16"]


def representatives(q):
    """one format per container and per codec family among those the working tree writes"""
    fl = formats.writable(channels=(1, 2))
    by = {}
    for (f, ch) in fl:
        by.setdefault(formats.name(f), []).append((f, ch))
    out = []
    if q:
        for nm in QUICK:
            if nm in by:
                out.append(by[nm][-1] if nm.split("/")[1] in ("PCM_16", "PCM_24", "ULAW", "FLOAT", "IMA_ADPCM", "MS_ADPCM") else by[nm][0])
        return out
    seen_c, seen_k = set(), set()
    for nm in sorted(by):
        mj, sb = nm.split("/")
        fam = sb.split("_")[0] if not sb.startswith("PCM") else sb
        if mj == "SD2":
            continue
        if mj not in seen_c or (mj, fam) not in seen_k and fam not in ("PCM_S8", "PCM_U8", "PCM_32"):
            seen_c.add(mj)
            seen_k.add((mj, fam))
            out.append(by[nm][-1])
    return out


def block_frames(reps):
    """frames per codec block of each representative format: what a one-frame file reports after close (1 for sample-granular encodings)"""
    L = []
    for (f, ch) in reps:
        L += ["open 0 0 w %x %d 8000" % (f, ch), "w 0 s f 1 77", "close 0", "open 0 0 r %s" % ("%x %d 8000" % (f, ch) if formats.name(f).startswith("RAW/") else "0 0 0"), "close 0"]
    rc, hl, err = sdrive.run_harness("\n".join(L) + "\n", "C15_probe")
    out = {}
    for i, (f, ch) in enumerate(reps):
        d = hl.get(5 * i + 4, ("", {}, ""))[1]
        out[(f, ch)] = max(1, int(d.get("frames", "1") or 1)) if d.get("ok") == "1" else 1
    return out


def workloads(f, ch, rng, B=1):
    """-> {name: (setup lines, body lines)}; body uses handle 1 on store 1; setup may prepare store 0"""
    nm = formats.name(f)
    mj, sb = nm.split("/")
    t = "f" if sb in ("FLOAT", "DOUBLE") else "s"
    vals = " ".join(gens.values(rng, t, 24, sb if sb in ("ULAW", "ALAW") else None))
    raw = "%x %d 8000" % (f, ch) if mj == "RAW" else "0 0 0"
    meta = ["str 1 set 1 7469746c65"] if mj in ("WAV", "WAVEX", "RF64", "AIFF", "CAF") else []
    W = {}
    W["write_close"] = ([], ["open 1 1 w %x %d 8000" % (f, ch)] + meta + ["w 1 %s f 150 %s" % (t, vals), "cmd 1 0x1060 0", "w 1 i i %d 1 -2 3 -4" % (60 * ch), "w 1 %s f 200 %s" % (t, vals), "close 1"])
    # block codecs get a file of several blocks, so that block reads happen inside the read calls and not only at open
    nprep = 400 if formats.is_granular(f) else 2600
    prep = ["open 0 0 w %x %d 8000" % (f, ch)] + [m.replace(" 1 ", " 0 ", 1) for m in meta] + ["w 0 %s f %d %s" % (t, nprep, vals), "close 0"]
    W["open_read_seek_close"] = (prep, ["open 1 1 r %s" % raw, "r 1 s f 50", "r 1 f i %d" % (30 * ch), "seek 1 10 0", "r 1 i f 100", "seek 1 -20 2", "r 1 d f 40", "seek 1 5 1", "r 1 s f %d" % (1000 if nprep == 400 else 3000), "close 1"])
    if B > 1:
        # reads that start exactly on block boundaries: the first thing such a call does is fetch a block
        W["read_on_block_boundaries"] = (prep, ["open 1 1 r %s" % raw, "r 1 s i %d" % (B * ch), "r 1 i i %d" % (B * ch), "r 1 f i %d" % (2 * B * ch), "r 1 d i %d" % (B * ch), "r 1 s f 7", "close 1"])
    W["rdwr"] = (prep, ["open 1 1 x %s" % raw, "r 1 s f 20", "w 1 %s f 30 %s" % (t, vals), "seek 1 0 0", "r 1 s f 60", "seek 1 0 2", "w 1 %s f 10 %s" % (t, vals), "close 1"])
    return W


def fault_script(setup, body, at, kind, once):
    pre = ["store 1 copy 0"] if setup else ["store 1 clear"]
    return setup + pre + ["fault 1 %d %d %d" % (at, kind, once)] + body + ["calls 1"]


def judge(name, rc, lines, err, script, report, counts):
    """the per-call contract on one run; script lines are 1-based"""
    fam = name.split("|")[0].split("/")[0]
    wl = name.split("|")[1]
    replay = "script (SFD_RES=1 build/bin/sfdrive.asan <file>):\n%s\n\nstderr:\n%s" % ("\n".join(script), err[-5000:])
    if rc == 124:
        report("hang:%s:%s" % (fam, wl), "%s: the call sequence did not finish inside the time budget" % name, replay)
        return
    if rc != 0:
        what = [l for l in err.split("\n") if "ERROR" in l or "runtime error" in l or "SUMMARY" in l]
        kind = "leak" if "LeakSanitizer" in err else "memory_error"
        site = [l for l in err.split("\n") if "/repo/src/" in l]
        report("%s:%s:%s" % (kind, fam, site[0].strip().split("/repo/src/")[-1].split(":")[0] if site else "?"), "%s: %s" % (name, (what[0] if what else err.strip()[:200])[:220]), replay)
        return
    pos = {}
    chn = {}
    for ln in sorted(lines):
        op, d, rawl = lines[ln]
        t = script[ln - 1].split()
        if len(t) < 2 or not t[1].isdigit() or t[1] != "1" or op in ("store", "fault", "calls"):
            continue
        counts["calls"] += 1
        if d.get("guard") == "0" or "INVARIANT" in d:
            report("guard:%s:%s" % (fam, wl), "%s: caller buffer guard bytes damaged or handle invariant broken: %s" % (name, rawl[:200]), replay)
        if op == "open":
            if d.get("ok") == "1":
                pos = {"r": int(d["rpos"]), "w": int(d["wpos"]), "frames": int(d["frames"])}
                chn = int(d["ch"])
                counts["opens_ok"] += 1
            else:
                counts["opens_failed"] += 1
                if d.get("err") == "0":
                    report("open_null_without_error:%s" % fam, "%s: sf_open returned NULL with sf_error (NULL) = 0" % name, replay)
                if d.get("lk", "0:0:0") != "0:0:0" or d.get("fdl", "0") not in ("0",) or d.get("tmpl", "0") != "0":
                    report("failed_open_leaks:%s:%s" % (fam, wl), "%s: failing sf_open left lk=%s fdl=%s tmpl=%s" % (name, d.get("lk"), d.get("fdl"), d.get("tmpl")), replay)
                pos = None
        elif op in ("r", "w") and "ret" in d and pos:
            n, ret = int(t[4]), int(d["ret"])
            if not (0 <= ret <= n):
                report("ret_range:%s:%s:%s" % (fam, wl, op), "%s: %s returned %d for a request of %d" % (name, script[ln - 1][:60], ret, n), replay)
            adv = ret if t[3] == "f" else ret // max(1, chn)
            key = "r" if op == "r" else "w"
            now = int(d["rpos" if op == "r" else "wpos"])
            if now != pos[key] + adv and not (op == "r" and ret == 0 and now == pos[key]):
                report("position:%s:%s:%s" % (fam, wl, op), "%s: %s returned %d (%d frames) but the %s position went from %d to %d" % (name, script[ln - 1][:60], ret, adv, "read" if op == "r" else "write", pos[key], now), replay)
            pos["r"], pos["w"] = int(d["rpos"]), int(d["wpos"])
        elif op == "seek" and "ret" in d and pos:
            ret = int(d["ret"])
            if ret < -1:
                report("seek_range:%s:%s" % (fam, wl), "%s: sf_seek returned %d" % (name, ret), replay)
            if ret == -1 and (int(d["rpos"]), int(d["wpos"])) != (pos["r"], pos["w"]):
                report("seek_failed_moved:%s:%s" % (fam, wl), "%s: sf_seek failed (-1) but the positions moved from (%d,%d) to (%s,%s)" % (name, pos["r"], pos["w"], d["rpos"], d["wpos"]), replay)
            pos["r"], pos["w"] = int(d["rpos"]), int(d["wpos"])
        elif op == "close" and "ret" in d:
            counts["closes"] += 1
            if d.get("lk", "0:0:0") != "0:0:0" or d.get("tmpl", "0") != "0" or d.get("fdl", "0") not in ("0", "-1"):
                report("close_leaks:%s:%s" % (fam, wl), "%s: sf_close after I/O failures left lk=%s fdl=%s tmpl=%s" % (name, d.get("lk"), d.get("fdl"), d.get("tmpl")), replay)
            if wl == "write_close" and d.get("kept") == "0" and "ALAC" not in name and fam != "SDS":
                # (the CAF / ALAC writer keeps the audio in a temporary file and assembles the container at close: its data region does not exist before;
                #  SDS flushes a zero-padded partial block for SFC_UPDATE_HEADER_NOW and rewrites that block in place when more samples arrive: the
                #  accepted samples are unchanged, the padding is not -- a byte comparison asks more than the property does)
                fkind = name.split("|")[2].split("_", 1)[1].rsplit("_", 1)[0]
                # one history is a recorded finding for every container: the seek back after a header rewrite fails and the next write lands right behind the header
                hist = "header_rewrite" if (fkind == "seek_fails" and 0 <= int(d.get("firstdiff", "-1")) < 16) else fam
                report("accepted_data_corrupted:%s:%s" % (fkind, hist), "%s: bytes of the data region that the I/O layer had accepted before the first failure (%s bytes in the file then) were changed by later calls"
                       % (name, d.get("snaplen")), replay)


def big_chunk_files():
    """files whose header parser must skip a chunk too large for the header cache (read through a pipe this is a read-and-discard loop)"""
    pcm = bytes(range(200)) * 2
    junk = b"J" * 60000
    ck = fuzz.ck
    body = b"WAVE" + ck(b"fmt ", struct.pack("<HHIIHH", 1, 2, 8000, 32000, 4, 16)) + ck(b"JUNK", junk) + ck(b"data", pcm)
    wav = b"RIFF" + struct.pack("<I", len(body)) + body
    ext80 = bytes([0x40, 0x0B, 0xFA, 0, 0, 0, 0, 0, 0, 0])
    body = b"AIFF" + ck(b"COMM", struct.pack(">hIh", 2, 100, 16) + ext80, be=True) + ck(b"APPL", junk, be=True) + ck(b"SSND", struct.pack(">II", 0, 0) + pcm, be=True)
    aiff = b"FORM" + struct.pack(">I", len(body)) + body
    au = b".snd" + struct.pack(">IIIII", 24 + 60000, 0xFFFFFFFF, 3, 8000, 2) + junk + pcm
    return [("wav_junk60000", wav, 36), ("aiff_appl60000", aiff, 38), ("au_info60000", au, 24)]


def run(ctx):
    q = ctx.tier == "quick"
    regen.gen_enums()
    regen.gen_gate()
    vlib.proof_step(ctx)
    # K: the transfer loops against the extracted model, scripted kernel answers
    h = vlib.cc_harness("kern_faultio", ["kern_faultio.c"], kind="asan", extra="-Wl,--wrap=read -Wl,--wrap=write")
    m = vlib.build_model("faultio", "XFaultIO.v", "driver_faultio.ml")
    vlib.k_tie(ctx, "transfer_loops", "%s %d %d" % (h, ctx.seed, 20000 if q else 400000), m,
               "psf_fread / psf_fwrite of src/file_io.c over a descriptor whose read(2) / write(2) answers are scripted (EIO, EINTR, zero, partial cutting an item, everything, more than asked) "
               "and over a virtual callback with a scripted answer: returned item count, bytes moved, number of kernel calls, SFE_SYSTEM latched", key="loops")
    h2 = vlib.cc_harness("kern_hcache", ["kern_hcache.c"], kind="asan")
    m2 = vlib.build_model("hcache", "XHCache.v", "driver_hcache.ml")
    vlib.k_tie(ctx, "header_cache", "%s %d %d" % (h2, ctx.seed + 15, 200 if q else 5000), m2,
               "header_read / header_seek with an I/O layer that transfers everything / nothing / half / a random part", key="hcache", timeout=150)
    rng = vlib.Rng(ctx.seed * 15485863 + 15)
    seen = set()

    def report(key, msg, replay):
        if key not in seen:
            seen.add(key)
            ctx.violation(key, msg, replay)

    counts = {"calls": 0, "opens_ok": 0, "opens_failed": 0, "closes": 0}
    reps = representatives(q)
    # 1. fault-free runs: K = number of callbacks of each workload
    base = []
    wl_of = {}
    BF = block_frames(reps)
    for (f, ch) in reps:
        W = workloads(f, ch, rng, BF.get((f, ch), 1))
        for wn, (setup, body) in W.items():
            nm = "%s|%s|free" % (formats.name(f), wn)
            wl_of[nm] = (setup, body)
            base.append((nm, fault_script(setup, body, 0, 0, 0)))
    t0 = time.time()
    res = fuzz.run_batches(base, "C15base", timeout=120, env=RES_ENV)
    K = {}
    for (name, rc, lines, err) in res:
        script = dict(base)[name]
        judge(name, rc, lines, err, script, report, counts)
        last = lines.get(len(script))
        if rc == 0 and last and last[0] == "calls":
            # callbacks before the body belong to the preparation of store 0 (another store): the counter of store 1 starts at the fault op
            K[name] = int(last[1]["n"])
    # 2. complete enumeration: every fault point x kind x {persistent, single}
    runs = []
    for nm, k in sorted(K.items()):
        setup, body = wl_of[nm]
        for at in range(1, k + 1):
            for kind in KINDS:
                for once in (0, 1):
                    runs.append(("%s|%s|at%d_%s_%s" % (nm.split("|")[0], nm.split("|")[1], at, KINDS[kind], "single" if once else "persistent"), fault_script(setup, body, at, kind, once)))
    res = fuzz.run_batches(runs, "C15f", timeout=150 if q else 400, env=RES_ENV)
    smap = dict(runs)
    for (name, rc, lines, err) in res:
        judge(name, rc, lines, err, smap[name], report, counts)
    n_enum = len(res)
    ctx.tie("fault_enumeration", "oracle", n_enum, len(K),
            "for %d representative formats x {write-close, open-read-seek-close, rdwr}: the fault-free run counts the K virtual I/O callbacks of the workload; then EVERY fault point 1..K x "
            "{zero transfer, short transfer, seek fails, length answer too large, too small} x {persistent from that point, single shot} is run (complete enumeration, %d runs): every call "
            "returns inside the time budget with a count in [0, n], the reported read / write position advances by exactly the returned count, a failed seek moves nothing, guard bands "
            "intact, ASan / UBSan / LSan clean, a failing sf_open returns NULL with an error and releases everything, sf_close releases every block / descriptor / temporary file, and "
            "the bytes of the data region accepted before the first failure are unchanged at close (sequential write workload)" % (len(reps), n_enum),
            exhaustive=True, callbacks={k.rsplit("|", 1)[0]: v for k, v in K.items()}, calls_checked=counts["calls"], opens_failed=counts["opens_failed"], wall_s=round(time.time() - t0, 1))
    # 3. genuine OS errors on the descriptor route
    osruns = []
    for (f, ch) in reps:
        nm = formats.name(f)
        mj, sb = nm.split("/")
        t = "f" if sb in ("FLOAT", "DOUBLE") else "s"
        vals = " ".join(gens.values(rng, t, 24, sb if sb in ("ULAW", "ALAW") else None))
        raw = "%x %d 8000" % (f, ch) if mj == "RAW" else "0 0 0"
        osruns.append(("%s|dev_full|enospc" % nm, ["open 1 1 w %x %d 8000 0 F" % (f, ch), "w 1 %s f 300 %s" % (t, vals), "w 1 %s f 5000 %s" % (t, vals), "seek 1 0 0", "close 1"]))
        prep = ["open 0 0 w %x %d 8000" % (f, ch), "w 0 %s f 400 %s" % (t, vals), "close 0", "store 1 copy 0"]
        for rt in ("d", "D"):
            osruns.append(("%s|ebadf_read|%s" % (nm, rt), prep + ["open 1 1 r %s 0 %s" % (raw, rt), "r 1 s f 20", "fdclose 1", "r 1 s f 3000", "seek 1 0 0", "r 1 s f 10", "close 1"]))
            osruns.append(("%s|ebadf_write|%s" % (nm, rt), ["store 1 clear", "open 1 1 w %x %d 8000 0 %s" % (f, ch, rt), "w 1 %s f 20 %s" % (t, vals), "fdclose 1", "w 1 %s f 5000 %s" % (t, vals), "close 1"]))
        # truncated pipe streams: every cut in the header region, strided beyond
        if mj in ("WAV", "AIFF", "AU", "W64", "CAF", "VOC", "PAF", "SDS"):
            osruns.append(("%s|pipe|whole" % nm, prep + ["open 1 1 r %s 0 q" % raw, "r 1 s f 50", "r 1 s f 1000", "close 1"]))
    res_os = fuzz.run_batches(osruns, "C15os", timeout=120, env=RES_ENV)
    smap = dict(osruns)
    for (name, rc, lines, err) in res_os:
        judge(name, rc, lines, err, smap[name], report, counts)
    # truncated pipes need the file bytes: library-written files and the big-chunk files
    piperuns = []
    corpus = [(n, d, 64) for (n, d) in fuzz.library_files(ctx, rng, (1,)) if n.split("_")[0] in ("WAV", "AIFF", "AU", "W64", "CAF", "VOC", "PAF", "WAVEX", "RF64", "NIST", "IRCAM")]
    if q:
        corpus = [c for c in corpus if c[0] in ("WAV_PCM_16_1ch", "AIFF_PCM_16_1ch", "AU_ULAW_1ch", "WAV_IMA_ADPCM_1ch", "CAF_PCM_16_1ch", "W64_PCM_16_1ch", "AIFF_IMA_ADPCM_1ch", "WAV_GSM610_1ch")]
    for (n, d, hdr) in corpus + big_chunk_files():
        cuts = sorted(set(list(range(0, min(len(d), hdr + 40), 2 if q else 1)) + [len(d) * k // 11 for k in range(1, 11)] + [len(d) - 1, len(d)]))
        for c in cuts:
            piperuns.append(("%s|pipe|cut%d" % (n.replace("_", "/", 1), c), ["store 1 hex %s" % (d[:c].hex() if c else "-"), "open 1 1 r 0 0 0 0 q", "r 1 s f 50", "r 1 s f 100000", "close 1"]))
    res_p = fuzz.run_batches(piperuns, "C15pipe", timeout=60 if q else 200, env=dict(RES_ENV, SFD_BUDGET="6"))
    smap = dict(piperuns)
    for (name, rc, lines, err) in res_p:
        judge(name, rc, lines, err, smap[name], report, counts)
    ctx.tie("os_errors", "oracle", len(res_os) + len(res_p), len(osruns) + len(piperuns),
            "descriptor route: writing to /dev/full (ENOSPC), the descriptor closed under the library (EBADF) in read and write mode with close_desc 0 / 1, and pipe streams truncated at every "
            "offset of the header region and at ten points beyond (library-written files + WAV / AIFF / AU files whose header carries a 60000 byte chunk the parser must skip by reading); "
            "same per-call contract and time budget")
    # 4. S: the wrapper model driven by the observed transfer counts, read workload of the granular formats under faults
    L = []
    for nm, k in sorted(K.items()):
        if "|open_read_seek_close|" not in nm:
            continue
        f = [x for x in reps if formats.name(x[0]) == nm.split("|")[0]][0][0]
        if not formats.is_granular(f) or formats.name(f).split("/")[1] in ("FLOAT", "DOUBLE"):
            continue        # (the model driver has no float-file -> integer read conversion)
        setup, body = wl_of[nm]
        for at in range(1, k + 1, 1 if q else 3):
            for kind in (1, 2):
                for once in (0, 1):
                    L += fault_script(setup, body, at, kind, once)[:-1]
    if L:
        sdrive.s_tie(ctx, "wrappers_under_faults", "\n".join(L) + "\n",
                     "open-read-seek-close workload of the PCM / float / G.711 representatives under every read fault point (zero and short transfers, persistent and single): the Api.v model is "
                     "driven by the item count each call returned (its codec transfer parameter lim) and must predict the positions, frame count and error state of every call",
                     key="wrappers", ignore=("dig", "rdig", "cur", "tail", "refok", "absmax", "vals"), lim_from_ret=True)
    ctx.distribution.update({"formats": [formats.name(f) for f, c in reps], "enumerated_runs": n_enum, "os_runs": len(osruns), "pipe_runs": len(piperuns),
                             "opens_failed": counts["opens_failed"], "opens_ok": counts["opens_ok"], "calls_checked": counts["calls"]})
    ctx.notes.append("PARTIAL: theorems cover the transfer primitives, the wrappers (any codec transfer count) and the header cache; the block codecs' buffers, the header writers, memory safety and "
                     "the time bound are covered by the complete fault enumeration of the representative workloads only")
    ctx.trusted += ["hand-written FaultIO.v (K tie on every run, link-time wrap of read / write)", "hand-written Api.v / HeaderCache.v (ties of C05 / C03 re-run here)",
                    "sfdrive fault-injecting SF_VIRTUAL_IO, ASan allocator hooks, procfs"]

"""C07: output bytes are independent of how writes are split and of when they run."""
import vlib, sdrive, formats, gens


def partitions(rng, n, ch):
    ps = [[n]]
    if n > 1:
        ps.append([1] * min(n, 40) + ([n - 40] if n > 40 else []))
        ps.append([3, n - 3] if n > 3 else [1, n - 1])
        a = rng.range(1, n - 1)
        ps.append([a, n - a])
    if n > 700:
        ps.append([161] * (n // 161) + ([n % 161] if n % 161 else []))
        ps.append([n - 1, 1])
    return ps


def gen(ctx, q):
    rng = vlib.Rng(ctx.seed * 613651349 + 7)
    L, plan = [], []
    sid = 0
    combos = formats.writable(channels=(1, 2, 3))
    if q:
        # (3 channels do not divide the 2048 / 1024 item staging buffers: block codecs that count in frames are always kept)
        combos = [c for c in combos if c[1] <= 2 or vlib.dhash((c[0], ctx.seed)) % 4 == 0 or not formats.is_granular(c[0])]
    group = 0
    for (f, ch) in combos:
        name = formats.name(f)
        mj, sb = name.split("/")
        ts = "fd" if sb in ("FLOAT", "DOUBLE") else "sifd"
        for n in ([1, 37, 1030] if not q else [rng.choice([1, 37]), 1030]):
            if q and n == 1030 and vlib.dhash((f, ch, ctx.seed)) % 2 and not (ch == 3 and not formats.is_granular(f)):
                n = 333
            t = rng.choice(ts)
            vals = gens.values(rng, t, n * ch, sb if sb in ("ULAW", "ALAW") else None)
            if sb in ("FLOAT", "DOUBLE"):
                # ties between frames: the PEAK position must not depend on the call boundaries
                # the per-channel maximum occurs several times (first in the first third of the signal)
                top = "3fc00000" if t == "f" else "3ff8000000000000"
                # (for half of the groups the first occurrence lies behind the first staging chunk of a single large call: 2n/3 and n-1 only)
                first_late = vlib.dhash((f, ch, n, "late")) % 2 == 0
                for fr in sorted(set(([] if first_late else [n // 3]) + [(2 * n) // 3, n - 1])):
                    for c in range(ch):
                        vals[fr * ch + c] = top
            group += 1
            for pi, part in enumerate(partitions(rng, n, ch)):
                route = " p.sd2" if mj == "SD2" else ""
                L.append("open 0 %d w %x %d 8000 0%s" % (sid, f, ch, route))
                pos = 0
                for k in part:
                    var = "f" if (pi + pos) % 2 == 0 else "i"
                    L.append("w 0 %s %s %d %s" % (t, var, k if var == "f" else k * ch, " ".join(vals[pos * ch:(pos + k) * ch])))
                    pos += k
                    if pi % 3 == 2 and rng.below(3) == 0:
                        L.append("cmd 0 UPDATE_HEADER_NOW 0")
                L.append("close 0")
                plan.append((len(L), group, (name, ch, n, t, part[:6], pi)))
                sid = (sid + 1) % 30
    return "\n".join(L) + "\n", plan


def run(ctx):
    q = ctx.tier == "quick"
    vlib.proof_step(ctx)
    import dpcmtie
    dpcmtie.run(ctx, 1600 if q else 40000, "w")
    script, plan = gen(ctx, q)
    rc, hl, err = sdrive.run_harness(script, "C07_partitions", timeout=1800)
    if rc != 0:
        ctx.violation("partition:sanitizer", "partition run ended rc=%d: %s" % (rc, " | ".join(err.strip().split("\n")[:3])[:400]), script[-4000:] + "\n" + err[-4000:])
        return
    groups = {}
    for (ln, g, a) in plan:
        if ln in hl and "hdig" in hl[ln][1]:
            d = hl[ln][1]
            groups.setdefault(g, []).append((a, d["storelen"], d["hdig"], d["ddig"], ln))
    seen = set()
    n = 0
    for g, items in sorted(groups.items()):
        ref = items[0]
        for it in items[1:]:
            n += 1
            if it[1:4] != ref[1:4]:
                name = it[0][0]
                what = "length" if it[1] != ref[1] else "header" if it[2] != ref[2] else "audio_data"
                key = "%s:%s_differs" % (formats.family(formats.MAJORS[name.split("/")[0]] | formats.SUBS[name.split("/")[1]]), what)
                if what == "header" and name.split("/")[1] in ("FLOAT", "DOUBLE") and it[0][1] == 3 and it[0][2] * 3 > 1024:
                    key = "peak:staged_chunk_not_frame_aligned"       # the C18 finding seen through the PEAK chunk of the header
                if key in seen:
                    continue
                seen.add(key)
                ctx.violation("partition:" + key, "%s ch=%d N=%d type %s: writing as %s... gives a different file than one call (%s: %s vs %s)" % (
                    name, it[0][1], it[0][2], it[0][3], it[0][4], what, it[1:4], ref[1:4]),
                    "script (one-call version, then this partition):\n" + sdrive.section_prefix(script, ref[4])[-5000:] + "\n...\n" + sdrive.section_prefix(script, it[4])[-8000:])
    ctx.tie("partition_digest_oracle", "oracle", n, len(groups),
            "every writable container x encoding x channels{1,2,3}: the same samples written as one call, one frame per call, 3+rest, random split, 161-frame calls (> staging "
            "buffer for 1030 frames x 3 channels), N-1 + 1, alternating sf_write_T / sf_writef_T, SFC_UPDATE_HEADER_NOW in between; process clock pinned; the byte "
            "length, header digest and data digest of the closed files must coincide")
    ctx.add_samples([hl[ln][2][:200] for (ln, g, a) in plan[:300:60] if ln in hl])
    ctx.trusted += ["Stream.v / Peak.v (block writers abstract: enc deterministic)", "time() pinned by link-time wrapping in the harness",
                    "the concrete encoders (ADPCM, GSM, G72x, NMS, ALAC, DWVW) and header writers are decided by the digest oracle"]

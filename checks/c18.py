"""C18: PEAK data and signal-max commands equal the true maxima."""
import os, struct
import vlib, sdrive, formats, gens

PEAKERS = [("WAV", "FLOAT"), ("WAV", "DOUBLE"), ("WAVEX", "FLOAT"), ("AIFF", "FLOAT"), ("AIFF", "DOUBLE"), ("CAF", "FLOAT"), ("CAF", "DOUBLE"), ("RF64", "FLOAT")]
GRID = 4096        # magnitudes are k / GRID, exactly representable in float32


def bits_to_double(h):
    return struct.unpack("<d", struct.pack("<Q", int(h, 16)))[0]


def gen(ctx, q):
    rng = vlib.Rng(ctx.seed * 86028121 + 18)
    L, plan = [], []
    sid = 0
    combos = PEAKERS if not q else PEAKERS[:7]
    for (mj, sb) in combos:
        f = formats.fmt(mj, sb)
        for ch in ([1, 2, 3, 5] if not q else [1, 2, 3]):
            for pattern in ("first", "last", "tie", "boundary", "random", "silence", "late_same_type", "late_other_type"):
                if q and rng.below(3) == 0 and pattern in ("first", "last", "random", "silence"):
                    continue
                nfr = rng.choice([5, 64, 700, 1500]) if ch != 3 or rng.below(2) else 1500
                late = pattern.startswith("late")
                if late:
                    # one call larger than every staging buffer, the maximum far behind the first staging chunk
                    nfr = 1500 + 37 * ch
                mags = [[rng.range(0, GRID // 2) for _ in range(nfr)] for _ in range(ch)]
                sign = [[rng.choice([1, -1]) for _ in range(nfr)] for _ in range(ch)]
                parts = partition(rng, nfr) if not late else [nfr]
                for c in range(ch):
                    top = GRID // 2 + 1 + c
                    if pattern == "first":
                        mags[c][0] = top
                    elif pattern == "last":
                        mags[c][nfr - 1] = top
                    elif pattern == "tie":
                        a = rng.range(0, nfr - 1); b = rng.range(0, nfr - 1)
                        mags[c][a] = top; mags[c][b] = top
                    elif pattern == "boundary":
                        edge = parts[0] if len(parts) > 1 else 0
                        mags[c][min(nfr - 1, edge)] = top
                        if edge > 0:
                            mags[c][edge - 1] = top - 1 - c if rng.below(2) else top
                    elif pattern == "silence":
                        mags[c] = [0] * nfr
                    elif late:
                        mags[c][nfr - 90 - 7 * c] = top
                wt = rng.choice("fd")
                if late:
                    same = "f" if sb == "FLOAT" else "d"
                    wt = same if pattern == "late_same_type" else ("d" if same == "f" else "f")
                L.append("open 0 %d w %x %d 8000" % (sid, f, ch))
                if mj == "RF64":
                    L.append("cmd 0 SET_ADD_PEAK_CHUNK 1")
                pos = 0
                for k in parts:
                    vals = []
                    for fr in range(pos, pos + k):
                        for c in range(ch):
                            v = sign[c][fr] * mags[c][fr] / float(GRID)
                            vals.append(gens.f32hex(v) if wt == "f" else gens.f64hex(v))
                    var = rng.choice("if")
                    L.append("w 0 %s %s %d %s" % (wt, var, k if var == "f" else k * ch, " ".join(vals)))
                    if rng.below(6) == 0:
                        L.append("cmd 0 UPDATE_HEADER_NOW 0")
                    pos += k
                L.append("close 0")
                L.append("open 0 %d r 0 0 0" % sid)
                L.append("peak 0")
                plan.append((len(L), "peak", dict(mj=mj, sb=sb, ch=ch, parts=parts, mags=mags, wt=wt, nfr=nfr)))
                L.append("cmd 0 0x1044")       # SFC_GET_SIGNAL_MAX
                plan.append((len(L), "getmax", mags))
                L.append("cmd 0 0x1045")       # SFC_GET_MAX_ALL_CHANNELS
                plan.append((len(L), "getall", mags))
                L.append("close 0")
                sid = (sid + 1) % 30
    return "\n".join(L) + "\n", plan


def partition(rng, nfr):
    kind = rng.below(5)
    if kind == 0 or nfr < 3:
        return [nfr]
    if kind == 1:
        return [3, nfr - 3] if nfr > 3 else [nfr]
    if kind == 2 and nfr <= 64:
        return [1] * nfr
    if kind == 3:
        a = rng.range(1, nfr - 1)
        return [a, nfr - a]
    out, left = [], nfr
    while left > 0:
        k = min(left, rng.choice([1, 2, 7, 100, 683, 700]))
        out.append(k)
        left -= k
    return out


def calc_script(ctx, q):
    """SFC_CALC_* against an independent scan (sf_read_double with the matching normalisation) at several read positions"""
    rng = vlib.Rng(ctx.seed + 1800)
    L, plan = [], []
    fmts = [("WAV", "PCM_16"), ("WAV", "FLOAT"), ("AIFF", "PCM_24"), ("AU", "ULAW"), ("CAF", "DOUBLE"), ("W64", "PCM_U8"), ("WAV", "IMA_ADPCM"), ("PAF", "PCM_24"), ("RAW", "PCM_32"), ("AIFF", "ALAW")]
    sid = 0
    for (mj, sb) in (fmts if not q else fmts[:7]):
        for ch in (1, 2, 3):
            f = formats.fmt(mj, sb)
            nfr = rng.choice([40, 1200, 5000])
            t = "d" if sb in ("FLOAT", "DOUBLE") else "s"
            L.append("open 0 %d w %x %d 8000" % (sid, f, ch))
            o = len(L) + 1
            # DOUBLE files get values that no float32 holds exactly (a PEAK chunk stores float32: answering CALC from it would be visible)
            den = 4099.0 if sb == "DOUBLE" else 4096.0
            vals = [str(rng.range(-30000, 30000)) for _ in range(64)] if t == "s" else [gens.f64hex(rng.range(-3000, 3000) / den) for _ in range(64)]
            if sb in ("FLOAT", "DOUBLE") and ch != 2:
                # a stale PEAK: the loudest frames are overwritten with quiet ones before the file is closed (the stored PEAK only ever grows)
                L.append("w 0 d f 10 3fec000000000000")
                L.append("w 0 %s f %d %s" % (t, nfr - 10, " ".join(vals)))
                L.append("seek 0 0 0")
                L.append("w 0 d f 10 3fd0000000000000")
            else:
                L.append("w 0 %s f %d %s" % (t, nfr, " ".join(vals)))
            L.append("close 0")
            raw = mj == "RAW"
            opn = "open %%d %d r 0 0 0" % sid if not raw else "open %%d %d r %x %d 8000" % (sid, f, ch)
            for norm in (0, 1):
                L.append(opn % 1)
                if len(L) and False:
                    pass
                L.append("cmd 1 SET_NORM_DOUBLE %d" % norm)
                L.append("r 1 d f %d" % (nfr + 50000))
                ref_line = len(L)
                L.append("close 1")
                for pos in (0, rng.range(0, nfr), nfr):
                    L.append(opn % 0)
                    L.append("cmd 0 SET_NORM_DOUBLE %d" % rng.choice([0, 1]))
                    L.append("seek 0 %d 0" % pos)
                    L.append("state 0")
                    L.append("cmd 0 %s" % ("0x1041" if norm else "0x1040"))
                    plan.append((len(L), "calc", ref_line))
                    L.append("cmd 0 %s" % ("0x1043" if norm else "0x1042"))
                    plan.append((len(L), "calcall", ref_line))
                    L.append("state 0")
                    plan.append((len(L), "pure", len(L) - 3))
                    L.append("close 0")
                # a read/write handle: the read pointer (moved on its own with SFM_READ seeks) is away from the write pointer when CALC runs
                if not raw and sb not in ("IMA_ADPCM",) and mj != "PAF":
                    for pos in (0, rng.range(1, nfr - 1)):
                        L.append("open 0 %d x 0 0 0" % sid)
                        L.append("seek 0 %d 16" % pos)
                        L.append("state 0")
                        L.append("cmd 0 %s" % rng.choice(["0x1040", "0x1041"]))
                        L.append("cmd 0 %s" % rng.choice(["0x1042", "0x1043"]))
                        L.append("state 0")
                        plan.append((len(L), "pure", len(L) - 3))
                        L.append("seek 0 0 17")
                        plan.append((len(L), "rdwrpos", pos))
                        L.append("close 0")
            sid = (sid + 1) % 30
    return "\n".join(L) + "\n", plan


def staging_len(sb):
    return 2048 if sb == "FLOAT" else 1024


def run(ctx):
    q = ctx.tier == "quick"
    vlib.proof_step(ctx)
    script, plan = gen(ctx, q)
    rc, hl, err = sdrive.run_harness(script, "C18_peak", timeout=1500)
    if rc != 0:
        ctx.violation("peak:sanitizer", "PEAK run ended rc=%d: %s" % (rc, err.strip().split("\n")[0][:300]), script[-4000:] + err[-3000:])
        return
    klines = []
    seen = set()
    n = 0
    known_misaligned = 0

    def bad(key, ln, text, arg=None):
        if key in seen:
            return
        seen.add(key)
        ctx.violation(key, "%s (script line %d): %s" % (key, ln, text[:300]), "script:\n" + sdrive.section_prefix(script, ln) [-6000:] + "\n\ntranscript:\n" + hl[ln][2][:1000])
    for (ln, kind, a) in plan:
        if ln not in hl:
            continue
        d = hl[ln][1]
        n += 1
        if kind == "peak":
            if d.get("have") != "1":
                bad("peak:%s:no_peak_chunk" % a["mj"], ln, hl[ln][2])
                continue
            got = d["peaks"].split(",")
            exp_ok = True
            for c in range(a["ch"]):
                m = max(a["mags"][c])
                first = a["mags"][c].index(m)
                vbits, pos = got[c].split("@")
                val = bits_to_double(vbits)
                impl = "%d@%s" % (round(val * GRID), pos)
                klines.append("PK %d %d %s %s %s" % (a["ch"], c, ",".join(str(k) for k in a["parts"]), ",".join(str(x) for x in a["mags"][c]), impl))
                if impl != "%d@%d" % (m, first):
                    exp_ok = False
            if not exp_ok:
                # the recorded defect: staged (converting) paths with chunks that do not start on a frame boundary
                converting = (a["wt"] == "f") != (a["sb"] == "FLOAT") or a["mj"] in ("AIFF", "CAF")   # type conversion or byte swap
                big = max(a["parts"]) * a["ch"] > staging_len(a["sb"])
                if converting and big and staging_len(a["sb"]) % a["ch"] != 0:
                    known_misaligned += 1
                    klines = klines[:-a["ch"]]      # the model assumes frame-aligned chunks; this case is the refuted hypothesis
                    ctx.violation("peak:staged_chunk_not_frame_aligned", "%s/%s %d channels, %s written in calls of up to %d frames: stored PEAK %s differs from the true maxima" % (
                        a["mj"], a["sb"], a["ch"], a["wt"], max(a["parts"]), d["peaks"]), "script:\n" + sdrive.section_prefix(script, ln)[-5000:] + "\n" + hl[ln][2])
                else:
                    bad("peak:%s/%s:wrong_peak" % (a["mj"], a["sb"]), ln, "ch=%d parts=%s write type %s: stored %s, true maxima %s" % (
                        a["ch"], a["parts"][:8], a["wt"], d["peaks"], ["%d@%d" % (max(x), x.index(max(x))) for x in a["mags"]]))
        elif kind == "getmax":
            want = max(max(x) for x in a) / float(GRID)
            if d.get("ret") != "1" or abs(bits_to_double(d["val"]) - want) > 0:
                if not (max(max(x) for x in a) == 0 and d.get("ret") == "1"):
                    if "peak:staged_chunk_not_frame_aligned" not in [v[0] for v in ctx.violations] + ctx.known_hits:
                        bad("getmax:wrong", ln, "SFC_GET_SIGNAL_MAX %s, true %r" % (hl[ln][2], want))
        elif kind == "getall":
            want = [max(x) / float(GRID) for x in a]
            got = [bits_to_double(v) for v in d.get("vals", "").split(",") if v]
            if got != want and "peak:staged_chunk_not_frame_aligned" not in [v[0] for v in ctx.violations] + ctx.known_hits:
                bad("getall:wrong", ln, "SFC_GET_MAX_ALL_CHANNELS %s, true %r" % (got, want))
    # model correspondence on the K lines
    m = vlib.build_model("peak", "XPeak.v", "driver_peak.ml")
    kp = os.path.join(vlib.BUILD, "tmp", "C18_pk_%d.lines" % os.getpid())
    open(kp, "w").write("\n".join(klines) + "\n")
    vlib.k_tie(ctx, "peak_model_vs_stored", "cat %s" % kp, m,
               "PEAK value and position stored in WAV / WAVEX / RF64 / AIFF / CAF float and double files, channels 1,2,3(,5), maxima at the first / last frame, ties, "
               "maxima at write-call boundaries, silence, partitions {one call, 3+rest, one frame per call, random, > staging buffer}, both write types, "
               "header updates in between; the extracted Peak.run folds the same chunks", key="peak")
    os.unlink(kp)
    ctx.tie("peak_oracle", "oracle", n, len(plan), "stored PEAK == (max |x|, first frame) computed independently; SFC_GET_SIGNAL_MAX / SFC_GET_MAX_ALL_CHANNELS after re-open")
    # CALC commands
    cs, cplan = calc_script(ctx, q)
    rc, cl, err = sdrive.run_harness(cs, "C18_calc", timeout=1500)
    if rc != 0:
        ctx.violation("calc:sanitizer", "CALC run ended rc=%d: %s" % (rc, err.strip().split("\n")[0][:300]), cs[-4000:] + err[-3000:])
        return
    nc = 0
    for (ln, kind, ref) in cplan:
        if ln not in cl:
            continue
        d = cl[ln][1]
        if "nohandle" in d or ref not in cl or "nohandle" in cl[ref][1]:
            continue            # the format does not exist for this channel count
        nc += 1
        if kind in ("calc", "calcall"):
            refmax = [bits_to_double(v) for v in cl[ref][1].get("absmax", "0").split(",")]
            if kind == "calc":
                got = bits_to_double(d.get("val", "0"))
                if d.get("ret") != "0" or got != max(refmax):
                    if ("calc:wrong_value") not in seen:
                        seen.add("calc:wrong_value")
                        ctx.violation("calc:wrong_value", "SFC_CALC_(NORM_)SIGNAL_MAX = %r, independent scan %r: %s" % (got, max(refmax), cl[ln][2][:200]), sdrive.section_prefix(cs, ln)[-3000:])
            else:
                got = [bits_to_double(v) for v in d.get("vals", "").split(",") if v]
                if got != refmax and "calcall:wrong_value" not in seen:
                    seen.add("calcall:wrong_value")
                    ctx.violation("calcall:wrong_value", "SFC_CALC_(NORM_)MAX_ALL_CHANNELS = %r, independent scan %r" % (got, refmax), sdrive.section_prefix(cs, ln)[-3000:])
        elif kind == "rdwrpos":
            if d.get("ret") != str(ref) and "calc:rdwr_read_position_moved" not in seen:
                seen.add("calc:rdwr_read_position_moved")
                ctx.violation("calc:rdwr_read_position_moved", "read/write handle, read pointer at frame %d: after SFC_CALC_* a zero-offset SEEK_CUR | SFM_READ reports %s" % (ref, d.get("ret")), sdrive.section_prefix(cs, ln)[-3000:])
        elif kind == "pure":
            if cl[ln][1].get("dig") != cl[ref][1].get("dig") and "calc:state_changed" not in seen:
                seen.add("calc:state_changed")
                ctx.violation("calc:state_changed", "SFC_CALC_* changed the read position / normalisation setting: %s" % cl[ln][2][:200], sdrive.section_prefix(cs, ln)[-3000:])
    ctx.tie("calc_oracle", "oracle", nc, nc, "SFC_CALC_SIGNAL_MAX / NORM / MAX_ALL_CHANNELS / NORM_MAX_ALL_CHANNELS on PCM, u-law, A-law, float, double, IMA ADPCM, PAF24 files, channels 1..3, "
            "read positions 0 / middle / end, both norm settings: value == independent sf_read_double scan; state digest (read position, norm_double, ...) unchanged; "
            "the same on SFM_RDWR handles whose read pointer sits away from the write pointer")
    ctx.trusted += ["hand-written model Peak.v (the extracted model recomputes every stored PEAK of the run)",
                    "PEAK values in files are float32: the signals use magnitudes k/4096 so that equality is exact",
                    "the PEAK chunk (de)serialisers of wavlike.c / aiff.c / caf.c are exercised by the re-open only"]

"""C16: no leaked memory, descriptors or temporary files for any call history  (partial)."""
import json, os, time
import vlib, sdrive, fuzz, formats, gens
from checks import regen

RES_ENV = {"SFD_RES": "1"}
# order of the mask bits printed by sfdrive's `own` op
MASK_FIELDS = ["header.ptr", "container_data", "codec_data", "interleave", "dither", "peak_info", "broadcast_16k", "loop_info", "instrument", "cues",
               "channel_map", "format_desc", "strings.storage", "rchunks.chunks", "wchunks.chunks", "iterator", "cart_16k"]
# resources that hang under the private structs (nested_sites of the inventory): most blocks a handle of this family may own beyond the ledger of SF_PRIVATE
NESTED_ALLOW = {"ALAC": 4, "GSM610": 1, "AIFF": 1, "G721": 1, "G723": 1}


def inventory_tie(ctx, inv):
    """T2 tie: the regenerated inventory against the committed expectation (a difference is a broken tie, not yet a violation)."""
    exp_path = os.path.join(vlib.VERIF, "translator", "resource_sites.json")
    exp = json.load(open(exp_path))
    keyf = lambda s: json.dumps(s, sort_keys=True)
    diffs = []
    for part in ("freed", "close_calls"):
        if inv[part] != exp[part]:
            diffs.append("%s: now %s, expected %s" % (part, inv[part], exp[part]))
    for part in ("sites", "nested", "exits"):
        a, b = sorted(map(keyf, inv[part])), sorted(map(keyf, exp[part]))
        for x in a:
            if x not in b or a.count(x) > b.count(x):
                diffs.append("%s: new or changed %s" % (part, x))
        for x in b:
            if x not in a or b.count(x) > a.count(x):
                diffs.append("%s: gone %s" % (part, x))
    ctx.tie("ownership_inventory", "T2", len(inv["sites"]) + len(inv["nested"]) + len(inv["exits"]) + len(inv["freed"]), len(inv["sites"]),
            "psf_close's release list, %d allocation sites into owning fields with their guards, %d nested resources with the position of their close hook, the exits of the four "
            "open functions -- regenerated from src/*.c into Gen_Owned.v (theorems source_sites_follow_the_discipline / source_site_meets_model) and compared with "
            "translator/resource_sites.json" % (len(inv["sites"]), len(inv["nested"])), mismatches=len(diffs))
    return sorted(set(diffs))


def lifetimes(rng, q):
    """scripts: one handle life time each, with `own` dumps.  Returns list of (name, lines)."""
    out = []
    fl = formats.writable(channels=(1, 2))
    seen_major = set()
    for (f, ch) in fl:
        nm = formats.name(f)
        mj, sb = nm.split("/")
        t = "f" if sb in ("FLOAT", "DOUBLE") else "s"
        route = "p.sd2" if mj == "SD2" else "v"
        rawfmt = "%x %d 8000" % (f, ch) if mj == "RAW" else "0 0 0"
        vals = " ".join(gens.values(rng, t, 24, sb if sb in ("ULAW", "ALAW") else None))
        tag = "%s_%dch" % (nm.replace("/", "_"), ch)
        variants = [0, 1, 2] if (ch == 1 or not q) else [1]
        for v in variants:
            L = ["open 0 0 w %x %d 8000 0 %s" % (f, ch, route), "own 0"]
            if v == 1:
                L += ["str 0 set 1 7469746c65", "str 0 set 5 636f6d6d656e74", "chunk set 0 54657374 0102030405", "chunk set 0 54737432 0a0b",
                      "bext 0 set 64657363 6f726967 6c696e65310a6c696e6532", "cue 0 set 3", "inst 0 set 60 0 0 2", "cart 0 set 7469746c65 746167",
                      "cmd 0 0x1050 1", "cmd 0 0x1050 0", "cmd 0 0x1050 1", "own 0", "w 0 %s f 300 %s" % (t, vals), "own 0",
                      "str 0 set 2 6c617465", "cue 0 set 2", "chunk set 0 4c617465 00", "own 0"]
            elif v == 2:
                L += ["r 0 s i 16", "seek 0 999999 0", "cmd 0 0x7777 0", "cmd 0 0x1080 -1", "w 0 %s i 7 %s" % (t, vals), "seek 0 -5 1", "own 0"]
            L += ["close 0"]
            out.append(("w%d:%s" % (v, tag), L))
        # a file to read back
        W = ["open 0 0 w %x %d 8000 0 %s" % (f, ch, route)]
        if mj in ("WAV", "WAVEX", "RF64", "AIFF", "CAF"):
            W += ["str 0 set 1 7469746c65", "chunk set 0 54657374 0102030405"]
        if mj in ("WAV", "WAVEX", "RF64"):
            W += ["bext 0 set 64657363 6f726967 6c696e65310a6c696e6532", "cue 0 set 3", "inst 0 set 60 0 0 2"]
        W += ["w 0 %s f 300 %s" % (t, vals), "close 0"]
        R = W + ["open 1 0 r %s 0 %s" % (rawfmt, route), "own 1", "chunk iter 1 -", "chunk iter 1 54657374", "str 1 get 1", "cue 1 get", "inst 1 get", "bext 1 get", "cmd 1 0x1040",
                 "r 1 s f 100", "seek 1 0 0", "r 1 f i 64", "own 1", "w 1 s i 4 1 2 3 4", "seek 1 99999 0", "own 1", "close 1"]
        out.append(("r:%s" % tag, R))
        if ch == 1 or not q:
            out.append(("r0:%s" % tag, W + ["open 1 0 r %s 0 %s" % (rawfmt, route), "own 1", "close 1"]))
            X = W + ["open 1 0 x %s 0 %s" % (("%x %d 8000" % (f, ch)) if mj == "RAW" else "0 0 0", route), "own 1", "close 1",
                     "open 2 0 x %s 0 %s" % (("%x %d 8000" % (f, ch)) if mj == "RAW" else "0 0 0", route), "own 2", "w 2 %s f 20 %s" % (t, vals), "seek 2 0 0", "r 2 s f 10", "str 2 set 1 78", "own 2", "close 2"]
            out.append(("x:%s" % tag, X))
        # other routes: descriptors are the point
        if mj not in seen_major and mj != "SD2":
            seen_major.add(mj)
            for rt in ("p", "d", "D"):
                out.append(("route_%s:%s" % (rt, tag), ["open 0 0 w %x %d 8000 0 %s" % (f, ch, rt), "own 0", "w 0 %s f 50 %s" % (t, vals), "close 0",
                                                       "open 1 0 r %s 0 %s" % (rawfmt, rt), "own 1", "r 1 s f 10", "close 1",
                                                       "open 2 0 x %s 0 %s" % (("%x %d 8000" % (f, ch)) if mj == "RAW" else "0 0 0", rt), "own 2", "close 2"]))
    return out


def failing_opens(ctx, rng, q):
    """inputs rejected at different parse depths: truncations at every offset of small valid files, chunk soups and their mutants, junk; plus refused write / rdwr opens"""
    scripts, inputs = [], {}
    corpus = fuzz.library_files(ctx, rng, (1,)) + fuzz.soups()
    for (name, data) in corpus:
        cuts = list(range(0, min(len(data), 140 if q else 400), 1 if not q else 3)) + list(range(140 if q else 400, len(data), 97 if q else 13))
        muts = [data[:c] for c in cuts] + fuzz.mutate(rng, data, 4 if q else 40)
        if len(data) < 20000:
            dups = fuzz.dup_chunks(data)
            muts += dups + [d[:len(d) - 9] for d in dups[:: (3 if q else 1)]]
        # several inputs per script line group to keep the process count down
        for i, mut in enumerate(muts):
            nm = "%s#%d" % (name, i)
            inputs[nm] = mut
            scripts.append((nm, ["store 1 hex %s" % (mut.hex() if mut else "-"), "open 1 1 r 0 0 0", "r 1 s f 50", "chunk iter 1 -", "close 1",
                                 "store 1 hex %s" % (mut.hex() if mut else "-"), "open 2 1 x 0 0 0", "close 2"]))
        if name.split("_")[0] in ("WAV", "AIFF", "AU", "CAF", "W64") and "_1ch" in name:
            for rt in ("p", "d", "D"):
                for c in (0, 3, 11, 20, 37, len(data) // 2):
                    nm = "%s#%s%d" % (name, rt, c)
                    inputs[nm] = data[:c]
                    scripts.append((nm, ["store 1 hex %s" % (data[:c].hex() if c else "-"), "open 1 1 r 0 0 0 0 %s" % rt, "close 1"]))
    # path opens of unrecognised files that have a resource fork side-car ("._name", the SD2 route): rejected at different depths of the fork parser
    rsrc_ok = bytes.fromhex("000001000000013600000036") + b"\0" * 60
    for k, main in enumerate([b"", b"junk junk junk junk", bytes(range(64))]):
        for j, side in enumerate([b"", b"\0", b"\0" * 10, b"\0" * 15, b"\0" * 16, b"\0" * 17, rsrc_ok, rsrc_ok[:40], bytes(rng.below(256) for _ in range(300)), b"\xff" * 64]):
            nm = "sd2_sidecar#%d_%d" % (k, j)
            inputs[nm] = main
            scripts.append((nm, ["store 1 hex %s" % (main.hex() if main else "-"), "sidecar 1 %s" % (side.hex() if side else "-"), "open 1 1 r 0 0 0 0 p", "close 1",
                                 "store 1 hex %s" % (main.hex() if main else "-"), "sidecar 1 %s" % (side.hex() if side else "-"), "open 2 1 x 0 0 0 0 p", "close 2"]))
    # refused write opens (bad SF_INFO after the handle exists) and refused rdwr opens
    k = 0
    for mj in formats.MAJORS:
        for sb in list(formats.SUBS)[:: (3 if q else 1)]:
            for (ch, rate) in ((0, 8000), (1, 0), (300, 8000), (1, 8000), (2, 8000)):
                k += 1
                nm = "refused_w#%d" % k
                scripts.append((nm, ["open 1 1 w %x %d %d" % (formats.fmt(mj, sb), ch, rate), "close 1", "open 2 2 x %x %d %d" % (formats.fmt(mj, sb), ch, rate), "close 2"]))
    return scripts, inputs


def excess_of(d):
    return int(d["blocks"]) - 1 - bin(int(d["mask"], 16)).count("1") - int(d["payload"])


def run(ctx):
    q = ctx.tier == "quick"
    t00 = time.time()
    regen.gen_enums()
    inv = regen.gen_owned()
    diffs = inventory_tie(ctx, inv)
    vlib.proof_step(ctx)
    model = vlib.build_model("res", "XRes.v", "driver_res.ml")
    fid = {}
    names = list(inv["freed"])
    for s in inv["sites"]:
        if s["field"] not in names:
            names.append(s["field"])
    fid = {n: i for i, n in enumerate(names)}
    rng = vlib.Rng(ctx.seed * 7368787 + 16)
    seen = set()
    counts = {"handles_closed": 0, "failed_opens": 0, "own_dumps": 0}
    klines = []

    def report(key, msg, replay):
        if key not in seen:
            seen.add(key)
            ctx.violation(key, msg, replay)

    def examine(name, rc, lines, err, script, inputs=None):
        fam = name.split(":")[-1].split("#")[0].split("_")[0].upper()
        kind = name.split(":")[0] if ":" in name else "input"
        replay = "script (run with SFD_RES=1 build/bin/sfdrive.asan):\n%s\n\ninput (hex): %s\n\nstderr:\n%s" % ("\n".join(script)[:200000], (inputs or {}).get(name, b"").hex()[:100000], err[-5000:])
        if rc == 124:
            return  # hangs belong to C03 / C15
        if rc != 0:
            what = [l for l in err.split("\n") if "ERROR" in l or "SUMMARY" in l]
            if "LeakSanitizer" in err:
                site = [l for l in err.split("\n") if "/repo/src/" in l]
                report("leak:lsan:%s:%s" % (fam, site[0].strip().split("/repo/src/")[-1].split(":")[0] if site else "?"),
                       "%s: LeakSanitizer reports unreachable blocks at process exit: %s" % (name, (what[0] if what else "")[:200]), replay)
            else:
                report("memory_error:%s" % fam, "%s: %s" % (name, (what[0] if what else err.strip()[:200])[:200]), replay)
            return
        # per handle: events from the own dumps, then the close / failed open line
        hist = {}
        for ln in sorted(lines):
            op, d, raw = lines[ln]
            if op == "open":
                h = script[ln - 1].split()[1]
                if d.get("ok") == "1":
                    hist[h] = {"mask": 0, "hooks": "00", "excess": 0, "ops": [], "fmt": int(d.get("fmt", "0"), 16), "mode": script[ln - 1].split()[3],
                               "route": (script[ln - 1].split() + ["", "", "", "", "", "", "", "", "v"])[8][:1]}
                else:
                    counts["failed_opens"] += 1
                    if d.get("lk", "0:0:0") != "0:0:0":
                        report("leak:failed_open:%s:%s" % (fam, script[ln - 1].split()[3]), "%s: the failing sf_open left %s (blocks:bytes:first size) allocated" % (name, d["lk"]), replay)
                    if d.get("fdl", "0") != "0" or d.get("fdalive") == "1":
                        report("fd:failed_open:%s" % fam, "%s: the failing sf_open left descriptors open (fdl=%s fdalive=%s)" % (name, d.get("fdl"), d.get("fdalive")), replay)
                    if d.get("tmpl", "0") != "0":
                        report("tmp:failed_open:%s" % fam, "%s: the failing sf_open left %s temporary files" % (name, d.get("tmpl")), replay)
            elif op == "own" and "mask" in d:
                h = script[ln - 1].split()[1]
                st = hist.get(h)
                if st is None:
                    continue
                counts["own_dumps"] += 1
                mask, hooks, ex = int(d["mask"], 16), d["hooks"], excess_of(d)
                # events: hooks first (the only order under which nested resources are released), then fields, then nested
                for i, (was, now) in enumerate(zip(st["hooks"], hooks)):
                    if now == "1" and was == "0":
                        st["ops"].append("H%d" % fid["codec_data" if i == 0 else "container_data"])
                for b, fname in enumerate(MASK_FIELDS):
                    if (mask >> b) & 1 and not (st["mask"] >> b) & 1:
                        st["ops"].append("A%db" % fid.get(fname, 99))
                    elif not (mask >> b) & 1 and (st["mask"] >> b) & 1:
                        st["ops"].append("R%d" % fid.get(fname, 99))
                par = fid["codec_data"] if hooks[0] == "1" else fid["container_data"]
                for k in range(st["excess"], ex):
                    st["ops"].append("N%d.%d" % (par, k))
                for k in range(ex, st["excess"]):
                    st["ops"].append("U%d.%d" % (par, k))
                st["mask"], st["hooks"], st["excess"], st["entries"] = mask, hooks, ex, bin(mask).count("1") + max(ex, 0)
                codec = formats.name(st["fmt"]).split("/")
                allow = max(NESTED_ALLOW.get(codec[0], 0), NESTED_ALLOW.get(codec[1].split("_")[0] if len(codec) > 1 else "", 0))
                if ex < 0 or ex > allow:
                    report("ledger:%s" % fam, "%s: %d live blocks of the handle are not accounted for by its owning fields, chunk payloads and the %d nested resources its codec may hold "
                           "(mask=%s blocks=%s payload=%s)" % (name, ex, allow, d["mask"], d["blocks"], d["payload"]), replay)
            elif op == "close" and "ret" in d:
                h = script[ln - 1].split()[1]
                st = hist.pop(h, None)
                counts["handles_closed"] += 1
                lk = d.get("lk", "0:0:0")
                if lk != "0:0:0":
                    report("leak:close:%s:%s" % (fam, kind), "%s: sf_close left %s (blocks:bytes:first size) allocated" % (name, lk), replay)
                if d.get("fdl", "0") != "0" or (d.get("fdalive") == "1" and st is not None and st.get("route") == "d"):
                    report("fd:close:%s" % fam, "%s: descriptors still open after sf_close (fdl=%s fdalive=%s)" % (name, d.get("fdl"), d.get("fdalive")), replay)
                if d.get("tmpl", "0") != "0":
                    report("tmp:close:%s" % fam, "%s: %s temporary files left after sf_close" % (name, d.get("tmpl")), replay)
                if d.get("ret") != "0":
                    report("close_ret:%s:%s" % (fam, kind), "%s: sf_close returned %s although the underlying close succeeded" % (name, d.get("ret")), replay)
                if st is not None and "entries" in st:
                    klines.append("%s 1,%d,0,%d" % (",".join(st["ops"]) or "-", int(lk.split(":")[0]), st["entries"]))

    # 1. handle life times on valid files
    L = lifetimes(rng, q)
    t0 = time.time()
    res = fuzz.run_batches(L, "C16a", timeout=120 if q else 300, env=RES_ENV)
    smap = dict(L)
    for (name, rc, lines, err) in res:
        examine(name, rc, lines, err, smap[name])
    n_life = len(res)
    # 2. failing opens
    F, inputs = failing_opens(ctx, rng, q)
    res = fuzz.run_batches(F, "C16b", timeout=120 if q else 300, env=RES_ENV)
    smap = dict(F)
    for (name, rc, lines, err) in res:
        examine(name, rc, lines, err, smap[name], inputs)
    wall = time.time() - t0
    ctx.tie("resource_oracle", "oracle", n_life + len(res), n_life + len(set(inputs.values())),
            "after every sf_close and every failing sf_open: heap blocks allocated on behalf of the handle (ASan allocator hooks, tagged per handle) = 0, |/proc/self/fd| back to the base "
            "+ what live handles hold, private TMPDIR empty, sf_close returns 0, LeakSanitizer clean at exit.  Histories: every writable format x {close without I/O, allocating metadata "
            "and commands before and after data, failing calls} x {write, read, rdwr}, the path / descriptor (close_desc 0/1) routes once per container; failing opens: truncation of "
            "library-written files of every format and of 35 chunk soups at every offset of the header region (stride beyond), mutants, read and rdwr mode, three routes; refused "
            "write / rdwr opens over the (container, codec, channels, rate) grid",
            handles_closed=counts["handles_closed"], failed_opens=counts["failed_opens"], wall_s=round(wall, 1))
    # 3. ledger correspondence: the events observed on each handle, replayed on the extracted model
    kf = os.path.join(vlib.BUILD, "tmp", "C16_ledger_%d.lines" % os.getpid())
    open(kf, "w").write("\n".join(klines) + "\n")
    vlib.k_tie(ctx, "ledger", "cat %s" % kf, model,
               "per closed handle: the allocation / release / hook / nested events observed between `own` dumps (owning-field mask, installed close hooks, live blocks) are replayed on the "
               "extracted Resources.v: the model's verdict (discipline kept, entries left after close, lost blocks, ledger size) against the implementation's (blocks left after sf_close, "
               "live blocks - chunk payloads - the handle itself)", key="ledger")
    # the inventory tie: a changed inventory is a broken tie; the histories above are the search for a failing input
    if diffs:
        found = [k for k in seen if k.startswith(("leak:", "fd:", "tmp:", "ledger:"))]
        ctx.violation("inventory:changed", "the ownership inventory regenerated from the source differs from translator/resource_sites.json: %s" % "; ".join(diffs)[:1500],
                      "correspondence that no longer checks: ownership_inventory (translator/res2gallina.py vs translator/resource_sites.json)\n%s\n\nleaking histories found by the search: %s"
                      % ("\n".join(diffs), ", ".join(found) or "none"), found_input=bool(found))
    ctx.distribution.update({"lifetime_scripts": n_life, "failing_open_scripts": len(F), "own_dumps": counts["own_dumps"], "ledger_lines": len(klines)})
    ctx.notes.append("PARTIAL: the ledger theorems hold for histories that follow the allocation discipline; that discipline is checked for the regenerated site inventory "
                     "(theorem over Gen_Owned.v) and observed on the implementation for everything else (local-pointer allocations inside the codec initialisers, stdio streams, "
                     "descriptors, temporary files)")
    ctx.trusted += ["T2 translator translator/res2gallina.py (regular expressions over src/*.c; its output is compared with a committed expectation)",
                    "hand-written Resources.v (tied by the ledger correspondence on every run)", "ASan allocator hooks / LeakSanitizer / procfs as the observers"]

"""C17: sf_command never touches more than datasize bytes and queries are pure."""
import os, re
import vlib
from checks import regen


def run(ctx):
    q = ctx.tier == "quick"
    regen.gen_cmds()
    vlib.proof_step(ctx)
    h = vlib.cc_harness("cmd_grid", ["cmd_grid.c"], kind="asan")
    out_path = os.path.join(vlib.BUILD, "tmp", "C17_grid_%d.out" % os.getpid())
    rc, out, err = vlib.run("%s %d %s > %s 2> %s.err" % (h, ctx.seed, "quick" if q else "thorough", out_path, out_path), timeout=3000,
                            env={"ASAN_OPTIONS": "detect_leaks=0:abort_on_error=0:exitcode=99:allocator_may_return_null=1"})
    calls, cells, bad = 0, 0, []
    last_p = None
    cmds = set()
    samples = []
    with open(out_path) as f:
        skipped = set()
        for line in f:
            if line.startswith("P "):
                calls += 1
                last_p = line.strip()
                if calls % 60000 == 1:
                    samples.append(last_p)
            elif line.startswith("C "):
                cells += 1
                cmds.add(line.split()[1])
                if "skipped_open_failed" in line:
                    skipped.add(" ".join(line.split()[2:4]))
            elif line.startswith("X "):
                bad.append((line.strip(), last_p))
    errtxt = open(out_path + ".err").read()
    os.unlink(out_path)
    os.unlink(out_path + ".err")
    if skipped:
        # a (handle state, format) column the grid could not set up is a hole in the grid, not a pass (the whole read/write state was once skipped this way)
        ctx.violation("grid:cells_skipped", "the command grid could not create the handle for (state, format) cells %s: these cells were not exercised" % sorted(skipped),
                      "harness/cmd_grid.c make_handle: sf_open_virtual failed for these cells", found_input=False)
    if rc != 0:
        ctx.violation("grid:harness", "command grid harness failed rc=%d" % rc, err[-3000:], found_input=False)
    ctx.tie("command_grid", "grid", calls, calls,
            "every identifier of sndfile.h plus 8 undefined ones x datasize 0..sizeof+8, 1000, 16395, 70000 x {NULL, exact-size heap block under ASan} x "
            "handle state {none, read, write, read/write} x formats {WAV pcm/float, WAVEX, RF64, AIFF, CAF, RAW} (quick: two formats per cell); checks: no access "
            "beyond datasize (ASan), a rejected size leaves the block untouched, flag commands never write, strings NUL-terminated, query commands "
            "leave the state digest (positions, SF_INFO, settings, metadata, file bytes) unchanged", exhaustive=not q, cells=cells, commands=len(cmds))
    ctx.add_samples(samples[:5])
    seen = set()
    for (x, p) in bad:
        w = x.split()
        what = [t for t in w if t.startswith("what=")][0][5:]
        cmd = w[1]
        key = "cmd_%s:%s" % (cmd, what)
        if what == "crash":
            # the datasize it died at is on the last progress line
            m = re.search(r"datasize=(\d+) data=(\w+)", p or "")
            key += ":datasize=%s:%s" % (m.group(1), m.group(2)) if m else ""
        else:
            m = re.search(r"datasize=(\d+)", x)
        if key in seen:
            continue
        seen.add(key)
        report = ""
        if what == "crash":
            mm = re.search(r"ERROR: AddressSanitizer[^\n]*\n(?:[^\n]*\n){0,12}", errtxt)
            report = mm.group(0) if mm else errtxt[-1500:]
        ctx.violation(key, "sf_command 0x%s state=%s format=0x%s: %s (%s)" % (cmd, w[2], w[3], what, p if what == "crash" else x),
                      "replay: harness/cmd_grid.c cell command=0x%s state=%s format=0x%s\n%s\n%s\n%s" % (cmd, w[2], w[3], x, p or "", report))
    ctx.trusted += ["guard classes of the command identifiers: hand-written table in harness/cmd_grid.c, dumped to Gen_Cmds.v with the sizeof values of this build",
                    "reads inside [0, datasize) of bytes the command does not need are not observable; accesses beyond datasize are (AddressSanitizer, exact-size blocks)"]

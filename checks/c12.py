"""C12: metadata set before the audio survives close and re-open unchanged."""
import re
import vlib, sdrive, formats

STR = {"TITLE": 1, "COPYRIGHT": 2, "SOFTWARE": 3, "ARTIST": 4, "COMMENT": 5, "DATE": 6, "ALBUM": 7, "LICENSE": 8, "TRACKNUMBER": 9, "GENRE": 16}
STR_SUPPORT = {"WAV": set(STR) - {"LICENSE"}, "WAVEX": set(STR) - {"LICENSE"}, "RF64": set(STR) - {"LICENSE"},
               "AIFF": {"TITLE", "COPYRIGHT", "SOFTWARE", "ARTIST", "COMMENT"}, "CAF": set(STR)}
# write-side support as implemented: the AIFF writer emits neither MARK nor INST (sets are accepted and ignored, which the property allows)
SUPPORT = {"bext": {"WAV", "WAVEX", "RF64"}, "cart": {"WAV", "RF64"}, "cue": {"WAV"}, "inst": {"WAV"}, "chmap": {"WAVEX", "RF64", "AIFF", "CAF"}}
CONT = [("WAV", "PCM_16"), ("WAVEX", "PCM_24"), ("RF64", "FLOAT"), ("AIFF", "PCM_16"), ("CAF", "PCM_16"), ("WAV", "FLOAT")]


def hx(b):
    return "".join("%02x" % c for c in b) if b else "-"


def crlf(b):
    """the documented normalisation: each of CR LF, LF CR, CR, LF becomes CR LF"""
    out = bytearray()
    i = 0
    while i < len(b):
        c = b[i]
        if c in (10, 13):
            if i + 1 < len(b) and b[i + 1] in (10, 13) and b[i + 1] != c:
                i += 1
            out += b"\r\n"
        else:
            out.append(c)
        i += 1
    return bytes(out)


def text(rng, n, newlines=False):
    alph = b"abcdefghijklmnopqrstuvwxyz ABCDEFG0123456789.,-_=()" + "éü中".encode("utf8")
    s = bytes(alph[rng.below(len(alph))] for _ in range(n))
    try:
        s.decode("utf8")
    except UnicodeDecodeError:
        s = bytes(c if c < 128 else 0x61 for c in s)
    if newlines and n > 4:
        b = bytearray(s)
        for _ in range(rng.range(1, 4)):
            p = rng.below(len(b))
            b[p:p + 1] = rng.choice([b"\n", b"\r", b"\r\n", b"\n\r", b"\n\n", b"\r\r"])
        s = bytes(b)
    return s.replace(b"\0", b"a")


def gen(ctx, q):
    rng = vlib.Rng(ctx.seed * 67867979 + 12)
    L, plan = [], []
    sid = 0
    for (mj, sb) in (CONT if not q else CONT[:5]):
        f = formats.fmt(mj, sb)
        for rep in range(6 if q else 30):
            ch = rng.choice([1, 2])
            L.append("open 0 %d w %x %d 8000" % (sid, f, ch))
            items = []
            kinds = ["str", "str", "str", "bext", "cart", "cue", "inst", "chmap"]
            order = sorted(kinds, key=lambda k: rng.below(1000))
            late = rng.below(4) == 0
            exp = {}
            if late:
                order = [k for k in order if k in ("str", "chmap")]
            directed = rep < 3          # a short SOFTWARE string among long ones: a reader that terminates a text late picks up what other chunks left behind
            if directed:
                order = ["str", "str", "str", "str"]
                late = False
            for oi, kind in enumerate(order):
                if kind == "str":
                    name = rng.choice(sorted(STR))
                    ln = rng.choice([1, 2, 7, 31, 32, 33, 100, 127, 128, 255, 256, 500])
                    if directed:
                        name = ["ARTIST", "SOFTWARE", "TITLE", "COMMENT"][oi]
                        ln = [100, 1 + rep, 64, 200][oi]
                    if name == "SOFTWARE":
                        ln = min(ln, 100)        # the library builds "<s> (libsndfile-x.y.z)" in a 128 byte scratch buffer
                    s = text(rng, ln)
                    L.append("str 0 set %d %s" % (STR[name], hx(s)))
                    plan.append((len(L), "set", ("str", name, mj)))
                    exp[("str", name)] = s
                elif kind == "bext":
                    hist = text(rng, rng.choice([0, 5, 40, 255, 256, 1000]), newlines=True)
                    d, o, r = text(rng, rng.choice([1, 255, 256])), text(rng, rng.choice([1, 31, 32])), text(rng, rng.choice([0, 31, 32]))
                    L.append("bext 0 set %s %s %s %s" % (hx(d), hx(o), hx(hist), hx(r)))
                    plan.append((len(L), "set", ("bext", None, mj)))
                    exp["bext"] = (d, o, r, hist)
                elif kind == "cart":
                    tag = text(rng, rng.choice([0, 3, 64, 1000]), newlines=True)
                    t, a = text(rng, rng.choice([1, 63, 64])), text(rng, rng.choice([0, 10, 64]))
                    L.append("cart 0 set %s %s %s" % (hx(t), hx(tag), hx(a)))
                    plan.append((len(L), "set", ("cart", None, mj)))
                    exp["cart"] = (t, a, tag)
                elif kind == "cue":
                    n = rng.choice([0, 1, 2, 5, 17, 100])
                    L.append("cue 0 set %d" % n)
                    plan.append((len(L), "set", ("cue", None, mj)))
                    exp["cue"] = n
                elif kind == "inst":
                    nl = rng.choice([0, 1, 2]) if mj == "AIFF" else rng.choice([0, 1, 2, 5, 16])
                    v = (rng.range(0, 127), rng.range(0, 49), rng.range(-5, 5), nl)
                    L.append("inst 0 set %d %d %d %d" % v)
                    plan.append((len(L), "set", ("inst", None, mj)))
                    exp["inst"] = v
                elif kind == "chmap":
                    m = [3, 4][:ch] if ch == 2 else [2]
                    L.append("chmap 0 set %s" % " ".join(str(x) for x in m))
                    plan.append((len(L), "set", ("chmap", None, mj)))
                    exp["chmap"] = m
            L.append("w 0 s f 40 %s" % " ".join(str(rng.range(-32768, 32767)) for _ in range(80)))
            if late:
                # too late for the header: must be refused or ignored, and must not damage anything
                for cmdl in ("cue 0 set 2", "bext 0 set 6c617465 6c617465 6c617465", "inst 0 set 10 0 0 1", "cart 0 set 6c617465 6c617465"):
                    L.append(cmdl)
                    plan.append((len(L), "lateset", cmdl.split()[0]))
            L.append("close 0")
            L.append("open 0 %d r 0 0 0" % sid)
            plan.append((len(L), "reopen", mj))
            for name in sorted(STR):
                L.append("str 0 get %d" % STR[name])
                plan.append((len(L), "getstr", (name, mj, exp.get(("str", name)))))
            for kind in ("bext", "cart", "cue", "inst", "chmap"):
                L.append("%s 0 get" % kind)
                plan.append((len(L), "get", (kind, mj, exp.get(kind), late)))
                if late and kind != "chmap":
                    plan.append((len(L), "lateget", kind))
            L.append("r 0 s f 50")
            plan.append((len(L), "audio", None))
            L.append("close 0")
            sid = (sid + 1) % 30
    # the instrument's detune over its whole non-negative range (and two negative values): the WAV smpl chunk stores it as a 32-bit pitch fraction
    for det in list(range(0, 51)) + [-1, -50]:
        f = formats.fmt("WAV", "PCM_16")
        L.append("open 0 %d w %x 1 8000" % (sid, f))
        L.append("inst 0 set %d %d 0 %d" % (60 + det % 12, det, det % 3))
        plan.append((len(L), "set", ("inst", None, "WAV")))
        L.append("w 0 s f 10 1 2 3")
        L.append("close 0")
        L.append("open 0 %d r 0 0 0" % sid)
        plan.append((len(L), "reopen", "WAV"))
        L.append("inst 0 get")
        plan.append((len(L), "get", ("inst", "WAV", (60 + det % 12, det, 0, det % 3), False)))
        L.append("close 0")
        sid = (sid + 1) % 30
    return "\n".join(L) + "\n", plan


def unx(v):
    return bytes.fromhex(v[1:]) if v and v.startswith("x") else None


def run(ctx):
    q = ctx.tier == "quick"
    vlib.proof_step(ctx)
    h = vlib.cc_harness("kern_meta", ["kern_meta.c"], kind="asan")
    m = vlib.build_model("meta", "XMeta.v", "driver_meta.ml")
    vlib.k_tie(ctx, "crlf_and_string_table", "%s %d %d" % (h, ctx.seed, 3000 if q else 60000), m,
               "psf_strlcpy_crlf (exact-size blocks under ASan; random texts with every mix of CR / LF / CR LF / LF CR, destination limits 2..200) and "
               "psf_store_string / psf_get_string (histories of up to 45 sets and gets over the nine string types, strings of 1..290 bytes) called directly", key="meta")
    script, plan = gen(ctx, q)
    rc, hl, err = sdrive.run_harness(script, "C12_api", timeout=1500)
    if rc != 0:
        ctx.violation("api:sanitizer", "metadata run ended rc=%d: %s" % (rc, " | ".join(err.strip().split("\n")[:3])[:400]), script[-5000:] + "\n" + err[-5000:])
        return
    seen = set()
    n = 0
    set_ok = {}
    kinds_seen = {}

    def bad(key, ln, textmsg):
        if key in seen:
            return
        seen.add(key)
        ctx.violation("api:" + key, "%s (script line %d): %s" % (key, ln, textmsg[:400]), "script:\n" + sdrive.section_prefix(script, ln)[-8000:] + "\n\ntranscript:\n" + hl[ln][2][:2000])
    for (ln, kind, a) in plan:
        if ln not in hl:
            continue
        d = hl[ln][1]
        n += 1
        if kind == "set":
            set_ok[(a[0], a[1])] = d.get("ret") in ("0",) if a[0] == "str" else d.get("ret") == "1"
        elif kind == "reopen":
            if d.get("ok") != "1":
                bad("%s:unreadable_after_metadata" % a, ln, hl[ln][2])
        elif kind == "getstr":
            name, mj, want = a
            got = unx(d.get("val"))
            if want is None or not set_ok.get(("str", name)):
                continue
            kinds_seen[("str", mj)] = kinds_seen.get(("str", mj), 0) + 1
            if name == "SOFTWARE":
                want2 = want + b" (libsndfile-"
                ok = got is not None and got.startswith(want2) and got.endswith(b")")
            else:
                ok = got == want
            if name in STR_SUPPORT[mj]:
                if not ok:
                    bad("%s:string_%s_changed" % (mj, name), ln, "set %r, got %r" % (want[:80], (got or b"<NULL>")[:80]))
            elif got is not None and not ok:
                bad("%s:unsupported_string_%s_altered" % (mj, name), ln, "set %r, got %r" % (want[:60], got[:60]))
        elif kind == "get":
            k, mj, want, late = a
            if want is None or not set_ok.get((k, None)):
                continue
            supported = mj in SUPPORT[k]
            kinds_seen[(k, mj)] = kinds_seen.get((k, mj), 0) + 1
            if d.get("ret") != "1":
                if supported and not (k == "cue" and want == 0) and not (k == "chmap"):
                    bad("%s:%s_lost" % (mj, k), ln, "set succeeded, get after re-open returns %s" % d.get("ret"))
                continue
            if k == "bext":
                dsc, org, ref, hist = want
                probs = []
                if unx(d["desc"]) != dsc[:256].rstrip(b"\0") and unx(d["desc"]) != dsc[:256]:
                    probs.append("description")
                if unx(d["orig"]) != org[:32]:
                    probs.append("originator")
                if unx(d["oref"]) != ref[:32]:
                    probs.append("originator_reference")
                if unx(d["date"]) != b"2026-09-30" or unx(d["time"]) != b"12:34:56" or d["tref"] != "7:12345678":
                    probs.append("date/time/time_reference")
                got = unx(d["hist"]).split(b"\0")[0]
                base = crlf(hist)
                if base and not base.endswith(b"\n"):
                    base += b"\r\n"
                rest = got[len(base):] if got.startswith(base) else None
                if rest is None or not re.fullmatch(rb"(A=[^\r\n]*T=libsndfile-[^\r\n]*\r\n)?", rest):
                    probs.append("coding_history")
                if probs:
                    bad("%s:bext_%s_changed" % (mj, probs[0]), ln, "fields changed: %s; history set %r got %r" % (probs, hist[:80], got[:160]))
            elif k == "cart":
                t, ar, tag = want
                got = unx(d["tag"]).split(b"\0")[0]
                base = crlf(tag)
                if base and not base.endswith(b"\n"):
                    base += b"\r\n"
                probs = []
                if unx(d["title"]) != t[:64]:
                    probs.append("title")
                if unx(d["artist"]) != ar[:64]:
                    probs.append("artist")
                if d["level"] != "77" or d["timer"] != "99":
                    probs.append("level/timer")
                if got != base:
                    probs.append("tag_text")
                if probs:
                    bad("%s:cart_%s_changed" % (mj, probs[0]), ln, "fields changed: %s; tag set %r got %r" % (probs, tag[:80], got[:120]))
            elif k == "cue":
                cnt = int(d.get("count", "0"))
                if cnt != want:
                    bad("%s:cue_count_changed" % mj, ln, "set %d cues, got %d" % (want, cnt))
                elif cnt:
                    got = [c.split(":") for c in d["cues"].split(",")]
                    exp_off = [13 * i + 5 for i in range(want)]
                    exp_pos = [7 * i + 1 for i in range(want)]
                    if [int(g[2]) for g in got] != exp_off and [int(g[1]) for g in got] != exp_pos:
                        bad("%s:cue_positions_changed" % mj, ln, "got %s" % d["cues"][:200])
                if d.get("guard") != "1":
                    bad("cue_guard", ln, hl[ln][2])
            elif k == "inst":
                base, det, gain, nl = want
                if int(d["base"]) != base:
                    bad("%s:instrument_basenote_changed" % mj, ln, "set %d got %s" % (base, d["base"]))
                if int(d["detune"]) != det:
                    bad("%s:instrument_detune_%s" % (mj, "negative" if det < 0 else "changed"), ln, "set detune %d got %s" % (det, d["detune"]))
                loops = [] if d["loops"] == "-" else d["loops"].split(",")
                exp = ["%d:%d:%d:%d" % (800 + 1 + (i % 3), 2 + 3 * i, 4 + 3 * i, i) for i in range(nl)]
                if loops != exp:
                    bad("%s:instrument_loops_changed" % mj, ln, "set %s got %s" % (exp, loops))
            elif k == "chmap":
                if d.get("map") != ",".join(str(x) for x in want):
                    bad("%s:channel_map_changed" % mj, ln, "set %s got %s" % (want, d.get("map")))
        elif kind == "lateset":
            set_ok[("late", a)] = d.get("ret") == "1"
        elif kind == "lateget":
            # set after the audio: refused, or accepted-and-ignored; it must not show up as stored garbage
            if d.get("ret") == "1" and not set_ok.get(("late", a)):
                bad("late_%s_appeared_after_refusal" % a, ln, hl[ln][2])
        elif kind == "audio":
            if d.get("ret") != "40" or d.get("frames") != "40":
                bad("audio_damaged", ln, hl[ln][2])
    ctx.tie("metadata_roundtrip_oracle", "oracle", n, len(kinds_seen),
            "WAV, WAVEX, RF64, AIFF, CAF: strings of all ten types (lengths 1..500, UTF-8), bext (all fields, histories with every line-end style), cart, 0..100 cues, "
            "instrument with 0..16 loops, channel maps, set in random order before the audio (and some too late); after close / re-open every item the "
            "container supports equals what was set modulo the documented normalisations; late / unsupported sets leave audio and other metadata intact")
    ctx.distribution.update({"%s/%s" % k: v for k, v in sorted(kinds_seen.items())})
    ctx.add_samples([hl[ln][2][:300] for (ln, k, a) in plan if k == "get" and ln in hl][:4])
    ctx.trusted += ["hand-written model StrMeta.v (tied by K on every run)",
                    "the chunk writers / readers of wavlike.c, aiff.c, caf.c for LIST/INFO, bext, cart, cue, smpl, MARK, INST, chan are covered by the round-trip oracle only",
                    "cue point names and instrument detune / gain / velocity / key ranges are not compared (WAV does not store them)"]

"""C03: arbitrary input bytes never cause memory errors, hangs or insane info  (partial)."""
import time
import vlib, sdrive, fuzz
from checks import regen


def run(ctx):
    q = ctx.tier == "quick"
    regen.gen_enums()
    regen.gen_gate()
    vlib.proof_step(ctx)
    h = vlib.cc_harness("kern_hcache", ["kern_hcache.c"], kind="asan")
    m = vlib.build_model("hcache", "XHCache.v", "driver_hcache.ml")
    vlib.k_tie(ctx, "header_cache", "%s %d %d" % (h, ctx.seed, 300 if q else 20000), m,
               "header_read / header_seek / psf_bump_header_allocation (static in common.c, reached by inclusion) with sizes and positions 0 .. 150000 (around the 100 KiB "
               "cap), negative relative seeks, and an I/O layer that transfers everything / nothing / half / a random part: return value, indx, end, len after every call", key="hcache", timeout=150)
    h = vlib.cc_harness("kern_gate", ["kern_gate.c"], kind="plain")
    m = vlib.build_model("gate", "XGate.v", "driver_gate.ml")
    vlib.k_tie(ctx, "validate_sfinfo", "%s %d %d" % (h, ctx.seed, 20000 if q else 400000), m,
               "validate_sfinfo (static in sndfile.c) on boundary / PRNG SF_INFO values against the translated decision list", key="gate")
    # structure-aware mutation runs (support for the tie and the search, not proof)
    rng = vlib.Rng(ctx.seed * 2750159 + 3)
    corpus = fuzz.library_files(ctx, rng, (1, 2) if not q else (1,)) + fuzz.soups()
    scripts = []
    per = 6 if q else 60
    inputs = {}
    for (name, data) in corpus:
        routes = ["v"] if q else ["v", "d"]
        for i, mut in enumerate([data] + fuzz.mutate(rng, data, per) + (fuzz.dup_chunks(data) if len(data) < 20000 else [])):
            for r in routes:
                nm = "%s#%d%s" % (name, i, r)
                inputs[nm] = mut
                scripts.append((nm, fuzz.exercise(mut, route=r, deep=True)))
            if i % 2 == 0 or not q:
                # the same bytes opened for read/write: the container's close hook runs on whatever the parser left behind
                nm = "%s#%dx" % (name, i)
                inputs[nm] = mut
                scripts.append((nm, ["store 1 hex %s" % (mut.hex() if mut else "-"), "open 1 1 x 0 0 0", "err -", "info 1", "r 1 s f 20", "close 1"]))
    # field sweep, read/write open then close: the failing open runs the container's close hook on half-parsed state
    seen_major = set()
    for (name, data) in corpus:
        mj = name.split("_")[0]
        if "#" in name or len(data) > 20000:
            continue
        full = not (q and mj in seen_major)         # quick: the complete sweep for one file per container, the zeroed 32-bit fields for all the others
        seen_major.add(mj)
        for i, mut in enumerate(fuzz.field_sweep(data, 72 if q else 160, full)):
            nm = "%s#s%dx" % (name, i)
            inputs[nm] = mut
            scripts.append((nm, ["store 1 hex %s" % mut.hex(), "open 1 1 x 0 0 0", "err -", "info 1", "close 1"]))
    for k in range(40 if q else 2000):
        junk = bytes(rng.below(256) for _ in range(rng.choice([0, 1, 4, 12, 64, 300])))
        if k % 3 == 0:
            junk = rng.choice([b"RIFF", b"FORM", b"caff", b".snd", b"riff", b"RF64", b"Creative Voice File\x1a", b"2BIT", b"fLaC", b"MThd"]) + junk
        inputs["junk%d" % k] = junk
        scripts.append(("junk%d" % k, fuzz.exercise(junk)))
    t0 = time.time()
    res = fuzz.run_batches(scripts, "C03", timeout=90 if q else 240)
    wall = time.time() - t0
    seen = set()
    opened = rejected = 0
    stats = {}
    for (name, rc, lines, err) in res:
        base = name.split("#")[0]
        fam = base.split("_")[0]
        key = None
        if rc == 124:
            key, msg = "hang:%s" % fam, "call sequence on a mutant of %s did not finish inside the time budget" % base
        elif rc != 0:
            first = [l for l in err.split("\n") if "ERROR" in l or "runtime error" in l or "SUMMARY" in l]
            what = (first[0] if first else err.strip().split("\n")[0] if err.strip() else "rc=%d" % rc)[:160]
            where = [l for l in err.split("\n") if "/repo/src/" in l]
            site = where[0].strip().split("/repo/src/")[-1].split(":")[0] if where else "?"
            kind = "leak" if "LeakSanitizer" in err else "memory_error"
            key, msg = "%s:%s:%s" % (kind, fam, site), "%s: %s" % (base, what)
        else:
            o = lines.get(2, ("", {}, ""))[1]
            if o.get("ok") == "1":
                opened += 1
                prob = fuzz.info_problem(lines.get(4, ("", {}, ""))[1])
                if prob:
                    key, msg = "insane_info:%s:%s" % (fam, prob.split("=")[0]), "%s accepted with %s: %s" % (base, prob, lines[4][2][:200])
                g = [l for k2, (op, d, l) in lines.items() if d.get("guard") == "0" or "INVARIANT" in d]
                if g and not key:
                    key, msg = "guard:%s" % fam, "%s: caller buffer guard bytes damaged / handle invariant broken: %s" % (base, g[0][:200])
            else:
                rejected += 1
                if o.get("err") == "0" or o.get("msg") != "1":
                    key, msg = "reject_without_error:%s" % fam, "%s rejected but no error / message: %s" % (base, lines.get(2, ("", {}, ""))[2][:160])
        stats[fam] = stats.get(fam, 0) + 1
        if key and key not in seen:
            seen.add(key)
            ctx.violation("input:" + key, msg, "input bytes (hex) of %s:\n%s\n\nscript:\n%s\n\nstderr:\n%s" % (name, inputs.get(name, b"").hex()[:200000], "\n".join(fuzz.exercise(b"", route=name[-1] if name[-1] in "vd" else "v")[1:]), err[-5000:]))
    ctx.tie("mutation_runs", "search", len(res), len(set(inputs.values())),
            "files of every writable format written by the library itself (with strings, bext, cart, cues, instrument, custom chunk) + 35 hand-built chunk soups (AIFF MARK / INST / APPL / "
            "COMT / basc in several orders, AIFC codecs, WAV cue / smpl / adtl / bext / cart / acid / DISP / id3, WAVEX, MS / IMA / GSM / G721 fmt chunks, CAF chan / info / pakt / uuid, AU, VOC "
            "blocks, 16SV, SDS); per file the original + mutants (truncation, 32 / 16-bit field extremes in the header, byte flips, insertions, deletions, duplicated stretches) + raw junk; "
            "each through sf_open_virtual (thorough: also sf_open_fd) followed by reads of all four types, seeks with every whence, strings, chunk iteration, bext / cue / instrument getters, "
            "SFC_CALC_SIGNAL_MAX, close; ASan + UBSan + LeakSanitizer, guard-banded buffers, %d s budget per batch" % (90 if q else 240),
            opened=opened, rejected=rejected, wall_s=round(wall, 1))
    ctx.distribution.update(stats)
    ctx.notes.append("PARTIAL: theorems cover the header cache, the open gate and the wrappers' extents; the per-format header parsers, codec initialisers and the time bound are exercised by the mutation runs only")
    ctx.trusted += ["T2 translator translator/gate2gallina.py (cross-checked by K on every run)", "hand-written HeaderCache.v (tied by K with fault injection on every run)",
                    "mutation runs are support for the tie and the search for failing inputs, not a proof"]

"""C19: handles are isolated from each other and from earlier library use."""
import os, re, subprocess, itertools, concurrent.futures, time
import vlib, sdrive, formats, gens
from checks import regen

HARNESS = [None]
WRITABLE_OK = {"sf_errno", "sf_parselog", "sf_syserr", "alac_error_string.errstr", "mat4_marker_to_str.str", "macos_guess_file_type.rsrc_name", "psf_rand_int32.value"}


def gtab_line(names):
    """addresses from nm on the sanitizer binary, true sizes from the plain archive (the sanitizer pads globals with red zones)"""
    rc, out, err = vlib.run("nm -S --defined-only %s/libsndfile.a" % vlib.ensure_lib("plain"))
    size = {}
    for l in out.split("\n"):
        p = l.split()
        if len(p) == 4 and p[3] in names:
            size[p[3]] = int(p[1], 16)
    rc, out, err = vlib.run("nm --defined-only %s" % (HARNESS[0] or sdrive.harness()))
    addr, main = {}, None
    for l in out.split("\n"):
        p = l.split()
        if len(p) == 3:
            if p[2] == "main":
                main = p[0]
            elif p[2] in names and p[1] in "bBdDcCsSgG":
                addr[p[2]] = p[0]
    toks = ["%s:%s:%x" % (n, addr[n], size[n]) for n in names if n in addr and n in size and size[n] > 0]
    return "gtab %s %s" % (main, " ".join(toks)), len(toks)


def wl_codec(f, ch, rng, tag, frames=260):
    """write a file with metadata, close, read it back in pieces, seek, close"""
    nm = formats.name(f)
    mj, sb = nm.split("/")
    t = "f" if sb in ("FLOAT", "DOUBLE") else "s"
    vals = " ".join(gens.values(rng, t, 24, sb if sb in ("ULAW", "ALAW") else None))
    raw = "%x %d 8000" % (f, ch) if mj == "RAW" else "0 0 0"
    L = ["open {h} {s} w %x %d 8000" % (f, ch)]
    if mj in ("WAV", "WAVEX", "RF64", "AIFF", "CAF"):
        L += ["str {h} set 1 %s" % tag.encode().hex(), "chunk set {h} 54657374 %s" % tag.encode().hex()]
    L += ["w {h} %s f %d %s" % (t, frames // 2, vals), "err {h}", "w {h} %s f %d %s" % (t, frames - frames // 2, vals), "close {h}",
          "open {h} {s} r %s" % raw, "r {h} s f 70", "r {h} f i %d" % (40 * ch), "seek {h} 10 0", "r {h} i f 90", "err {h}", "seek {h} -30 2", "r {h} d f 64", "str {h} get 1", "close {h}"]
    return L


def wl_rdwr(rng):
    vals = " ".join(gens.values(rng, "s", 24, None))
    return ["open {h} {s} w 10002 2 8000", "w {h} s f 100 %s" % vals, "close {h}", "open {h} {s} x 0 0 0", "r {h} s f 20", "w {h} s f 30 1 2 3 4 5 6", "seek {h} 5 0", "r {h} s f 50",
            "seek {h} 0 2", "w {h} s f 25 %s" % vals, "err {h}", "close {h}", "open {h} {s} r 0 0 0", "r {h} s f 200", "close {h}"]


def wl_failing(rng):
    return ["open {h} {s} w 10002 1 8000", "r {h} s i 10", "err {h}", "w {h} s i 5 1 2 3 4 5", "seek {h} 99999 0", "err {h}", "cmd {h} 0x7777 0", "err {h}", "w {h} s i 3 7 8 9", "err {h}", "close {h}",
            "store {s} hex 52494646ffffffff57415645", "open {h} {s} r 0 0 0", "store {s} hex 464f524d0000", "open {h} {s} r 0 0 0"]


def instantiate(wl, k):
    return [l.replace("{h}", str(k)).replace("{s}", str(k)) for l in wl]


def run_script(lines, tag, env=None, timeout=120):
    tmpd = os.path.join(vlib.BUILD, "tmp")
    os.makedirs(tmpd, exist_ok=True)
    sp = os.path.join(tmpd, "C19_%s_%d.sfs" % (tag, os.getpid()))
    open(sp, "w").write("\n".join(lines) + "\n")
    e = dict(os.environ)
    e.setdefault("ASAN_OPTIONS", "detect_leaks=1:abort_on_error=0:exitcode=99")
    e["SFD_BUDGET"] = "30"
    try:
        p = subprocess.run([HARNESS[0], sp], stdout=subprocess.PIPE, stderr=subprocess.PIPE, timeout=timeout, env=e)
        rc, out, err = p.returncode, p.stdout.decode("utf8", "replace"), p.stderr.decode("utf8", "replace")
    except subprocess.TimeoutExpired:
        rc, out, err = 124, "", "[timeout]"
    os.unlink(sp)
    res = {}
    for l in out.split("\n"):
        m = re.match(r"^(\d+) (.*)$", l)
        if m:
            # (tail= describes the caller's buffer BEYOND the returned items: not a result of the call)
            res[int(m.group(1))] = re.sub(r" tail=\S+", "", m.group(2))
    return rc, res, err


def run(ctx):
    q = ctx.tier == "quick"
    regen.gen_enums()
    names = regen.gen_globals()
    vlib.proof_step(ctx)
    ctx.tie("globals_inventory", "T1", len(names), len(names),
            "nm over the archive of the working-tree build: the %d objects in writable sections (bss / data / common) against the classification table of Isolation.v "
            "(theorem every_global_is_accounted_for); 3 diagnostics, 3 scratch buffers, 1 generator, the rest initialised tables" % len(names), exhaustive=True)
    h = vlib.cc_harness("kern_rand", ["kern_rand.c"], kind="plain")
    m = vlib.build_model("iso", "XIso.v", "driver_iso.ml")
    vlib.k_tie(ctx, "generator", "%s %d" % (h, 20000 if q else 2000000), m,
               "psf_rand_int32: consecutive results against rand_next (the state is the returned value)", key="rand")
    rng = vlib.Rng(ctx.seed * 86028121 + 19)
    fl = {formats.name(f) + "/%d" % ch: (f, ch) for (f, ch) in formats.writable(channels=(1, 2))}
    pool_names = ["WAV/PCM_16/2", "CAF/ALAC_16/2", "CAF/ALAC_24/1", "AIFF/IMA_ADPCM/2", "WAV/GSM610/1", "AU/G721_32/1", "RAW/VOX_ADPCM/1", "AIFF/DWVW_16/1", "W64/FLOAT/2", "PAF/PCM_24/2",
                  "WAV/MS_ADPCM/2", "WAV/NMS_ADPCM_24/1", "MAT5/DOUBLE/2", "SDS/PCM_16/1", "AU/ULAW/1", "CAF/ALAC_16/1", "VOC/PCM_16/2", "NIST/PCM_24/2", "AIFF/GSM610/1", "AU/G723_24/1",
                  "CAF/ALAC_32/2", "W64/IMA_ADPCM/1"]
    pool = {}
    for i, pn in enumerate(pool_names):
        if pn in fl:
            pool["codec:" + pn] = wl_codec(fl[pn][0], fl[pn][1], rng, "w%d" % i)
    pool["rdwr"] = wl_rdwr(rng)
    pool["failing"] = wl_failing(rng)
    watched = [n for n in names]
    HARNESS[0] = sdrive.harness()
    gline, nwatched = gtab_line(watched)
    seen = set()

    def report(key, msg, replay):
        if key not in seen:
            seen.add(key)
            ctx.violation(key, msg, replay)

    # plans: list of (plan name, [(workload name, slot)], merged order as list of slot indices)
    plans = []
    keys = list(pool)
    def rr(group):
        order, idx = [], [0] * len(group)
        lens = [len(pool[g]) for g in group]
        while any(idx[i] < lens[i] for i in range(len(group))):
            for i in range(len(group)):
                if idx[i] < lens[i]:
                    order.append(i)
                    idx[i] += 1
        return order
    def rnd(group):
        left = [len(pool[g]) for g in group]
        order = []
        while sum(left):
            i = rng.choice([i for i in range(len(group)) for _ in range(left[i])])
            order.append(i)
            left[i] -= 1
        return order
    alac = [k for k in keys if "ALAC" in k]
    groups = [alac[:2], alac[:4], ["codec:WAV/GSM610/1", "codec:AIFF/GSM610/1"], ["codec:AU/G721_32/1", "codec:AU/G723_24/1"], ["codec:AIFF/IMA_ADPCM/2", "codec:W64/IMA_ADPCM/1", "codec:RAW/VOX_ADPCM/1"],
              ["rdwr", "failing", "codec:WAV/PCM_16/2"], ["failing", "codec:CAF/ALAC_16/2", "codec:AIFF/DWVW_16/1", "codec:W64/FLOAT/2"], keys[:8], keys[8:16]]
    groups = [[g for g in grp if g in pool] for grp in groups]
    groups = [g for g in groups if len(g) >= 2]
    for gi, grp in enumerate(groups):
        plans.append(("roundrobin%d" % gi, grp, rr(grp)))
        for r in range(1 if q else 6):
            plans.append(("random%d_%d" % (gi, r), grp, rnd(grp)))
        plans.append(("sequential%d" % gi, grp, [i for i in range(len(grp)) for _ in pool[grp[i]]]))      # earlier use of the library in the same process
    for r in range(6 if q else 60):
        k = 2 + rng.below(7)
        grp = []
        while len(grp) < k:
            c = rng.choice(keys)
            grp.append(c)          # the same workload may run on several handles at once
        plans.append(("mixed%d" % r, grp, rnd(grp)))
    # all merges of two short scripts
    shortA = ["open {h} {s} w 180070 1 8000", "w {h} s f 50 1 -2 3 -4 5", "close {h}", "open {h} {s} r 0 0 0", "r {h} s f 50", "close {h}"]
    shortB = ["open {h} {s} w 180070 2 8000", "w {h} s f 40 9 8 7 6", "r {h} s i 4", "err {h}", "close {h}"] if not q else ["open {h} {s} w 180070 2 8000", "w {h} s f 40 9 8 7 6", "err {h}", "close {h}"]
    pool["shortA"], pool["shortB"] = shortA, shortB
    for comb in itertools.combinations(range(len(shortA) + len(shortB)), len(shortA)):
        order = [0 if i in comb else 1 for i in range(len(shortA) + len(shortB))]
        plans.append(("merge_%s" % "".join(map(str, order)), ["shortA", "shortB"], order))

    # solo runs: (workload, slot) -> transcript
    solo_jobs = sorted(set((g, i) for (_, grp, _) in plans for i, g in enumerate(grp)))
    def do_solo(job):
        g, slot = job
        lines = [gline] + instantiate(pool[g], slot) + ["gsum"]
        rc, res, err = run_script(lines, "solo_%s_%d" % (re.sub(r"\W", "_", g), slot))
        return job, rc, [res.get(i + 2, "<missing>") for i in range(len(pool[g]))], res.get(len(lines), ""), err, lines
    def do_plan(plan):
        pname, grp, order = plan
        inst = [instantiate(pool[g], i) for i, g in enumerate(grp)]
        idx = [0] * len(grp)
        lines, owner = [gline], []
        for i in order:
            lines.append(inst[i][idx[i]])
            owner.append(i)
            idx[i] += 1
        lines.append("gsum")
        rc, res, err = run_script(lines, "plan_%s" % pname)
        per = [[] for _ in grp]
        for n, i in enumerate(owner):
            per[i].append(res.get(n + 2, "<missing>"))
        return plan, rc, per, res.get(len(lines), ""), err, lines
    t0 = time.time()
    solo = {}
    with concurrent.futures.ThreadPoolExecutor(max_workers=vlib.NCPU) as ex:
        for job, rc, tr, gsum, err, lines in ex.map(do_solo, solo_jobs):
            solo[job] = tr
            if rc != 0:
                report("solo_run:%s" % job[0], "workload %s alone ended with rc=%d: %s" % (job[0], rc, err.strip()[:200]), "\n".join(lines) + "\n\n" + err[-3000:])
            bad = [n for n in gsum.replace("gsum changed=", "").split(",") if n not in WRITABLE_OK and n != "-" and n]
            if bad:
                report("table_written:%s" % bad[0], "workload %s wrote to the process-wide object(s) %s, which the model takes for constant tables" % (job[0], ",".join(bad)), "\n".join(lines))
        results = list(ex.map(do_plan, plans))
    compared = differing = 0
    for (plan, rc, per, gsum, err, lines) in results:
        pname, grp, order = plan
        if rc != 0:
            report("interleaved_run:%s" % pname.rstrip("0123456789_"), "interleaving %s of %s ended with rc=%d: %s" % (pname, grp, rc, err.strip()[:300]), "\n".join(lines) + "\n\n" + err[-3000:])
            continue
        bad = [n for n in gsum.replace("gsum changed=", "").split(",") if n not in WRITABLE_OK and n != "-" and n]
        if bad:
            report("table_written:%s" % bad[0], "interleaving %s wrote to the process-wide object(s) %s" % (pname, ",".join(bad)), "\n".join(lines))
        for i, g in enumerate(grp):
            compared += 1
            want = solo[(g, i)]
            if per[i] != want:
                differing += 1
                k = next((j for j in range(min(len(want), len(per[i]))) if want[j] != per[i][j]), 0)
                fam = g.split(":")[-1].split("/")[0] + ("/" + g.split("/")[1].split("_")[0] if "/" in g else "")
                report("interference:%s" % fam, "handle %d (%s) in interleaving %s (%s) behaves differently from its solo run at its call %d [%s]: interleaved `%s`, alone `%s`"
                       % (i, g, pname, ", ".join(grp), k + 1, instantiate(pool[g], i)[k][:60], per[i][k][:160], want[k][:160]),
                       "interleaved script (build/bin/sfdrive.asan <file>):\n%s\n\nsolo script of handle %d:\n%s\n\nsolo transcript:\n%s\n\ninterleaved transcript of that handle:\n%s"
                       % ("\n".join(lines[1:-1]), i, "\n".join(instantiate(pool[g], i)), "\n".join(want), "\n".join(per[i])))
    ctx.tie("interleavings", "oracle", compared, len(plans),
            "%d workloads (codec round trips with metadata for every stateful codec family -- ALAC, GSM 6.10, G.721 / G.723, IMA / MS / OKI / NMS ADPCM, DWVW, SDS, PAF24, float with PEAK -- "
            "an RDWR history, a history of failing calls and failing opens), each on its own handle and store: %d interleavings of 2..8 of them (round robin, PRNG merges, one after the "
            "other in one process = earlier library use, the same workload on several handles) plus ALL %d merges of two short ALAC scripts; every handle's transcript (return values, "
            "data digests, positions, error states, final file digests) must equal its solo run in a fresh process; the write footprint on the %d writable globals is measured in "
            "every run" % (len(pool), len(plans), len([p for p in plans if p[0].startswith("merge_")]), nwatched),
            differing=differing, processes=len(plans) + len(solo_jobs), wall_s=round(time.time() - t0, 1))
    ctx.distribution.update({"plans": len(plans), "solo_runs": len(solo_jobs), "handle_transcripts_compared": compared, "pool": sorted(pool)})
    ctx.trusted += ["T1 inventory by nm over the build archive", "hand-written Isolation.v (generic non-interference theorem; its hypothesis -- no per-handle result reads a process-wide cell -- "
                    "rests on the inventory + the measured write footprint + the interleaving oracle)", "sfdrive"]

"""C06: decoded audio depends only on frame position (partition and seek consistency)."""
import vlib, sdrive, wrappers, formats, gens

BLOCKS = [10, 30, 40, 60, 64, 120, 160, 320, 500, 505, 1012, 1017, 2041, 4096]


def gen_script(ctx, q):
    rng = vlib.Rng(ctx.seed * 104729 + 6)
    combos = formats.writable(channels=(1, 2))
    if q:
        combos = [c for i, c in enumerate(combos) if not formats.is_granular(c[0]) or (i + ctx.seed) % 3 == 0]
    L, plan = [], []
    dist = {"formats": len(combos), "seeks": 0, "reads": 0, "boundary_then_seek": 0, "eof_targets": 0, "bad_targets": 0}
    sid = 0
    for (f, ch) in combos:
        nm = formats.name(f)
        nfr = 4500 if "ALAC" in nm else 2300
        L.append("open 0 %d w %x %d 8000" % (sid, f, ch))
        vals = [int(12000 * ((k * 37 % 101) / 50.0 - 1)) + rng.range(-300, 300) for k in range(64)]
        if nm.split("/")[1] in ("FLOAT", "DOUBLE"):
            L.append("w 0 f f %d %s" % (nfr, " ".join(gens.f32hex(v / 32768.0) for v in vals)))
        else:
            L.append("w 0 s f %d %s" % (nfr, " ".join(str(v) for v in vals)))
        L.append("close 0")
        L.append(("open 0 %d r 0 0 0" % sid) if not formats.name(f).startswith("RAW/") else "open 0 %d r %x %d 8000" % (sid, f, ch))      # header-less: opened with its parameters
        ts = gens.types_for(nm.split("/")[1])
        for t in ts:
            L.append("ref 0 %s" % t)
        # read exactly up to a block boundary, then seek a little into the next block (relative and absolute)
        bl = [b for b in BLOCKS if b * 2 < nfr]
        for b in (bl if not q else [b for b in bl if rng.below(2) or b in (500, 505, 10, 60, 4096)]):
            mult = rng.choice([1, 2, 3])
            if b * mult + 30 >= nfr:
                mult = 1
            t = rng.choice(ts)
            L.append("seek 0 0 0")
            L.append("r 0 %s f %d" % (t, b * mult))
            w = rng.choice([(3, 1), (b * mult + 3, 0), (1, 1 + 16), (b * mult + 7, 0 + 16)])
            L.append("seek 0 %d %d" % w)
            plan.append(len(L))
            L.append("r 0 %s %s %d" % (t, "f", 25))
            L.append("seek 0 0 1")
            dist["boundary_then_seek"] += 1
        for step in range(12 if q else 60):
            wh = rng.choice([0, 0, 1, 2, 16, 17, 18])
            kind = rng.below(10)
            if kind == 0:
                off, note = rng.choice([(-1, "bad"), (10 ** 7, "bad")]) if wh in (0, 16) else (10 ** 7, "bad")
                dist["bad_targets"] += 1
            elif wh in (0, 16):
                off = rng.choice([0, 1, nfr - 1, nfr, rng.range(0, nfr), rng.choice(BLOCKS) % nfr, (rng.choice(BLOCKS) + 1) % nfr, (rng.choice(BLOCKS) * 2 - 1) % nfr])
            elif wh in (1, 17):
                off = rng.range(-200, 200)
            else:
                off = -rng.choice([0, 1, 2, rng.range(0, nfr), nfr])
            L.append("seek 0 %d %d" % (off, wh))
            plan.append(len(L))
            dist["seeks"] += 1
            for rd in range(rng.range(1, 3)):
                t = rng.choice(ts)
                var = rng.choice("if")
                k = rng.choice([1, 2, 7, 63, 64, 65, 505, 1000, 5000])
                L.append("r 0 %s %s %d" % (t, var, k if var == "f" else k * ch))
                dist["reads"] += 1
            L.append("seek 0 0 1")       # zero-offset SEEK_CUR must report the next frame
        L.append("close 0")
        sid = (sid + 1) % 30
    return "\n".join(L) + "\n", dist, plan


def oracle(ctx, script, hl):
    """the property itself, on the implementation: delivered items equal the sequential reference at the reported
    position; a seek returns the requested absolute frame or -1 with an error; SEEK_CUR 0 reports the position"""
    src = script.split("\n")
    bad = []
    n = 0
    frames, rpos, fmtw = 0, 0, 0
    for ln in sorted(hl):
        op, d, raw = hl[ln]
        t = src[ln - 1].split()
        if op == "open" and d.get("ok") == "1":
            frames, rpos, fmtw, seekable = int(d["frames"]), 0, int(d["fmt"], 16), d.get("seekable") == "1"
        elif op == "ref":
            if "got" in d and int(d["got"]) != int(d["items"]):
                bad.append(("%s:sequential_read_short" % fam(fmtw), ln, raw))
        elif op == "seek" and "ret" in d:
            n += 1
            off, wh = int(t[2]), int(t[3])
            base = wh & 3
            target = off if base == 0 else rpos + off if base == 1 else frames + off
            ret = int(d["ret"])
            ok_target = seekable and 0 <= target <= frames and wh not in (32, 33, 34)
            failed_cleanly = ret == -1 and d["err"] != "0" and int(d["rpos"]) == rpos
            if wh in (1, 17) and off == 0 and seekable:
                # zero-offset SEEK_CUR: the index of the next frame to be delivered, nothing changes
                if ret != rpos or d["err"] != "0" or int(d["rpos"]) != rpos:
                    bad.append(("%s:seek_cur_zero_wrong" % fam(fmtw), ln, raw))
            elif ok_target:
                # success must land on the target; a refusal (codecs that cannot seek there) must be clean
                if not ((ret == target and d["err"] == "0" and int(d["rpos"]) == target) or failed_cleanly):
                    bad.append(("%s:seek_wrong_position" % fam(fmtw), ln, raw))
            else:
                if not failed_cleanly:
                    bad.append(("%s:bad_seek_not_rejected_cleanly" % fam(fmtw), ln, raw))
            rpos = int(d["rpos"])
        elif op == "r" and "ret" in d:
            n += 1
            if d.get("refok") == "0":
                bad.append(("%s:data_differs_from_sequential_read" % fam(fmtw), ln, raw))
            rpos = int(d["rpos"])
    return n, bad


def fam(f):
    n = formats.name(f)
    if n.startswith("SDS/"):
        return "SDS"
    if n.startswith("PAF/PCM_24"):
        return "PAF24"
    return n


def run(ctx):
    q = ctx.tier == "quick"
    from checks import regen
    regen.gen_enums()
    vlib.proof_step(ctx)
    import dpcmtie
    dpcmtie.run(ctx, 1600 if q else 40000, "r")
    diff = wrappers.tie(ctx, relevant=["sf_seek", "sf_read", "psf_default_seek", "VALIDATE"])
    script, dist, plan = gen_script(ctx, q)
    ctx.distribution.update(dist)
    hl, ml, bad = sdrive.s_tie(ctx, "seek_read_vs_model", script,
        "per container x encoding x channels{1,2}: one sequential reference decode per caller type, then reads up to block boundaries followed by short "
        "relative/absolute seeks, random (target, whence in SET/CUR/END with and without SFM_READ, length, type, item/frame variant) sequences with "
        "targets 0, F-1, F, block edges +-1, out-of-range targets, SEEK_CUR 0 after every step; model comparison for the sample-granular encodings")
    n, obad = oracle(ctx, script, hl)
    ctx.tie("position_function_oracle", "oracle", n, len(set(script.split("\n"))),
            "every format incl. IMA/MS ADPCM, GSM, G72x, NMS, VOX, DWVW, DPCM, PAF24, SDS, ALAC: delivered items == sequential reference at the "
            "reported frame; seek returns target or -1+error; zero-offset SEEK_CUR reports the position")
    seen = set()
    for key, ln, raw in obad:
        if key in seen:
            continue
        seen.add(key)
        ctx.violation(key, "%s (script line %d): %s" % (key, ln, raw[:220]), "script:\n" + prefix_for(script, ln) + "\n\ntranscript line:\n" + raw)
    ctx.add_samples([l for ln, (op, d, l) in sorted(hl.items()) if op in ("r", "seek")][:600:100])
    if diff:
        ctx.broken_proofs.append(("wrapper_transcription(%s)" % ",".join(diff),
                                  "the source text of %s no longer matches the text Api.v was transcribed from" % ", ".join(diff), None))
    ctx.trusted += ["hand-written wrapper / default-seek model Api.v (transcription check + script correspondence on every run)",
                    "block codec seek functions (wavlike_ima_seek, aiff_ima_seek, msadpcm_seek, paf24_seek, sds_seek, alac_seek, gsm610_seek, g72x, nms, dwvw, dpcm) "
                    "are decided by the position-function oracle on the implementation, not by a theorem"]


def prefix_for(script, ln):
    """the file's own section of the script: from its 'open ... w' line to line ln"""
    src = script.split("\n")
    start = ln - 1
    while start > 0 and not (src[start].startswith("open") and " w " in src[start]):
        start -= 1
    return "\n".join(src[start:ln])

"""C01: lossless write/read round trip is bit exact."""
import struct
import vlib, sdrive, formats, gens

WIDTH = {"PCM_S8": 8, "PCM_U8": 8, "PCM_16": 16, "PCM_24": 24, "PCM_32": 32, "ALAC_16": 16, "ALAC_20": 20, "ALAC_24": 24, "ALAC_32": 32,
         "DWVW_12": 12, "DWVW_16": 16, "DWVW_24": 24, "DPCM_8": 8, "DPCM_16": 16}
BLOCK = {"SDS": [60, 40, 30], "PAF/PCM_24": [10], "ALAC": [4096], "DWVW": [], "XI": []}


def fnv_vals(vals, kind):
    h = 0xcbf29ce484222325
    for v in vals:
        if kind in "si":
            b = struct.pack("<q", v)
        elif kind == "f":
            b = struct.pack("<Q", struct.unpack("<I", struct.pack("<f", v))[0])
        else:
            b = struct.pack("<d", v)
        for c in b:
            h = ((h ^ c) * 0x100000001b3) & 0xFFFFFFFFFFFFFFFF
    return "%016x" % h


def lossless_types(sub):
    if sub in ("FLOAT",):
        return "f"
    if sub == "DOUBLE":
        return "fd"
    if sub in WIDTH:
        return "si"
    return ""


def sample(rng, t, w, style):
    """one lossless sample of caller type t for an encoding of width w"""
    if t == "s":
        lo = max(0, 16 - w)
        v = rng.range(-32768, 32767) if style else rng.choice([-32768, 32767, 0, -1, 1, 255, -256])
        return (v >> lo) << lo
    if t == "i":
        lo = 32 - w
        v = rng.range(-2 ** 31, 2 ** 31 - 1) if style else rng.choice([-2 ** 31, 2 ** 31 - 1, 0, -1, 65535, -65536])
        return (v >> lo) << lo
    if t == "f":
        bits = rng.below(2 ** 32) if style else rng.choice([0x3f800000, 0xbf800000, 0x7f7fffff, 0x00800000, 0x00000001, 0x80000000, 0x3f7fffff])
        if (bits >> 23) & 0xFF == 0xFF:
            bits &= 0x807FFFFF | (0x7E << 23)
        return struct.unpack("<f", struct.pack("<I", bits))[0]
    bits = rng.below(2 ** 64) if style else rng.choice([0x3ff0000000000000, 0xbff0000000000000, 0x7fefffffffffffff, 0x0010000000000000, 1, 0x8000000000000000])
    if (bits >> 52) & 0x7FF == 0x7FF:
        bits &= ~(1 << 62)
    return struct.unpack("<d", struct.pack("<Q", bits))[0]


def delta_walk(rng, t, w, n):
    """a sample sequence built from its steps: every step is drawn from a class (0, +-1, a step of exactly k bits for each k up to w, the half-range
    steps +-(2^(w-1) - 1), +-2^(w-1), +-(2^(w-1) + 1) that wrap), so that delta coders (DWVW, DPCM, ALAC) meet every code-word length next to every
    other one at every bit alignment"""
    bits = 16 if t == "s" else 32
    w = min(w, bits)
    half = 1 << (w - 1)
    x, out = 0, []
    for _ in range(n):
        c = rng.below(8)
        if c == 0:
            d = rng.choice([0, 1, -1])
        elif c <= 2:
            d = rng.choice([half - 1, half, half + 1, -(half - 1), -half, -(half + 1)])
        else:
            k = rng.range(1, w - 1)
            d = rng.range(1 << (k - 1), (1 << k) - 1) * rng.choice([1, -1])
        x = ((x + d + half) % (2 * half)) - half
        out.append(x << (bits - w))
    return out


def tok(t, v):
    return str(v) if t in "si" else gens.f32hex(v) if t == "f" else gens.f64hex(v)


def lengths_for(name, q, rng):
    base = [0, 1, 2, 3]
    blocks = []
    for k, bl in BLOCK.items():
        if k in name:
            blocks = bl
    for b in blocks:
        base += [b - 1, b, b + 1, 2 * b, 2 * b + 1] + ([30 * b] if b <= 100 else [])      # (sfdrive takes at most 69999 tokens per script line)
    base += [4097] if not blocks or max(blocks) < 1000 else []
    if q:
        keep = set([0, 1] + [x for x in base if x > 3])
        extra = [x for x in base if x not in keep]
        return sorted(keep) if len(keep) <= 7 else sorted(rng.choice(sorted(keep)) for _ in range(7))
    return sorted(set(base))


def gen(ctx, q):
    rng = vlib.Rng(ctx.seed * 2038074743 + 1)
    L, plan = [], []
    dist = {"files": 0, "formats": 0}
    sid = 0
    combos = {}
    for (f, ch) in formats.writable(channels=(1, 2, 3, 8), endians=("FILE", "LITTLE", "BIG") if not q else ("FILE", "BIG")):
        combos.setdefault(f, []).append(ch)
    for f in sorted(combos):
        name = formats.name(f)
        sub = name.split("/")[1]
        ts = lossless_types(sub)
        if not ts:
            continue
        dist["formats"] += 1
        chs = combos[f]
        if q:
            chs = [c for c in chs if c in (1, max(chs))] if (f >> 28) == 0 else [chs[rng.below(len(chs))]]
        w = WIDTH.get(sub, 32)
        for ch in chs:
            for t in ts:
                ns = lengths_for(name, q, rng)
                if "ALAC" in name and ch == 8 and not q:
                    ns = ns + [5000]
                elif not q and ch > 2:
                    ns = [x for x in ns if x <= 600]        # (the long files are written with 1 and 2 channels; 3 and 8 channels add the interleave, not length)
                if not q and (f >> 28) != 0 and ch > 1:
                    ns = [x for x in ns if x <= 70]         # explicit-endian variants: the byte order is per sample
                for n in ns:
                    if q and (vlib.dhash((f, ch, t, n, ctx.seed)) % 3 == 0) and n not in (0, 1):
                        continue
                    if q and n > 1000 and not ("ALAC" in name) and (ch != 1 or vlib.dhash((f, t, ctx.seed)) % 3):
                        continue
                    if q and n > 5000 and vlib.dhash((f, ch, t, ctx.seed)) % 2:
                        continue
                    noise = rng.below(4) != 0
                    vals = [sample(rng, t, w, noise) for _ in range(n * ch)]
                    if sub in WIDTH and n > 3 and rng.below(3) == 0:
                        vals = delta_walk(rng, t, w, n * ch)
                        dist["delta_walk_files"] = dist.get("delta_walk_files", 0) + 1
                    route = " p.sd2" if name.startswith("SD2/") else ""       # SD2 needs its resource fork file: path route
                    L.append("open 0 %d w %x %d 8000 12345%s" % (sid, f, ch, route))
                    cut = rng.range(0, n) if n > 1 and rng.below(2) else n
                    if cut > 0:
                        L.append("w 0 %s f %d %s" % (t, cut, " ".join(tok(t, v) for v in vals[:cut * ch])))
                    if n - cut > 0:
                        L.append("w 0 %s i %d %s" % (t, (n - cut) * ch, " ".join(tok(t, v) for v in vals[cut * ch:])))
                    L.append("close 0")
                    raw = name.startswith("RAW/")
                    L.append(("open 0 %d r 0 0 0 0%s" % (sid, route)) if not raw else "open 0 %d r %x %d 8000" % (sid, f, ch))
                    plan.append((len(L), "reopen", (name, ch, n)))
                    if n > 0:
                        L.append("r 0 %s f %d" % (t, n))
                        plan.append((len(L), "read", (name, ch, n, t, fnv_vals(vals, t))))
                    L.append("close 0")
                    dist["files"] += 1
                    sid = (sid + 1) % 30
    for f in sorted(combos):
        name = formats.name(f)
        sub = name.split("/")[1]
        if not (sub.startswith("DWVW") or sub.startswith("DPCM") or sub.startswith("ALAC")) or (f >> 28) != 0:
            continue
        w = WIDTH[sub]
        for rep in range(2 if q else 12):
            t = "i" if w > 16 or rep % 2 else "s"
            n = 6000 if not sub.startswith("ALAC") else 4200
            vals = delta_walk(rng, t, w, n)
            L.append("open 0 %d w %x 1 8000 0" % (sid, f))
            L.append("w 0 %s f %d %s" % (t, n, " ".join(str(v) for v in vals)))
            L.append("close 0")
            L.append(("open 0 %d r 0 0 0 0" % sid) if not name.startswith("RAW/") else "open 0 %d r %x 1 8000" % (sid, f))
            plan.append((len(L), "reopen", (name, 1, n)))
            L.append("r 0 %s f %d" % (t, n))
            plan.append((len(L), "read", (name, 1, n, t, fnv_vals(vals, t))))
            L.append("close 0")
            dist["files"] += 1
            dist["delta_walk_files"] = dist.get("delta_walk_files", 0) + 1
            sid = (sid + 1) % 30
    return "\n".join(L) + "\n", plan, dist


def run(ctx):
    q = ctx.tier == "quick"
    from checks import regen
    regen.gen_enums()
    regen.gen_g711()
    vlib.proof_step(ctx)
    import dpcmtie
    dpcmtie.run(ctx, 3000 if q else 60000)
    dpcmtie.run_sds(ctx, 60 if q else 3000)
    script, plan, dist = gen(ctx, q)
    ctx.distribution.update(dist)
    # model side: for the sample-granular encodings the model predicts the stored codes of every written file
    hl, ml, bad = sdrive.s_tie(ctx, "stored_codes_vs_model", script,
        "every file of the round-trip run with a sample-granular encoding: the codes in the data region and the frame count seen by the re-open equal "
        "what the conversion model writes (wr_T per sample), the values read back equal rd_T of those codes", ignore=("tail",))
    n = 0
    seen = set()
    for (ln, kind, a) in plan:
        if ln not in hl:
            continue
        d = hl[ln][1]
        n += 1
        name, ch, nfr = a[0], a[1], a[2]
        fam = formats.family(formats.MAJORS[name.split("/")[0]] | formats.SUBS[name.split("/")[1]])
        key = None
        if kind == "reopen":
            if d.get("ok") != "1":
                key, msg = "%s:cannot_reopen" % fam, "N=%d ch=%d: %s" % (nfr, ch, hl[ln][2][:200])
            elif int(d["frames"]) < nfr:
                key, msg = "%s:frames_lost" % fam, "N=%d ch=%d but the re-opened file reports %s frames" % (nfr, ch, d["frames"])
        else:
            t, want = a[3], a[4]
            if d.get("ret") != str(nfr):
                key, msg = "%s:short_read" % fam, "N=%d ch=%d type %s: read returned %s" % (nfr, ch, t, d.get("ret"))
            elif d.get("dig") != want:
                key, msg = "%s:data_differs" % fam, "N=%d ch=%d type %s: digest %s, written %s" % (nfr, ch, t, d.get("dig"), want)
        if key and fam == "PAF24" and nfr > 10 and nfr % 10 == 0:
            # the recorded PAF24 finding is about a final PARTIAL block (or a file of at most one block); a PAF24 file of several whole blocks that
            # does not round-trip is something else.  (SDS loses its final block whether it is partial or not, so no such split there.)
            key += ":whole_blocks"
        if key and key not in seen:
            seen.add(key)
            ctx.violation("rt:" + key, "%s %s" % (name, msg), "script:\n" + sdrive.section_prefix(script, ln)[-20000:] + "\n\ntranscript:\n" + hl[ln][2][:1500])
    ctx.tie("roundtrip_oracle", "oracle", n, dist["files"],
            "write N frames (split over a frame call and an item call, stale frames=12345 in SF_INFO), close, re-open, read N frames with the same type: bit identical. "
            "Every lossless (container, encoding, endian) x caller type; channels 1 and the maximum (8 for ALAC, 3/8 elsewhere); N in {0,1,2,3,B-1,B,B+1,2B+1,4097}; "
            "full-range noise with the low bits the encoding cannot hold cleared, extremes, arbitrary finite float / double bit patterns incl. subnormals")
    ctx.add_samples([hl[ln][2][:200] for (ln, k, a) in plan[:400:80] if ln in hl])
    ctx.trusted += ["PcmConv.v / Endian.v (tied by C02 / C20 and the stored-codes correspondence of this run)",
                    "Stream.v: the block structure of sds.c, paf.c, alac.c, dwvw.c is abstract (the SDS sample packing itself is concrete in Sds.v): block writers / readers are (enc, dec with dec (enc b) = b); their concrete codecs "
                    "(ALAC compression, DWVW delta code) are decided by the round-trip oracle on the implementation, not by a theorem"]

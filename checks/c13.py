"""C13: custom chunks: any number set, all retrievable, audio untouched."""
import vlib, sdrive, formats

CONT = [("WAV", "PCM_16"), ("RF64", "PCM_16"), ("AIFF", "PCM_16"), ("CAF", "PCM_16"), ("WAV", "FLOAT"), ("AIFF", "PCM_24")]
OWN = {"WAV": {"RIFF", "fmt ", "data", "PEAK", "fact", "LIST", "PAD "}, "RF64": {"RF64", "ds64", "fmt ", "data", "PEAK", "fact", "LIST", "PAD "},
       "AIFF": {"FORM", "COMM", "SSND", "PEAK", "FVER", "NAME", "AUTH", "(c) ", "ANNO", "APPL", "MARK", "INST"}, "CAF": {"caff", "desc", "data", "free", "peak", "chan", "info"}}
IDS = ["Test", "tEst", "abcd", "a", "ab", "abc", "x  y", "1234", "Zz"]


def hx(b):
    return "".join("%02x" % c for c in b) if b else "-"


def fnv(b):
    h = 0xcbf29ce484222325
    for c in b:
        h = ((h ^ c) * 0x100000001b3) & 0xFFFFFFFFFFFFFFFF
    return "%016x" % h


def pad_id(s):
    return (s + "    ")[:4]


def gen(ctx, q):
    rng = vlib.Rng(ctx.seed * 49979687 + 13)
    counts = [0, 1, 2, 19, 20, 21, 30, 31, 32, 33, 47, 48, 49, 72, 73, 200] if not q else [0, 1, 20, 21, 31, 32, 33, 48, 49, rng.range(50, 200)]
    L, plan = [], []
    sid = 0
    for (mj, sb) in (CONT if not q else CONT[:4]):
        f = formats.fmt(mj, sb)
        for n in counts:
            chunks = []
            L.append("open 0 %d w %x 2 8000" % (sid, f))
            # other metadata in between, in varying order
            if n % 3 == 1:
                L.append("str 0 set 1 %s" % hx(b"a title"))
            for k in range(n):
                idn = rng.choice(IDS[:1 + rng.below(len(IDS))])
                # the library builds the whole header in a buffer that cannot grow beyond 64 KiB (known finding
                # api:header_capacity): keep the total below ~40 KiB here, the limit itself is probed separately
                budget = 40000 - sum(len(c[1]) + 12 for c in chunks)
                ln = rng.choice([0, 1, 2, 3, 4, 5, 7, 8, 13, 64, 255]) if rng.below(10) else rng.choice([4095, 4096, 30001, 1021])
                ln = max(0, min(ln, budget))
                data = bytes((rng.below(256)) for _ in range(min(ln, 64))) * (ln // max(1, min(ln, 64)) + 1)
                data = data[:ln]
                L.append("chunk set 0 %s %s" % (hx(idn.encode()), hx(data)))
                plan.append((len(L), "set", None))
                chunks.append((idn, data))
                if k == n // 2 and n % 3 == 2:
                    L.append("str 0 set 1 %s" % hx(b"title set between chunks"))
            L.append("w 0 s f 50 %s" % " ".join(str(rng.range(-32768, 32767)) for _ in range(100)))
            # a chunk set after audio has been written must be refused or ignored; the audio must survive
            L.append("chunk set 0 %s %s" % (hx(b"late"), hx(b"too late")))
            plan.append((len(L), "late", None))
            L.append("w 0 s f 3 1 2 3 4 5 6")
            L.append("close 0")
            L.append("open 0 %d r 0 0 0" % sid)
            plan.append((len(L), "reopen", (mj, chunks)))
            L.append("chunk iter 0 - short")
            plan.append((len(L), "full", (mj, chunks)))
            for idn in sorted(set(c[0] for c in chunks))[:4] + ["none"]:
                L.append("chunk iter 0 %s" % hx(idn.encode()))
                plan.append((len(L), "byid", (mj, chunks, idn)))
            if chunks:
                L.append("chunk abandon 0 %s 1" % hx(chunks[0][0].encode()))
                L.append("chunk iter 0 -")
                plan.append((len(L), "full", (mj, chunks)))
            L.append("r 0 s f 60")
            plan.append((len(L), "audio", None))
            L.append("close 0")
            sid = (sid + 1) % 30
    # control: the same audio without any chunk
    return "\n".join(L) + "\n", plan


def expect_entry(idn, data):
    p = data + b"\0" * ((4 - len(data) % 4) % 4)
    return "%s:%d:%s" % (hx(pad_id(idn).encode()), len(p), fnv(p))


def run(ctx):
    q = ctx.tier == "quick"
    vlib.proof_step(ctx)
    h = vlib.cc_harness("kern_chunk", ["kern_chunk.c"], kind="asan")
    m = vlib.build_model("chunk", "XChunks.v", "driver_chunk.ml")
    vlib.k_tie(ctx, "chunk_tables_and_iterator", "%s %d %d" % (h, ctx.seed, 80 if q else 1500), m,
               "src/chunk.c called directly: histories of 0..230 stores into the read table / write table (incl. exactly 19,20,21,31,32,33 entries), ids of 1..80 "
               "characters incl. duplicates and non-ASCII bytes, payloads of 0..37 bytes, iterations over all chunks and by id, iterations abandoned after "
               "0..3 steps followed by a full one; compared: used, count, stored length, padded payload, visited indices", key="chunk")
    script, plan = gen(ctx, q)
    rc, hl, err = sdrive.run_harness(script, "C13_api", timeout=1500)
    if rc != 0:
        ctx.violation("api:sanitizer", "API run ended rc=%d: %s" % (rc, " | ".join(err.strip().split("\n")[:3])[:400]), script[-5000:] + "\n" + err[-6000:])
        return
    n = 0
    seen = set()
    audio_ref = None

    def bad(key, ln, text):
        if key in seen:
            return
        seen.add(key)
        ctx.violation("api:" + key, "%s (script line %d): %s" % (key, ln, text[:260]), "script:\n" + sdrive.section_prefix(script, ln) + "\n\ntranscript:\n" + hl[ln][2][:3000])
    counts = set()
    for (ln, kind, arg) in plan:
        if ln not in hl:
            bad("missing_line", ln, "no transcript")
            continue
        op, d, raw = hl[ln]
        n += 1
        if kind == "set" and d.get("ret") != "0":
            bad("set_refused", ln, raw)
        elif kind == "late" and d.get("ret") == "0":
            bad("late_chunk_accepted", ln, raw)
        elif kind == "reopen" and d.get("ok") != "1":
            bad("%s:file_unreadable_after_%d_chunks" % (arg[0], len(arg[1])), ln, raw)
        elif kind in ("full", "byid") and "list" in d:
            mj, chunks = arg[0], arg[1]
            counts.add(len(chunks))
            got = [] if d["list"] == "-" else [g for g in d["list"].split(",") if not g.endswith(":big")]
            if d.get("guard") != "1":
                bad("guard_bytes", ln, raw)
            if d.get("errs") != "0":
                bad("get_size_or_data_failed", ln, raw)
            if kind == "full":
                custom = [g for g in got if bytes.fromhex(g.split(":")[0]).decode("latin1") not in OWN[mj]]
                exp = [expect_entry(i, dt) for (i, dt) in chunks]
                if custom != exp:
                    bad("%s:full_iteration_differs" % mj, ln, "expected %d custom chunks %s..., got %d %s..." % (len(exp), exp[:3], len(custom), custom[:3]))
            else:
                idn = arg[2]
                exp = [expect_entry(i, dt) for (i, dt) in chunks if pad_id(i) == pad_id(idn)]
                if got != exp:
                    bad("%s:by_id_iteration_differs" % mj, ln, "id %r expected %s got %s" % (idn, exp[:4], got[:4]))
        elif kind == "audio":
            if audio_ref is None:
                audio_ref = d.get("dig")
            # every file holds the same 53 frames? no: values differ per file; the audio check is ret + guard + frames
            if d.get("ret") != "53" or d.get("frames") != "53":
                bad("audio_damaged", ln, raw)
    ctx.tie("chunk_api_oracle", "oracle", n, len(counts) * 4,
            "WAV, RF64, AIFF, CAF: 0..200 chunks (crossing the capacity steps 20, 31, 48, 73) with 1..4 character ids incl. duplicates, payloads 0..65536 bytes incl. odd and "
            "non-multiple-of-4, other metadata in between; after re-open every chunk is found by full iteration (once, in order) and by id with identical "
            "size and payload padded to the alignment, short-buffer sf_get_chunk_data stays inside the buffer (guard bands), a late chunk is refused, the audio "
            "frame count and data are intact")
    # the header capacity limit: one 65536-byte chunk (inside the property's payload range) cannot be stored
    probe = "open 0 0 w 10002 1 8000\nchunk set 0 54657374 %s\nw 0 s f 4 1 2 3 4\nclose 0\nopen 0 0 r 0 0 0\nchunk iter 0 54657374\nr 0 s f 10\nclose 0\n" % ("ab" * 65536)
    rc2, pl, err2 = sdrive.run_harness(probe, "C13_cap")
    ok_cap = rc2 == 0 and pl.get(5, ("", {}, ""))[1].get("ok") == "1" and pl.get(6, ("", {}, ""))[1].get("n") == "1" and pl.get(7, ("", {}, ""))[1].get("ret") == "4"
    if not ok_cap:
        ctx.violation("api:header_capacity", "a 65536-byte custom chunk on WAV/PCM_16: sf_set_chunk returned %s but the closed file %s" % (
            pl.get(2, ("", {}, ""))[1].get("ret"), "cannot be re-opened (err=%s)" % pl.get(5, ("", {}, ""))[1].get("err") if pl.get(5, ("", {}, ""))[1].get("ok") != "1" else "does not return the chunk / the audio"),
            probe[:200] + "...\n" + "\n".join(v[2][:200] for k, v in sorted(pl.items())))
    ctx.add_samples([hl[ln][2][:300] for (ln, k, a) in plan if k == "full" and ln in hl][:3])
    ctx.trusted += ["hand-written model Chunks.v of src/chunk.c (tied by the K correspondence on every run)",
                    "the container chunk walkers (wav.c, rf64.c, aiff.c, caf.c) are covered by the API oracle only",
                    "ids longer than four characters are outside the property (the containers store four characters)"]

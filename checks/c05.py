"""C05: read and write calls honour their count, bounds and position contract."""
import vlib, sdrive, wrappers, formats, gens


def gen_script(ctx, q):
    rng = vlib.Rng(ctx.seed * 7919 + 5)
    combos = [c for c in formats.writable(channels=(1, 2, 3), subs=formats.GRANULAR, endians=("FILE", "BIG") if not q else ("FILE",))
              if formats.is_granular(c[0])]
    if q:
        # one channel count per (container, encoding), rotating, plus every combination for WAV / AIFF / RAW
        keep = []
        for i, (f, ch) in enumerate(combos):
            mj = formats.name(f).split("/")[0]
            if mj in ("WAV", "AIFF", "RAW") or (vlib.dhash((f, ctx.seed)) + ch) % 3 == 0:
                keep.append((f, ch))
        combos = keep
    L = []
    dist = {"formats": len(combos), "reads": 0, "writes": 0, "straddle": 0, "eof": 0, "invalid": 0, "junk_tail": 0, "big": 0}
    sid = 0
    for (f, ch) in combos:
        sub = formats.name(f).split("/")[1]
        ts = gens.types_for(sub)
        nfr = rng.choice([1, 2, 7, 33, 100]) if rng.below(6) else rng.choice([1366, 4097 // ch + 1])
        L.append("open 0 %d w %x %d 8000" % (sid, f, ch))
        left = nfr
        while left > 0:
            k = min(left, rng.choice([1, 2, 3, 5, 16, 64, 5000]))
            t = rng.choice(ts)
            var = rng.choice("if")
            n = k if var == "f" else k * ch
            L.append("w 0 %s %s %d %s" % (t, var, n, " ".join(gens.values(rng, t, min(k * ch, 48), sub))))
            dist["writes"] += 1
            if k * ch > 4096:
                dist["big"] += 1
            left -= k
        L.append("close 0")
        junk = rng.below(3) == 0 and formats.name(f).split("/")[0] in ("WAV", "AIFF", "AU", "W64", "CAF", "RAW", "WAVEX", "RF64", "NIST", "IRCAM", "PVF")
        if junk:
            # bytes after the audio (whole frames of them, as a trailing chunk would be): the codec can transfer
            # more than sf.frames allows and the wrapper's clamp has to cut it
            width = {"PCM_S8": 1, "PCM_U8": 1, "ULAW": 1, "ALAW": 1, "PCM_16": 2, "PCM_24": 3, "PCM_32": 4, "FLOAT": 4, "DOUBLE": 8}[sub]
            nb = width * ch * rng.choice([1, 3, 8])
            if formats.name(f).split("/")[0] != "RAW":
                L.append("store %d append %s" % (sid, "".join("%02x" % rng.below(256) for _ in range(nb))))
                dist["junk_tail"] += 1
        L.append(("open 0 %d r 0 0 0" % sid) if not formats.name(f).startswith("RAW/") else "open 0 %d r %x %d 8000" % (sid, f, ch))      # header-less: opened with its parameters
        # reads through every entry point: small, straddling the end, at the end, misaligned
        pos = 0
        for step in range(rng.range(4, 9)):
            t = rng.choice(ts)
            var = rng.choice("if")
            remaining = max(0, nfr - pos)
            kind = rng.below(6)
            if kind == 0 and remaining > 2:
                # seek somewhere, then read over the end
                target = rng.range(0, nfr)
                L.append("seek 0 %d 0" % target)
                pos = target
                remaining = nfr - pos
            k = rng.choice([1, 2, 3, remaining, remaining + 1, remaining + 5, max(1, remaining - 1), 4097])
            if k <= 0:
                k = 1
            n = k if var == "f" else k * ch
            L.append("r 0 %s %s %d" % (t, var, n))
            dist["reads"] += 1
            if k > remaining > 0:
                dist["straddle"] += 1
            if remaining == 0:
                dist["eof"] += 1
            pos = min(nfr, pos + k)
            if ch > 1 and rng.below(5) == 0:
                L.append("r 0 %s i %d" % (rng.choice(ts), ch * 2 + 1))
                dist["invalid"] += 1
        # all 8 entry points straddling the end from frame nfr-1 (the clamp branch of each wrapper)
        for t in ts:
            for var in "if":
                L.append("seek 0 %d 0" % max(0, nfr - 1))
                L.append("r 0 %s %s %d" % (t, var, 3 if var == "f" else 3 * ch))
                dist["reads"] += 1
                dist["straddle"] += 1
        L.append("close 0")
        sid = (sid + 1) % 30
    return "\n".join(L) + "\n", dist


def run(ctx):
    q = ctx.tier == "quick"
    from checks import regen
    regen.gen_enums()
    vlib.proof_step(ctx)
    diff = wrappers.tie(ctx, relevant=["sf_read", "sf_write", "VALIDATE", "psf_default_seek"])
    script, dist = gen_script(ctx, q)
    ctx.distribution.update(dist)
    hl, ml, bad = sdrive.s_tie(ctx, "wrappers_vs_model", script,
        "write then read scripts over every container x sample-granular encoding x channels{1,2,3}: all 16 read/write entry points, request sizes "
        "1 / odd / > remaining / > 8 KiB staging, reads straddling the end (incl. files with trailing bytes after the audio), at end of data, "
        "misaligned counts; compared fields: return value, error, read/write positions, frame count, file cursor, digest of delivered items, tail class")
    guard_bad = [l for ln, (op, d, l) in hl.items() if d.get("guard") == "0" or "INVARIANT" in d]
    if guard_bad:
        ctx.violation("guard", "caller buffer guard bytes damaged / handle invariant broken: %s" % guard_bad[0][:200], "\n".join(guard_bad[:20]) + "\n\nscript:\n" + script[:20000])
    # the property's own clauses that the (faithful) model does not guarantee: a whole number of frames
    ch = 1
    src = script.split("\n")
    partial = []
    for ln in sorted(hl):
        op, d, l = hl[ln]
        if op == "open" and "ch" in d:
            ch = int(d["ch"])
            fmtw = int(d["fmt"], 16)
        elif op == "r" and "ret" in d and src[ln - 1].split()[3] == "i" and int(d["ret"]) % ch:
            partial.append((ln, formats.name(fmtw), ch, l))
    if partial:
        ln, fn, c, l = partial[0]
        pad = all(p[1].split("/")[1] in ("PCM_S8", "PCM_U8", "ULAW", "ALAW") or "PCM_24" in p[1] for p in partial)
        ctx.violation("read:partial_frame_pad_byte" if pad else "read:partial_frame",
                      "item-count read returned %s items on a %d-channel %s file: not a whole number of frames (%d such calls)" % (hl[ln][1]["ret"], c, fn, len(partial)),
                      "script:\n" + sdrive.minimal_prefix(script, ln) + "\n\ntranscript line:\n" + l)
    ctx.add_samples([l for ln, (op, d, l) in sorted(hl.items()) if op in ("r", "w")][:400:80])
    if diff:
        ctx.broken_proofs.append(("wrapper_transcription(%s)" % ",".join(diff),
                                  "the source text of %s no longer matches the text Api.v was transcribed from" % ", ".join(diff), None))
    block_codec_oracle(ctx, q)
    raw_oracle(ctx, q)
    ctx.trusted += ["hand-written wrapper model Api.v (tied by the transcription check and the script correspondence on every run)",
                    "data region located through SF_PRIVATE.dataoffset; conversions of PcmConv.v (tied by C02)",
                    "block codecs (IMA, MS, GSM, G72x, NMS, VOX, DWVW, DPCM, PAF24, SDS, ALAC) are covered by the contract oracle on the implementation only, not by the model"]


def raw_oracle(ctx, q):
    """sf_read_raw / sf_write_raw on the sample-granular encodings: 0 <= ret <= requested bytes, whole frames, the position moves by ret / blockwidth,
    guard bands intact, the bytes are the file's bytes at that position, short only at the end of the data"""
    rng = vlib.Rng(ctx.seed * 524287 + 5)
    # (SD2 needs the path route; VOC is left out: its terminator byte is delivered as data -- the recorded finding reopen:VOC:frame_count_long)
    combos = [c for c in formats.writable(channels=(1, 2, 3)) if formats.is_granular(c[0]) and formats.name(c[0]).split("/")[0] not in ("SD2", "VOC")]
    if q:
        combos = [c for i, c in enumerate(combos) if formats.name(c[0]).split("/")[0] in ("WAV", "AIFF", "RAW", "AU") or i % 5 == 0]
    L, plan = [], []
    sid = 0
    WIDTH = {"PCM_S8": 1, "PCM_U8": 1, "ULAW": 1, "ALAW": 1, "PCM_16": 2, "PCM_24": 3, "PCM_32": 4, "FLOAT": 4, "DOUBLE": 8}
    for (f, ch) in combos:
        nm = formats.name(f)
        bw = WIDTH[nm.split("/")[1]] * ch
        nfr = 1000
        rawp = ("%x %d 8000" % (f, ch)) if nm.startswith("RAW/") else "0 0 0"
        L.append("open 0 %d w %x %d 8000" % (sid, f, ch))
        L.append("rw 0 %d %s" % (nfr * bw, " ".join(str(rng.below(256)) for _ in range(61))))
        plan.append((len(L), "w", nm, ch, bw, nfr * bw, nfr))
        L.append("close 0")
        L.append("open 0 %d r %s" % (sid, rawp))
        left = nfr
        # pieces whose item count (frames x channels) exceeds the frames that remain while the byte count does not, then over the end, then at the end
        for k in (300, 300, 300, 50, 100, 5):
            L.append("rr 0 %d" % (k * bw))
            plan.append((len(L), "r", nm, ch, bw, k * bw, left))
            left = max(0, left - k)
        L.append("close 0")
        sid = (sid + 1) % 30
    script = "\n".join(L) + "\n"
    rc, hl, err = sdrive.run_harness(script, "C05_raw")
    if rc != 0:
        ctx.violation("raw:sanitizer", "raw read / write contract run ended rc=%d: %s" % (rc, err.strip().split("\n")[0][:300]), script[:20000] + "\n" + err[-4000:])
        return
    n, seen = 0, set()
    for (ln, kind, nm, ch, bw, req, left) in plan:
        if ln not in hl or "ret" not in hl[ln][1]:
            continue
        n += 1
        d = hl[ln][1]
        ret = int(d["ret"])
        want = req if kind == "w" else min(req, left * bw)
        problems = []
        if not (0 <= ret <= req):
            problems.append("return %d outside [0, %d]" % (ret, req))
        elif ret != want:
            problems.append("returned %d, %d bytes were available for a request of %d" % (ret, left * bw if kind == "r" else req, req))
        if d.get("guard") != "1":
            problems.append("guard bytes damaged")
        if ret % bw:
            problems.append("not a whole number of frames")
        if problems:
            key = "raw:%s:%s" % (nm.split("/")[0], kind)
            if key not in seen:
                seen.add(key)
                ctx.violation(key, "%s %d channels: sf_%s_raw: %s" % (nm, ch, "read" if kind == "r" else "write", "; ".join(problems)),
                              "script:\n" + sdrive.section_prefix(script, ln)[-3000:] + "\n\ntranscript:\n" + hl[ln][2][:400])
    ctx.tie("raw_io_oracle", "oracle", n, len(combos),
            "sf_write_raw of 1000 frames and sf_read_raw in pieces of 300 / 300 / 300 / 50 / 100 / 5 frames on every sample-granular container x encoding x channels{1,2,3}: byte count "
            "returned, whole frames, guard bands (the 300-frame pieces of multi-channel files hold more items than frames remain, the last pieces run over and sit at the end of the data)")


def family(f):
    """codec family used in finding keys: SDS (all widths), PAF24, else container/encoding"""
    n = formats.name(f)
    if n.startswith("SDS/"):
        return "SDS"
    if n.startswith("PAF/PCM_24"):
        return "PAF24"
    if n.startswith("RAW/DWVW"):
        return "RAW/DWVW"
    return n


def block_codec_oracle(ctx, q):
    """the contract itself, checked on the implementation for the encodings the model does not cover:
    0 <= r <= requested, position advance = r, guard bands intact, zero fill at EOF, short only at the end"""
    rng = vlib.Rng(ctx.seed * 31 + 7)
    combos = [c for c in formats.writable(channels=(1, 2)) if not formats.is_granular(c[0])]
    L = []
    plan = []
    sid = 0
    for (f, ch) in combos:
        nfr = rng.choice([37, 500, 1027])
        L.append("open 0 %d w %x %d 8000" % (sid, f, ch))
        L.append("w 0 s f %d %s" % (nfr, " ".join(str(rng.range(-20000, 20000)) for _ in range(40))))
        L.append("close 0")
        rawp = ("%x %d 8000" % (f, ch)) if formats.name(f).startswith("RAW/") else "0 0 0"      # header-less files are opened with their parameters
        L.append("open 0 %d r %s" % (sid, rawp))
        o = len(L)
        for step in range(6 if q else 20):
            t = rng.choice("sifd")
            var = rng.choice("if")
            k = rng.choice([1, 3, 63, 64, 65, 505, 2000])
            L.append("r 0 %s %s %d" % (t, var, k if var == "f" else k * ch))
            plan.append((len(L), f, ch, var, k))
        L.append("r 0 s f 100000")
        plan.append((len(L), f, ch, "f", 100000))
        L.append("r 0 s f 5")
        plan.append((len(L), f, ch, "f", 5))
        L.append("close 0")
        sid = (sid + 1) % 30
        # requests larger than the internal staging buffers (2048 .. 4096 items) and not a multiple of them, every caller type, data to spare
        big = 14000 // ch
        L.append("open 0 %d w %x %d 8000" % (sid, f, ch))
        L.append("w 0 s f %d %s" % (big, " ".join(str(rng.range(-20000, 20000)) for _ in range(40))))
        L.append("close 0")
        L.append("open 0 %d r %s" % (sid, rawp))
        for (t, items) in (("i", 4097), ("f", 5000), ("d", 2049), ("s", 4099)):
            k = (items + ch - 1) // ch
            L.append("r 0 %s i %d" % (t, k * ch))
            plan.append((len(L), f, ch, "i", k))
        L.append("close 0")
        sid = (sid + 1) % 30
    script = "\n".join(L) + "\n"
    rc, hl, err = sdrive.run_harness(script, "C05_block")
    if rc != 0:
        ctx.violation("block:sanitizer", "block codec contract run ended rc=%d: %s" % (rc, err.strip().split("\n")[0][:300]), script[:20000] + "\n" + err[-4000:])
        return
    n = 0
    bad = []
    prev = {}
    for (ln, f, ch, var, k) in plan:
        if ln not in hl:
            continue
        op, d, raw = hl[ln]
        if "ret" not in d:
            continue
        n += 1
        ret = int(d["ret"])
        rpos, frames = int(d["rpos"]), int(d["frames"])
        before = prev.get(f, {}).get(ch, 0) if False else None
        fr = ret if var == "f" else ret // ch
        problems = []
        if not (0 <= ret <= k * (1 if var == "f" else ch)):
            problems.append("return out of range")
        if var == "i" and ret % ch:
            problems.append("not a whole number of frames")
        if d.get("guard") != "1":
            problems.append("guard bytes")
        if fr < k and rpos != frames:
            problems.append("short read before the end (rpos=%d frames=%d)" % (rpos, frames))
        if d.get("err") != "0":
            problems.append("error set")
        if problems:
            key = "%s:%s" % (family(f), problems[0].split(" (")[0].replace(" ", "_"))
            bad.append((key, raw))
    # position advance: consecutive lines of the same handle
    last = None
    for ln in sorted(hl):
        op, d, raw = hl[ln]
        if op == "open":
            last = 0
        elif op == "r" and last is not None and "rpos" in d:
            pl = [p for p in plan if p[0] == ln]
            if pl:
                ret = int(d["ret"])
                fr = ret if pl[0][3] == "f" else ret // pl[0][2]
                if int(d["rpos"]) != last + fr:
                    bad.append(("%s:position_advance" % family(pl[0][1]), raw))
            last = int(d["rpos"])
    ctx.tie("block_codec_contract_oracle", "oracle", n, len(set((p[1], p[2], p[3], p[4]) for p in plan)),
            "property oracle on the implementation for every block encoding x channels{1,2}: return range, whole frames, position advance, guard bands, short only at end")
    seen = set()
    for key, raw in bad:
        if key in seen:
            continue
        seen.add(key)
        ctx.violation("block:" + key, "read contract violated: %s: %s" % (key, raw[:200]), raw + "\n\nscript:\n" + script[:30000])

"""C09: invalid calls fail cleanly; valid calls leave no error."""
import vlib, sdrive, wrappers, formats, gens

REPR = [("WAV", "PCM_16", 2), ("AIFF", "PCM_24", 3), ("AU", "FLOAT", 1), ("RAW", "PCM_32", 2), ("W64", "ULAW", 2), ("CAF", "PCM_16", 2),
        ("WAVEX", "PCM_U8", 2), ("NIST", "ALAW", 2), ("PAF", "PCM_16", 2), ("SVX", "PCM_S8", 2), ("IRCAM", "PCM_32", 2), ("RF64", "DOUBLE", 2)]


def invalid_calls(mode, ch, ts, nfr):
    """(script line with handle 0, class) for every kind of invalid call the handle mode admits"""
    out = []
    for t in ts:
        for var in "if":
            if mode == "w":
                out.append(("r 0 %s %s %d" % (t, var, ch * 2 if var == "i" else 2), "read_on_write_handle"))
            if mode == "r":
                out.append(("w 0 %s %s %d 1 2 3 4 5 6" % (t, var, ch * 2 if var == "i" else 2) if t in "si" else
                            "w 0 %s %s %d 3f000000" % (t, var, ch * 2 if var == "i" else 2) if t == "f" else
                            "w 0 %s %s %d 3fe0000000000000" % (t, var, ch * 2 if var == "i" else 2), "write_on_read_handle"))
            if mode in "rx":
                out.append(("r 0 %s %s %d" % (t, var, -ch if var == "i" else -1), "negative_read_count"))
            if mode in "wx":
                out.append(("w 0 %s %s %d" % (t, var, -ch if var == "i" else -1), "negative_write_count"))
        if ch > 1:
            if mode in "rx":
                out.append(("r 0 %s i %d" % (t, ch + 1), "misaligned_read"))
                out.append(("r 0 %s i %d" % (t, 2 * ch - 1), "misaligned_read"))
            if mode in "wx":
                out.append(("w 0 %s i %d" % (t, ch + 1), "misaligned_write"))
    for wh in (3, 7, 99, 4 | 16, 1 | 48, 2 | 48):
        out.append(("seek 0 0 %d" % wh, "unknown_whence"))
    out.append(("seek 0 -1 0", "seek_before_start"))
    out.append(("seek 0 -%d 2" % (nfr + 1000), "seek_before_start"))
    if mode == "r":
        out.append(("seek 0 %d 0" % (nfr + 1), "seek_past_end"))
        out.append(("seek 0 1 2", "seek_past_end"))
        out.append(("seek 0 0 32", "wrong_mode_whence"))
        out.append(("seek 0 0 33", "wrong_mode_whence"))
    if mode == "w":
        out.append(("seek 0 0 16", "wrong_mode_whence"))
        out.append(("seek 0 0 18", "wrong_mode_whence"))
    return out


def gen_script(ctx, q):
    rng = vlib.Rng(ctx.seed * 32452843 + 9)
    L, plan = [], []
    dist = {}
    sid = 0
    reprs = REPR if not q else REPR[:7]
    for (mj, sb, ch) in reprs:
        f = formats.fmt(mj, sb)
        ts = gens.types_for(sb)
        raw = mj == "RAW"
        nfr = 12
        for mode in "rwx":
            calls = invalid_calls(mode, ch, ts, nfr)
            if q:
                calls = [c for i, c in enumerate(calls) if (i + ctx.seed + len(mj)) % 2 == 0 or c[1] in ("misaligned_read", "misaligned_write")]
            for prefix in ("none", "read", "write", "seek"):
                if prefix == "read" and mode == "w" or prefix == "write" and mode == "r":
                    continue
                for group_start in range(0, len(calls), 6):
                    group = calls[group_start:group_start + 6]
                    # build the file
                    L.append("open 0 %d w %x %d 8000" % (sid, f, ch))
                    t0 = ts[0]
                    L.append("w 0 %s f %d %s" % (t0, nfr, " ".join(gens.values(rng, t0, nfr * ch, sb))))
                    L.append("close 0")
                    if mode == "w":
                        L.append("open 0 %d w %x %d 8000" % (sid, f, ch))
                        L.append("w 0 %s f 3 %s" % (t0, " ".join(gens.values(rng, t0, 3 * ch, sb))))
                    else:
                        L.append("open 0 %d %s 0 0 0" % (sid, mode) if not raw else "open 0 %d %s %x %d 8000" % (sid, mode, f, ch))
                    if prefix == "read":
                        L.append("r 0 %s f 2" % rng.choice(ts))
                    elif prefix == "write":
                        t = rng.choice(ts)
                        L.append("w 0 %s f 2 %s" % (t, " ".join(gens.values(rng, t, 2 * ch, sb))))
                        if mode == "x":
                            L.append("seek 0 1 16")     # read pointer behind the write pointer, last op stays a write
                            L.append("w 0 %s f 1 %s" % (t, " ".join(gens.values(rng, t, ch, sb))))
                    elif prefix == "seek" and mode != "w":
                        L.append("seek 0 5 0")
                    for (call, cls) in group:
                        L.append("state 0")
                        L.append(call)
                        plan.append((len(L), cls, call.split()[0]))
                        dist[cls] = dist.get(cls, 0) + 1
                        L.append("err 0")
                        L.append("state 0")
                        # a valid call right after: it must behave as if the invalid one never happened, and clear the error
                        if mode in "wx":
                            t = rng.choice(ts)
                            L.append("w 0 %s f 1 %s" % (t, " ".join(gens.values(rng, t, ch, sb))))
                        else:
                            L.append("r 0 %s f 1" % rng.choice(ts))
                        L.append("err 0")
                    L.append("close 0")
                    L.append("open 0 %d r 0 0 0" % sid if not raw else "open 0 %d r %x %d 8000" % (sid, f, ch))
                    L.append("r 0 %s f 100" % ts[0])
                    L.append("close 0")
                    sid = (sid + 1) % 30
    return "\n".join(L) + "\n", dist, plan


def failed_open_script(ctx, q):
    """opens that must fail: garbage and truncated files in read mode (virtual and descriptor route), impossible formats in write mode"""
    rng = vlib.Rng(ctx.seed + 99)
    L, plan = [], []
    L.append("open 0 0 w 10002 2 8000")
    L.append("w 0 s f 8 1 2 3 4 5 6 7 8 9 10 11 12 13 14 15 16")
    L.append("close 0")
    for n in (0, 1, 3, 4, 8, 11, 12, 15, 19, 20, 35, 43):
        for route in ("v", "d", "p"):
            L.append("store 1 copy 0")
            L.append("store 1 trunc %d" % n)
            L.append("open 1 1 r 0 0 0 0 %s" % route)
            plan.append(len(L))
            L.append("err -")
            L.append("close 1")
    for k in range(10 if q else 60):
        L.append("store 1 hex %s" % "".join("%02x" % rng.below(256) for _ in range(rng.choice([5, 16, 64, 300]))))
        L.append("open 1 1 r 0 0 0 0 %s" % rng.choice("vd"))
        plan.append(len(L))
        L.append("err -")
        L.append("close 1")
    for (fm, ch, rate) in ((0x10002, 0, 8000), (0x10002, 2, 0), (0x10002, 2000, 8000), (0x990002, 1, 8000), (0x10099, 1, 8000), (0x20012, 3, 8000), (0x60002, 1, 8000), (0x0, 1, 8000)):
        for route in "vd":
            L.append("open 1 1 w %x %d %d 0 %s" % (fm, ch, rate, route))
            plan.append(len(L))
            L.append("err -")
            L.append("close 1")
    return "\n".join(L) + "\n", plan


def metadata_invalid_calls(ctx, q):
    """rejected metadata calls: a refused sf_set_string / sf_set_chunk / SFC_SET_* must leave the handle (the strings already stored included) as it was"""
    L, plan = [], []
    sid = 0
    for (mj, sb) in (("WAV", "PCM_16"), ("AIFF", "PCM_16"), ("CAF", "PCM_16"), ("RF64", "PCM_16"), ("WAVEX", "FLOAT")):
        f = formats.fmt(mj, sb)
        for mode in ("w", "r"):
            L.append("open 0 %d w %x 2 8000" % (sid, f))
            L.append("str 0 set 1 7469746c65")          # title
            L.append("str 0 set 2 636f7079")            # copyright
            L.append("str 0 set 4 617274697374")        # artist
            if mode == "r":
                L += ["w 0 s f 10 1 2 3 4", "close 0", "open 0 %d r 0 0 0" % sid]
            invalid = [("str 0 set 1", "empty_string"), ("str 0 set 2", "empty_string"), ("str 0 set 4", "empty_string"), ("str 0 set 99 6162", "bad_string_type"),
                       ("str 0 set 0 6162", "bad_string_type")]
            if mode == "r":
                invalid = [("str 0 set 1 6e6577", "set_string_on_read_handle"), ("chunk set 0 54657374 0102", "set_chunk_on_read_handle")]
            for (line, cls) in invalid:
                L.append("state 0")
                a = len(L)
                L.append(line)
                b = len(L)
                L.append("state 0")
                c = len(L)
                L.append("str 0 get 1")
                L.append("str 0 get 2")
                L.append("str 0 get 4")
                plan.append((a, b, c, len(L) - 2, mj, mode, cls, line))
            L.append("close 0")
            sid = (sid + 1) % 30
    script = "\n".join(L) + "\n"
    rc, hl, err = sdrive.run_harness(script, "C09_meta")
    if rc != 0:
        ctx.violation("invalid_metadata:sanitizer", "rejected metadata calls: run ended rc=%d: %s" % (rc, err.strip().split("\n")[0][:300]), script + "\n" + err[-3000:])
        return
    n, seen = 0, set()
    for (a, b, c, g, mj, mode, cls, line) in plan:
        if a not in hl or c not in hl or b not in hl:
            continue
        n += 1
        d = hl[b][1]
        probs = []
        if d.get("ret") in ("0",) and cls != "set_chunk_on_read_handle":
            probs.append("not refused (ret=0)")
        if hl[a][1].get("dig") != hl[c][1].get("dig"):
            probs.append("handle state changed")
        vals = [hl.get(g + k, ("", {}, ""))[1].get("val") for k in range(3)]
        if vals != ["x7469746c65", "x636f7079", "x617274697374"]:
            probs.append("stored strings changed: %s" % vals)
        if probs:
            key = "invalid_metadata:%s:%s" % (cls, mode)
            if key not in seen:
                seen.add(key)
                ctx.violation(key, "%s (%s handle): `%s` (%s): %s" % (mj, "write" if mode == "w" else "read", line, cls, "; ".join(probs)),
                              "script:\n" + sdrive.section_prefix(script, c)[-2500:] + "\n\ntranscript:\n" + "\n".join(hl[k][2][:200] for k in (a, b, c, g, g + 1, g + 2) if k in hl))
    ctx.tie("rejected_metadata_calls", "oracle", n, len(plan),
            "sf_set_string with an empty string or an unknown type on a write handle that already holds strings, sf_set_string / sf_set_chunk on a read handle (WAV, AIFF, CAF, RF64, WAVEX): "
            "refused, state digest unchanged (the string table is part of it), the stored strings still read back")


def run(ctx):
    q = ctx.tier == "quick"
    from checks import regen
    regen.gen_enums()
    vlib.proof_step(ctx)
    diff = wrappers.tie(ctx)
    script, dist, plan = gen_script(ctx, q)
    ctx.distribution.update(dist)
    hl, ml, bad = sdrive.s_tie(ctx, "invalid_call_sandwiches", script,
        "per representative format x mode{read,write,rdwr} x preceding operation{none,read,write(+read pointer behind),seek}: every kind of invalid call "
        "(wrong mode through all 8 read / 8 write entry points, misaligned item counts, negative counts, unknown whence, out-of-range and wrong-mode seeks), "
        "each followed by a valid call, close and a read-only re-open; model comparison of every field incl. the file cursor")
    # the property's own clauses on the implementation
    n = 0
    seen = set()
    for (ln, cls, op) in plan:
        if ln not in hl or "ret" not in hl[ln][1]:
            continue
        n += 1
        d = hl[ln][1]
        probs = []
        if d["ret"] != ("-1" if op == "seek" else "0"):
            probs.append("return=%s" % d["ret"])
        if d["err"] == "0":
            probs.append("no_error_recorded")
        if hl.get(ln + 1, ("", {}, ""))[1].get("msg") != "1":
            probs.append("empty_error_text")
        if hl[ln - 1][1].get("dig") != hl[ln + 2][1].get("dig"):
            probs.append("state_changed")
        if op == "r" and d.get("tail") not in ("u", "-"):
            probs.append("buffer_touched")
        nxt = hl.get(ln + 4, ("", {}, ""))[1]
        if nxt.get("code") not in ("0", None):
            probs.append("valid_call_left_error")
        if probs:
            key = "%s:%s" % (cls, probs[0])
            if key not in seen:
                seen.add(key)
                ctx.violation("invalid:" + key, "invalid call (%s) not rejected cleanly: %s: %s" % (cls, ",".join(probs), hl[ln][2][:200]),
                              "script:\n" + sdrive.section_prefix(script, ln + 2) + "\n\ntranscript:\n" + "\n".join(hl[k][2] for k in range(ln - 1, ln + 5) if k in hl))
    ctx.tie("rejection_oracle", "oracle", n, len(set((c, o) for _, c, o in plan)),
            "each invalid call: documented failure value, non-zero error with a non-empty text, state digest (positions, frame count, settings, metadata, last_op) "
            "equal before/after, caller buffer untouched, the next valid call leaves sf_error at 0")
    fscript, fplan = failed_open_script(ctx, q)
    rc, fl, err = sdrive.run_harness(fscript, "C09_failed_open")
    if rc != 0:
        ctx.violation("failed_open:sanitizer", "failed-open run ended rc=%d (leak or memory error): %s" % (rc, err.strip().split("\n")[0][:300]), fscript[:8000] + "\n" + err[-4000:])
    nf = 0
    for ln in fplan:
        if ln not in fl:
            continue
        d = fl[ln][1]
        if d.get("ok") == "1":
            continue
        nf += 1
        probs = []
        if d.get("err") == "0":
            probs.append("no_global_error")
        if d.get("msg") != "1":
            probs.append("empty_message")
        if d.get("fdalive") == "1":
            probs.append("descriptor_left_open")
        e = fl.get(ln + 1, ("", {}, ""))[1]
        if e.get("code") != d.get("err"):
            probs.append("sf_error(NULL)_differs")
        if probs and ("failed_open:" + probs[0]) not in seen:
            seen.add("failed_open:" + probs[0])
            ctx.violation("failed_open:" + probs[0], "failed sf_open not clean: %s: %s" % (",".join(probs), fl[ln][2][:200]), sdrive.section_prefix(fscript, ln + 1))
    ctx.tie("failed_open_oracle", "oracle", nf, nf, "truncated / random byte strings and impossible write formats through sf_open_virtual, sf_open_fd(close_desc=1) and sf_open: "
            "NULL, global error set with a message, descriptor closed, no leak (LeakSanitizer at exit)")
    ctx.add_samples([hl[ln][2] for (ln, c, o) in plan[:300:60] if ln in hl])
    if diff:
        ctx.broken_proofs.append(("wrapper_transcription(%s)" % ",".join(diff),
                                  "the source text of %s no longer matches the text Api.v was transcribed from" % ", ".join(diff), None))
    metadata_invalid_calls(ctx, q)
    ctx.trusted += ["hand-written wrapper model Api.v (transcription check + script correspondence on every run)",
                    "invalid pointer arguments other than NULL are outside the property"]

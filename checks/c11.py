"""C11: after a header update the bytes on disk are already a valid file (crash points)."""
import vlib, sdrive, formats, gens

HEADERED = ["AIFF", "AU", "AVR", "CAF", "HTK", "IRCAM", "MAT4", "MAT5", "MPC2K", "NIST", "PAF", "PVF", "RF64", "SDS", "SVX", "VOC", "W64", "WAV", "WAVEX", "WVE", "XI"]


def gen(ctx, q):
    rng = vlib.Rng(ctx.seed * 920419823 + 11)
    L, plan = [], []
    combos = [c for c in formats.writable(channels=(1, 2)) if formats.name(c[0]).split("/")[0] in HEADERED and "ALAC" not in formats.name(c[0])]
    if q:
        combos = [c for i, c in enumerate(combos) if c[1] == 1 or (i + ctx.seed) % 3 == 0]
    for (f, ch) in combos:
        name = formats.name(f)
        mj, sb = name.split("/")
        ts = "fd" if sb in ("FLOAT", "DOUBLE") else "s"
        # block length of this format: the frame count a one-frame file reports
        L.append("open 0 0 w %x %d 8000" % (f, ch))
        L.append("w 0 %s f 1 %s" % (ts[0], " ".join(gens.values(rng, ts[0], ch, sb if sb in ("ULAW", "ALAW") else None))))
        L.append("close 0")
        L.append("open 2 0 r 0 0 0")
        plan.append((len(L), "probe", (f, ch)))
        L.append("close 2")
        for mode in ("auto", "now"):
            if q and vlib.dhash((f, ch, mode, ctx.seed)) % 2:
                continue
            L.append("open 0 0 w %x %d 8000" % (f, ch))
            if mode == "auto":
                L.append("cmd 0 SET_UPDATE_HEADER_AUTO 1")
            written = 0
            sizes = [rng.choice([1, 7, 63, 64, 65, 160, 505, 506, 1021]) for _ in range(rng.range(2, 5))]
            crash = []
            for k in sizes:
                t = rng.choice(ts)
                L.append("w 0 %s f %d %s" % (t, k, " ".join(gens.values(rng, t, min(k * ch, 40), sb if sb in ("ULAW", "ALAW") else None))))
                written += k
                if mode == "now":
                    L.append("cmd 0 UPDATE_HEADER_NOW 0")
                # crash point: copy the bytes stored so far and parse them with a second handle
                L.append("store 1 copy 0")
                L.append("open 1 1 r 0 0 0")
                plan.append((len(L), "snap_open", dict(name=name, f=f, ch=ch, written=written, mode=mode)))
                L.append("r 1 %s f %d" % (ts[0], written + 5000))
                plan.append((len(L), "snap_read", len(crash)))
                L.append("close 1")
                crash.append(written)
            L.append("close 0")
            L.append("open 1 0 r 0 0 0")
            plan.append((len(L), "final_open", None))
            L.append("close 1")
            # the finished file: the prefixes the snapshots delivered must be prefixes of it (a fresh handle each: not every codec can seek)
            for i in range(len(crash)):
                L.append("open 1 0 r 0 0 0")
                L.append("r 1 %s f FRAMES%d" % (ts[0], i))
                plan.append((len(L), "final_prefix", i))
                L.append("close 1")
    return L, plan


def overwrite_scenario(ctx, q):
    """header updates while the write position is NOT at the end of the file: write 100 frames, seek back to frame 10, write 20 frames, update;
    the image must still describe all 100 frames and deliver what the finished file delivers"""
    rng = vlib.Rng(ctx.seed * 15485867 + 11)
    L, plan = [], []
    # (VOC is left out: its terminator-byte defects -- recorded under crash:VOC:* and reopen:VOC:frame_count -- would only show up once more)
    combos = [c for c in formats.writable(channels=(1, 2)) if formats.name(c[0]).split("/")[0] in HEADERED and formats.is_granular(c[0]) and not formats.name(c[0]).startswith("VOC/")]
    if q:
        combos = [c for i, c in enumerate(combos) if c[1] == 1 or i % 4 == 0]
    for (f, ch) in combos:
        name = formats.name(f)
        sb = name.split("/")[1]
        t = "f" if sb in ("FLOAT", "DOUBLE") else "s"
        for mode in ("auto", "now"):
            L.append("open 0 0 w %x %d 8000" % (f, ch))
            if mode == "auto":
                L.append("cmd 0 SET_UPDATE_HEADER_AUTO 1")
            L.append("w 0 %s f 100 %s" % (t, " ".join(gens.values(rng, t, 40, sb if sb in ("ULAW", "ALAW") else None))))
            L.append("seek 0 10 0")
            plan.append((len(L), "seek", name))
            L.append("w 0 %s f 20 %s" % (t, " ".join(gens.values(rng, t, 40, sb if sb in ("ULAW", "ALAW") else None))))
            if mode == "now":
                L.append("cmd 0 UPDATE_HEADER_NOW 0")
            L.append("store 1 copy 0")
            L.append("open 1 1 r 0 0 0")
            plan.append((len(L), "image", dict(name=name, f=f, ch=ch, mode=mode)))
            L.append("r 1 %s f 5000" % t)
            plan.append((len(L), "image_read", None))
            L.append("close 1")
            L.append("close 0")
            L.append("open 1 0 r 0 0 0")
            plan.append((len(L), "final", None))
            L.append("r 1 %s f 5000" % t)
            plan.append((len(L), "final_read", None))
            L.append("close 1")
    script = "\n".join(L) + "\n"
    rc, hl, err = sdrive.run_harness(script, "C11_overwrite", timeout=900)
    if rc != 0:
        ctx.violation("crash:sanitizer", "overwrite scenario ended rc=%d: %s" % (rc, err.strip().split("\n")[0][:300]), script[-4000:] + "\n" + err[-4000:])
        return 0
    seen, n = set(), 0
    cur, seek_ok, img = None, False, None
    for (ln, kind, a) in plan:
        if ln not in hl:
            continue
        d = hl[ln][1]
        if kind == "seek":
            seek_ok = d.get("ret") == "10"
        elif kind == "image":
            cur, img = a, None
            if not seek_ok:
                cur = None          # the container cannot seek while writing: the scenario does not exist for it
                continue
            n += 1
            fam = formats.family(a["f"])
            key = None
            if d.get("ok") != "1":
                key, msg = "%s:overwrite_image_unreadable" % fam, hl[ln][2][:160]
            else:
                F = int(d["frames"])
                if not (100 <= F <= 101):
                    key, msg = "%s:overwrite_image_frames" % fam.split("/")[0], "100 frames written, then frames 10..29 rewritten (%s header update): the image's header says %d frames" % (a["mode"], F)
            if key and key not in seen:
                seen.add(key)
                ctx.violation("crash:" + key, "%s ch=%d: %s" % (a["name"], a["ch"], msg), "script:\n" + sdrive.section_prefix(script, ln)[-4000:] + "\n\ntranscript:\n" + hl[ln][2][:600])
        elif kind == "image_read" and cur:
            img = (d.get("ret"), d.get("dig"))
        elif kind == "final_read" and cur and img:
            fin = (d.get("ret"), d.get("dig"))
            fam = formats.family(cur["f"])
            key = "%s:overwrite_image_differs_from_final_file" % fam.split("/")[0]
            if img[0] in ("100", "101") and fin != img and key not in seen:
                seen.add(key)
                ctx.violation("crash:" + key, "%s ch=%d (%s): the image delivers %s, the finished file %s although nothing was written in between" % (cur["name"], cur["ch"], cur["mode"], img, fin),
                              "script:\n" + sdrive.section_prefix(script, ln)[-4000:])
    return n


def run(ctx):
    q = ctx.tier == "quick"
    vlib.proof_step(ctx)
    L, plan = gen(ctx, q)
    # two passes: the prefix lengths to read from the finished file are the frame counts the snapshots reported
    script1 = "\n".join(l if "FRAMES" not in l else "info 1" for l in L) + "\n"
    rc, h1, err = sdrive.run_harness(script1, "C11_pass1", timeout=1800)
    if rc != 0:
        ctx.violation("crash:sanitizer", "crash-point run ended rc=%d: %s" % (rc, " | ".join(err.strip().split("\n")[:3])[:400]), script1[-4000:] + "\n" + err[-4000:])
        return
    snapframes = []
    cur = []
    for (ln, kind, a) in plan:
        if kind == "snap_open":
            cur.append(int(h1[ln][1].get("frames", "0")) if ln in h1 and h1[ln][1].get("ok") == "1" else 0)
        elif kind == "final_open":
            snapframes.append(cur)
            cur = []
    out, fi = [], 0
    it = iter(snapframes)
    curframes = None
    started = False
    for l in L:
        if l.startswith("open 1 0 r") and not started:
            curframes = next(it)
            started = True
        if l.startswith("open 0 0 w"):
            started = False
        if "FRAMES" in l:
            idx = int(l.split("FRAMES")[1])
            l = l.split("FRAMES")[0] + str(max(1, curframes[idx]))
        out.append(l)
    script = "\n".join(out) + "\n"
    rc, hl, err = sdrive.run_harness(script, "C11_pass2", timeout=1800)
    if rc != 0:
        ctx.violation("crash:sanitizer", "crash-point run ended rc=%d" % rc, script[-4000:] + "\n" + err[-4000:])
        return
    seen = set()
    n = 0
    snaps = []
    info = None
    block = {}
    for (ln, kind, a) in plan:
        if ln not in hl:
            continue
        d = hl[ln][1]
        if kind == "probe":
            if d.get("ok") == "1":
                nm = formats.name(a[0])
                # codec block lengths for the containers whose header records the exact frame count
                table = 320 if "GSM610" in nm and nm.split("/")[0] in ("WAV", "W64") else 160 if "GSM610" in nm or "NMS" in nm else 120 if "G72" in nm else \
                    2 if "VOX" in nm else 10 if nm.startswith("PAF/PCM_24") else 60 if nm.startswith("SDS") else 32 if "DWVW" in nm else 1
                block[a] = max(1, int(d["frames"]), table)
            continue
        if kind == "snap_open":
            n += 1
            info = a
            fam = formats.family(a["f"])
            key = None
            if d.get("ok") != "1":
                key, msg = "%s:image_unreadable" % fam, "after %d frames (%s): %s" % (a["written"], a["mode"], hl[ln][2][:160])
                snaps.append(None)
            else:
                F = int(d["frames"])
                rate_fixed = a["name"].split("/")[0] in ("XI", "WVE")
                if int(d["ch"]) != a["ch"] or (int(d["fmt"], 16) & 0x0FFFFFFF) != (a["f"] & 0x0FFFFFFF) or (d["rate"] != "8000" and not rate_fixed):
                    key, msg = "%s:image_parameters" % fam, "image reports %s" % hl[ln][2][:200]
                elif F > a["written"] + (1 if (a["written"] * int(d["blockwidth"] or 0)) % 2 else 0):
                    key, msg = "%s:image_announces_unwritten_frames" % fam, "%d frames written (%s mode), image header says %d" % (a["written"], a["mode"], F)
                elif F < a["written"] - (block.get((a["f"], a["ch"]), 1) - 1):
                    key, msg = "%s:image_frames_short" % fam, "%d frames written (%s mode, block %d), image header says %d" % (a["written"], a["mode"], block.get((a["f"], a["ch"]), 1), F)
                snaps.append(F)
            if key and key not in seen:
                seen.add(key)
                ctx.violation("crash:" + key, "%s ch=%d: %s" % (a["name"], a["ch"], msg), "script:\n" + sdrive.section_prefix(script, ln)[-6000:] + "\n\ntranscript:\n" + hl[ln][2][:600])
        elif kind == "snap_read":
            F = snaps[-1]
            if F is not None:
                if int(d.get("ret", "-1")) != F and ("%s:image_delivers_other_than_header" % formats.family(info["f"])) not in seen:
                    key = "%s:image_delivers_other_than_header" % formats.family(info["f"])
                    seen.add(key)
                    ctx.violation("crash:" + key, "%s ch=%d: image header says %d frames, reading delivers %s" % (info["name"], info["ch"], F, d.get("ret")),
                                  "script:\n" + sdrive.section_prefix(script, ln)[-6000:] + "\n\ntranscript:\n" + hl[ln][2][:600])
                snaps[-1] = (F, d.get("dig"), d.get("ret"))
        elif kind == "final_open":
            finals = [s for s in snaps]
            snaps = []
        elif kind == "final_prefix":
            s = finals[a] if a < len(finals) else None
            if isinstance(s, tuple) and s[0] > 0 and s[2] == str(s[0]):
                n += 1
                if d.get("dig") != s[1] and info is not None:
                    key = "%s:image_data_is_not_a_prefix" % formats.family(info["f"])
                    if key not in seen:
                        seen.add(key)
                        ctx.violation("crash:" + key, "%s ch=%d: the %d frames the crash image delivered differ from the first %d frames of the finished file" % (info["name"], info["ch"], s[0], s[0]),
                                      "script:\n" + sdrive.section_prefix(script, ln)[-6000:])
    ctx.tie("crash_point_oracle", "oracle", n, n,
            "every container with a rewritable header x encoding (ALAC excluded) x channels{1,2}: 2..4 writes of sizes {1,7,63,64,65,160,505,506,1021} frames with "
            "SFC_SET_UPDATE_HEADER_AUTO or an explicit SFC_UPDATE_HEADER_NOW after each; after every one the stored bytes are copied and opened by a second handle: "
            "same parameters, frame count <= frames written (== for sample-granular encodings, whole blocks otherwise), reading delivers exactly that count, and those "
            "frames equal the first frames of the finished file")
    n2 = overwrite_scenario(ctx, q)
    ctx.tie("overwrite_update_oracle", "oracle", n2, n2,
            "every seekable sample-granular container x encoding: 100 frames written, frames 10..29 rewritten after a seek, header updated (auto / explicit) while the write "
            "position is in the middle of the file: the image still announces all 100 frames and delivers exactly what the finished file delivers")
    ctx.add_samples([hl[ln][2][:200] for (ln, k, a) in plan if k == "snap_open" and ln in hl][:5])
    ctx.trusted += ["Stream.v (block writers abstract)", "header writers / parsers are decided by the crash-image oracle", "block rounding of lossy codecs: the image may hold fewer frames than written, by less than one block"]

"""T1: regenerate Gallina tables from the working tree (coq/gen/Gen_*.v)."""
import os
import vlib


def gen_g711():
    h = vlib.cc_harness("dump_g711", [os.path.join(vlib.VERIF, "translator", "dump_g711.c")], kind="plain")
    rc, out, err = vlib.run([h], timeout=60)
    if rc != 0 or "ulaw_decode_tab" not in out:
        raise vlib.BuildError("T1 dump_g711 failed: " + err[-2000:])
    vlib.write_if_changed(os.path.join(vlib.COQ, "gen", "Gen_G711.v"), out)


ALL = [gen_g711]


def regen_all():
    for f in ALL:
        f()

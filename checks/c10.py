"""C10: sf_format_check agrees with what can really be written; format lists are sound."""
import vlib
from checks import regen


def run(ctx):
    q = ctx.tier == "quick"
    regen.gen_enums()
    regen.gen_format_check()        # T2: a refusal of the translator raises BuildError -> violation (tie broken)
    regen.gen_format_tables()
    # the enumeration lists on the implementation side (the theorem lists_sound is about the same dump): a concrete failing query, if there is one
    import os, re
    gen = open(os.path.join(vlib.COQ, "gen", "Gen_Formats.v")).read()
    for what, pat in (("format_info_missing", r"first listed format SFC_GET_FORMAT_INFO does not answer with the same name: (0x[0-9a-f]+) \((.*?)\)"),
                      ("format_info_unlisted", r"first unlisted format SFC_GET_FORMAT_INFO accepts: (0x[0-9a-f]+)")):
        mm = re.search(pat, gen)
        if mm:
            ctx.violation("lists:" + what, "SFC_GET_FORMAT_INFO disagrees with the enumeration commands for format %s %s" % (mm.group(1), mm.group(2) if mm.lastindex > 1 else ""),
                          "sf_command (NULL, SFC_GET_FORMAT_INFO, &info, sizeof (info)) with info.format = %s, compared with SFC_GET_FORMAT_MAJOR / SFC_GET_FORMAT_SUBTYPE over all indices\n(translator/dump_formats.c prints the dump)" % mm.group(1))
    for name in ("simple_list", "major_list", "subtype_list"):
        mm = re.search(r"Definition %s_out_of_range_accepted : Z := (\d+)" % name, gen)
        if mm and mm.group(1) != "0":
            ctx.violation("lists:%s_out_of_range" % name, "the %s enumeration command accepts %s indices outside 0 .. count-1" % (name, mm.group(1)), "indices -3 .. count+3 through the SFC_GET_* command of %s" % name)
    vlib.proof_step(ctx)
    h = vlib.cc_harness("grid_open", ["grid_open.c"], kind="asan")
    m = vlib.build_model("fc", "XFc.v", "driver_fc.ml")
    tier = "quick" if q else "thorough"
    vlib.k_tie(ctx, "format_check_translation", "%s fc %s %d" % (h, tier, ctx.seed), m,
               "sf_format_check (C) against the extracted translation fc: the COMPLETE grid majors x subtypes x endian{4} x channels{0,1,2,3,8,9,256,257,1024,1025} x "
               "rates{-1,0,1,8000,44100,2^31-1} plus PRNG format words / channel counts / rates", key="fc", exhaustive=False)
    n, bad, mism = vlib.k_tie(ctx, "write_grid_vs_table", "%s open %s %d" % (h, tier, ctx.seed), m,
               "the property's grid on the implementation: open for write on a memory store (stale frames=12345), one frame through each of the four sample "
               "types, close, re-open, same container / encoding / channels; compared with the write-mode table Writable.v "
               "(quick: all ten channel counts, all six rates for 1 and 2 channels and 44100 Hz for the others; thorough: the complete grid)", key="grid",
               exhaustive=not q, mismatch_is_violation=False, timeout=3000)
    # classify: the table is the reference for "can really be written"; a disagreement is either a defect of the library
    # (accepted by sf_format_check but not writable) or of the table
    seen = set()
    for l in mism:
        w = l.split()
        fmt, ch, rate, impl, detail = int(w[2], 16), int(w[3]), int(w[4]), w[5], w[6]
        import formats
        # finding key: container, what failed, and the extreme parameter that matters (the subtype does not enter)
        key = "grid:%s:%s" % (formats.name(fmt).split("/")[0], detail.split("_err")[0].split("=")[0])
        if rate not in (44100, 8000):
            key += ":rate=%d" % rate
        elif ch not in (1, 2):
            key += ":channels=%d" % ch
        if key in seen:
            continue
        seen.add(key)
        ctx.violation(key, "format %s channels=%d rate=%d: write-mode table says %s, implementation: %s" % (formats.name(fmt), ch, rate, "writable" if impl == "0" else "not writable", detail),
                      "\n".join(x for x in mism if x.split()[2] == w[2])[:4000])
    # the known disagreement between sf_format_check and every open: sample rate 0 (theorem format_check_agrees_refuted)
    rc, out, err = vlib.run("%s open quick %d | grep -c ' 0 0 open_failed'" % (h, ctx.seed), timeout=600)
    ctx.expect_known("fc:samplerate_zero", True)
    if "fc:samplerate_zero" not in ctx.known:
        ctx.violation("fc:samplerate_zero", "sf_format_check returns TRUE for samplerate 0 but every sf_open (write) refuses it (validate_sfinfo): WAV/PCM_16 1 channel rate 0",
                      "theorem format_check_agrees_refuted (Properties_C10.v); replay: sf_format_check ({format=0x10002, channels=1, samplerate=0}) == 1, sf_open (SFM_WRITE) == NULL")
    ctx.trusted += ["T2 translator translator/fc2gallina.py (refuses anything outside its subset; its output is compared with sf_format_check on the complete grid every run)",
                    "hand-written write-mode table Writable.v (tied by the grid enumeration on every run)",
                    "T1 dump of the enumeration lists through the public commands"]

#!/usr/bin/env python3
"""developer helper: ./mk theories/X.vo ...  (regenerates _CoqProject/Makefile first)"""
import sys, os, time
sys.path.insert(0, os.path.join(os.path.dirname(os.path.abspath(__file__)), "lib"))
import vlib
t = time.time()
ok, log = vlib.coq_make(sys.argv[1:])
print(log[-3000:])
print("OK" if ok else "FAILED", "%.1fs" % (time.time() - t))
sys.exit(0 if ok else 1)

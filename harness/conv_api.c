/* S/K tie for C02 (and the PCM part of C01): conversions through the public API on RAW files held in
   memory.  Every line is one sample:
     W <enc> <B|L> <T> <norm> <clip> <scale> <input> <stored code hex>
     R <enc> <B|L> <T> <norm> <clip> <scale> <stored code hex> <output>
   enc in s8 u8 p16 p24 p32 ul al f32 f64; T in s i f d; ints decimal, floats as hex bit patterns.
   usage: conv_api <seed> <mode: quick|thorough> */
#include <stdio.h>
#include <stdlib.h>
#include <string.h>
#include <math.h>
#include "prng.h"
#include "vio_mem.h"

static const struct { const char *name ; int fmt ; int bytes ; } ENCS [] =
{	{ "s8", SF_FORMAT_PCM_S8, 1 }, { "u8", SF_FORMAT_PCM_U8, 1 }, { "p16", SF_FORMAT_PCM_16, 2 }, { "p24", SF_FORMAT_PCM_24, 3 },
	{ "p32", SF_FORMAT_PCM_32, 4 }, { "ul", SF_FORMAT_ULAW, 1 }, { "al", SF_FORMAT_ALAW, 1 }, { "f32", SF_FORMAT_FLOAT, 4 }, { "f64", SF_FORMAT_DOUBLE, 8 }
} ;
#define NENC 9

static float f_of (uint32_t u) { float f ; memcpy (&f, &u, 4) ; return f ; }
static uint32_t u_of (float f) { uint32_t u ; memcpy (&u, &f, 4) ; return u ; }
static double d_of (uint64_t u) { double f ; memcpy (&f, &u, 8) ; return f ; }
static uint64_t ud_of (double f) { uint64_t u ; memcpy (&u, &f, 8) ; return u ; }

static VIO_MEM mem ;
static int thorough ;

static void print_code (const unsigned char *b, int n, int big)
{	/* print as the unsigned integer the bytes denote in the file's byte order */
	if (big) for (int i = 0 ; i < n ; i++) printf ("%02x", b [i]) ;
	else for (int i = n - 1 ; i >= 0 ; i--) printf ("%02x", b [i]) ;
}

static SNDFILE * open_raw (int enc, int big, int mode)
{	SF_INFO info ; memset (&info, 0, sizeof (info)) ;
	info.samplerate = 8000 ; info.channels = 1 ;
	info.format = SF_FORMAT_RAW | ENCS [enc].fmt | (big ? SF_ENDIAN_BIG : SF_ENDIAN_LITTLE) ;
	SNDFILE *f = sf_open_virtual (&vio_mem_io, mode, &info, &mem) ;
	if (! f) { fprintf (stderr, "open failed enc=%s: %s\n", ENCS [enc].name, sf_strerror (NULL)) ; exit (2) ; }
	return f ;
}
static void settings (SNDFILE *f, int norm, int clip, int scale, int reading)
{	sf_command (f, SFC_SET_NORM_FLOAT, NULL, norm) ;
	sf_command (f, SFC_SET_NORM_DOUBLE, NULL, norm) ;
	sf_command (f, SFC_SET_CLIPPING, NULL, clip) ;
	if (reading) sf_command (f, SFC_SET_SCALE_FLOAT_INT_READ, NULL, scale) ;
	else sf_command (f, SFC_SET_SCALE_INT_FLOAT_WRITE, NULL, scale) ;
}

/* ---- input sets ---- */
static int n_s, n_i, n_f, n_d ;
static short *in_s ; static int *in_i ; static float *in_f ; static double *in_d ;

static void add_f (float v) { in_f [n_f++] = v ; }
static void add_d (double v) { in_d [n_d++] = v ; }
static void make_inputs (void)
{	int nr = thorough ? 60000 : 1000 ;
	in_s = malloc (70000 * sizeof (short)) ; in_i = malloc ((140000 + nr) * sizeof (int)) ;
	in_f = malloc ((400000 + 8 * nr) * sizeof (float)) ; in_d = malloc ((400000 + 8 * nr) * sizeof (double)) ;
	for (int v = -32768 ; v <= 32767 ; v++) in_s [n_s++] = v ;
	/* ints: all top halves with low half 0 / 0xFFFF / 0x8000 (thorough) or stride (quick), boundaries, random */
	for (int v = -32768 ; v <= 32767 ; v += thorough ? 1 : 17)
	{	in_i [n_i++] = (int) ((uint32_t) v << 16) ; in_i [n_i++] = (int) (((uint32_t) v << 16) | 0xFFFFu) ; }
	{ static const int b [] = { 0, 1, -1, 255, 256, 257, -255, -256, -257, 65535, 65536, -65536, -65537, 8388607, 8388608, -8388608, -8388609, 16777215, 16777216, 16777217, 2147483647, -2147483647, -2147483647 - 1, 2147483520, 2147483583, 2147483584, 0x7FFFFF00, 0x7FFF0000, 0x7F000000 } ;
	  for (unsigned k = 0 ; k < sizeof (b) / sizeof (b [0]) ; k++) in_i [n_i++] = b [k] ; }
	for (int k = 0 ; k < nr ; k++) in_i [n_i++] = (int) rnd32 () ;
	/* floats: for each width w, k/K and (k+1/2)/K around 0, +-1, +-max; halves; out of range; random */
	static const double K [] = { 127, 128, 32767, 32768, 8388607, 8388608, 2147483647.0, 2147483648.0, 8191.75, 2047.9375, 1 } ;
	for (unsigned q = 0 ; q < sizeof (K) / sizeof (K [0]) ; q++)
	{	double lim = K [q] > 40000 ? (thorough ? 300 : 100) : (K [q] < 2 ? 40000 : K [q] + 40) ;
		double step = (thorough || lim < 400) ? 0.5 : 37.5 ;
		for (double k = -lim ; k <= lim ; k += step)
		{	add_f ((float) (k / K [q])) ; add_d (k / K [q]) ;
			if (K [q] > 40000)
			{	add_f ((float) ((K [q] - 150 + k) / K [q])) ; add_d ((K [q] - 150 + k) / K [q]) ;
				add_f ((float) (-(K [q] - 150 + k) / K [q])) ; add_d (-(K [q] - 150 + k) / K [q]) ;
				} ;
			} ;
		} ;
	/* double rounding probes: doubles a hair away from a rounding boundary (k + 1/2) / K -- closer than float precision, so a converter
	   that rounds the scaled double through float lands on the boundary and then on the wrong side */
	for (unsigned q = 0 ; q < sizeof (K) / sizeof (K [0]) ; q++)
		for (int k = -75 ; k <= 75 ; k += (k > -4 && k < 4) ? 1 : 7)
		{	double h = (k + 0.5) / K [q] ;
			add_d (h * (1 + 1e-9)) ; add_d (h * (1 - 1e-9)) ; add_d (nextafter (h, 10.0)) ; add_d (nextafter (h, -10.0)) ;
			add_f ((float) h) ; add_f (nextafterf ((float) h, 10.0f)) ; add_f (nextafterf ((float) h, -10.0f)) ; add_f ((float) (h * (1 + 1e-6))) ;
			} ;
	{ static const double b [] = { 0.0, -0.0, 1.0, -1.0, 0.99999994, -0.99999994, 1.0000001, 0.9999999999999999, -0.9999999999999999, 1.0000000000000002, 2.0, -2.0, 1.5, -1.5, 100.0, -100.0, 1e10, -1e10, 3e38, -3e38, 1e-10, -1e-10, 1e-40, 32767.0, 32767.5, 32768.0, -32768.5, -32769.0, 2147483647.0, 2147483648.0, -2147483648.0, -2147483649.0, 4294967296.0, 0.5, -0.5, 0.25, 2.5, 3.5, -2.5, -3.5, 8388607.5, 8388606.5, 127.5, 126.5, -127.5, -128.5 } ;
	  for (unsigned k = 0 ; k < sizeof (b) / sizeof (b [0]) ; k++) { add_f ((float) b [k]) ; add_d (b [k]) ; } }
	for (int k = 0 ; k < nr ; k++)
	{	uint64_t r = rnd64 () ;
		add_f (f_of ((uint32_t) ((r >> 63) << 31) | ((uint32_t) (100 + (r >> 8) % 32) << 23) | ((r >> 20) & 0x7FFFFF))) ;	/* 2^-27 .. 2^4 */
		add_d (d_of (((r >> 63) << 63) | ((1023 - 27 + (r >> 8) % 32) << 52) | (rnd64 () & 0xFFFFFFFFFFFFFULL))) ;
		add_f (((int32_t) rnd32 ()) / 2147483648.0f) ; add_d (((int32_t) rnd32 ()) / 2147483648.0) ;
		add_f ((float) (int32_t) (rnd32 () >> (r & 31))) ; add_d ((double) (int32_t) (rnd32 () >> (r & 31)) + ((r >> 5) & 1) * 0.5) ;
		} ;
}

static void do_writes (int enc, int big, char T, int norm, int clip, int scale)
{	int n = T == 's' ? n_s : T == 'i' ? n_i : T == 'f' ? n_f : n_d ;
	vio_reset (&mem) ;
	SNDFILE *f = open_raw (enc, big, SFM_WRITE) ;
	settings (f, norm, clip, scale, 0) ;
	sf_count_t w = 0 ;
	switch (T)
	{	case 's' : w = sf_write_short (f, in_s, n) ; break ;
		case 'i' : w = sf_write_int (f, in_i, n) ; break ;
		case 'f' : w = sf_write_float (f, in_f, n) ; break ;
		case 'd' : w = sf_write_double (f, in_d, n) ; break ;
		} ;
	sf_close (f) ;
	int nb = ENCS [enc].bytes ;
	if (w != n || mem.len != (sf_count_t) n * nb) { fprintf (stderr, "short write enc=%s T=%c w=%ld len=%ld\n", ENCS [enc].name, T, (long) w, (long) mem.len) ; exit (3) ; }
	for (int k = 0 ; k < n ; k++)
	{	printf ("W %s %c %c %d %d %d ", ENCS [enc].name, big ? 'B' : 'L', T, norm, clip, scale) ;
		switch (T)
		{	case 's' : printf ("%d ", in_s [k]) ; break ;
			case 'i' : printf ("%d ", in_i [k]) ; break ;
			case 'f' : printf ("%x ", u_of (in_f [k])) ; break ;
			case 'd' : printf ("%llx ", (unsigned long long) ud_of (in_d [k])) ; break ;
			} ;
		print_code (mem.data + (size_t) k * nb, nb, big) ;
		printf ("\n") ;
		} ;
}

static void do_reads (int enc, int big, char T, int norm, int clip, int scale, const unsigned char *codes, int n)
{	int nb = ENCS [enc].bytes ;
	vio_set (&mem, codes, (sf_count_t) n * nb) ;
	SNDFILE *f = open_raw (enc, big, SFM_READ) ;
	settings (f, norm, clip, scale, 1) ;
	void *out = malloc ((size_t) n * 8) ;
	sf_count_t r = 0 ;
	switch (T)
	{	case 's' : r = sf_read_short (f, out, n) ; break ;
		case 'i' : r = sf_read_int (f, out, n) ; break ;
		case 'f' : r = sf_read_float (f, out, n) ; break ;
		case 'd' : r = sf_read_double (f, out, n) ; break ;
		} ;
	if (r != n) { fprintf (stderr, "short read enc=%s T=%c r=%ld n=%d\n", ENCS [enc].name, T, (long) r, n) ; exit (3) ; }
	double fmax = 0 ;
	if (scale && enc >= 7) sf_command (f, SFC_CALC_SIGNAL_MAX, &fmax, sizeof (fmax)) ;
	sf_close (f) ;
	for (int k = 0 ; k < n ; k++)
	{	printf ("R %s %c %c %d %d %d ", ENCS [enc].name, big ? 'B' : 'L', T, norm, clip, scale) ;
		print_code (codes + (size_t) k * nb, nb, big) ;
		switch (T)
		{	case 's' : printf (" %d", ((short*) out) [k]) ; break ;
			case 'i' : printf (" %d", ((int*) out) [k]) ; break ;
			case 'f' : printf (" %x", u_of (((float*) out) [k])) ; break ;
			case 'd' : printf (" %llx", (unsigned long long) ud_of (((double*) out) [k])) ; break ;
			} ;
		if (scale && enc >= 7) printf (" %llx", (unsigned long long) ud_of (fmax)) ;
		printf ("\n") ;
		} ;
	free (out) ;
}

static void put_code (unsigned char *b, int nb, int big, uint64_t c)
{	for (int i = 0 ; i < nb ; i++) { int sh = big ? 8 * (nb - 1 - i) : 8 * i ; b [i] = (c >> sh) & 0xFF ; }
}

int main (int argc, char **argv)
{	uint64_t seed = argc > 1 ? strtoull (argv [1], 0, 10) : 1 ;
	thorough = argc > 2 && strcmp (argv [2], "thorough") == 0 ;
	prng_seed (seed, 31337) ;
	make_inputs () ;
	const char *TS = "sifd" ;
	/* ---- writes ---- */
	for (int enc = 0 ; enc < NENC ; enc++)
		for (int big = 0 ; big < 2 ; big++)
		{	if (ENCS [enc].bytes == 1 && big) continue ;
			for (int t = 0 ; t < 4 ; t++)
			{	char T = TS [t] ;
				int isflt = (T == 'f' || T == 'd') ;
				if (enc >= 7)
				{	/* float files: int types with/without scaling; float types pass through */
					if (! isflt) { do_writes (enc, big, T, 1, 0, 0) ; do_writes (enc, big, T, 1, 0, 1) ; }
					else do_writes (enc, big, T, 1, 0, 0) ;
					continue ;
					} ;
				if (! isflt) { do_writes (enc, big, T, 1, 0, 0) ; continue ; }
				for (int norm = 0 ; norm < 2 ; norm++)
					for (int clip = 0 ; clip < 2 ; clip++)
					{	if ((enc == 5 || enc == 6) && clip) continue ;	/* G.711 has no clipping path; out-of-range input indexes outside the table */
						do_writes (enc, big, T, norm, clip, 0) ;
						} ;
				} ;
			} ;
	/* ---- reads ---- */
	for (int enc = 0 ; enc < NENC ; enc++)
		for (int big = 0 ; big < 2 ; big++)
		{	int nb = ENCS [enc].bytes ;
			if (nb == 1 && big) continue ;
			int n ; unsigned char *codes ;
			if (nb <= 2) { n = 1 << (8 * nb) ; codes = malloc ((size_t) n * nb) ; for (int c = 0 ; c < n ; c++) put_code (codes + (size_t) c * nb, nb, big, c) ; }
			else if (enc < 7)
			{	int nr = thorough ? 200000 : 3000 ; n = 0 ; codes = malloc ((size_t) (nr + 70000) * nb) ;
				uint64_t top = 1ULL << (8 * nb) ;
				for (int64_t d = -260 ; d <= 260 ; d++) { put_code (codes + (size_t) n++ * nb, nb, big, (uint64_t) d & (top - 1)) ; put_code (codes + (size_t) n++ * nb, nb, big, ((top >> 1) + d) & (top - 1)) ; }
				for (int v = 0 ; v < 65536 ; v += thorough ? 1 : 29) put_code (codes + (size_t) n++ * nb, nb, big, ((uint64_t) v << (8 * nb - 16)) | (rnd32 () & ((1u << (8 * nb - 16)) - 1))) ;
				for (int k = 0 ; k < nr ; k++) put_code (codes + (size_t) n++ * nb, nb, big, rnd64 () & (top - 1)) ;
				}
			else
			{	/* float / double files: finite values in a range the integer reads can scale */
				int m = thorough ? n_f : (n_f < 6000 ? n_f : 6000) ; n = 0 ; codes = malloc ((size_t) m * nb) ;
				for (int k = 0 ; k < m ; k++)
				{	uint64_t c ;
					if (nb == 4) { float v = in_f [(size_t) k * (n_f / m)] ; if (! isfinite (v)) continue ; c = u_of (v) ; }
					else { double v = in_d [(size_t) k * (n_d / m)] ; if (! isfinite (v)) continue ; c = ud_of (v) ; }
					put_code (codes + (size_t) n++ * nb, nb, big, c) ;
					} ;
				} ;
			for (int t = 0 ; t < 4 ; t++)
			{	char T = TS [t] ;
				int isflt = (T == 'f' || T == 'd') ;
				if (enc >= 7)
				{	if (isflt) do_reads (enc, big, T, 1, 0, 0, codes, n) ;
					else for (int clip = 0 ; clip < 2 ; clip++) for (int scale = 0 ; scale < 2 ; scale++) do_reads (enc, big, T, 1, clip, scale, codes, n) ;
					continue ;
					} ;
				if (! isflt) do_reads (enc, big, T, 1, 0, 0, codes, n) ;
				else for (int norm = 0 ; norm < 2 ; norm++) do_reads (enc, big, T, norm, 0, 0, codes, n) ;
				} ;
			free (codes) ;
			} ;
	return 0 ;
}

/* K tie for coq/theories/Fp.v: hardware float operations on bit patterns.
   lines: <op> <hex a> [<hex b>] <result>   usage: kern_fp <seed> <n> */
#include <stdio.h>
#include <stdlib.h>
#include <string.h>
#include <math.h>
#include "prng.h"
#include "sfconfig.h"
#include "sndfile.h"
#include "common.h"

static float f_of (uint32_t u) { float f ; memcpy (&f, &u, 4) ; return f ; }
static uint32_t u_of (float f) { uint32_t u ; memcpy (&u, &f, 4) ; return u ; }
static double d_of (uint64_t u) { double f ; memcpy (&f, &u, 8) ; return f ; }
static uint64_t ud_of (double f) { uint64_t u ; memcpy (&u, &f, 8) ; return u ; }

/* float patterns aimed at rounding boundaries: integers + 1/2, +-1, tiny, huge */
static uint32_t pick32 (void)
{	uint64_t r = rnd64 () ;
	switch (r & 15)
	{	case 0 : return (uint32_t) (r >> 16) ;
		case 1 : return u_of ((float) ((int) ((r >> 16) % 70000) - 35000) + 0.5f) ;
		case 2 : return u_of (((int) ((r >> 16) % 66000) - 33000) / 32767.0f) ;
		case 3 : return u_of (((int) ((r >> 16) % 66000) - 33000 + 0.5f) / 32767.0f) ;
		case 4 : { static const float t [] = { 0.0f, -0.0f, 1.0f, -1.0f, 0.99999994f, -0.99999994f, 1.0000001f, 0.5f, 1e-30f, 1.1754944e-38f, 1e-45f, 3.4028235e38f, 32767.f, 32768.f, -32768.f, 2147483648.f, -2147483648.f, 2147483520.f, 8388607.f, 8388608.f, 127.f, 128.f, 1.5f, 2.5f, -1.5f, -2.5f, 0.49999997f } ; return u_of (t [(r >> 16) % (sizeof (t) / 4)]) ; }
		case 5 : return u_of ((float) (int32_t) (r >> 20)) ;
		case 6 : return u_of (((int32_t) (r >> 32)) / 2147483648.0f) ;
		case 7 : return u_of (((int) ((r >> 16) % 17000000) - 8500000 + ((r >> 8) & 1) * 0.5f) / 8388607.0f) ;
		case 8 : return u_of (((int) ((r >> 16) % 300) - 150 + ((r >> 8) & 1) * 0.5f) / 127.0f) ;
		default : { uint32_t e = 100 + (r >> 8) % 60 ; return ((r >> 63) << 31) | (e << 23) | ((r >> 20) & 0x7FFFFF) ; }
		} ;
}
static uint64_t pick64 (void)
{	uint64_t r = rnd64 () ;
	switch (r & 7)
	{	case 0 : return rnd64 () ;
		case 1 : return ud_of ((double) ((int) ((r >> 16) % 70000) - 35000) + 0.5) ;
		case 2 : return ud_of ((((int64_t) (r >> 16)) % 4400000000LL - 2200000000LL + 0.5) / 2147483647.0) ;
		case 3 : return ud_of ((double) f_of (pick32 ())) ;
		case 4 : { static const double t [] = { 0.0, -0.0, 1.0, -1.0, 0.5, 1e-30, 1e-31, 2.2250738585072014e-308, 5e-324, 1.7976931348623157e308, 2147483647.0, 2147483648.0, -2147483648.5, 2147483647.5, 9.3e18, -9.3e18, 32767.5, 32766.5 } ; return ud_of (t [(r >> 16) % (sizeof (t) / 8)]) ; }
		case 5 : return ud_of (((int) ((r >> 16) % 66000) - 33000 + ((r >> 8) & 1) * 0.5) / 32767.0) ;
		default : { uint64_t e = 1023 - 40 + (r >> 8) % 80 ; return ((r >> 63) << 63) | (e << 52) | (rnd64 () & 0xFFFFFFFFFFFFFULL) ; }
		} ;
}

int main (int argc, char **argv)
{	uint64_t seed = argc > 1 ? strtoull (argv [1], 0, 10) : 1 ;
	long n = argc > 2 ? atol (argv [2]) : 1000 ;
	prng_seed (seed, 4242) ;
	static const float nf32 [] = { 127.0f, 32767.0f, 8388607.0f, 2147483647.0f, 128.0f, 32768.0f, 8388608.0f, 2147483648.0f, 1.0f / 128, 1.0f / 32768, 1.0f / 8388608, 1.0f / 2147483648.0f, 1.0f/256 } ;
	static const double nf64 [] = { 127.0, 32767.0, 8388607.0, 2147483647.0, 128.0, 32768.0, 8388608.0, 2147483648.0, 1.0 / 128, 1.0 / 32768, 1.0 / 8388608, 1.0 / 2147483648.0, 1.0/256 } ;
	for (long i = 0 ; i < n ; i++)
	{	uint32_t a = pick32 (), b = (i & 1) ? pick32 () : u_of (nf32 [rnd64 () % 13]) ;
		uint64_t c = pick64 (), d = (i & 1) ? pick64 () : ud_of (nf64 [rnd64 () % 13]) ;
		float fa = f_of (a), fb = f_of (b) ; double dc = d_of (c), dd = d_of (d) ;
		if (isnan (fa) || isnan (fb) || isnan (dc) || isnan (dd)) continue ;
		volatile float pf = fa * fb ; volatile double pd = dc * dd ;
		if (! isnan (pf)) printf ("mul32 %x %x %x\n", a, b, u_of (pf)) ;
		if (! isnan (pd)) printf ("mul64 %llx %llx %llx\n", (unsigned long long) c, (unsigned long long) d, (unsigned long long) ud_of (pd)) ;
		printf ("lrintf %x %d\n", a, psf_lrintf (fa)) ;
		printf ("lrint %llx %d\n", (unsigned long long) c, psf_lrint (dc)) ;
		if (! isnan (pf)) printf ("lrintf %x %d\n", u_of (pf), psf_lrintf (pf)) ;
		if (! isnan (pd)) printf ("lrint %llx %d\n", (unsigned long long) ud_of (pd), psf_lrint (pd)) ;
		volatile float cf = (float) dc ;
		printf ("d2f %llx %x\n", (unsigned long long) c, u_of (cf)) ;
		printf ("f2d %x %llx\n", a, (unsigned long long) ud_of ((double) fa)) ;
		int iv = (int) (uint32_t) rnd64 () ; if ((i & 3) == 0) iv >>= (rnd64 () % 31) ;
		volatile float fi = (float) iv ;
		printf ("i2f %d %x\n", iv, u_of (fi)) ;
		printf ("i2d %d %llx\n", iv, (unsigned long long) ud_of ((double) iv)) ;
		{ volatile float qf = fa / fb ; volatile double qd = dc / dd ;
		  if (! isnan (qf)) printf ("div32 %x %x %x\n", a, b, u_of (qf)) ;
		  if (! isnan (qd)) printf ("div64 %llx %llx %llx\n", (unsigned long long) c, (unsigned long long) d, (unsigned long long) ud_of (qd)) ; }
		printf ("cmp32 %x %x %d\n", a, b, (fa >= fb) * 2 + (fa <= fb)) ;
		} ;
	return 0 ;
}

/* K tie for C12: psf_strlcpy_crlf and the string table (psf_store_string / psf_get_string) called directly.
   lines:  L <srchex|-> <destmax> <outhex|->
           R 0 0                              fresh handle
           T <type> <strhex> <0 ok | 1 refused>
           G <type> 0 <strhex|NULL>
   usage: kern_meta <seed> <n> */
#include <stdio.h>
#include <stdlib.h>
#include <string.h>
#include "sfconfig.h"
#include "sndfile.h"
#include "common.h"
#include "prng.h"

static void hex (const unsigned char *b, size_t n) { if (n == 0) printf ("-") ; for (size_t i = 0 ; i < n ; i++) printf ("%02x", b [i]) ; }

int main (int argc, char **argv)
{	uint64_t seed = argc > 1 ? strtoull (argv [1], NULL, 0) : 1 ; int n = argc > 2 ? atoi (argv [2]) : 2000 ;
	prng_seed (seed, 12) ;
	static const char ALPH [] = "ab\r\n\r\nxy \n\r" ;
	for (int k = 0 ; k < n ; k++)
	{	unsigned char src [80] ; int len = (int) (rnd64 () % 40) ;
		for (int i = 0 ; i < len ; i++) src [i] = (rnd64 () % 5) ? (unsigned char) ALPH [rnd64 () % (sizeof (ALPH) - 1)] : (unsigned char) (1 + rnd64 () % 255) ;
		int destmax = (rnd64 () % 3) ? 200 : 2 + (int) (rnd64 () % 60) ;
		char *dest = malloc (destmax) ; char *s2 = malloc (len > 0 ? len : 1) ; memcpy (s2, src, len) ;   /* exact-size blocks: ASan sees any overrun */
		psf_strlcpy_crlf (dest, s2, destmax, len) ;
		printf ("L ") ; hex (src, len) ; printf (" %d ", destmax) ; hex ((unsigned char *) dest, strlen (dest)) ; printf ("\n") ;
		free (dest) ; free (s2) ;
		}
	SF_PRIVATE *psf = NULL ;
	static const int TYPES [] = { SF_STR_TITLE, SF_STR_COPYRIGHT, SF_STR_ARTIST, SF_STR_COMMENT, SF_STR_DATE, SF_STR_ALBUM, SF_STR_LICENSE, SF_STR_TRACKNUMBER, SF_STR_GENRE } ;
	for (int k = 0 ; k < n ; k++)
	{	if (psf == NULL || (rnd64 () % 45) == 0)
		{	if (psf) { free (psf->strings.storage) ; free (psf) ; }
			psf = calloc (1, sizeof (SF_PRIVATE)) ; psf->file.mode = SFM_WRITE ; psf->strings.flags = SF_STR_ALLOW_START | SF_STR_ALLOW_END ;
			printf ("R 0 0\n") ;
			}
		int ty = TYPES [rnd64 () % 9] ;
		if (rnd64 () % 3)
		{	char str [300] ; int len = 1 + (int) (rnd64 () % ((rnd64 () % 4) ? 20 : 290)) ;
			for (int i = 0 ; i < len ; i++) str [i] = (char) (1 + rnd64 () % 255) ;
			str [len] = 0 ;
			int r = psf_store_string (psf, ty, str) ;
			printf ("T %d ", ty) ; hex ((unsigned char *) str, len) ; printf (" %d\n", r != 0) ;
			}
		else
		{	const char *g = psf_get_string (psf, ty) ;
			printf ("G %d 0 ", ty) ; if (g) hex ((const unsigned char *) g, strlen (g)) ; else printf ("NULL") ; printf ("\n") ;
			}
		}
	if (psf) { free (psf->strings.storage) ; free (psf) ; }
	return 0 ;
}

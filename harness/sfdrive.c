/* sfdrive: generic script interpreter for the S / X ties and the oracles.
   Reads a script (stdin or file argv[1]), runs it against the libsndfile build it is linked with,
   prints ONE transcript line per script line: "<lineno> <op> k=v k=v ...".
   Files are memory stores S0..S31 behind SF_VIRTUAL_IO (harness/vio_mem.h), handles H0..H15.
   Internal state is read from SF_PRIVATE (src/common.h) -- no source hooks needed.

   script lines (tokens separated by blanks; '#' comment):
     store <sid> clear | hex <bytes> | copy <sid2> | trunc <n> | dump | digest
     fault <sid> <at> <kind> <once>        fault schedule relative to the store's callback counter (reset here)
     open <h> <sid> <r|w|x> <fmt hex> <ch> <rate> [stale_frames]
     close <h>
     w <h> <s|i|f|d> <i|f> <n> v...        write n items(i)/frames(f); values: ints decimal, floats/doubles hex bit patterns;
                                           fewer values than needed are cycled
     r <h> <s|i|f|d> <i|f> <n>             read
     rr <h> <nbytes> / rw <h> <nbytes> v.. raw read / raw write (byte values)
     seek <h> <off> <whence>               whence numeric (SEEK_SET=0 CUR=1 END=2, | 0x10 read | 0x20 write)
     cmd <h|-> <name> ...                  selected sf_command calls (see do_cmd)
     str <h> set <type> <hex text> | get <type>
     info <h>                              prints the handle's SF_INFO and geometry
     err <h|->                             sf_error / sf_strerror non-empty
     state <h>                             digest of the positional / settings state (for purity checks)
*/
#include <stdio.h>
#include <stdlib.h>
#include <string.h>
#include <stdint.h>
#include <math.h>
#include <sndfile.h>
#include "sfconfig.h"
#include "common.h"
#include "vio_mem.h"
#include <unistd.h>
#include <stddef.h>
#include <fcntl.h>
#include <errno.h>
#include <sys/stat.h>
#include <sys/wait.h>
#include <signal.h>

#define NSTORE 32
#define NHANDLE 16
#define GUARD 64
#define GB 0xA5

/* the process clock is pinned (link-time wrap of time()): PEAK chunk time stamps and generated date strings become comparable */
#include <time.h>
time_t __wrap_time (time_t *t) { time_t v = 1700000000 ; if (t) *t = v ; return v ; }


/* ---- resource ledger (C16): every live heap block is tagged with the handle number the current script line addresses; after a
   failed open and after sf_close the blocks still tagged with that handle (minus the harness' own persistent buffers) are leaks.
   Descriptors: |/proc/self/fd| must equal base + sum over live handles of what each held right after its open; same for the
   entries of the library's temporary directory (TMPDIR is pointed at a private directory).  Only under ASan (allocator hooks). */
#if defined (__has_feature)
#if __has_feature (address_sanitizer)
#define HAVE_RES 1
#include <sanitizer/allocator_interface.h>
#endif
#endif
#include <dirent.h>
static int res_on = 0, res_tag = -1 ;
static char res_tmp [600] ;
#define RTAB (1 << 16)
static struct { const volatile void *p ; size_t sz ; int tag ; } rtab [RTAB] ;		/* open addressing; p == (void*) 1 is a tombstone */
static void res_malloc_hook (const volatile void *p, size_t sz)
{	if (! res_on || ! p) return ;
	size_t i = ((uintptr_t) p >> 4) * 2654435761u % RTAB ;
	for (int k = 0 ; k < RTAB ; k++, i = (i + 1) % RTAB)
		if (rtab [i].p == NULL || rtab [i].p == (void *) 1) { rtab [i].p = p ; rtab [i].sz = sz ; rtab [i].tag = res_tag ; return ; }
}
static void res_free_hook (const volatile void *p)
{	if (! res_on || ! p) return ;
	size_t i = ((uintptr_t) p >> 4) * 2654435761u % RTAB ;
	for (int k = 0 ; k < RTAB && rtab [i].p != NULL ; k++, i = (i + 1) % RTAB)
		if (rtab [i].p == p) { rtab [i].p = (void *) 1 ; return ; }
}
static int count_dir (const char *d)
{	DIR *dir = opendir (d) ; if (! dir) return -1 ;
	int n = 0 ; struct dirent *e ; int own = dirfd (dir) ;
	while ((e = readdir (dir)) != NULL) { if (e->d_name [0] == '.') continue ; if (atoi (e->d_name) == own && ! strcmp (d, "/proc/self/fd")) continue ; n ++ ; }
	closedir (dir) ;
	return n ;
}
static int res_fd_base = 0, res_fd_held [NHANDLE], res_tmp_held [NHANDLE], res_fd_before, res_tmp_before ;
static int res_harness_owned (const volatile void *p) ;
static void res_report (int h)
{	if (! res_on) return ;
	long blocks = 0 ; size_t bytes = 0, first = 0 ;
	for (size_t i = 0 ; i < RTAB ; i++)
		if (rtab [i].p != NULL && rtab [i].p != (void *) 1 && rtab [i].tag == h && ! res_harness_owned (rtab [i].p))
		{	if (! blocks) first = rtab [i].sz ; blocks ++ ; bytes += rtab [i].sz ; rtab [i].tag = -2 ; }
	int fds = res_fd_base, tmps = 0 ;
	res_fd_held [h] = 0 ; res_tmp_held [h] = 0 ;
	for (int k = 0 ; k < NHANDLE ; k++) { fds += res_fd_held [k] ; tmps += res_tmp_held [k] ; }
	printf (" lk=%ld:%zu:%zu fdl=%d tmpl=%d", blocks, bytes, first, count_dir ("/proc/self/fd") - fds, count_dir (res_tmp) - tmps) ;
}

static VIO_MEM stores [NSTORE] ;
static SNDFILE *handles [NHANDLE] ;
static int hstore [NHANDLE] ;
static char hroute [NHANDLE] ;		/* v virtual, p path, d fd close_desc=1, D fd close_desc=0, e embedded (fd at offset) */
static int hfd [NHANDLE] ;
static long hembed [NHANDLE] ;
static const char *tmpdir = "/verif/build/tmp" ;

static unsigned char *sidecar [NSTORE] ; static long sidecar_len [NSTORE] ;	/* pending resource fork side-car ("._name") for the next path open of the store; -1 = none */
static char store_suffix [NSTORE][12] ;		/* file name extension for the path / fd routes (SD2 is recognised by name) */
static void store_path (int sid, char *out, size_t n) { snprintf (out, n, "%s/sfd_%d_S%d%s", tmpdir, (int) getpid (), sid, store_suffix [sid]) ; }
static void store_to_file (int sid, long pre, long post)
{	char path [512] ; store_path (sid, path, sizeof (path)) ;
	FILE *f = fopen (path, "wb") ; if (! f) { perror (path) ; exit (3) ; }
	for (long k = 0 ; k < pre ; k++) fputc (0x5A ^ (k & 0xff), f) ;
	if (stores [sid].len) fwrite (stores [sid].data, 1, stores [sid].len, f) ;
	for (long k = 0 ; k < post ; k++) fputc (0xC3 ^ (k & 0xff), f) ;
	fclose (f) ;
}
static void file_to_store (int sid, long pre)
{	char path [512] ; store_path (sid, path, sizeof (path)) ;
	FILE *f = fopen (path, "rb") ; if (! f) return ;
	fseek (f, 0, SEEK_END) ; long n = ftell (f) ; fseek (f, 0, SEEK_SET) ;
	unsigned char *b = malloc (n + 1) ; if (fread (b, 1, n, f) != (size_t) n) { } ; fclose (f) ;
	if (pre > n) pre = n ;
	vio_set (&stores [sid], b + pre, n - pre) ; free (b) ;
}
static int lineno ;

static size_t unhex (const char *s, unsigned char *out, size_t cap) ;
static uint64_t fnv (uint64_t h, const void *p, size_t n)
{	const unsigned char *b = p ;
	for (size_t i = 0 ; i < n ; i++) { h ^= b [i] ; h *= 0x100000001b3ULL ; }
	return h ;
}
#define FNV0 0xcbf29ce484222325ULL

static char *toks [70000] ; static int ntok ;
static char *linebuf ; static size_t linecap ;

static long long tokll (int i) { return i < ntok ? strtoll (toks [i], NULL, 0) : 0 ; }
static unsigned long long tokhex (int i) { return i < ntok ? strtoull (toks [i], NULL, 16) : 0 ; }

static int tsize (char t) { return t == 's' ? 2 : t == 'i' ? 4 : t == 'f' ? 4 : 8 ; }

/* value digest: each item as 8 bytes LE: shorts/ints sign-extended, float 32-bit pattern zero-extended, double pattern */
static uint64_t item_bits (char t, const void *buf, long k)
{	switch (t)
	{	case 's' : return (uint64_t) (int64_t) ((const short *) buf) [k] ;
		case 'i' : return (uint64_t) (int64_t) ((const int *) buf) [k] ;
		case 'f' : { uint32_t u ; memcpy (&u, (const float *) buf + k, 4) ; return u ; }
		default : { uint64_t u ; memcpy (&u, (const double *) buf + k, 8) ; return u ; }
		}
}
static uint64_t digest_items (char t, const void *buf, long n)
{	uint64_t h = FNV0 ;
	for (long k = 0 ; k < n ; k++) { uint64_t v = item_bits (t, buf, k) ; h = fnv (h, &v, 8) ; }
	return h ;
}
static void print_item (char t, const void *buf, long k)
{	if (t == 's' || t == 'i') printf ("%lld", (long long) (int64_t) item_bits (t, buf, k)) ;
	else printf ("%llx", (unsigned long long) item_bits (t, buf, k)) ;
}

static SF_PRIVATE *P (int h) { return (SF_PRIVATE *) handles [h] ; }

static void pos_fields (int h)
{	SF_PRIVATE *p = P (h) ;
	printf (" err=%d rpos=%lld wpos=%lld frames=%lld", sf_error (handles [h]), (long long) p->read_current, (long long) p->write_current, (long long) p->sf.frames) ;
	if (hroute [h] == 'v' && p->bytewidth > 0)
	{	sf_count_t rel = stores [hstore [h]].pos - p->dataoffset ;
		if (rel % p->bytewidth == 0) printf (" cur=%lld", (long long) (rel / p->bytewidth)) ; else printf (" cur=b%lld", (long long) rel) ;
		}
}

/* the stored codes of the data region: item k as the unsigned integer its bytes denote in the file's byte order */
static uint64_t region_code (const unsigned char *b, int bw, int big)
{	uint64_t v = 0 ;
	if (big) for (int i = 0 ; i < bw ; i++) v = (v << 8) | b [i] ;
	else for (int i = bw - 1 ; i >= 0 ; i--) v = (v << 8) | b [i] ;
	return v ;
}
static void region_fields (int h)
{	SF_PRIVATE *p = P (h) ; VIO_MEM *m = &stores [hstore [h]] ;
	if (hroute [h] == 'e' || p->bytewidth <= 0 || p->dataoffset < 0 || p->dataoffset > m->len) return ;
	int bw = p->bytewidth, big = p->endian == SF_ENDIAN_BIG ;
	sf_count_t n = p->sf.frames * p->sf.channels, avail = (m->len - p->dataoffset) / bw ;
	if (n > avail) n = avail ;
	uint64_t d = FNV0 ;
	for (sf_count_t k = 0 ; k < n ; k++) { uint64_t v = region_code (m->data + p->dataoffset + k * bw, bw, big) ; d = fnv (d, &v, 8) ; }
	printf (" endian=%s rdig=%016llx", big ? "B" : "L", (unsigned long long) d) ;
	if (m->len - p->dataoffset <= 65536)
	{	printf (" region=x") ;
		for (sf_count_t k = p->dataoffset ; k < m->len ; k++) printf ("%02x", m->data [k]) ;
		} ;
}

/* invariants the properties' hook notes ask for, checked after every call on a live handle */
static void check_invariants (int h)
{	SF_PRIVATE *p = P (h) ;
	if (! p) return ;
	int bad = 0 ;
	if (p->header.indx < 0 || p->header.indx > p->header.len) bad |= 1 ;
	if (p->header.end < 0 || p->header.end > p->header.len) bad |= 2 ;
	if (p->wchunks.used > p->wchunks.count) bad |= 4 ;
	if (p->rchunks.used > p->rchunks.count) bad |= 8 ;
	if (p->read_current < 0 || (p->file.mode == SFM_READ && p->read_current > p->sf.frames)) bad |= 16 ;
	if (p->write_current < 0) bad |= 32 ;
	if (p->Magick != 0x1234C0DE) bad |= 64 ;
	if (bad) printf (" INVARIANT=%d", bad) ;
}

static uint64_t state_digest (int h)
{	SF_PRIVATE *p = P (h) ; uint64_t d = FNV0 ;
#define ADD(x) d = fnv (d, &(x), sizeof (x))
	ADD (p->read_current) ; ADD (p->write_current) ; ADD (p->sf.frames) ; ADD (p->sf.samplerate) ; ADD (p->sf.channels) ; ADD (p->sf.format) ;
	ADD (p->sf.sections) ; ADD (p->sf.seekable) ; ADD (p->last_op) ; ADD (p->have_written) ; ADD (p->norm_double) ; ADD (p->norm_float) ;
	ADD (p->add_clipping) ; ADD (p->float_int_mult) ; ADD (p->scale_int_float) ; ADD (p->auto_header) ; ADD (p->dataoffset) ; ADD (p->datalength) ;
	ADD (p->dataend) ; ADD (p->blockwidth) ; ADD (p->bytewidth) ; ADD (p->filelength) ; ADD (p->file.mode) ; ADD (p->endian) ; ADD (p->data_endswap) ;
	ADD (p->strings.storage_used) ; ADD (p->strings.flags) ;
	for (int k = 0 ; k < SF_MAX_STRINGS ; k++) { ADD (p->strings.data [k].type) ; ADD (p->strings.data [k].flags) ; ADD (p->strings.data [k].offset) ; }
	if (p->strings.storage) d = fnv (d, p->strings.storage, p->strings.storage_used) ;
	if (p->peak_info) { ADD (p->peak_info->peak_loc) ; for (int k = 0 ; k < p->sf.channels ; k++) { ADD (p->peak_info->peaks [k].value) ; ADD (p->peak_info->peaks [k].position) ; } }
	if (p->broadcast_16k) d = fnv (d, p->broadcast_16k, sizeof (SF_BROADCAST_INFO_16K)) ;
	if (p->cart_16k) d = fnv (d, p->cart_16k, sizeof (SF_CART_INFO_16K)) ;
	if (p->cues) d = fnv (d, p->cues, sizeof (uint32_t) + (size_t) p->cues->cue_count * sizeof (SF_CUE_POINT)) ;
	if (p->instrument) d = fnv (d, p->instrument, sizeof (SF_INSTRUMENT)) ;
	if (p->channel_map) d = fnv (d, p->channel_map, sizeof (int) * p->sf.channels) ;
	ADD (p->wchunks.used) ; ADD (p->rchunks.used) ;
#undef ADD
	return d ;
}

static void store_digests (int sid, sf_count_t dataoffset)
{	VIO_MEM *m = &stores [sid] ;
	sf_count_t off = dataoffset < 0 ? 0 : dataoffset > m->len ? m->len : dataoffset ;
	printf (" storelen=%lld hdig=%016llx ddig=%016llx", (long long) m->len,
		(unsigned long long) fnv (FNV0, m->data, off), (unsigned long long) fnv (FNV0, m->data + off, m->len - off)) ;
}

/* sequential-decode reference per handle and caller type (C06 oracle) */
static void *refbuf [NHANDLE][4] ; static long long reflen [NHANDLE][4] ;
static int res_harness_owned (const volatile void *p)
{	if (p == (void *) linebuf) return 1 ;
	for (int s = 0 ; s < NSTORE ; s++) if (p == (void *) stores [s].data || p == (void *) stores [s].snap || p == (void *) sidecar [s]) return 1 ;
	for (int h = 0 ; h < NHANDLE ; h++) for (int k = 0 ; k < 4 ; k++) if (p == refbuf [h][k]) return 1 ;
	return 0 ;
}
static int tindex (char t) { return t == 's' ? 0 : t == 'i' ? 1 : t == 'f' ? 2 : 3 ; }
static void ref_clear (int h) { for (int k = 0 ; k < 4 ; k++) { free (refbuf [h][k]) ; refbuf [h][k] = NULL ; reflen [h][k] = 0 ; } }

static void *guarded_alloc (size_t bytes)
{	unsigned char *b = malloc (bytes + 2 * GUARD) ;
	memset (b, GB, bytes + 2 * GUARD) ;
	return b + GUARD ;
}
static int guard_ok (void *ptr, size_t bytes)
{	unsigned char *b = (unsigned char *) ptr - GUARD ;
	for (int i = 0 ; i < GUARD ; i++) if (b [i] != GB || b [GUARD + bytes + i] != GB) return 0 ;
	return 1 ;
}
static void guarded_free (void *ptr) { free ((unsigned char *) ptr - GUARD) ; }

static int cmd_id (const char *n) ;

static int nib (char c) { return c >= '0' && c <= '9' ? c - '0' : c >= 'a' && c <= 'f' ? c - 'a' + 10 : c >= 'A' && c <= 'F' ? c - 'A' + 10 : 0 ; }
static size_t unhex (const char *s, unsigned char *out, size_t cap)
{	if (! s || s [0] == '-') return 0 ;
	size_t n = strlen (s) / 2 ; if (n > cap) n = cap ;
	for (size_t i = 0 ; i < n ; i++) out [i] = (unsigned char) (nib (s [2 * i]) * 16 + nib (s [2 * i + 1])) ;
	return n ;
}

/* chunk set <h> <idhex> <datahex>
   chunk iter <h> <idhex|-> [short]    full iteration (or by id): "n=<count> list=<id>:<size>:<digest>,..." ; with "short" every
                                        sf_get_chunk_data is also called with datalen = size/2 into an exact-size guarded buffer
   chunk abandon <h> <idhex> <k>       start an iteration by id, drop it after k steps */

static void phex (const char *label, const void *p, size_t n)
{	const unsigned char *b = p ; printf (" %s=x", label) ; for (size_t i = 0 ; i < n ; i++) printf ("%02x", b [i]) ; }
static void pstr (const char *label, const char *p, size_t max)
{	size_t n = strnlen (p, max) ; phex (label, p, n) ; }
static void hexfield (char *dst, size_t cap, const char *tok)
{	unsigned char tmp [70000] ; size_t n = unhex (tok, tmp, sizeof (tmp)) ; if (n > cap) n = cap ; memset (dst, 0, cap) ; memcpy (dst, tmp, n) ; }

/* bext|cart|cue|inst|chmap <h> set ... | get : metadata through sf_command */
static void do_meta (void)
{	const char *kind = toks [0] ; int h = tokll (1) ; int set = ! strcmp (toks [2], "set") ;
	if (! handles [h]) { printf ("%d %s nohandle=1\n", lineno, kind) ; return ; }
	SNDFILE *f = handles [h] ; int r ;
	printf ("%d %s", lineno, kind) ;
	if (! strcmp (kind, "bext"))
	{	static SF_BROADCAST_INFO_16K bi ; memset (&bi, 0, sizeof (bi)) ;
		if (set)
		{	hexfield (bi.description, sizeof (bi.description), toks [3]) ; hexfield (bi.originator, sizeof (bi.originator), toks [4]) ;
			hexfield (bi.originator_reference, sizeof (bi.originator_reference), ntok > 6 ? toks [6] : "-") ;
			hexfield (bi.origination_date, sizeof (bi.origination_date), "323032362d30392d3330") ; hexfield (bi.origination_time, sizeof (bi.origination_time), "31323a33343a3536") ;
			bi.time_reference_low = 0x12345678 ; bi.time_reference_high = 7 ; bi.version = 1 ;
			unsigned char tmp [20000] ; size_t n = unhex (toks [5], tmp, sizeof (bi.coding_history)) ; memcpy (bi.coding_history, tmp, n) ; bi.coding_history_size = (uint32_t) n ;
			r = sf_command (f, SFC_SET_BROADCAST_INFO, &bi, (int) (offsetof (SF_BROADCAST_INFO, coding_history) + n)) ;
			printf (" ret=%d", r) ;
			}
		else
		{	r = sf_command (f, SFC_GET_BROADCAST_INFO, &bi, sizeof (bi)) ;
			printf (" ret=%d", r) ;
			if (r) { pstr ("desc", bi.description, sizeof (bi.description)) ; pstr ("orig", bi.originator, sizeof (bi.originator)) ; pstr ("oref", bi.originator_reference, sizeof (bi.originator_reference)) ;
				pstr ("date", bi.origination_date, sizeof (bi.origination_date)) ; pstr ("time", bi.origination_time, sizeof (bi.origination_time)) ;
				printf (" tref=%x:%x ver=%d hsize=%u", bi.time_reference_high, bi.time_reference_low, bi.version, bi.coding_history_size) ;
				phex ("hist", bi.coding_history, bi.coding_history_size < sizeof (bi.coding_history) ? bi.coding_history_size : sizeof (bi.coding_history)) ; }
			}
		}
	else if (! strcmp (kind, "cart"))
	{	static SF_CART_INFO_16K ci ; memset (&ci, 0, sizeof (ci)) ;
		if (set)
		{	snprintf (ci.version, sizeof (ci.version), "0101") ; hexfield (ci.title, sizeof (ci.title), toks [3]) ; hexfield (ci.artist, sizeof (ci.artist), ntok > 5 ? toks [5] : "-") ;
			ci.level_reference = 77 ; ci.post_timers [0].usage [0] = 'M' ; ci.post_timers [0].value = 99 ;
			unsigned char tmp [20000] ; size_t n = unhex (toks [4], tmp, sizeof (ci.tag_text)) ; memcpy (ci.tag_text, tmp, n) ; ci.tag_text_size = (uint32_t) n ;
			r = sf_command (f, SFC_SET_CART_INFO, &ci, (int) (offsetof (SF_CART_INFO, tag_text) + n)) ;
			printf (" ret=%d", r) ;
			}
		else
		{	r = sf_command (f, SFC_GET_CART_INFO, &ci, sizeof (ci)) ;
			printf (" ret=%d", r) ;
			if (r) { pstr ("title", ci.title, sizeof (ci.title)) ; pstr ("artist", ci.artist, sizeof (ci.artist)) ; printf (" level=%d timer=%d tsize=%u", ci.level_reference, ci.post_timers [0].value, ci.tag_text_size) ;
				phex ("tag", ci.tag_text, ci.tag_text_size < sizeof (ci.tag_text) ? ci.tag_text_size : sizeof (ci.tag_text)) ; }
			}
		}
	else if (! strcmp (kind, "cue"))
	{	if (set)
		{	int n = tokll (3) ; size_t sz = sizeof (uint32_t) + (size_t) n * sizeof (SF_CUE_POINT) ; unsigned char *b = calloc (1, sz + 1) ;
			uint32_t cnt = n ; memcpy (b, &cnt, 4) ; SF_CUE_POINT *cp = (SF_CUE_POINT *) (b + 4) ;
			for (int k = 0 ; k < n ; k++) { cp [k].indx = k + 1 ; cp [k].position = 7 * k + 1 ; cp [k].fcc_chunk = 0x61746164 ; cp [k].chunk_start = 0 ; cp [k].block_start = 0 ; cp [k].sample_offset = 13 * k + 5 ; snprintf (cp [k].name, sizeof (cp [k].name), "cue%d", k) ; }
			r = sf_command (f, SFC_SET_CUE, b, (int) sz) ; printf (" ret=%d", r) ; free (b) ;
			}
		else
		{	uint32_t cnt = 0 ; r = sf_command (f, SFC_GET_CUE_COUNT, &cnt, sizeof (cnt)) ; printf (" cret=%d count=%u", r, cnt) ;
			size_t sz = sizeof (uint32_t) + (size_t) cnt * sizeof (SF_CUE_POINT) ; unsigned char *b = guarded_alloc (sz) ; memset (b, 0, sz) ;
			r = sf_command (f, SFC_GET_CUE, b, (int) sz) ; printf (" ret=%d guard=%d", r, guard_ok (b, sz)) ;
			if (r) { SF_CUE_POINT *cp = (SF_CUE_POINT *) (b + 4) ; printf (" cues=") ;
				for (uint32_t k = 0 ; k < cnt ; k++) printf ("%s%d:%u:%u:%s", k ? "," : "", cp [k].indx, cp [k].position, cp [k].sample_offset, cp [k].name [0] ? cp [k].name : "-") ; }
			guarded_free (b) ;
			/* the way applications call it: a fixed SF_CUES (100 slots), whatever the file holds */
			SF_CUES *fixed = guarded_alloc (sizeof (SF_CUES)) ; memset (fixed, 0, sizeof (SF_CUES)) ;
			int r2 = sf_command (f, SFC_GET_CUE, fixed, sizeof (SF_CUES)) ;
			printf (" fixedret=%d fixedcount=%u", r2, r2 ? fixed->cue_count : 0) ;
			if (! guard_ok (fixed, sizeof (SF_CUES))) printf (" guard=0") ;
			guarded_free (fixed) ;
			}
		}
	else if (! strcmp (kind, "inst"))
	{	SF_INSTRUMENT in ; memset (&in, 0, sizeof (in)) ;
		if (set)
		{	in.basenote = tokll (3) ; in.detune = tokll (4) ; in.gain = tokll (5) ; in.velocity_lo = 1 ; in.velocity_hi = 120 ; in.key_lo = 2 ; in.key_hi = 100 ; in.loop_count = tokll (6) ;
			for (int k = 0 ; k < in.loop_count && k < 16 ; k++) { in.loops [k].mode = SF_LOOP_FORWARD + (k % 3) ; in.loops [k].start = 2 + 3 * k ; in.loops [k].end = 4 + 3 * k ; in.loops [k].count = k ; }
			r = sf_command (f, SFC_SET_INSTRUMENT, &in, sizeof (in)) ; printf (" ret=%d", r) ;
			}
		else
		{	r = sf_command (f, SFC_GET_INSTRUMENT, &in, sizeof (in)) ; printf (" ret=%d", r) ;
			if (r) { printf (" base=%d detune=%d gain=%d vel=%d:%d key=%d:%d loops=", in.basenote, in.detune, in.gain, in.velocity_lo, in.velocity_hi, in.key_lo, in.key_hi) ;
				for (int k = 0 ; k < in.loop_count && k < 16 ; k++) printf ("%s%d:%u:%u:%u", k ? "," : "", in.loops [k].mode, in.loops [k].start, in.loops [k].end, in.loops [k].count) ;
				if (in.loop_count == 0) printf ("-") ; }
			}
		}
	else
	{	int ch = P (h)->sf.channels ; int *map = calloc (ch + 1, sizeof (int)) ;
		if (set) { for (int k = 0 ; k < ch ; k++) map [k] = 3 + k < ntok ? (int) tokll (3 + k) : SF_CHANNEL_MAP_MONO ; r = sf_command (f, SFC_SET_CHANNEL_MAP_INFO, map, ch * (int) sizeof (int)) ; printf (" ret=%d", r) ; }
		else { r = sf_command (f, SFC_GET_CHANNEL_MAP_INFO, map, ch * (int) sizeof (int)) ; printf (" ret=%d map=", r) ; for (int k = 0 ; k < ch ; k++) printf ("%s%d", k ? "," : "", map [k]) ; }
		free (map) ;
		}
	pos_fields (h) ; check_invariants (h) ; printf ("\n") ;
}

/* chunk ops follow */
static void do_chunk_impl (void) ;
static void do_chunk (void) { do_chunk_impl () ; }
static void do_chunk_impl (void)
{	int h = tokll (2) ; const char *sub = toks [1] ;
	if (! handles [h]) { printf ("%d chunk nohandle=1\n", lineno) ; return ; }
	if (! strcmp (sub, "set"))
	{	SF_CHUNK_INFO ci ; memset (&ci, 0, sizeof (ci)) ;
		unsigned char id [65] ; size_t idn = unhex (toks [3], id, 64) ; id [idn] = 0 ;
		snprintf (ci.id, sizeof (ci.id), "%s", (char *) id) ; ci.id_size = (unsigned) strlen (ci.id) ;
		size_t cap = ntok > 4 ? strlen (toks [4]) / 2 + 1 : 1 ; unsigned char *d = malloc (cap) ;
		ci.datalen = (unsigned) unhex (ntok > 4 ? toks [4] : "-", d, cap) ; ci.data = d ;
		int r = sf_set_chunk (handles [h], &ci) ;
		printf ("%d chunk ret=%d", lineno, r) ; pos_fields (h) ; check_invariants (h) ; printf ("\n") ;
		free (d) ;
		}
	else if (! strcmp (sub, "abandon"))
	{	SF_CHUNK_INFO ci ; memset (&ci, 0, sizeof (ci)) ;
		unsigned char id [65] ; size_t idn = unhex (toks [3], id, 64) ; id [idn] = 0 ; snprintf (ci.id, sizeof (ci.id), "%s", (char *) id) ; ci.id_size = (unsigned) strlen (ci.id) ;
		SF_CHUNK_ITERATOR *it = sf_get_chunk_iterator (handles [h], &ci) ; int k = 0 ;
		for ( ; it && k < tokll (4) ; k++) it = sf_next_chunk_iterator (it) ;
		printf ("%d chunk steps=%d live=%d\n", lineno, k, it != NULL) ;
		}
	else
	{	SF_CHUNK_INFO q ; memset (&q, 0, sizeof (q)) ; int byid = toks [3][0] != '-' ;
		if (byid) { unsigned char id [65] ; size_t idn = unhex (toks [3], id, 64) ; id [idn] = 0 ; snprintf (q.id, sizeof (q.id), "%s", (char *) id) ; q.id_size = (unsigned) strlen (q.id) ; }
		int shortbuf = ntok > 4 && ! strcmp (toks [4], "short") ;
		SF_CHUNK_ITERATOR *it = sf_get_chunk_iterator (handles [h], byid ? &q : NULL) ;
		int n = 0, guards = 1, errs = 0 ;
		printf ("%d chunk list=", lineno) ;
		for ( ; it && n < 100000 ; n++)
		{	SF_CHUNK_INFO ci ; memset (&ci, 0, sizeof (ci)) ;
			if (sf_get_chunk_size (it, &ci) != 0) errs ++ ;
			unsigned size = ci.datalen ;
			if (size > (1u << 24))
			{	/* e.g. the 0xFFFFFFFF placeholder size of an RF64 'data' chunk: report the size only */
				printf ("%s", n ? "," : "") ; for (unsigned k = 0 ; k < ci.id_size && k < 64 ; k++) printf ("%02x", (unsigned char) ci.id [k]) ;
				printf (":%u:big", size) ;
				it = sf_next_chunk_iterator (it) ;
				continue ;
				} ;
			unsigned char *buf = guarded_alloc (size) ;
			ci.data = buf ;
			if (sf_get_chunk_data (it, &ci) != 0) errs ++ ;
			if (! guard_ok (buf, size)) guards = 0 ;
			printf ("%s", n ? "," : "") ; for (unsigned k = 0 ; k < ci.id_size && k < 64 ; k++) printf ("%02x", (unsigned char) ci.id [k]) ;
			printf (":%u:%016llx", size, (unsigned long long) fnv (FNV0, buf, size)) ;
			guarded_free (buf) ;
			if (shortbuf)
			{	unsigned half = size / 2 ; unsigned char *b2 = guarded_alloc (half) ;
				SF_CHUNK_INFO c2 ; memset (&c2, 0, sizeof (c2)) ; c2.datalen = half ; c2.data = b2 ;
				if (sf_get_chunk_data (it, &c2) != 0) errs ++ ;
				if (! guard_ok (b2, half)) guards = 0 ;
				guarded_free (b2) ;
				} ;
			it = sf_next_chunk_iterator (it) ;
			} ;
		if (n == 0) printf ("-") ;
		printf (" n=%d guard=%d errs=%d", n, guards, errs) ; pos_fields (h) ; printf ("\n") ;
		}
}

static void do_open (void)
{	int h = tokll (1), sid = tokll (2) ; char mode = toks [3][0] ;
	SF_INFO info ; memset (&info, 0, sizeof (info)) ;
	info.format = tokhex (4) ; info.channels = tokll (5) ; info.samplerate = tokll (6) ; info.frames = ntok > 7 ? tokll (7) : 0 ;
	int m = mode == 'r' ? SFM_READ : mode == 'w' ? SFM_WRITE : SFM_RDWR ;
	if (mode == 'r' && ! (info.format & SF_FORMAT_TYPEMASK)) memset (&info, 0, sizeof (info)) ;
	char route = ntok > 8 ? toks [8][0] : 'v' ;
	if (ntok > 8 && toks [8][1]) snprintf (store_suffix [sid], sizeof (store_suffix [sid]), "%s", toks [8] + 1) ;
	long pre = ntok > 9 ? tokll (9) : 0, post = ntok > 10 ? tokll (10) : 0 ;
	if (mode == 'w') { stores [sid].len = 0 ; }
	stores [sid].pos = 0 ;
	hroute [h] = route ; hfd [h] = -1 ; hembed [h] = pre ;
	if (res_on) { res_fd_before = count_dir ("/proc/self/fd") ; res_tmp_before = count_dir (res_tmp) ; }
	if (route == 'v')
		handles [h] = sf_open_virtual (&vio_mem_io, m, &info, &stores [sid]) ;
	else
	{	char path [512] ; store_path (sid, path, sizeof (path)) ;
		store_to_file (sid, route == 'e' ? pre : 0, route == 'e' ? post : 0) ;
		if (route == 'p')
		{	char sc [600] = "" ;
			if (sidecar [sid])
			{	/* AppleDouble style resource fork next to the file: <dir>/._<name> */
				const char *slash = strrchr (path, '/') ;
				snprintf (sc, sizeof (sc), "%.*s/._%s", (int) (slash - path), path, slash + 1) ;
				FILE *sf = fopen (sc, "wb") ; if (sf) { fwrite (sidecar [sid], 1, sidecar_len [sid], sf) ; fclose (sf) ; }
				} ;
			handles [h] = sf_open (path, m, &info) ;
			if (sc [0]) { unlink (sc) ; free (sidecar [sid]) ; sidecar [sid] = NULL ; }
			}
		else if (route == 'q')
		{	/* non-seekable pipe: a child feeds the file's bytes into the write end */
			int fds [2] ; if (pipe (fds) != 0) { perror ("pipe") ; exit (3) ; }
			pid_t pid = fork () ;
			if (pid == 0)
			{	close (fds [0]) ; VIO_MEM *st = &stores [sid] ; sf_count_t off = 0 ;
				while (off < st->len) { ssize_t w = write (fds [1], st->data + off, (size_t) (st->len - off > 4096 ? 4096 : st->len - off)) ; if (w <= 0) break ; off += w ; }
				close (fds [1]) ; _exit (0) ;
				}
			close (fds [1]) ; hfd [h] = fds [0] ;
			handles [h] = sf_open_fd (fds [0], m, &info, 1) ;
			}
		else if (route == 'F')
		{	int fd = open ("/dev/full", O_RDWR) ; hfd [h] = fd ;
			handles [h] = sf_open_fd (fd, m, &info, 1) ;
			}
		else
		{	int fd = open (path, mode == 'r' ? O_RDONLY : O_RDWR, 0644) ;
			if (route == 'e') lseek (fd, pre, SEEK_SET) ;
			hfd [h] = fd ;
			handles [h] = sf_open_fd (fd, m, &info, route == 'd' ? 1 : 0) ;
			if (! handles [h] && route != 'd') { close (fd) ; hfd [h] = -1 ; }
			} ;
		} ;
	hstore [h] = sid ;
	if (! handles [h])
	{	const char *e = sf_strerror (NULL) ;
		printf ("%d open ok=0 err=%d msg=%d", lineno, sf_error (NULL), e && e [0] ? 1 : 0) ;
		if (route == 'd' && hfd [h] >= 0)
		{	/* close_desc was TRUE: a failed sf_open_fd must not leave the descriptor open */
			int alive = fcntl (hfd [h], F_GETFD) != -1 ;
			printf (" fdalive=%d", alive) ; if (alive) close (hfd [h]) ; hfd [h] = -1 ;
			} ;
		if (route != 'v') { char path [512] ; store_path (sid, path, sizeof (path)) ; unlink (path) ; }
		res_report (h) ;
		printf ("\n") ;
		return ;
		}
	SF_PRIVATE *p = P (h) ;
	printf ("%d open ok=1 err=%d fmt=%x ch=%d rate=%d frames=%lld sections=%d seekable=%d dataoffset=%lld datalength=%lld bytewidth=%d blockwidth=%lld",
		lineno, sf_error (handles [h]), info.format, info.channels, info.samplerate, (long long) info.frames, info.sections, info.seekable,
		(long long) p->dataoffset, (long long) p->datalength, p->bytewidth, (long long) p->blockwidth) ;
	printf (" rpos=%lld wpos=%lld last_op=%d", (long long) p->read_current, (long long) p->write_current, p->last_op) ;
	region_fields (h) ;
	check_invariants (h) ;
	if (res_on)
	{	/* what this handle legitimately holds: descriptors other than the caller's own, temporary files */
		res_fd_held [h] = count_dir ("/proc/self/fd") - res_fd_before - (hfd [h] >= 0 ? 1 : 0) ; res_tmp_held [h] = count_dir (res_tmp) - res_tmp_before ;
		printf (" fdheld=%d tmpheld=%d", res_fd_held [h], res_tmp_held [h]) ;
		} ;
	printf ("\n") ;
}

static void do_close (void)
{	int h = tokll (1) ;
	if (! handles [h]) { printf ("%d close nohandle=1\n", lineno) ; return ; }
	sf_count_t off = P (h)->dataoffset ;
	ref_clear (h) ;
	int r = sf_close (handles [h]) ; handles [h] = NULL ;
	printf ("%d close ret=%d", lineno, r) ;
	if (hroute [h] != 'v')
	{	if (hfd [h] >= 0)
		{	int alive = fcntl (hfd [h], F_GETFD) != -1 ;
			printf (" fdalive=%d", alive) ;
			if (alive) close (hfd [h]) ;
			hfd [h] = -1 ;
			} ;
		if (hroute [h] != 'q' && hroute [h] != 'e') file_to_store (hstore [h], 0) ;
		{ char path [512] ; store_path (hstore [h], path, sizeof (path)) ; unlink (path) ; }
		} ;
	store_digests (hstore [h], off) ;
	{	VIO_MEM *m = &stores [hstore [h]] ;
		if (m->snapped)
		{	sf_count_t a = off < 0 ? 0 : off ; int kept = 1 ;
			sf_count_t firstdiff = -1 ;
			if (m->snap_len > a)
			{	for (sf_count_t k = a ; k < m->snap_len ; k++) if (k >= m->len || m->data [k] != m->snap [k]) { firstdiff = k - a ; break ; }
				kept = firstdiff < 0 ;
				} ;
			printf (" snaplen=%lld kept=%d firstdiff=%lld", (long long) m->snap_len, kept, (long long) firstdiff) ;
			} ;
		} ;
	res_report (h) ;
	printf ("\n") ;
}

static void fill_values (char t, void *buf, long n, int first)
{	int nv = ntok - first ;
	for (long k = 0 ; k < n ; k++)
	{	const char *s = nv > 0 ? toks [first + k % nv] : "0" ;
		switch (t)
		{	case 's' : ((short *) buf) [k] = (short) strtoll (s, NULL, 10) ; break ;
			case 'i' : ((int *) buf) [k] = (int) strtoll (s, NULL, 10) ; break ;
			case 'f' : { uint32_t u = strtoul (s, NULL, 16) ; memcpy ((float *) buf + k, &u, 4) ; } break ;
			default : { uint64_t u = strtoull (s, NULL, 16) ; memcpy ((double *) buf + k, &u, 8) ; } break ;
			}
		}
}

static void do_rw (int writing)
{	int h = tokll (1) ; char t = toks [2][0], var = toks [3][0] ; long long n = tokll (4) ;
	if (! handles [h]) { printf ("%d %s nohandle=1\n", lineno, writing ? "w" : "r") ; return ; }
	int ch = P (h)->sf.channels ; if (ch < 1) ch = 1 ;
	long long items = var == 'f' ? n * ch : n ;
	long long alloc = items > 0 ? items : 0 ;
	void *buf = guarded_alloc (alloc * tsize (t)) ;
	sf_count_t ret ;
	long long rpos_before = P (h)->read_current ;
	if (writing)
	{	fill_values (t, buf, alloc, 5) ;
		void *copy = malloc (alloc * tsize (t) + 1) ; memcpy (copy, buf, alloc * tsize (t)) ;
		switch (t)
		{	case 's' : ret = var == 'f' ? sf_writef_short (handles [h], buf, n) : sf_write_short (handles [h], buf, n) ; break ;
			case 'i' : ret = var == 'f' ? sf_writef_int (handles [h], buf, n) : sf_write_int (handles [h], buf, n) ; break ;
			case 'f' : ret = var == 'f' ? sf_writef_float (handles [h], buf, n) : sf_write_float (handles [h], buf, n) ; break ;
			default : ret = var == 'f' ? sf_writef_double (handles [h], buf, n) : sf_write_double (handles [h], buf, n) ; break ;
			}
		printf ("%d w ret=%lld", lineno, (long long) ret) ; pos_fields (h) ;
		printf (" guard=%d srcintact=%d", guard_ok (buf, alloc * tsize (t)), memcmp (copy, buf, alloc * tsize (t)) == 0) ;
		free (copy) ;
		}
	else
	{	/* the buffer is pre-filled with GB so untouched / zero-filled parts can be told apart */
		switch (t)
		{	case 's' : ret = var == 'f' ? sf_readf_short (handles [h], buf, n) : sf_read_short (handles [h], buf, n) ; break ;
			case 'i' : ret = var == 'f' ? sf_readf_int (handles [h], buf, n) : sf_read_int (handles [h], buf, n) ; break ;
			case 'f' : ret = var == 'f' ? sf_readf_float (handles [h], buf, n) : sf_read_float (handles [h], buf, n) ; break ;
			default : ret = var == 'f' ? sf_readf_double (handles [h], buf, n) : sf_read_double (handles [h], buf, n) ; break ;
			}
		long long got = var == 'f' ? ret * ch : ret ;
		if (got < 0) got = 0 ; if (got > alloc) got = alloc ;
		int refok = -1 ;
		if (refbuf [h][tindex (t)])
		{	long long start = rpos_before * ch ;
			long long cmpn = got ;
			/* items of a trailing partial frame (pad / terminator byte decoded as data) lie beyond the reference: C05's business */
			if (start >= 0 && start <= reflen [h][tindex (t)] && start + cmpn > reflen [h][tindex (t)] && start + cmpn < reflen [h][tindex (t)] + ch)
				cmpn = reflen [h][tindex (t)] - start ;
			refok = (start >= 0) && (start + cmpn <= reflen [h][tindex (t)]) && memcmp ((char *) refbuf [h][tindex (t)] + start * tsize (t), buf, cmpn * tsize (t)) == 0 ;
			} ;
		/* tail: z = all zero, u = untouched (still guard pattern), m = mixed */
		int allz = 1, allu = 1 ; unsigned char *b = (unsigned char *) buf + got * tsize (t) ;
		for (long long k = 0 ; k < (alloc - got) * tsize (t) ; k++) { if (b [k] != 0) allz = 0 ; if (b [k] != GB) allu = 0 ; }
		printf ("%d r ret=%lld", lineno, (long long) ret) ; pos_fields (h) ;
		printf (" dig=%016llx tail=%c guard=%d", (unsigned long long) digest_items (t, buf, got), alloc == got ? '-' : allz ? 'z' : allu ? 'u' : 'm',
			guard_ok (buf, alloc * tsize (t))) ;
		if (refok >= 0) printf (" refok=%d", refok) ;
		if ((t == 'd' || t == 'f') && ch <= 16)
		{	/* per channel maximum magnitude of what was delivered (C18 oracle) */
			printf (" absmax=") ;
			for (int c = 0 ; c < ch ; c++)
			{	double m = 0.0 ;
				for (long long k = c ; k < got ; k += ch) { double v = t == 'd' ? fabs (((double *) buf) [k]) : fabs ((double) ((float *) buf) [k]) ; if (v > m) m = v ; }
				uint64_t u ; memcpy (&u, &m, 8) ; printf ("%s%llx", c ? "," : "", (unsigned long long) u) ;
				} ;
			} ;
		if (got <= 24) { printf (" vals=") ; for (long long k = 0 ; k < got ; k++) { if (k) printf (",") ; print_item (t, buf, k) ; } }
		}
	check_invariants (h) ;
	printf ("\n") ;
	guarded_free (buf) ;
}

static void do_raw (int writing)
{	int h = tokll (1) ; long long n = tokll (2) ;
	if (! handles [h]) { printf ("%d raw nohandle=1\n", lineno) ; return ; }
	long long alloc = n > 0 ? n : 0 ;
	unsigned char *buf = guarded_alloc (alloc) ;
	sf_count_t ret ;
	if (writing)
	{	int nv = ntok - 3 ;
		for (long long k = 0 ; k < alloc ; k++) buf [k] = nv > 0 ? (unsigned char) strtol (toks [3 + k % nv], NULL, 0) : 0 ;
		ret = sf_write_raw (handles [h], buf, n) ;
		printf ("%d rw ret=%lld", lineno, (long long) ret) ; pos_fields (h) ;
		printf (" guard=%d", guard_ok (buf, alloc)) ;
		}
	else
	{	ret = sf_read_raw (handles [h], buf, n) ;
		long long got = ret < 0 ? 0 : ret > alloc ? alloc : ret ;
		printf ("%d rr ret=%lld", lineno, (long long) ret) ; pos_fields (h) ;
		printf (" dig=%016llx guard=%d", (unsigned long long) fnv (FNV0, buf, got), guard_ok (buf, alloc)) ;
		}
	check_invariants (h) ;
	printf ("\n") ;
	guarded_free (buf) ;
}

static void do_seek (void)
{	int h = tokll (1) ;
	if (! handles [h]) { printf ("%d seek nohandle=1\n", lineno) ; return ; }
	sf_count_t r = sf_seek (handles [h], tokll (2), tokll (3)) ;
	printf ("%d seek ret=%lld", lineno, (long long) r) ; pos_fields (h) ; check_invariants (h) ; printf ("\n") ;
}

static void do_store (void)
{	int sid = tokll (1) ; VIO_MEM *m = &stores [sid] ; const char *op = toks [2] ;
	if (! strcmp (op, "clear")) { vio_reset (m) ; }
	else if (! strcmp (op, "hex"))
	{	const char *s = ntok > 3 ? toks [3] : "" ; size_t n = strlen (s) / 2 ; unsigned char *b = malloc (n + 1) ;
		unhex (s, b, n) ;
		vio_set (m, b, n) ; free (b) ;
		}
	else if (! strcmp (op, "copy")) { VIO_MEM *s = &stores [tokll (3)] ; unsigned char *b = malloc (s->len + 1) ; memcpy (b, s->data, s->len) ; vio_set (m, b, s->len) ; free (b) ; }
	else if (! strcmp (op, "trunc")) { sf_count_t n = tokll (3) ; if (n < m->len) m->len = n ; m->pos = 0 ; }
	else if (! strcmp (op, "poke")) { sf_count_t o = tokll (3) ; for (int k = 4 ; k < ntok ; k++) if (o + k - 4 < m->len) m->data [o + k - 4] = (unsigned char) tokll (k) ; }
	else if (! strcmp (op, "reload")) { file_to_store (sid, 0) ; }
	else if (! strcmp (op, "append"))
	{	const char *s = ntok > 3 ? toks [3] : "" ; size_t n = strlen (s) / 2 ; unsigned char *b = malloc (m->len + n + 1) ;
		memcpy (b, m->data, m->len) ;
		unhex (s, b + m->len, n) ;
		vio_set (m, b, m->len + n) ; free (b) ;
		}
	else if (! strcmp (op, "dump"))
	{	printf ("%d store len=%lld hex=", lineno, (long long) m->len) ; for (sf_count_t i = 0 ; i < m->len ; i++) printf ("%02x", m->data [i]) ; printf ("\n") ; return ; }
	else if (! strcmp (op, "slice"))
	{	sf_count_t a = tokll (3), b = tokll (4) ; if (b > m->len) b = m->len ; if (a > b) a = b ;
		printf ("%d store len=%lld from=%lld hex=", lineno, (long long) m->len, (long long) a) ; for (sf_count_t i = a ; i < b ; i++) printf ("%02x", m->data [i]) ; printf ("\n") ; return ; }
	printf ("%d store len=%lld dig=%016llx\n", lineno, (long long) m->len, (unsigned long long) fnv (FNV0, m->data, m->len)) ;
}

static void do_info (void)
{	int h = tokll (1) ;
	if (! handles [h]) { printf ("%d info nohandle=1\n", lineno) ; return ; }
	SF_PRIVATE *p = P (h) ; SF_INFO i ; memset (&i, 0, sizeof (i)) ;
	sf_command (handles [h], SFC_GET_CURRENT_SF_INFO, &i, sizeof (i)) ;
	printf ("%d info fmt=%x ch=%d rate=%d frames=%lld sections=%d seekable=%d dataoffset=%lld datalength=%lld dataend=%lld bytewidth=%d blockwidth=%lld filelength=%lld mode=%d last_op=%d have_written=%d",
		lineno, i.format, i.channels, i.samplerate, (long long) i.frames, i.sections, i.seekable, (long long) p->dataoffset, (long long) p->datalength,
		(long long) p->dataend, p->bytewidth, (long long) p->blockwidth, (long long) p->filelength, p->file.mode, p->last_op, p->have_written) ;
	pos_fields (h) ; check_invariants (h) ; printf ("\n") ;
}

static const struct { const char *n ; int id ; } CMDS [] =
{	{ "SET_NORM_FLOAT", SFC_SET_NORM_FLOAT }, { "SET_NORM_DOUBLE", SFC_SET_NORM_DOUBLE }, { "SET_CLIPPING", SFC_SET_CLIPPING },
	{ "SET_SCALE_FLOAT_INT_READ", SFC_SET_SCALE_FLOAT_INT_READ }, { "SET_SCALE_INT_FLOAT_WRITE", SFC_SET_SCALE_INT_FLOAT_WRITE },
	{ "UPDATE_HEADER_NOW", SFC_UPDATE_HEADER_NOW }, { "SET_UPDATE_HEADER_AUTO", SFC_SET_UPDATE_HEADER_AUTO }, { "FILE_TRUNCATE", SFC_FILE_TRUNCATE },
	{ "SET_ADD_PEAK_CHUNK", SFC_SET_ADD_PEAK_CHUNK }, { "GET_NORM_DOUBLE", SFC_GET_NORM_DOUBLE }, { "GET_NORM_FLOAT", SFC_GET_NORM_FLOAT },
	{ "RF64_AUTO_DOWNGRADE", SFC_RF64_AUTO_DOWNGRADE }, { "GET_CLIPPING", SFC_GET_CLIPPING },
	{ NULL, 0 } } ;
static int cmd_id (const char *n) { for (int k = 0 ; CMDS [k].n ; k++) if (! strcmp (CMDS [k].n, n)) return CMDS [k].id ; return (int) strtol (n, NULL, 0) ; }

static void do_cmd (void)
{	int h = toks [1][0] == '-' ? -1 : (int) tokll (1) ; SNDFILE *f = h >= 0 ? handles [h] : NULL ;
	const char *name = toks [2] ; int id = cmd_id (name) ; int r = 0 ;
	if (h >= 0 && ! f) { printf ("%d cmd nohandle=1\n", lineno) ; return ; }
	printf ("%d cmd name=%s", lineno, name) ;
	if (id == SFC_FILE_TRUNCATE) { sf_count_t n = tokll (3) ; r = sf_command (f, id, &n, sizeof (n)) ; printf (" ret=%d", r) ; }
	else if (id == SFC_CALC_SIGNAL_MAX || id == SFC_CALC_NORM_SIGNAL_MAX || id == SFC_GET_SIGNAL_MAX)
	{	double d = -1 ; r = sf_command (f, id, &d, sizeof (d)) ; uint64_t u ; memcpy (&u, &d, 8) ; printf (" ret=%d val=%llx", r, (unsigned long long) u) ; }
	else if (id == SFC_CALC_MAX_ALL_CHANNELS || id == SFC_CALC_NORM_MAX_ALL_CHANNELS || id == SFC_GET_MAX_ALL_CHANNELS)
	{	int ch = P (h)->sf.channels ; double *d = guarded_alloc (sizeof (double) * ch) ;
		r = sf_command (f, id, d, sizeof (double) * ch) ; printf (" ret=%d vals=", r) ;
		for (int k = 0 ; k < ch ; k++) { uint64_t u ; memcpy (&u, d + k, 8) ; printf ("%s%llx", k ? "," : "", (unsigned long long) u) ; }
		printf (" guard=%d", guard_ok (d, sizeof (double) * ch)) ; guarded_free (d) ;
		}
	else { r = sf_command (f, id, NULL, (int) tokll (3)) ; printf (" ret=%d", r) ; }
	if (h >= 0) { pos_fields (h) ; check_invariants (h) ; }
	printf ("\n") ;
}

static void do_str (void)
{	int h = tokll (1) ; if (! handles [h]) { printf ("%d str nohandle=1\n", lineno) ; return ; }
	if (! strcmp (toks [2], "set"))
	{	const char *s = ntok > 4 ? toks [4] : "" ; size_t n = strlen (s) / 2 ; char *b = malloc (n + 1) ;
		unhex (s, b, n) ;
		b [n] = 0 ;
		int r = sf_set_string (handles [h], tokll (3), b) ; free (b) ;
		printf ("%d str ret=%d", lineno, r) ; pos_fields (h) ; printf ("\n") ;
		}
	else
	{	const char *s = sf_get_string (handles [h], tokll (3)) ;
		printf ("%d str val=", lineno) ;
		if (! s) printf ("NULL") ; else { printf ("x") ; for ( ; *s ; s++) printf ("%02x", (unsigned char) *s) ; }
		printf ("\n") ;
		}
}

static struct { char name [64] ; unsigned char *addr ; size_t size ; unsigned char *copy ; } gtab [128] ; static int ngtab ;
int main (int argc, char **argv) ;
int main (int argc, char **argv)
{	FILE *in = argc > 1 ? fopen (argv [1], "r") : stdin ;
	if (! in) { perror ("script") ; return 2 ; }
	ssize_t len ;
	signal (SIGCHLD, SIG_IGN) ; signal (SIGPIPE, SIG_IGN) ;
	/* descriptors 0..2 must exist: a library that closes a descriptor it does not own (say 0) has to be visible in the descriptor count */
	for (int fd = 0 ; fd < 3 ; fd++) if (fcntl (fd, F_GETFD) == -1) { int nfd = open ("/dev/null", O_RDWR) ; if (nfd >= 0 && nfd != fd) { dup2 (nfd, fd) ; close (nfd) ; } }
	unsigned budget = getenv ("SFD_BUDGET") ? (unsigned) atoi (getenv ("SFD_BUDGET")) : 0 ;
	if (getenv ("SFDRIVE_TMP")) tmpdir = getenv ("SFDRIVE_TMP") ;
	mkdir (tmpdir, 0755) ;
	if (getenv ("SFD_RES"))
	{	{	/* a directory of its own: process ids are re-used, and a run that was killed leaves its directory (with files) behind */
			struct timespec ts ; clock_gettime (CLOCK_MONOTONIC, &ts) ;
			snprintf (res_tmp, sizeof (res_tmp), "%s/lt_%d_%lld", tmpdir, (int) getpid (), (long long) ts.tv_sec * 1000000000LL + ts.tv_nsec) ;
			}
		mkdir (res_tmp, 0755) ; setenv ("TMPDIR", res_tmp, 1) ;
		{	/* warm-up: one-time allocations of the C library (time zone data, stdio, locale, error strings) must not be charged to a handle */
			time_t t0 = 86400 ; struct tm tmv ; char wb [128] ; localtime_r (&t0, &tmv) ; gmtime_r (&t0, &tmv) ; tzset () ; (void) localtime (&t0) ; (void) gmtime (&t0) ;
			strftime (wb, sizeof (wb), "%c", &tmv) ; snprintf (wb, sizeof (wb), "%f %s", 1.5, strerror (ENOENT)) ;
			char wp [700] ; snprintf (wp, sizeof (wp), "%s/warm", res_tmp) ; FILE *wf = fopen (wp, "wb+") ; if (wf) { fputs ("x", wf) ; fclose (wf) ; remove (wp) ; }
			} ;
#ifdef HAVE_RES
		__sanitizer_install_malloc_and_free_hooks (res_malloc_hook, res_free_hook) ; res_on = 1 ;
#endif
		} ;
	setvbuf (stdout, NULL, _IOFBF, 1 << 16) ;
	while ((len = getline (&linebuf, &linecap, in)) >= 0)
	{	lineno ++ ;
		ntok = 0 ;
		for (char *s = strtok (linebuf, " \t\r\n") ; s && ntok < 69999 ; s = strtok (NULL, " \t\r\n")) toks [ntok++] = s ;
		if (ntok == 0 || toks [0][0] == '#') continue ;
		const char *op = toks [0] ;
		if (budget > 0) alarm (budget) ;	/* per-call time budget: SIGALRM ends the process (the driver reports a hang at this line) */
		res_tag = (ntok > 1 && strcmp (op, "store") && strcmp (op, "fault") && strcmp (op, "calls") && toks [1][0] >= '0' && toks [1][0] <= '9') ? atoi (toks [1]) : (ntok > 2 && ! strcmp (op, "chunk")) ? atoi (toks [2]) : -1 ;
		if (res_on && res_fd_base == 0) res_fd_base = count_dir ("/proc/self/fd") ;
		if (! strcmp (op, "open")) do_open () ;
		else if (! strcmp (op, "close")) do_close () ;
		else if (! strcmp (op, "w")) do_rw (1) ;
		else if (! strcmp (op, "r")) do_rw (0) ;
		else if (! strcmp (op, "rr")) do_raw (0) ;
		else if (! strcmp (op, "rw")) do_raw (1) ;
		else if (! strcmp (op, "seek")) do_seek () ;
		else if (! strcmp (op, "ref"))
		{	/* ref <h> <T>: one sequential read of the whole file as type T through a SECOND handle on a copy of the
			   store's bytes (the handle under test is not disturbed); kept as the reference stream for h */
			int h = tokll (1) ; char t = toks [2][0] ;
			if (! handles [h]) { printf ("%d ref nohandle=1\n", lineno) ; continue ; }
			VIO_MEM tmp ; memset (&tmp, 0, sizeof (tmp)) ;
			vio_set (&tmp, stores [hstore [h]].data, stores [hstore [h]].len) ;
			SF_INFO ri ; memset (&ri, 0, sizeof (ri)) ;
			if (SF_CONTAINER (P (h)->sf.format) == SF_FORMAT_RAW) { ri = P (h)->sf ; }
			SNDFILE *rf = sf_open_virtual (&vio_mem_io, SFM_READ, &ri, &tmp) ;
			if (! rf) { printf ("%d ref open=0\n", lineno) ; vio_free (&tmp) ; continue ; }
			long long n = ri.frames * ri.channels ; if (n < 0) n = 0 ;
			free (refbuf [h][tindex (t)]) ;
			void *b = calloc (n + 1, tsize (t)) ; sf_count_t got = 0 ;
			switch (t)
			{	case 's' : got = sf_read_short (rf, b, n) ; break ;
				case 'i' : got = sf_read_int (rf, b, n) ; break ;
				case 'f' : got = sf_read_float (rf, b, n) ; break ;
				default : got = sf_read_double (rf, b, n) ; break ;
				} ;
			sf_close (rf) ; vio_free (&tmp) ;
			refbuf [h][tindex (t)] = b ; reflen [h][tindex (t)] = got ;
			printf ("%d ref items=%lld got=%lld dig=%016llx", lineno, n, (long long) got, (unsigned long long) digest_items (t, b, got)) ; pos_fields (h) ; printf ("\n") ;
			}
		else if (! strcmp (op, "store")) do_store () ;
		else if (! strcmp (op, "info")) do_info () ;
		else if (! strcmp (op, "cmd")) do_cmd () ;
		else if (! strcmp (op, "str")) do_str () ;
		else if (! strcmp (op, "chunk")) do_chunk () ;
		else if (! strcmp (op, "bext") || ! strcmp (op, "cart") || ! strcmp (op, "cue") || ! strcmp (op, "inst") || ! strcmp (op, "chmap")) do_meta () ;
		else if (! strcmp (op, "peak"))
		{	/* stored PEAK data of the handle: per channel value (as double bits) and position */
			int h = tokll (1) ;
			if (! handles [h]) { printf ("%d peak nohandle=1\n", lineno) ; continue ; }
			SF_PRIVATE *p = P (h) ;
			printf ("%d peak have=%d", lineno, p->peak_info != NULL) ;
			if (p->peak_info)
			{	printf (" peaks=") ;
				for (int c = 0 ; c < p->sf.channels ; c++)
				{	double v = p->peak_info->peaks [c].value ; uint64_t u ; memcpy (&u, &v, 8) ;
					printf ("%s%llx@%lld", c ? "," : "", (unsigned long long) u, (long long) p->peak_info->peaks [c].position) ;
					} ;
				} ;
			printf ("\n") ;
			}
		else if (! strcmp (op, "own"))
		{	/* own <h>: which owning fields of SF_PRIVATE (order of psf_close) hold a block, which close hooks are installed, live blocks of the handle */
			int h = tokll (1) ;
			if (! handles [h]) { printf ("%d own nohandle=1\n", lineno) ; continue ; }
			SF_PRIVATE *p = P (h) ;
			const void *f [] = { p->header.ptr, p->container_data, p->codec_data, p->interleave, p->dither, p->peak_info, p->broadcast_16k, p->loop_info, p->instrument,
				p->cues, p->channel_map, p->format_desc, p->strings.storage, p->rchunks.chunks, p->wchunks.chunks, p->iterator, p->cart_16k } ;
			unsigned mask = 0 ; for (unsigned k = 0 ; k < sizeof (f) / sizeof (f [0]) ; k++) if (f [k]) mask |= 1u << k ;
			long blocks = 0, payload = 0 ;
			for (size_t i = 0 ; i < RTAB ; i++) if (rtab [i].p != NULL && rtab [i].p != (void *) 1 && rtab [i].tag == h && ! res_harness_owned (rtab [i].p)) blocks ++ ;
			if (p->wchunks.chunks) for (uint32_t k = 0 ; k < p->wchunks.used ; k++) if (p->wchunks.chunks [k].data) payload ++ ;
			printf ("%d own mask=%x hooks=%d%d blocks=%ld payload=%ld\n", lineno, mask, p->codec_close != NULL, p->container_close != NULL, blocks, payload) ;
			}
		else if (! strcmp (op, "gtab"))
		{	/* gtab <address of main according to nm, hex> <name:addr:size>...   the library's writable process-wide objects (addresses from nm on this binary);
			   a copy of each is kept; gsum reports which of them differ from that copy now */
			uintptr_t slide = (uintptr_t) &main - (uintptr_t) strtoull (toks [1], NULL, 16) ;
			ngtab = 0 ;
			for (int k = 2 ; k < ntok && ngtab < 128 ; k++)
			{	char *c1 = strchr (toks [k], ':'), *c2 = c1 ? strchr (c1 + 1, ':') : NULL ; if (! c2) continue ;
				*c1 = 0 ; *c2 = 0 ;
				snprintf (gtab [ngtab].name, sizeof (gtab [ngtab].name), "%s", toks [k]) ;
				gtab [ngtab].addr = (unsigned char *) (slide + (uintptr_t) strtoull (c1 + 1, NULL, 16)) ; gtab [ngtab].size = strtoull (c2 + 1, NULL, 16) ;
				gtab [ngtab].copy = malloc (gtab [ngtab].size + 1) ; memcpy (gtab [ngtab].copy, gtab [ngtab].addr, gtab [ngtab].size) ;
				ngtab ++ ;
				} ;
			printf ("%d gtab n=%d\n", lineno, ngtab) ;
			}
		else if (! strcmp (op, "gsum"))
		{	printf ("%d gsum changed=", lineno) ; int nch = 0 ;
			for (int k = 0 ; k < ngtab ; k++) if (memcmp (gtab [k].copy, gtab [k].addr, gtab [k].size) != 0) printf ("%s%s", nch ++ ? "," : "", gtab [k].name) ;
			if (! nch) printf ("-") ;
			printf ("\n") ;
			}
		else if (! strcmp (op, "state")) { int h = tokll (1) ; if (handles [h]) printf ("%d state dig=%016llx\n", lineno, (unsigned long long) state_digest (h)) ; else printf ("%d state nohandle=1\n", lineno) ; }
		else if (! strcmp (op, "err"))
		{	SNDFILE *f = toks [1][0] == '-' ? NULL : handles [tokll (1)] ; const char *e = sf_strerror (f) ;
			printf ("%d err code=%d msg=%d\n", lineno, sf_error (f), e && e [0] ? 1 : 0) ;
			}
		else if (! strcmp (op, "fault"))
		{	VIO_MEM *m = &stores [tokll (1)] ; m->calls = 0 ; m->fault_at = tokll (2) ; m->fault_kind = tokll (3) ; m->fault_once = tokll (4) ; m->fault_done = 0 ; vio_unsnap (m) ;
			printf ("%d fault set=1\n", lineno) ;
			}
		else if (! strcmp (op, "sidecar"))
		{	/* sidecar <sid> <hex|-> : the next path-route open of this store finds a resource fork file of these bytes beside it */
			int sid = tokll (1) ; const char *hx = ntok > 2 ? toks [2] : "-" ; size_t n = hx [0] == '-' ? 0 : strlen (hx) / 2 ;
			free (sidecar [sid]) ; sidecar [sid] = malloc (n + 1) ; sidecar_len [sid] = (long) (hx [0] == '-' ? 0 : unhex (hx, sidecar [sid], n)) ;
			printf ("%d sidecar len=%ld\n", lineno, sidecar_len [sid]) ;
			}
		else if (! strcmp (op, "fdclose")) { int h = tokll (1) ; int r = hfd [h] >= 0 ? close (hfd [h]) : -2 ; printf ("%d fdclose ret=%d\n", lineno, r) ; }
		else if (! strcmp (op, "calls")) printf ("%d calls n=%ld\n", lineno, stores [tokll (1)].calls) ;
		else printf ("%d unknown op=%s\n", lineno, op) ;
		fflush (stdout) ;
		}
	for (int h = 0 ; h < NHANDLE ; h++) if (handles [h]) sf_close (handles [h]) ;
	for (int s = 0 ; s < NSTORE ; s++) vio_free (&stores [s]) ;
	if (res_tmp [0]) rmdir (res_tmp) ;
	return 0 ;
}

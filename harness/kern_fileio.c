/* K tie for C14: the I/O shim of src/file_io.c on the descriptor route (an embedded file at fileoffset k inside a container
   file with leading and trailing junk) and on the virtual route, same operation history.
   lines:  F <prehex|-> <filehex> <posthex|->          new file (both routes re-initialised, position at the start of the sound file)
           S <d|v> <off> <whence> <result>
           R <d|v> <n> 0 <hex of bytes read|->
           T <d|v> 0 0 <result>
           L d 0 0 <psf_get_filelen>
   usage: kern_fileio <seed> <files> */
#include <stdio.h>
#include <stdlib.h>
#include <string.h>
#include <unistd.h>
#include <fcntl.h>
#include "sfconfig.h"
#include "sndfile.h"
#include "common.h"
#include "prng.h"
#include "vio_mem.h"

static void hex (const unsigned char *b, size_t n) { if (n == 0) printf ("-") ; for (size_t i = 0 ; i < n ; i++) printf ("%02x", b [i]) ; }

int main (int argc, char **argv)
{	uint64_t seed = argc > 1 ? strtoull (argv [1], NULL, 0) : 1 ; int files = argc > 2 ? atoi (argv [2]) : 50 ;
	prng_seed (seed, 14) ;
	char path [256] ; snprintf (path, sizeof (path), "/verif/build/tmp/kfio_%d.bin", (int) getpid ()) ;
	for (int fno = 0 ; fno < files ; fno++)
	{	int npre = (int) (rnd64 () % 3) ? (int) (rnd64 () % 40) : 0, nf = 1 + (int) (rnd64 () % 300), npost = (int) (rnd64 () % 3) ? (int) (rnd64 () % 40) : 0 ;
		unsigned char *all = malloc (npre + nf + npost + 1) ;
		for (int i = 0 ; i < npre + nf + npost ; i++) all [i] = (unsigned char) rnd64 () ;
		FILE *fp = fopen (path, "wb") ; fwrite (all, 1, npre + nf + npost, fp) ; fclose (fp) ;
		printf ("F ") ; hex (all, npre) ; printf (" ") ; hex (all + npre, nf) ; printf (" ") ; hex (all + npre + nf, npost) ; printf ("\n") ;
		SF_PRIVATE *pd = calloc (1, sizeof (SF_PRIVATE)), *pv = calloc (1, sizeof (SF_PRIVATE)) ;
		pd->file.filedes = open (path, O_RDONLY) ; pd->file.mode = SFM_READ ; pd->fileoffset = npre ; pd->filelength = nf ;
		lseek (pd->file.filedes, npre, SEEK_SET) ;
		VIO_MEM mem ; memset (&mem, 0, sizeof (mem)) ; vio_set (&mem, all + npre, nf) ;
		pv->virtual_io = SF_TRUE ; pv->vio = vio_mem_io ; pv->vio_user_data = &mem ; pv->file.mode = SFM_READ ; pv->file.filedes = -1 ;
		if (npre > 0) printf ("L d 0 0 %lld\n", (long long) psf_get_filelen (pd)) ;
		long p = 0 ;
		for (int k = 0 ; k < 30 ; k++)
		{	int what = (int) (rnd64 () % 4) ;
			if (what == 0)
			{	long off = (long) (rnd64 () % (nf + 1)) ;
				printf ("S d %ld 0 %lld\n", off, (long long) psf_fseek (pd, off, SEEK_SET)) ; printf ("S v %ld 0 %lld\n", off, (long long) psf_fseek (pv, off, SEEK_SET)) ;
				p = off ;
				}
			else if (what == 1)
			{	long np = (long) (rnd64 () % (nf + 1)) ; long off = np - p ;
				printf ("S d %ld 1 %lld\n", off, (long long) psf_fseek (pd, off, SEEK_CUR)) ; printf ("S v %ld 1 %lld\n", off, (long long) psf_fseek (pv, off, SEEK_CUR)) ;
				p = np ;
				}
			else if (what == 2)
			{	long n = (long) (rnd64 () % (nf - p + 1)) ; unsigned char *b1 = malloc (n + 1), *b2 = malloc (n + 1) ;
				long g1 = (long) psf_fread (b1, 1, n, pd), g2 = (long) psf_fread (b2, 1, n, pv) ;
				printf ("R d %ld 0 ", n) ; hex (b1, g1) ; printf ("\n") ; printf ("R v %ld 0 ", n) ; hex (b2, g2) ; printf ("\n") ;
				p += n ; free (b1) ; free (b2) ;
				}
			else
			{	printf ("T d 0 0 %lld\n", (long long) psf_ftell (pd)) ; printf ("T v 0 0 %lld\n", (long long) psf_ftell (pv)) ; }
			}
		close (pd->file.filedes) ; free (pd) ; free (pv) ; vio_free (&mem) ; free (all) ;
		}
	unlink (path) ;
	return 0 ;
}

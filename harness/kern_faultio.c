/* K tie for C15: psf_fread / psf_fwrite of src/file_io.c over a descriptor whose read(2) / write(2) answers follow a script
   (link-time wrap of read and write), and over a virtual I/O callback with a scripted answer.
   lines:  D <r|w> <bytes> <items> <outcomes> <ret,moved,calls,syserr>     descriptor route; outcomes: comma list of e (EIO) i (EINTR) or a byte count
           V <r|w> <bytes> <items> <k> <ret,moved,calls,0>                 virtual route: one callback answering k bytes
   usage: kern_faultio <seed> <cases> */
#include <stdio.h>
#include <stdlib.h>
#include <string.h>
#include <unistd.h>
#include <fcntl.h>
#include <errno.h>
#include "sfconfig.h"
#include "sndfile.h"
#include "common.h"
#include "prng.h"

#define MAXO 64
static int target_fd = -1 ;
static long outs [MAXO] ; static int nouts, nextout, ncalls ; static long moved ;		/* -1 EIO, -2 EINTR, >= 0 bytes */

static ssize_t scripted (size_t asked)
{	ncalls ++ ;
	if (nextout >= nouts) return 0 ;
	long o = outs [nextout ++] ;
	if (o == -1) { errno = EIO ; return -1 ; }
	if (o == -2) { errno = EINTR ; return -1 ; }
	if ((size_t) o > asked) o = (long) asked ;
	moved += o ;
	return o ;
}
ssize_t __real_read (int fd, void *buf, size_t n) ;
ssize_t __real_write (int fd, const void *buf, size_t n) ;
ssize_t __wrap_read (int fd, void *buf, size_t n)
{	if (fd != target_fd) return __real_read (fd, buf, n) ;
	ssize_t r = scripted (n) ; if (r > 0) memset (buf, 0x5A, r) ; return r ;
}
ssize_t __wrap_write (int fd, const void *buf, size_t n)
{	if (fd != target_fd) return __real_write (fd, buf, n) ;
	return scripted (n) ;
}

static long vio_answer, vio_calls ;
static sf_count_t v_len (void *u) { return 0 ; }
static sf_count_t v_seek (sf_count_t o, int w, void *u) { return o ; }
static sf_count_t v_read (void *p, sf_count_t n, void *u) { vio_calls ++ ; long k = vio_answer > n ? n : vio_answer ; if (k > 0) memset (p, 0x5A, k) ; return k ; }
static sf_count_t v_write (const void *p, sf_count_t n, void *u) { vio_calls ++ ; return vio_answer > n ? n : vio_answer ; }
static sf_count_t v_tell (void *u) { return 0 ; }

int main (int argc, char **argv)
{	uint64_t seed = argc > 1 ? strtoull (argv [1], NULL, 0) : 1 ; int cases = argc > 2 ? atoi (argv [2]) : 1000 ;
	prng_seed (seed, 15) ;
	SF_PRIVATE *pd = calloc (1, sizeof (SF_PRIVATE)), *pv = calloc (1, sizeof (SF_PRIVATE)) ;
	target_fd = open ("/dev/null", O_RDWR) ;
	pd->file.filedes = target_fd ; pd->file.mode = SFM_RDWR ;
	SF_VIRTUAL_IO vio = { v_len, v_seek, v_read, v_write, v_tell } ;
	pv->virtual_io = SF_TRUE ; pv->vio = vio ; pv->file.filedes = -1 ; pv->file.mode = SFM_RDWR ;
	static const int widths [] = { 0, 1, 1, 2, 3, 4, 8, 6, 33, 256 } ;
	unsigned char *buf = malloc (1 << 20) ;
	for (int c = 0 ; c < cases ; c++)
	{	int bytes = widths [rnd64 () % 10] ; long items = (long) (rnd64 () % 5 == 0 ? rnd64 () % 3 : rnd64 () % 700) ; int wr = (int) (rnd64 () % 2) ;
		long want = (long) bytes * items ;
		if (rnd64 () % 3)
		{	/* descriptor route */
			nouts = (int) (rnd64 () % 9) ; nextout = 0 ; ncalls = 0 ; moved = 0 ; long left = want ;
			printf ("D %c %d %ld ", wr ? 'w' : 'r', bytes, items) ;
			for (int k = 0 ; k < nouts ; k++)
			{	int what = (int) (rnd64 () % 10) ; long o ;
				if (what == 0) o = -1 ; else if (what == 1) o = -2 ; else if (what == 2) o = 0 ;
				else if (what < 6) o = left ;								/* everything that is left */
				else if (what < 9) o = left > 0 ? (long) (rnd64 () % (left + 1)) : 0 ;			/* a part, often cutting an item */
				else o = left + 1 + (long) (rnd64 () % 5) ;						/* more than asked: the kernel cannot, the wrap clamps */
				outs [k] = o ; if (o > 0) left -= o > left ? left : o ;
				printf ("%s", k ? "," : "") ; if (o == -1) printf ("e") ; else if (o == -2) printf ("i") ; else printf ("%ld", o) ;
				} ;
			if (nouts == 0) printf ("-") ;
			pd->error = 0 ;
			sf_count_t r = wr ? psf_fwrite (buf, bytes, items, pd) : psf_fread (buf, bytes, items, pd) ;
			printf (" %lld,%ld,%d,%d\n", (long long) r, moved, ncalls, pd->error == SFE_SYSTEM) ;
			}
		else
		{	long k = rnd64 () % 4 == 0 ? 0 : rnd64 () % 4 == 0 ? want : want > 0 ? (long) (rnd64 () % (want + 1)) : 0 ;
			vio_answer = k ; vio_calls = 0 ;
			sf_count_t r = wr ? psf_fwrite (buf, bytes, items, pv) : psf_fread (buf, bytes, items, pv) ;
			printf ("V %c %d %ld %ld %lld,%ld,%ld,0\n", wr ? 'w' : 'r', bytes, items, k, (long long) r, (bytes && items) ? (k > want ? want : k) : 0, vio_calls) ;
			} ;
		} ;
	free (buf) ; close (target_fd) ; free (pd) ; free (pv) ;
	return 0 ;
}

/* K tie for C04: the AIFF 80-bit sample rate codec (static functions of src/aiff.c, reached by including the file).
   lines:  E <rate> <6 bytes hex>      uint2tenbytefloat (rate)
           D <6 bytes hex> 0 <int>     tenbytefloat2int (bytes)
   usage: kern_ext80 <seed> <n> */
#include <stdio.h>
#include <stdlib.h>
#include <string.h>
#define aiff_open aiff_open_unused_in_harness
#include "aiff.c"
#include "prng.h"

int main (int argc, char **argv)
{	uint64_t seed = argc > 1 ? strtoull (argv [1], NULL, 0) : 1 ; int n = argc > 2 ? atoi (argv [2]) : 1000 ;
	prng_seed (seed, 80) ;
	for (int k = 0 ; k < n + 200 ; k++)
	{	uint32_t r ;
		if (k < 96) { int p = k / 3 ; r = (1u << p) + (k % 3) - 1 ; if (p == 0 && k % 3 == 0) r = 1 ; }
		else if (k < 200) { static const uint32_t T [] = { 1, 2, 3, 8000, 11025, 22050, 44100, 48000, 96000, 192000, 65535, 65536, 16777217, 1073741823, 1073741824, 2147483647 } ; r = T [k % 16] ; }
		else r = (uint32_t) (rnd64 () >> (rnd64 () % 40)) & 0x7FFFFFFF ;
		if (r == 0) r = 1 ;
		uint8_t b [10] ; memset (b, 0, sizeof (b)) ;
		uint2tenbytefloat (r, b) ;
		printf ("E %u %02x%02x%02x%02x%02x%02x\n", r, b [0], b [1], b [2], b [3], b [4], b [5]) ;
		printf ("D %02x%02x%02x%02x%02x%02x 0 %d\n", b [0], b [1], b [2], b [3], b [4], b [5], tenbytefloat2int (b)) ;
		/* arbitrary bytes through the reader too */
		uint8_t c [10] ; for (int i = 0 ; i < 6 ; i++) c [i] = (uint8_t) rnd64 () ; if (k % 3) { c [0] = 0x40 ; c [1] = (uint8_t) (rnd64 () % 31) ; }
		printf ("D %02x%02x%02x%02x%02x%02x 0 %d\n", c [0], c [1], c [2], c [3], c [4], c [5], tenbytefloat2int (c)) ;
		}
	return 0 ;
}

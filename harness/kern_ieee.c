/* K tie for Ieee.v / Endian.v: portable serialisers and byte-order helpers of the working tree.
   usage: kern_ieee <seed> <n> */
#include <stdio.h>
#include <stdlib.h>
#include <string.h>
#include <math.h>
#include "prng.h"
#include "sfconfig.h"
#include "sndfile.h"
#include "sfendian.h"
#include "common.h"

static float f_of (uint32_t u) { float f ; memcpy (&f, &u, 4) ; return f ; }
static uint32_t u_of (float f) { uint32_t u ; memcpy (&u, &f, 4) ; return u ; }
static double d_of (uint64_t u) { double f ; memcpy (&f, &u, 8) ; return f ; }
static uint64_t ud_of (double f) { uint64_t u ; memcpy (&u, &f, 8) ; return u ; }
static void hexb (const unsigned char *b, int n) { for (int i = 0 ; i < n ; i++) printf ("%02x", b [i]) ; }

static uint32_t pick32 (uint64_t i)
{	uint64_t r = rnd64 () ;
	switch (i % 8)
	{	case 0 : return (uint32_t) r ;
		case 1 : return ((uint32_t) (r >> 63) << 31) | ((uint32_t) (1 + (r >> 8) % 254) << 23) | ((r >> 20) & 0x7FFFFF) ;	/* normal */
		case 2 : return ((uint32_t) (r >> 63) << 31) | ((uint32_t) (1 + (r >> 8) % 40) << 23) | ((r >> 20) & 0x7FFFFF) ;	/* tiny normals */
		case 3 : return ((uint32_t) (r >> 63) << 31) | ((r >> 20) & 0x7FFFFF) ;	/* subnormal */
		case 4 : { static const uint32_t t [] = { 0, 0x80000000u, 0x00800000u, 0x007FFFFFu, 0x7F7FFFFFu, 0x3F800000u, 0x0DA24260u, 0x0DA2425Fu, 0x0DA24261u, 0x00800001u, 0x80800000u } ; return t [(r >> 8) % 11] ; }
		case 5 : return ((uint32_t) (r >> 63) << 31) | ((uint32_t) (26 + (r >> 8) % 3) << 23) | ((r >> 20) & 0x7FFFFF) ;	/* around 1e-30 */
		case 6 : return u_of ((float) (int) (r >> 40)) ;
		default : return ((uint32_t) (r >> 63) << 31) | ((uint32_t) (100 + (r >> 8) % 60) << 23) | ((r >> 20) & 0x7FFFFF) ;
		} ;
}
static uint64_t pick64 (uint64_t i)
{	uint64_t r = rnd64 (), f = rnd64 () & 0xFFFFFFFFFFFFFULL ;
	switch (i % 8)
	{	case 0 : return rnd64 () ;
		case 1 : return ((r >> 63) << 63) | ((1 + (r >> 8) % 2046) << 52) | f ;
		case 2 : return ((r >> 63) << 63) | ((1 + (r >> 8) % 100) << 52) | f ;
		case 3 : return ((r >> 63) << 63) | f ;
		case 4 : { static const uint64_t t [] = { 0, 0x8000000000000000ULL, 0x0010000000000000ULL, 0x000FFFFFFFFFFFFFULL, 0x7FEFFFFFFFFFFFFFULL, 0x3FF0000000000000ULL, 0x39b4484bfeebc2a0ULL, 0x39b4484bfeebc29fULL, 0x0010000000000001ULL } ; return t [(r >> 8) % 9] ; }
		case 5 : return ((r >> 63) << 63) | ((921 + (r >> 8) % 5) << 52) | f ;	/* around 1e-30 */
		case 6 : return ud_of ((double) f_of (pick32 (r))) ;
		default : return ((r >> 63) << 63) | ((1023 - 40 + (r >> 8) % 80) << 52) | f ;
		} ;
}

int main (int argc, char **argv)
{	uint64_t seed = argc > 1 ? strtoull (argv [1], 0, 10) : 1 ;
	long n = argc > 2 ? atol (argv [2]) : 1000 ;
	prng_seed (seed, 999) ;
	for (long i = 0 ; i < n ; i++)
	{	unsigned char b [8] ;
		uint32_t a = pick32 (i) ; uint64_t c = pick64 (i) ;
		float fa = f_of (a) ; double dc = d_of (c) ;
		if (isfinite (fa))
		{	float32_le_write (fa, b) ; printf ("w32le %x ", a) ; hexb (b, 4) ; printf ("\n") ;
			float32_be_write (fa, b) ; printf ("w32be %x ", a) ; hexb (b, 4) ; printf ("\n") ;
			} ;
		if (isfinite (dc))
		{	double64_le_write (dc, b) ; printf ("w64le %llx ", (unsigned long long) c) ; hexb (b, 8) ; printf ("\n") ;
			double64_be_write (dc, b) ; printf ("w64be %llx ", (unsigned long long) c) ; hexb (b, 8) ; printf ("\n") ;
			} ;
		/* reads: bytes = native pattern in the stated order */
		for (int k = 0 ; k < 4 ; k++) b [k] = (a >> (8 * k)) & 0xFF ;
		{ volatile float r = float32_le_read (b) ; if (! isnan (r)) { printf ("r32le ") ; hexb (b, 4) ; printf (" %x\n", u_of (r)) ; } }
		{ volatile float r = float32_be_read (b) ; if (! isnan (r)) { printf ("r32be ") ; hexb (b, 4) ; printf (" %x\n", u_of (r)) ; } }
		for (int k = 0 ; k < 8 ; k++) b [k] = (c >> (8 * k)) & 0xFF ;
		{ volatile double r = double64_le_read (b) ; if (! isnan (r)) { printf ("r64le ") ; hexb (b, 8) ; printf (" %llx\n", (unsigned long long) ud_of (r)) ; } }
		{ volatile double r = double64_be_read (b) ; if (! isnan (r)) { printf ("r64be ") ; hexb (b, 8) ; printf (" %llx\n", (unsigned long long) ud_of (r)) ; } }
		/* byte order helpers */
		{	uint16_t x16 = (uint16_t) c ; uint32_t x32 = (uint32_t) (c >> 13) ; uint64_t x64 = c ^ rnd64 () ;
			printf ("sw16 %x %x\n", x16, (unsigned) (uint16_t) ENDSWAP_16 (x16)) ;
			printf ("sw32 %x %x\n", x32, (unsigned) (uint32_t) ENDSWAP_32 (x32)) ;
			printf ("sw64 %llx %llx\n", (unsigned long long) x64, (unsigned long long) (uint64_t) ENDSWAP_64 (x64)) ;
			for (int k = 0 ; k < 8 ; k++) b [k] = (x64 >> (8 * k)) & 0xFF ;
			printf ("gbe16 ") ; hexb (b, 2) ; printf (" %d\n", (int) psf_get_be16 (b, 0)) ;
			printf ("gbe24 ") ; hexb (b, 3) ; printf (" %d\n", (int) psf_get_be24 (b, 0)) ;
			printf ("gle24 ") ; hexb (b, 3) ; printf (" %d\n", (int) psf_get_le24 (b, 0)) ;
			printf ("gbe32 ") ; hexb (b, 4) ; printf (" %d\n", (int) psf_get_be32 (b, 0)) ;
			printf ("gle32 ") ; hexb (b, 4) ; printf (" %d\n", (int) psf_get_le32 (b, 0)) ;
			printf ("gbe64 ") ; hexb (b, 8) ; printf (" %lld\n", (long long) psf_get_be64 (b, 0)) ;
			printf ("gle64 ") ; hexb (b, 8) ; printf (" %lld\n", (long long) psf_get_le64 (b, 0)) ;
			unsigned char o [8] ;
			psf_put_be16 (o, 0, (int16_t) x16) ; printf ("pbe16 %d ", (int) (int16_t) x16) ; hexb (o, 2) ; printf ("\n") ;
			psf_put_be32 (o, 0, (int32_t) x32) ; printf ("pbe32 %d ", (int) (int32_t) x32) ; hexb (o, 4) ; printf ("\n") ;
			psf_put_be64 (o, 0, (int64_t) x64) ; printf ("pbe64 %lld ", (long long) (int64_t) x64) ; hexb (o, 8) ; printf ("\n") ;
			} ;
		} ;
	return 0 ;
}

/* K tie for C03: validate_sfinfo (static in src/sndfile.c, reached by including the file) on boundary and PRNG SF_INFO values.
   lines: G <samplerate> <frames> <channels> <format hex> <sections> <result>        usage: kern_gate <seed> <n> */
#include <stdio.h>
#include <stdlib.h>
#define main sndfile_c_main_unused
#include "sndfile.c"
#undef main
#include "prng.h"
int main (int argc, char **argv)
{	uint64_t seed = argc > 1 ? strtoull (argv [1], NULL, 0) : 1 ; int n = argc > 2 ? atoi (argv [2]) : 20000 ;
	prng_seed (seed, 33) ;
	static const long long V [] = { -2147483648LL, -1, 0, 1, 2, 1023, 1024, 1025, 65536, 2147483647LL } ;
	for (int k = 0 ; k < n ; k++)
	{	SF_INFO i ; memset (&i, 0, sizeof (i)) ;
		i.samplerate = (int) V [rnd64 () % 10] ; i.frames = (rnd64 () % 3) ? V [rnd64 () % 10] : (sf_count_t) rnd64 () ; i.channels = (int) V [rnd64 () % 10] ;
		i.format = (rnd64 () % 4 == 0 ? 0 : (int) ((rnd64 () % 40) << 16)) | (rnd64 () % 4 == 0 ? 0 : (int) (rnd64 () % 0x80)) | (int) ((rnd64 () % 4) << 28) ;
		i.sections = (int) V [rnd64 () % 10] ;
		printf ("G %d %lld %d %x %d %d\n", i.samplerate, (long long) i.frames, i.channels, i.format, i.sections, validate_sfinfo (&i)) ;
		}
	return 0 ;
}

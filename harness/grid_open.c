/* C10 tie: (a) sf_format_check on grid points; (b) what really happens: open for write on a memory store, one frame
   through each of the four sample types, close, re-open for reading, same container / encoding / channels.
   usage: grid_open <mode: fc|open> <tier: quick|thorough> <seed>
   output lines:  F <format hex> <channels> <samplerate> <sf_format_check result>
                  O <format hex> <channels> <samplerate> <writable 0/1> <detail> */
#include <stdio.h>
#include <stdlib.h>
#include <string.h>
#include <sndfile.h>
#include <unistd.h>
#include "prng.h"
#include "vio_mem.h"

static VIO_MEM mem ;
static int majors [64], nmaj, subs [64], nsub ;
static const int ENDS [4] = { SF_ENDIAN_FILE, SF_ENDIAN_LITTLE, SF_ENDIAN_BIG, SF_ENDIAN_CPU } ;

static void lists (void)
{	sf_command (NULL, SFC_GET_FORMAT_MAJOR_COUNT, &nmaj, sizeof (int)) ;
	for (int k = 0 ; k < nmaj ; k++) { SF_FORMAT_INFO fi ; fi.format = k ; sf_command (NULL, SFC_GET_FORMAT_MAJOR, &fi, sizeof (fi)) ; majors [k] = fi.format ; }
	sf_command (NULL, SFC_GET_FORMAT_SUBTYPE_COUNT, &nsub, sizeof (int)) ;
	for (int k = 0 ; k < nsub ; k++) { SF_FORMAT_INFO fi ; fi.format = k ; sf_command (NULL, SFC_GET_FORMAT_SUBTYPE, &fi, sizeof (fi)) ; subs [k] = fi.format ; }
}

static void try_open (int format, int ch, int rate)
{	SF_INFO info ; memset (&info, 0, sizeof (info)) ;
	info.format = format ; info.channels = ch ; info.samplerate = rate ; info.frames = 12345 ;
	vio_reset (&mem) ;
	/* SD2 keeps its header in a resource fork next to the file: only the path route can write and re-read it */
	int bypath = (format & SF_FORMAT_TYPEMASK) == SF_FORMAT_SD2 ;
	char path [256] ; snprintf (path, sizeof (path), "/verif/build/tmp/grid_%d.sd2", (int) getpid ()) ;
	SNDFILE *f = bypath ? sf_open (path, SFM_WRITE, &info) : sf_open_virtual (&vio_mem_io, SFM_WRITE, &info, &mem) ;
	if (! f)
	{	if (bypath) unlink (path) ;
		int e = sf_error (NULL) ; const char *m = sf_strerror (NULL) ;
		printf ("O %x %d %d 0 open_failed_err=%d%s\n", format, ch, rate, e, (e != 0 && m && m [0]) ? "" : "_NO_ERROR_REPORTED") ;
		return ;
		}
	int n = (ch > 0 ? ch : 1) * 4 ;
	short *sb = calloc (n, sizeof (short)) ; int *ib = calloc (n, sizeof (int)) ; float *fb = calloc (n, sizeof (float)) ; double *db = calloc (n, sizeof (double)) ;
	for (int k = 0 ; k < n ; k++) { sb [k] = 256 * (k % 100) ; ib [k] = 65536 * 256 * (k % 100) ; fb [k] = 0.25f ; db [k] = -0.25 ; }
	int w1 = sf_writef_short (f, sb, 4), w2 = sf_writef_int (f, ib, 4), w3 = sf_writef_float (f, fb, 4), w4 = sf_writef_double (f, db, 4) ;
	int werr = sf_error (f) ;
	int c = sf_close (f) ;
	free (sb) ; free (ib) ; free (fb) ; free (db) ;
	/* "accepts frames": the exact count contract is C05's business (VOX reports count + 1 for odd requests) */
	if (w1 < 4 || w2 < 4 || w3 < 4 || w4 < 4 || c != 0)
	{	printf ("O %x %d %d 0 write_failed_%d%d%d%d_err=%d_close=%d\n", format, ch, rate, w1, w2, w3, w4, werr, c) ; return ; }
	SF_INFO ri ; memset (&ri, 0, sizeof (ri)) ;
	if ((format & SF_FORMAT_TYPEMASK) == SF_FORMAT_RAW) { ri.format = format ; ri.channels = ch ; ri.samplerate = rate ; }
	mem.pos = 0 ;
	SNDFILE *r = bypath ? sf_open (path, SFM_READ, &ri) : sf_open_virtual (&vio_mem_io, SFM_READ, &ri, &mem) ;
	if (bypath) { char rs [300] ; unlink (path) ; snprintf (rs, sizeof (rs), "%s.rsrc", path) ; unlink (rs) ; snprintf (rs, sizeof (rs), "/verif/build/tmp/._grid_%d.sd2", (int) getpid ()) ; unlink (rs) ; }
	if (! r) { printf ("O %x %d %d 0 reopen_failed_err=%d\n", format, ch, rate, sf_error (NULL)) ; return ; }
	int same = (ri.format & SF_FORMAT_TYPEMASK) == (format & SF_FORMAT_TYPEMASK) && (ri.format & SF_FORMAT_SUBMASK) == (format & SF_FORMAT_SUBMASK) && ri.channels == ch ;
	sf_close (r) ;
	if (! same) { printf ("O %x %d %d 0 reopened_as_%x_ch%d\n", format, ch, rate, ri.format, ri.channels) ; return ; }
	printf ("O %x %d %d 1 ok_frames=%lld\n", format, ch, rate, (long long) ri.frames) ;
}

int main (int argc, char **argv)
{	const char *mode = argc > 1 ? argv [1] : "fc" ; int thorough = argc > 2 && ! strcmp (argv [2], "thorough") ;
	uint64_t seed = argc > 3 ? strtoull (argv [3], NULL, 0) : 1 ; prng_seed (seed, 10) ;
	static const int CH_T [] = { 0, 1, 2, 3, 8, 9, 256, 257, 1024, 1025 }, CH_Q [] = { 0, 1, 2, 3, 9, 257, 1025 } ;
	static const int RT_T [] = { -1, 0, 1, 8000, 44100, 2147483647 }, RT_Q [] = { -1, 0, 1, 44100 } ;
	lists () ;
	int isfc = ! strcmp (mode, "fc") ;
	for (int m = 0 ; m < nmaj ; m++) for (int s = 0 ; s < nsub ; s++) for (int e = 0 ; e < 4 ; e++)
	{	int format = majors [m] | subs [s] | ENDS [e] ;
		const int *chs = CH_T ; int nch = 10 ; (void) CH_Q ;
		const int *rts = RT_T ; int nrt = 6 ; (void) RT_Q ;
		for (int c = 0 ; c < nch ; c++) for (int r = 0 ; r < nrt ; r++)
		{	if (isfc)
			{	SF_INFO info ; memset (&info, 0, sizeof (info)) ; info.format = format ; info.channels = chs [c] ; info.samplerate = rts [r] ;
				printf ("F %x %d %d %d\n", format, chs [c], rts [r], sf_format_check (&info)) ;
				}
			else
			{	/* quick tier: the channel x rate product only where it matters; elsewhere one rate per channel count */
				if (! thorough && rts [r] != 44100 && chs [c] != 1 && chs [c] != 2) continue ;
				try_open (format, chs [c], rts [r]) ;
				}
			}
		}
	if (isfc)
	{	/* arbitrary format words, channel counts and rates: the translation must agree everywhere */
		for (int k = 0 ; k < (thorough ? 400000 : 40000) ; k++)
		{	SF_INFO info ; memset (&info, 0, sizeof (info)) ;
			int pick = (int) (rnd64 () % 4) ;
			info.format = pick == 0 ? (int) (rnd64 () & 0x3FFFFFFF) : (majors [(int) (rnd64 () % nmaj)] | (pick == 1 ? subs [(int) (rnd64 () % nsub)] : (int) (int) (rnd64 () % 0x80)) | ENDS [(int) (rnd64 () % 4)]) ;
			info.channels = (int) (int) (rnd64 () % 3) ? (int) (int) (rnd64 () % 12) - 1 : (int) (rnd64 () % 3000) - 500 ;
			info.samplerate = (int) (int) (rnd64 () % 4) ? 44100 : (int) (rnd64 () & 0xFFFFFFFF) ;
			printf ("F %x %d %d %d\n", info.format, info.channels, info.samplerate, sf_format_check (&info)) ;
			}
		}
	vio_free (&mem) ;
	return 0 ;
}

/* K tie for G.711: call the array kernels of the working tree's ulaw.c / alaw.c directly and print
   one line per evaluation:  <kernel> <input> <output>
   usage: kern_g711 <seed> <n_random_ints> */
#include <stdio.h>
#include <stdlib.h>
#include <stdint.h>
#define ulaw_init ulaw_init_x
#include "ulaw.c"
#define alaw_init alaw_init_x
#include "alaw.c"

static uint64_t rs ;
static uint64_t rnd (void)
{	uint64_t z ;
	rs += 0x9E3779B97F4A7C15ULL ; z = rs ;
	z = (z ^ (z >> 30)) * 0xBF58476D1CE4E5B9ULL ; z = (z ^ (z >> 27)) * 0x94D049BB133111EBULL ;
	return z ^ (z >> 31) ;
}

int main (int argc, char **argv)
{	uint64_t seed = argc > 1 ? strtoull (argv [1], 0, 10) : 1 ;
	long nrand = argc > 2 ? atol (argv [2]) : 1000 ;
	rs = seed * 0x9E3779B97F4A7C15ULL + 77 ;

	for (int c = 0 ; c < 256 ; c++)
	{	unsigned char b = c ; short s ; int i ;
		ulaw2s_array (&b, 1, &s) ; printf ("ulaw2s %d %d\n", c, s) ;
		alaw2s_array (&b, 1, &s) ; printf ("alaw2s %d %d\n", c, s) ;
		ulaw2i_array (&b, 1, &i) ; printf ("ulaw2i %d %d\n", c, i) ;
		alaw2i_array (&b, 1, &i) ; printf ("alaw2i %d %d\n", c, i) ;
		} ;
	for (int v = -32768 ; v <= 32767 ; v++)
	{	short s = v ; unsigned char b ;
		s2ulaw_array (&s, 1, &b) ; printf ("s2ulaw %d %d\n", v, b) ;
		s2alaw_array (&s, 1, &b) ; printf ("s2alaw %d %d\n", v, b) ;
		} ;
	/* ints: every short in the top half with low-half patterns 0, 0xFFFF, and the boundaries; then random */
	for (int v = -32768 ; v <= 32767 ; v++)
		for (int k = 0 ; k < 2 ; k++)
		{	int x = (int) (((uint32_t) v << 16) | (k ? 0xFFFFu : 0u)) ; unsigned char b ;
			i2ulaw_array (&x, 1, &b) ; printf ("i2ulaw %d %d\n", x, b) ;
			i2alaw_array (&x, 1, &b) ; printf ("i2alaw %d %d\n", x, b) ;
			} ;
	for (long n = 0 ; n < nrand ; n++)
	{	int x = (int) (uint32_t) rnd () ; unsigned char b ;
		i2ulaw_array (&x, 1, &b) ; printf ("i2ulaw %d %d\n", x, b) ;
		i2alaw_array (&x, 1, &b) ; printf ("i2alaw %d %d\n", x, b) ;
		} ;
	return 0 ;
}

/* K tie for C01: the 7-bit sample packing of src/sds.c through the public API (memory virtual I/O).
   lines:  P <n> <sample> <n bytes hex>      sf_write_int of <sample> to an SDS file of subtype PCM_S8 / PCM_16 / PCM_24 (n = 2 / 3 / 4 bytes per sample), bytes taken from the file
           U <n> <n bytes hex> <sample>      the data bytes of the first blocks overwritten with arbitrary bytes (bit 7 set in some), sf_read_int
   usage: kern_sds <seed> <files> */
#include <stdio.h>
#include <stdlib.h>
#include <string.h>
#include <stdint.h>
#include <sndfile.h>
#include "prng.h"
#include "vio_mem.h"

static int pick (void)
{	switch (rnd64 () % 6)
	{	case 0 : return (int) 0x80000000u ;
		case 1 : return 0x7FFFFFFF ;
		case 2 : return (int) (rnd64 () % 5) - 2 ;
		case 3 : return (int) (((uint32_t) 1 << (rnd64 () % 32)) - (uint32_t) (rnd64 () % 2)) ;
		default : return (int) (uint32_t) rnd64 () ;
		}
}

int main (int argc, char **argv)
{	uint64_t seed = argc > 1 ? strtoull (argv [1], NULL, 0) : 1 ; int files = argc > 2 ? atoi (argv [2]) : 30 ;
	prng_seed (seed, 0x5D5) ;
	for (int c = 0 ; c < files ; c++)
	{	int n = 2 + c % 3, spb = 120 / n ;
		int sub = n == 2 ? SF_FORMAT_PCM_S8 : n == 3 ? SF_FORMAT_PCM_16 : SF_FORMAT_PCM_24 ;
		VIO_MEM m ; memset (&m, 0, sizeof (m)) ;
		SF_INFO info ; memset (&info, 0, sizeof (info)) ; info.samplerate = 8000 ; info.channels = 1 ; info.format = SF_FORMAT_SDS | sub ;
		SNDFILE *f = sf_open_virtual (&vio_mem_io, SFM_WRITE, &info, &m) ;
		if (! f) { fprintf (stderr, "kern_sds: open for write failed: %s\n", sf_strerror (NULL)) ; return 2 ; }
		static int v [400] ; int total = 3 * spb ;
		for (int i = 0 ; i < total ; i++) v [i] = pick () ;
		if (sf_write_int (f, v, total) != total) { fprintf (stderr, "kern_sds: short write\n") ; return 2 ; }
		sf_close (f) ;
		if (m.len < 21 + 3 * 127) { fprintf (stderr, "kern_sds: file of %ld bytes\n", (long) m.len) ; return 2 ; }
		for (int b = 0 ; b < 2 ; b++) for (int i = 0 ; i < spb ; i++)
		{	const unsigned char *p = m.data + 21 + 127 * b + 5 + n * i ;
			printf ("P %d %d ", n, v [b * spb + i]) ; for (int j = 0 ; j < n ; j++) printf ("%02x", p [j]) ; printf ("\n") ;
			}
		/* arbitrary data bytes */
		for (int b = 0 ; b < 2 ; b++) for (int i = 0 ; i < 120 ; i++)
		{	unsigned r = (unsigned) rnd64 () ; m.data [21 + 127 * b + 5 + i] = (unsigned char) ((r >> 8) % 4 == 0 ? r : r & 0x7F) ; }
		m.pos = 0 ; memset (&info, 0, sizeof (info)) ;
		f = sf_open_virtual (&vio_mem_io, SFM_READ, &info, &m) ;
		if (! f) { fprintf (stderr, "kern_sds: open for read failed: %s\n", sf_strerror (NULL)) ; return 2 ; }
		static int r [400] ; int got = (int) sf_read_int (f, r, 2 * spb) ;
		for (int i = 0 ; i < got ; i++)
		{	const unsigned char *p = m.data + 21 + 127 * (i / spb) + 5 + n * (i % spb) ;
			printf ("U %d ", n) ; for (int j = 0 ; j < n ; j++) printf ("%02x", p [j]) ; printf (" %d\n", r [i]) ;
			}
		if (got != 2 * spb) { fprintf (stderr, "kern_sds: read %d of %d\n", got, 2 * spb) ; return 2 ; }
		sf_close (f) ; vio_free (&m) ;
		}
	return 0 ;
}

/* K tie for C19: psf_rand_int32 (src/common.c) -- the state is the returned value, so consecutive results must satisfy
   next = rand_next (prev).   lines: R <prev> <next>     usage: kern_rand <n> */
#include <stdio.h>
#include <stdlib.h>
#include <stdint.h>
#include "sfconfig.h"
#include "sndfile.h"
#include "common.h"
int main (int argc, char **argv)
{	int n = argc > 1 ? atoi (argv [1]) : 1000 ;
	int32_t prev = psf_rand_int32 () ;
	for (int k = 0 ; k < n ; k++) { int32_t next = psf_rand_int32 () ; printf ("R %d %d\n", prev, next) ; prev = next ; }
	return 0 ;
}

/* K tie for C03 / C15: header_read / header_seek / psf_bump_header_allocation (static in src/common.c, reached by including
   the file) under arbitrary arguments and a fault-injecting I/O layer.
   lines:  N 0 0 <initial len>
           R <bytes> <io> <ret,indx,end,len>
           S <position> <io> <indx,end,len>      header_seek SEEK_SET
           C <position> <io> <indx,end,len>      header_seek SEEK_CUR
           P <position> <io> <indx,end,len,read calls,bytes requested>   header_seek SEEK_CUR with is_pipe set
   io = bytes the I/O layer transferred during the operation.   usage: kern_hcache <seed> <histories> */
#include <stdio.h>
#include <stdlib.h>
#include <string.h>
#include "common.c"
#include "prng.h"

static sf_count_t io_total, file_pos, io_calls, io_req ; static int io_mode ;
static sf_count_t v_len (void *u) { (void) u ; return 1 << 20 ; }
static sf_count_t v_seek (sf_count_t o, int w, void *u) { (void) u ; if (w == SEEK_SET) file_pos = o ; else if (w == SEEK_CUR) file_pos += o ; return file_pos ; }
static sf_count_t v_read (void *p, sf_count_t n, void *u)
{	(void) u ; sf_count_t k = n ; io_calls ++ ; io_req += n ;
	if (io_mode == 1) k = 0 ; else if (io_mode == 2) k = n / 2 ; else if (io_mode == 3 && n > 0) k = (sf_count_t) (rnd64 () % (uint64_t) (n + 1)) ;
	memset (p, 0x5A, k) ; io_total += k ; file_pos += k ; return k ;
}
static sf_count_t v_write (const void *p, sf_count_t n, void *u) { (void) p ; (void) u ; return n ; }
static sf_count_t v_tell (void *u) { (void) u ; return file_pos ; }

int main (int argc, char **argv)
{	uint64_t seed = argc > 1 ? strtoull (argv [1], NULL, 0) : 1 ; int hist = argc > 2 ? atoi (argv [2]) : 100 ;
	prng_seed (seed, 3) ;
	for (int h = 0 ; h < hist ; h++)
	{	SF_PRIVATE *psf = psf_allocate () ;
		psf->virtual_io = SF_TRUE ; psf->vio.get_filelen = v_len ; psf->vio.seek = v_seek ; psf->vio.read = v_read ; psf->vio.write = v_write ; psf->vio.tell = v_tell ;
		psf->file.mode = SFM_READ ; file_pos = 0 ;
		printf ("N 0 0 %lld\n", (long long) psf->header.len) ;
		unsigned char *dst = malloc (200000) ;
		for (int k = 0 ; k < 40 ; k++)
		{	io_mode = (int) (rnd64 () % 6) ; if (io_mode > 3) io_mode = 0 ;
			io_total = 0 ; io_calls = 0 ; io_req = 0 ;
			int what = (int) (rnd64 () % 4) ;
			static const long SZ [] = { 0, 1, 2, 4, 8, 16, 100, 255, 256, 257, 4000, 20000, 51199, 51200, 51201, 70000, 102400, 150000 } ;
			if (what == 0)
			{	int bytes = (int) SZ [rnd64 () % 18] ;
				int r = header_read (psf, dst, bytes) ;
				printf ("R %d %lld %d,%lld,%lld,%lld\n", bytes, (long long) io_total, r, (long long) psf->header.indx, (long long) psf->header.end, (long long) psf->header.len) ;
				}
			else if (what == 1)
			{	long pos = SZ [rnd64 () % 18] + (long) (rnd64 () % 3) ;
				header_seek (psf, pos, SEEK_SET) ;
				printf ("S %ld %lld %lld,%lld,%lld\n", pos, (long long) io_total, (long long) psf->header.indx, (long long) psf->header.end, (long long) psf->header.len) ;
				}
			else if (what == 3)
			{	/* the same relative seek with the input marked as a pipe: jumps that cannot be cached are read and discarded */
				long pos = (rnd64 () % 5) ? SZ [rnd64 () % 18] + (long) (rnd64 () % 3) : - (long) (rnd64 () % 5000) ;
				psf->is_pipe = SF_TRUE ;
				header_seek (psf, pos, SEEK_CUR) ;
				psf->is_pipe = SF_FALSE ;
				printf ("P %ld %lld %lld,%lld,%lld,%lld,%lld\n", pos, (long long) io_total, (long long) psf->header.indx, (long long) psf->header.end, (long long) psf->header.len, (long long) io_calls, (long long) io_req) ;
				}
			else
			{	long pos = (rnd64 () % 4) ? SZ [rnd64 () % 18] : - (long) (rnd64 () % 5000) ;
				header_seek (psf, pos, SEEK_CUR) ;
				printf ("C %ld %lld %lld,%lld,%lld\n", pos, (long long) io_total, (long long) psf->header.indx, (long long) psf->header.end, (long long) psf->header.len) ;
				}
			}
		free (dst) ; free (psf->header.ptr) ; free (psf) ;
		}
	return 0 ;
}

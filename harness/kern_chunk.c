/* K tie for C13: src/chunk.c called directly (read table, write table, iterator) on PRNG histories.
   lines:  S <idhex> <offset> <len> <used,count>
           W <idhex> <datahex|-> <used,count,len,paddeddatahex>
           I <idhex|-> <abandon_after> <visited indices, comma separated, or ->     (iteration; when abandon_after >= 0 the
             iteration by that id is dropped after that many steps and a full iteration follows, which is what is printed)
           R                                            reset both tables
   usage: kern_chunk <seed> <histories> */
#include <stdio.h>
#include <stdlib.h>
#include <string.h>
#include "sfconfig.h"
#include "sndfile.h"
#include "common.h"
#include "prng.h"

static void hex (const unsigned char *b, size_t n) { if (n == 0) printf ("-") ; for (size_t i = 0 ; i < n ; i++) printf ("%02x", b [i]) ; }

static const char *IDS [] = { "a", "ab", "abc", "abcd", "data", "LIST", "fmt ", "Test", "tEst", "abcde", "chunk-with-a-long-name", "abcdf", "bext", "x", "\xc3\xa9t\xc3\xa9", "\x80\xff", "abcdefghijklmnopqrstuvwxyzabcdefghijklmnopqrstuvwxyzabcdefghijklmnopqrstuvwxyz" } ;
#define NIDS (sizeof (IDS) / sizeof (IDS [0]))

int main (int argc, char **argv)
{	uint64_t seed = argc > 1 ? strtoull (argv [1], NULL, 0) : 1 ; int hist = argc > 2 ? atoi (argv [2]) : 50 ;
	prng_seed (seed, 13) ;
	SF_PRIVATE *psf = calloc (1, sizeof (SF_PRIVATE)) ;
	for (int h = 0 ; h < hist ; h++)
	{	printf ("R 0 0\n") ;
		free (psf->rchunks.chunks) ; memset (&psf->rchunks, 0, sizeof (psf->rchunks)) ;
		for (uint32_t k = 0 ; k < psf->wchunks.used ; k++) free (psf->wchunks.chunks [k].data) ;
		free (psf->wchunks.chunks) ; memset (&psf->wchunks, 0, sizeof (psf->wchunks)) ;
		free (psf->iterator) ; psf->iterator = NULL ;
		int nops = h < 8 ? (int []) { 0, 1, 19, 20, 21, 31, 32, 33 } [h] : (int) (rnd64 () % 230) ;
		int idpool = 1 + (int) (rnd64 () % NIDS) ;
		for (int op = 0 ; op < nops ; op++)
		{	const char *id = IDS [rnd64 () % idpool] ;
			int what = (int) (rnd64 () % 10) ;
			if (what < 4)
			{	long off = (long) (rnd64 () % 100000) ; unsigned len = (unsigned) (rnd64 () % 70000) ;
				int r = psf_store_read_chunk_str (&psf->rchunks, id, off, len) ;
				printf ("S ") ; hex ((const unsigned char *) id, strlen (id)) ; printf (" %ld %u %u,%u%s\n", off, len, psf->rchunks.used, psf->rchunks.count, r ? ",ERR" : "") ;
				}
			else if (what < 8)
			{	unsigned char data [40] ; unsigned n = (unsigned) (rnd64 () % 38) ;
				for (unsigned k = 0 ; k < n ; k++) data [k] = (unsigned char) rnd64 () ;
				SF_CHUNK_INFO ci ; memset (&ci, 0, sizeof (ci)) ; snprintf (ci.id, sizeof (ci.id), "%s", id) ; ci.id_size = (unsigned) strlen (ci.id) ; ci.datalen = n ; ci.data = data ;
				int r = psf_save_write_chunk (&psf->wchunks, &ci) ;
				WRITE_CHUNK *w = &psf->wchunks.chunks [psf->wchunks.used - 1] ;
				printf ("W ") ; hex ((const unsigned char *) ci.id, strlen (ci.id)) ; printf (" ") ; hex (data, n) ;
				printf (" %u,%u,%u,", psf->wchunks.used, psf->wchunks.count, w->len) ; hex (w->data, w->len) ; printf ("%s\n", r ? ",ERR" : "") ;
				}
			else
			{	int byid = (int) (rnd64 () % 3) ; int abandon = byid == 2 ? (int) (rnd64 () % 4) : -1 ;
				SF_CHUNK_ITERATOR *it ;
				if (abandon >= 0)
				{	it = psf_get_chunk_iterator (psf, id) ;
					for (int k = 0 ; it && k < abandon ; k++) it = psf_next_chunk_iterator (&psf->rchunks, it) ;
					it = psf_get_chunk_iterator (psf, NULL) ;
					}
				else
					it = psf_get_chunk_iterator (psf, byid ? id : NULL) ;
				printf ("I ") ; if (byid == 1) hex ((const unsigned char *) id, strlen (id)) ; else printf ("-") ;
				printf (" %d ", abandon) ;
				int n = 0 ;
				for ( ; it && n < 5000 ; n++)
				{	printf ("%s%d", n ? "," : "", (int) psf_find_read_chunk_iterator (&psf->rchunks, it)) ;
					it = psf_next_chunk_iterator (&psf->rchunks, it) ;
					}
				if (n == 0) printf ("-") ;
				printf ("\n") ;
				}
			}
		}
	free (psf->rchunks.chunks) ;
	for (uint32_t k = 0 ; k < psf->wchunks.used ; k++) free (psf->wchunks.chunks [k].data) ;
	free (psf->wchunks.chunks) ; free (psf->iterator) ; free (psf) ;
	return 0 ;
}

/* K tie for C01 / C06 / C07: the DPCM codecs of src/xi.c.
   Kernel lines (static functions, reached by including the file; state = XI_PRIVATE.last_16):
       <kernel> <last16> <input csv> <output csv>;<new last16>        kernel in s2dles i2dles dles2s dles2i s2dsc i2dsc dsc2s dsc2i
   API lines (public API on XI files in a private directory; the data region is the tail of the file):
       W16|W8 <T> <call sizes csv> <samples csv> <stored codes csv>     sf_write_short / sf_write_int in the given partition, close, codes read from the file
       R16|R8 <T> <seek target or -1> <last_16 before the seek> <call sizes csv> <stored codes csv> <values csv>   re-open, optional dpcm_seek (after an optional first read), reads in the given partition
   "-" stands for an empty list.
   usage: kern_dpcm <seed> <n> <tmpdir> [w|r|wr]     (report the write side, the read side, or both) */
#include <stdio.h>
#include <stdlib.h>
#include <string.h>
#include <unistd.h>
#define xi_open xi_open_unused_in_harness
#include "xi.c"
#undef xi_open
#include "prng.h"

#define MAXN 20000
static int in32 [MAXN], out32 [MAXN] ;
static short in16 [MAXN], out16 [MAXN] ;
static signed char in8 [MAXN], out8 [MAXN] ;
static short scratch16 [MAXN] ; static int scratch32 [MAXN] ;
static int want_w = 1, want_r = 1 ;	/* which side of the codec this run reports (a property about written bytes is not decided by the decoder) */

static void csv_i (const int *v, int n) { if (n == 0) printf ("-") ; for (int k = 0 ; k < n ; k++) printf (k ? ",%d" : "%d", v [k]) ; }
static void csv_s (const short *v, int n) { if (n == 0) printf ("-") ; for (int k = 0 ; k < n ; k++) printf (k ? ",%d" : "%d", v [k]) ; }
static void csv_c (const signed char *v, int n) { if (n == 0) printf ("-") ; for (int k = 0 ; k < n ; k++) printf (k ? ",%d" : "%d", v [k]) ; }

static int pick_len (int k)
{	static const int T [] = { 0, 1, 2, 3, 7, 64, 255, 256, 257 } ;
	if (k % 5 == 0) return T [(k / 5) % 9] ;
	return (int) (rnd64 () % 40) ;
}
/* values aimed at the wrap boundaries of the delta */
static int pick_val (int bits)
{	int64_t lim = 1LL << (bits - 1) ;
	switch (rnd64 () % 6)
	{	case 0 : return (int) (-lim) ;
		case 1 : return (int) (lim - 1) ;
		case 2 : return (int) ((int64_t) (rnd64 () % 5) - 2) ;
		case 3 : return (int) (((rnd64 () & 1) ? lim - 1 : -lim) + (int64_t) (rnd64 () % 3) * ((rnd64 () & 1) ? 0 : 0)) ;
		default : return (int) ((int64_t) (rnd64 () % (uint64_t) (2 * lim)) - lim) ;
		}
}

static void kernels (int cases)
{	for (int k = 0 ; k < cases ; k++)
	{	XI_PRIVATE xi ; memset (&xi, 0, sizeof (xi)) ;
		int n = pick_len (k) ;
		short l0 = (short) pick_val (16) ;
		int which = k % 8 ;
		{	int is_w = (which == 0 || which == 1 || which == 4 || which == 5) ; if ((is_w && ! want_w) || (! is_w && ! want_r)) continue ; }
		if (which >= 4 && (k & 8)) l0 = (short) (l0 & ~0xFF) ;		/* the 8-bit kernels leave a multiple of 256 behind; arbitrary values are tried too */
		xi.last_16 = l0 ;
		switch (which)
		{	case 0 : for (int i = 0 ; i < n ; i++) in16 [i] = (short) pick_val (16) ;
				s2dles_array (&xi, in16, out16, n) ;
				printf ("s2dles %d ", l0) ; csv_s (in16, n) ; printf (" ") ; csv_s (out16, n) ; break ;
			case 1 : for (int i = 0 ; i < n ; i++) in32 [i] = pick_val (32) ;
				i2dles_array (&xi, in32, out16, n) ;
				printf ("i2dles %d ", l0) ; csv_i (in32, n) ; printf (" ") ; csv_s (out16, n) ; break ;
			case 2 : for (int i = 0 ; i < n ; i++) in16 [i] = (short) pick_val (16) ;
				{ short tmp [MAXN] ; memcpy (tmp, in16, sizeof (short) * n) ; dles2s_array (&xi, tmp, n, out16) ; }
				printf ("dles2s %d ", l0) ; csv_s (in16, n) ; printf (" ") ; csv_s (out16, n) ; break ;
			case 3 : for (int i = 0 ; i < n ; i++) in16 [i] = (short) pick_val (16) ;
				{ short tmp [MAXN] ; memcpy (tmp, in16, sizeof (short) * n) ; dles2i_array (&xi, tmp, n, out32) ; }
				printf ("dles2i %d ", l0) ; csv_s (in16, n) ; printf (" ") ; csv_i (out32, n) ; break ;
			case 4 : for (int i = 0 ; i < n ; i++) in16 [i] = (short) pick_val (16) ;
				s2dsc_array (&xi, in16, out8, n) ;
				printf ("s2dsc %d ", l0) ; csv_s (in16, n) ; printf (" ") ; csv_c (out8, n) ; break ;
			case 5 : for (int i = 0 ; i < n ; i++) in32 [i] = pick_val (32) ;
				i2dsc_array (&xi, in32, out8, n) ;
				printf ("i2dsc %d ", l0) ; csv_i (in32, n) ; printf (" ") ; csv_c (out8, n) ; break ;
			case 6 : for (int i = 0 ; i < n ; i++) in8 [i] = (signed char) pick_val (8) ;
				dsc2s_array (&xi, in8, n, out16) ;
				printf ("dsc2s %d ", l0) ; csv_c (in8, n) ; printf (" ") ; csv_s (out16, n) ; break ;
			default : for (int i = 0 ; i < n ; i++) in8 [i] = (signed char) pick_val (8) ;
				dsc2i_array (&xi, in8, n, out32) ;
				printf ("dsc2i %d ", l0) ; csv_c (in8, n) ; printf (" ") ; csv_i (out32, n) ; break ;
			}
		printf (";%d\n", xi.last_16) ;
		}
}

static int read_tail (const char *path, unsigned char *buf, int bytes)
{	FILE *f = fopen (path, "rb") ; if (! f) return -1 ;
	fseek (f, 0, SEEK_END) ; long len = ftell (f) ;
	if (len < bytes) { fclose (f) ; return -1 ; }
	fseek (f, len - bytes, SEEK_SET) ;
	int got = (int) fread (buf, 1, bytes, f) ; fclose (f) ; return got == bytes ? 0 : -1 ;
}

static void api (int cases, const char *dir)
{	char path [512] ; snprintf (path, sizeof (path), "%s/kd_%d.xi", dir, (int) getpid ()) ;
	static unsigned char raw [2 * MAXN] ;
	for (int k = 0 ; k < cases ; k++)
	{	int wide = (k & 1) ;				/* DPCM_16 or DPCM_8 */
		int useint = (k >> 1) & 1 ;
		int n ;
		switch (k % 7) { case 0 : n = 0 ; break ; case 1 : n = 1 ; break ; case 2 : n = 4096 + (int) (rnd64 () % 3) - 1 ; break ; case 3 : n = 8192 + (int) (rnd64 () % 3) - 1 ; break ;
			case 4 : n = 9000 + (int) (rnd64 () % 2000) ; break ; default : n = (int) (rnd64 () % 300) ; }
		int bw = wide ? 2 : 1 ;
		int sizes [64], ns = 0, left = n ;
		while (left > 0 && ns < 63) { int c = (int) (rnd64 () % 4) == 0 ? left : 1 + (int) (rnd64 () % (uint64_t) left) ; if (rnd64 () % 3 == 0 && c > 5000) c = 4096 + (int) (rnd64 () % 3) - 1 ; if (c > left) c = left ; sizes [ns++] = c ; left -= c ; }
		if (left > 0) sizes [ns++] = left ;
		SF_INFO info ; memset (&info, 0, sizeof (info)) ;
		info.samplerate = 8000 ; info.channels = 1 ; info.format = SF_FORMAT_XI | (wide ? SF_FORMAT_DPCM_16 : SF_FORMAT_DPCM_8) ;
		SNDFILE *sf = sf_open (path, SFM_WRITE, &info) ;
		if (! sf) { printf ("W%d %c - - open-failed:%s\n", wide ? 16 : 8, useint ? 'i' : 's', sf_strerror (NULL)) ; continue ; }
		for (int i = 0 ; i < n ; i++) { if (useint) in32 [i] = pick_val (32) ; else in16 [i] = (short) pick_val (16) ; }
		int off = 0, okw = 1 ;
		for (int c = 0 ; c < ns ; c++)
		{	sf_count_t r = useint ? sf_write_int (sf, in32 + off, sizes [c]) : sf_write_short (sf, in16 + off, sizes [c]) ;
			if (r != sizes [c]) okw = 0 ;
			off += sizes [c] ;
			}
		sf_close (sf) ;
		if (! want_w) goto read_side ;
		printf ("W%d %c ", wide ? 16 : 8, useint ? 'i' : 's') ;
		if (ns == 0) printf ("-") ; for (int c = 0 ; c < ns ; c++) printf (c ? ",%d" : "%d", sizes [c]) ;
		printf (" ") ; if (useint) csv_i (in32, n) ; else csv_s (in16, n) ; printf (" ") ;
		if (! okw || read_tail (path, raw, n * bw) != 0) { printf ("short-write-or-file\n") ; continue ; }
		for (int i = 0 ; i < n ; i++) { if (wide) out16 [i] = (short) (raw [2 * i] | (raw [2 * i + 1] << 8)) ; else out8 [i] = (signed char) raw [i] ; }
		if (wide) csv_s (out16, n) ; else csv_c (out8, n) ;
		printf ("\n") ;
read_side :
		if (! want_w)
		{	if (! okw || read_tail (path, raw, n * bw) != 0) continue ;
			for (int i = 0 ; i < n ; i++) { if (wide) out16 [i] = (short) (raw [2 * i] | (raw [2 * i + 1] << 8)) ; else out8 [i] = (signed char) raw [i] ; }
			}
		if (! want_r) continue ;
		/* read side: the same file, optional seek, reads in another partition */
		for (int pass = 0 ; pass < 2 ; pass++)
		{	memset (&info, 0, sizeof (info)) ;
			sf = sf_open (path, SFM_READ, &info) ;
			if (! sf) { printf ("R%d %c -1 0 - - open-failed:%s\n", wide ? 16 : 8, useint ? 'i' : 's', sf_strerror (NULL)) ; continue ; }
			long target = -1 ; int prelast = 0 ;
			if (pass == 1 && n > 0)
			{	switch (rnd64 () % 5) { case 0 : target = n ; break ; case 1 : target = n - 1 ; break ; case 2 : target = n > 4096 ? 4096 + (long) (rnd64 () % 3) - 1 : n / 2 ; break ; default : target = (long) (rnd64 () % (uint64_t) (n + 1)) ; }
				/* a first read, then the seek: the seek must not depend on where the handle was */
				if (rnd64 () & 1) { if (useint) sf_read_int (sf, scratch32, (int) (rnd64 () % (uint64_t) (n + 1))) ; else sf_read_short (sf, scratch16, (int) (rnd64 () % (uint64_t) (n + 1))) ; }
				/* xi_open marks XI files as not seekable, so sf_seek refuses; dpcm_seek is what psf->seek points to (used by the library on
				   read/write switches): it is called directly here, followed by the bookkeeping sf_seek would do */
				SF_PRIVATE *psf = (SF_PRIVATE *) sf ;
				prelast = ((XI_PRIVATE *) psf->codec_data)->last_16 ;
				sf_count_t sr = dpcm_seek (psf, SFM_READ, target) ;
				if (sr == target) psf->read_current = target ;
				if (sr != target) { printf ("R%d %c %ld %d - - seek-failed\n", wide ? 16 : 8, useint ? 'i' : 's', target, prelast) ; sf_close (sf) ; continue ; }
				}
			int want = n - (target > 0 ? (int) target : 0) ;
			int rs [64], nr = 0 ; left = want ;
			while (left > 0 && nr < 63) { int c = (int) (rnd64 () % 4) == 0 ? left : 1 + (int) (rnd64 () % (uint64_t) left) ; rs [nr++] = c ; left -= c ; }
			if (left > 0) rs [nr++] = left ;
			off = 0 ; int okr = 1 ;
			for (int c = 0 ; c < nr ; c++)
			{	sf_count_t r = useint ? sf_read_int (sf, in32 + off, rs [c]) : sf_read_short (sf, in16 + off, rs [c]) ;
				if (r != rs [c]) okr = 0 ;
				off += rs [c] ;
				}
			/* one more item must not be there */
			{	int extra ; short extras ; sf_count_t r = useint ? sf_read_int (sf, &extra, 1) : sf_read_short (sf, &extras, 1) ; if (r != 0) okr = 0 ; }
			sf_close (sf) ;
			printf ("R%d %c %ld %d ", wide ? 16 : 8, useint ? 'i' : 's', target, prelast) ;
			if (nr == 0) printf ("-") ; for (int c = 0 ; c < nr ; c++) printf (c ? ",%d" : "%d", rs [c]) ;
			printf (" ") ; if (wide) csv_s (out16, n) ; else csv_c (out8, n) ; printf (" ") ;
			if (! okr) { printf ("short-read\n") ; continue ; }
			if (useint) csv_i (in32, want) ; else csv_s (in16, want) ;
			printf ("\n") ;
			}
		}
	unlink (path) ;
}

int main (int argc, char **argv)
{	uint64_t seed = argc > 1 ? strtoull (argv [1], NULL, 0) : 1 ; int n = argc > 2 ? atoi (argv [2]) : 1000 ;
	const char *dir = argc > 3 ? argv [3] : "." ;
	if (argc > 4) { want_w = strchr (argv [4], 'w') != NULL ; want_r = strchr (argv [4], 'r') != NULL ; }
	prng_seed (seed, 0xD9C3) ;
	kernels (n) ;
	api (n / 20 + 14 > 500 ? 500 : n / 20 + 14, dir) ;		/* (each API case prints up to three lines of 11 000 values) */
	return 0 ;
}

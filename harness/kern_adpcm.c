/* K tie for C20: the IMA (WAV and AIFF 'ima4') and MS ADPCM block decoders, through the public API: one block per file, the
   block bytes chosen adversarially (saturating step indices, extreme predictors, out of range header bytes, constant and random
   code patterns); the decoded shorts are printed for the model to recompute.
   lines:  W <channels> <blockalign> <block hex> <samples csv>      WAV  IMA ADPCM
           A <channels> 34 <packets hex> <samples csv>              AIFC ima4
           M <channels> <blockalign> <block hex> <samples csv>      WAV  MS ADPCM
   usage: kern_adpcm <seed> <cases> */
#include <stdio.h>
#include <stdlib.h>
#include <string.h>
#include <stdint.h>
#include <sndfile.h>
#include "prng.h"
#include "vio_mem.h"

static unsigned char file [1 << 18] ; static size_t flen ;
static void put (const void *p, size_t n) { memcpy (file + flen, p, n) ; flen += n ; }
static void le16 (unsigned v) { unsigned char b [2] = { v & 255, (v >> 8) & 255 } ; put (b, 2) ; }
static void le32 (unsigned v) { unsigned char b [4] = { v & 255, (v >> 8) & 255, (v >> 16) & 255, (v >> 24) & 255 } ; put (b, 4) ; }
static void be16 (unsigned v) { unsigned char b [2] = { (v >> 8) & 255, v & 255 } ; put (b, 2) ; }
static void be32 (unsigned v) { unsigned char b [4] = { (v >> 24) & 255, (v >> 16) & 255, (v >> 8) & 255, v & 255 } ; put (b, 4) ; }

static void fill_codes (unsigned char *b, int n)
{	int mode = (int) (rnd64 () % 8) ;
	for (int i = 0 ; i < n ; i++)
		switch (mode)
		{	case 0 : b [i] = 0x77 ; break ;			/* largest positive step every sample: index and predictor saturate */
			case 1 : b [i] = 0xFF ; break ;			/* largest negative */
			case 2 : b [i] = 0xF7 ; break ;			/* alternate +max / -max at a saturated index */
			case 3 : b [i] = 0x00 ; break ;
			case 4 : b [i] = (unsigned char) ((rnd64 () & 1) ? 0x7F : 0xF7) ; break ;
			case 5 : b [i] = (unsigned char) (0x66 + (rnd64 () & 0x11)) ; break ;
			default : b [i] = (unsigned char) rnd64 () ; break ;
			} ;
}
static int decode_and_print (const char *tag, int ch, int blockalign, const unsigned char *block, int blen)
{	VIO_MEM m ; memset (&m, 0, sizeof (m)) ; vio_set (&m, file, flen) ;
	SF_INFO info ; memset (&info, 0, sizeof (info)) ;
	SNDFILE *f = sf_open_virtual (&vio_mem_io, SFM_READ, &info, &m) ;
	if (! f) { fprintf (stderr, "kern_adpcm: %s open failed: %s\n", tag, sf_strerror (NULL)) ; vio_free (&m) ; return 1 ; }
	long n = (long) info.frames * info.channels ; short *buf = calloc (n + 16, sizeof (short)) ;
	long got = (long) sf_read_short (f, buf, n) ;
	printf ("%s %d %d ", tag, ch, blockalign) ; for (int i = 0 ; i < blen ; i++) printf ("%02x", block [i]) ;
	printf (" ") ; for (long i = 0 ; i < got ; i++) printf ("%s%d", i ? "," : "", buf [i]) ; if (got == 0) printf ("-") ;
	printf ("\n") ;
	free (buf) ; sf_close (f) ; vio_free (&m) ;
	return 0 ;
}

/* several blocks per file, as encoders produce them: the header of block k+1 continues the state block k ended in.  The library's own encoder writes
   the file (random-walk audio), half of the time some code bytes (never header bytes) are then overwritten, and the file is decoded through the API.
   A decoder that lets one block influence the next is only visible here.   lines: Wn / An / Mn <channels> <blockalign> <all blocks hex> <samples csv> */
static int multi_block (int c)
{	int kind = (c / 3) % 3, ch = 1 + (int) (rnd64 () % 2) ;
	int fmt = kind == 0 ? (SF_FORMAT_WAV | SF_FORMAT_IMA_ADPCM) : kind == 1 ? (SF_FORMAT_AIFF | SF_FORMAT_IMA_ADPCM) : (SF_FORMAT_WAV | SF_FORMAT_MS_ADPCM) ;
	VIO_MEM m ; memset (&m, 0, sizeof (m)) ;
	SF_INFO info ; memset (&info, 0, sizeof (info)) ; info.samplerate = 8000 ; info.channels = ch ; info.format = fmt ;
	SNDFILE *f = sf_open_virtual (&vio_mem_io, SFM_WRITE, &info, &m) ;
	if (! f) { fprintf (stderr, "kern_adpcm: multi open failed: %s\n", sf_strerror (NULL)) ; vio_free (&m) ; return 1 ; }
	int frames = kind == 1 ? 64 * (2 + (int) (rnd64 () % 6)) : 600 + (int) (rnd64 () % 1500) ;
	static short pcm [2 * 4096] ; int x [2] = { (int) (short) rnd64 () / 2, 0 } ; int style = (int) (rnd64 () % 3) ;
	for (int i = 0 ; i < frames ; i++) for (int k = 0 ; k < ch ; k++)
	{	int step = style == 0 ? (int) (rnd64 () % 401) - 200 : style == 1 ? (int) (rnd64 () % 8001) - 4000 : (int) (rnd64 () % 41) - 20 ;
		x [k] += step ; if (x [k] > 32767) x [k] = 32767 ; if (x [k] < -32768) x [k] = -32768 ;
		pcm [i * ch + k] = (short) x [k] ;
		}
	sf_writef_short (f, pcm, frames) ; sf_close (f) ;
	if (m.len > (sf_count_t) sizeof (file)) { vio_free (&m) ; return 0 ; }
	memcpy (file, m.data, m.len) ; flen = m.len ; vio_free (&m) ;
	/* locate the audio data and the block size */
	size_t off = 12, doff = 0, dlen = 0 ; int blockalign = 34 * ch, hdr = 2 ;
	while (off + 8 <= flen)
	{	unsigned sz = kind == 1 ? ((unsigned) file [off + 4] << 24 | file [off + 5] << 16 | file [off + 6] << 8 | file [off + 7]) : ((unsigned) file [off + 7] << 24 | file [off + 6] << 16 | file [off + 5] << 8 | file [off + 4]) ;
		if (kind != 1 && ! memcmp (file + off, "fmt ", 4)) blockalign = file [off + 8 + 12] | file [off + 8 + 13] << 8 ;
		if (kind != 1 && ! memcmp (file + off, "data", 4)) { doff = off + 8 ; dlen = sz ; break ; }
		if (kind == 1 && ! memcmp (file + off, "SSND", 4)) { doff = off + 16 ; dlen = sz - 8 ; break ; }
		off += 8 + sz + (sz & 1) ;
		}
	if (doff == 0 || doff + dlen > flen || blockalign <= 0) { fprintf (stderr, "kern_adpcm: multi: no data chunk\n") ; return 1 ; }
	hdr = kind == 0 ? 4 * ch : kind == 1 ? 2 : 7 * ch ;
	if (rnd64 () & 1)
		for (int k = 0 ; k < 24 ; k++)
		{	size_t p = (size_t) (rnd64 () % dlen) ; size_t inblk = kind == 1 ? p % 34 : p % (size_t) blockalign ;
			if ((int) inblk >= hdr) file [doff + p] = (unsigned char) rnd64 () ;
			}
	static unsigned char blocks [1 << 18] ; memcpy (blocks, file + doff, dlen) ;
	return decode_and_print (kind == 0 ? "Wn" : kind == 1 ? "An" : "Mn", ch, blockalign, blocks, (int) dlen) ;
}

int main (int argc, char **argv)
{	uint64_t seed = argc > 1 ? strtoull (argv [1], NULL, 0) : 1 ; int cases = argc > 2 ? atoi (argv [2]) : 300 ; int bad = 0 ;
	prng_seed (seed, 20) ;
	for (int c = 0 ; c < cases ; c++)
	{	if (c % 10 == 9) { bad += multi_block (c) ; continue ; }
		int kind = c % 3, ch = 1 + (int) (rnd64 () % 2) ;
		unsigned char block [2048] ;
		flen = 0 ;
		if (kind == 0)
		{	static const int groups [] = { 1, 2, 4, 15, 31, 63 } ; int g = groups [rnd64 () % 6] ;
			int blockalign = 4 * ch + 4 * ch * g, spb = (blockalign - 4 * ch) * 2 / ch + 1 ;
			fill_codes (block, blockalign) ;
			for (int k = 0 ; k < ch ; k++)
			{	static const int preds [] = { 0, 32767, -32768, -1, 1, 12345, -20000 } ; int p = rnd64 () % 3 ? preds [rnd64 () % 7] : (int) (short) rnd64 () ;
				static const int idxs [] = { 0, 88, 87, 82, 85, 40, 89, 127, 255, 200 } ; int ix = rnd64 () % 3 ? idxs [rnd64 () % 10] : (int) (rnd64 () % 89) ;
				block [4 * k] = p & 255 ; block [4 * k + 1] = (p >> 8) & 255 ; block [4 * k + 2] = (unsigned char) ix ; block [4 * k + 3] = (unsigned char) (rnd64 () % 7 == 0 ? 9 : 0) ;
				} ;
			put ("RIFF", 4) ; le32 (4 + 28 + 12 + 8 + blockalign) ; put ("WAVE", 4) ;
			put ("fmt ", 4) ; le32 (20) ; le16 (0x11) ; le16 (ch) ; le32 (8000) ; le32 (8000 * blockalign / spb) ; le16 (blockalign) ; le16 (4) ; le16 (2) ; le16 (spb) ;
			put ("fact", 4) ; le32 (4) ; le32 (spb) ;
			put ("data", 4) ; le32 (blockalign) ; put (block, blockalign) ;
			bad += decode_and_print ("W", ch, blockalign, block, blockalign) ;
			}
		else if (kind == 1)
		{	int blen = 34 * ch ;
			fill_codes (block, blen) ;
			for (int k = 0 ; k < ch ; k++)
			{	static const int preds [] = { 0, 0x7F80, 0x8000, 0xFF80, 0x0080, 0x3000 } ; int p = rnd64 () % 3 ? preds [rnd64 () % 6] : (int) (rnd64 () & 0xFF80) ;
				static const int idxs [] = { 0, 88, 87, 82, 40, 89, 127, 100 } ; int ix = rnd64 () % 3 ? idxs [rnd64 () % 8] : (int) (rnd64 () % 89) ;
				block [34 * k] = (p >> 8) & 255 ; block [34 * k + 1] = (unsigned char) ((p & 0x80) | (ix & 0x7F)) ;
				} ;
			unsigned char ext80 [10] = { 0x40, 0x0B, 0xFA, 0, 0, 0, 0, 0, 0, 0 } ;
			put ("FORM", 4) ; be32 (4 + 12 + 8 + 38 + 8 + 8 + blen) ; put ("AIFC", 4) ;
			put ("FVER", 4) ; be32 (4) ; be32 (0xA2805140) ;
			put ("COMM", 4) ; be32 (38) ; be16 (ch) ; be32 (64) ; be16 (16) ; put (ext80, 10) ; put ("ima4", 4) ; put ("\x0fnot compressed", 16) ;
			put ("SSND", 4) ; be32 (8 + blen) ; be32 (0) ; be32 (0) ; put (block, blen) ;
			bad += decode_and_print ("A", ch, 34, block, blen) ;
			}
		else
		{	static const int sizes [] = { 32, 64, 256, 512 } ; int blockalign = sizes [rnd64 () % 4] ; if (ch == 2 && blockalign < 64) blockalign = 64 ;
			int spb = 2 + 2 * (blockalign - 7 * ch) / ch ;
			fill_codes (block, blockalign) ;
			for (int k = 0 ; k < 7 * ch ; k++) block [k] = (unsigned char) rnd64 () ;
			for (int k = 0 ; k < ch ; k++)
			{	block [k] = (unsigned char) (rnd64 () % 5 ? rnd64 () % 7 : rnd64 () % 256) ;
				static const int deltas [] = { 16, 0, 1, 0x7FFF, 0x8000, 0xFFFF, 300, 5000 } ; int d = rnd64 () % 2 ? deltas [rnd64 () % 8] : (int) (rnd64 () & 0xFFFF) ;
				block [ch + 2 * k] = d & 255 ; block [ch + 2 * k + 1] = (d >> 8) & 255 ;
				} ;
			static const short coeffs [14] = { 256, 0, 512, -256, 0, 0, 192, 64, 240, 0, 460, -208, 392, -232 } ;
			put ("RIFF", 4) ; le32 (4 + 8 + 50 + 12 + 8 + blockalign) ; put ("WAVE", 4) ;
			put ("fmt ", 4) ; le32 (50) ; le16 (2) ; le16 (ch) ; le32 (8000) ; le32 (8000 * blockalign / spb) ; le16 (blockalign) ; le16 (4) ; le16 (32) ; le16 (spb) ; le16 (7) ;
			for (int k = 0 ; k < 14 ; k++) le16 ((unsigned) coeffs [k] & 0xFFFF) ;
			put ("fact", 4) ; le32 (4) ; le32 (spb) ;
			put ("data", 4) ; le32 (blockalign) ; put (block, blockalign) ;
			bad += decode_and_print ("M", ch, blockalign, block, blockalign) ;
			} ;
		} ;
	return bad ? 3 : 0 ;
}

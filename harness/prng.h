/* splitmix64, shared by all harnesses; seeded from the check's VERIF_SEED */
#include <stdint.h>
static uint64_t prng_state ;
static void prng_seed (uint64_t seed, uint64_t salt) { prng_state = seed * 0x9E3779B97F4A7C15ULL + salt ; }
static uint64_t rnd64 (void)
{	uint64_t z ;
	prng_state += 0x9E3779B97F4A7C15ULL ; z = prng_state ;
	z = (z ^ (z >> 30)) * 0xBF58476D1CE4E5B9ULL ; z = (z ^ (z >> 27)) * 0x94D049BB133111EBULL ;
	return z ^ (z >> 31) ;
}
static uint32_t rnd32 (void) { return (uint32_t) (rnd64 () >> 17) ; }

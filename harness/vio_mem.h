/* Memory backed SF_VIRTUAL_IO, shared by the harnesses.  Optional fault schedule (C15). */
#ifndef VIO_MEM_H
#define VIO_MEM_H
#include <stdlib.h>
#include <string.h>
#include <sndfile.h>

typedef struct
{	unsigned char *data ;
	sf_count_t len, cap, pos ;
	long calls ;			/* number of callbacks performed */
	/* faults: from call number fault_at on (1-based; 0 = never), kind: 1 zero transfer, 2 short transfer, 3 seek fails, 4 length lies high, 5 length lies low */
	long fault_at ; int fault_kind ; int fault_once ; int fault_done ;
	/* copy of the bytes the store held when the first fault fired ("data the I/O layer accepted before the failure") */
	unsigned char *snap ; sf_count_t snap_len ; int snapped ;
} VIO_MEM ;

static int vio_faulty (VIO_MEM *m)
{	m->calls ++ ;
	if (m->fault_at == 0 || m->calls < m->fault_at) return 0 ;
	if (m->fault_once && m->fault_done) return 0 ;
	if (! m->snapped)
	{	m->snapped = 1 ; m->snap_len = m->len ; m->snap = malloc (m->len + 1) ;
		if (m->len) memcpy (m->snap, m->data, m->len) ;
		} ;
	return 1 ;
}
static sf_count_t vio_get_filelen (void *u)
{	VIO_MEM *m = u ;
	if (vio_faulty (m) && (m->fault_kind == 4 || m->fault_kind == 5)) { m->fault_done = 1 ; return m->fault_kind == 4 ? m->len + 100000 : m->len / 2 ; }
	return m->len ;
}
static sf_count_t vio_seek (sf_count_t offset, int whence, void *u)
{	VIO_MEM *m = u ; sf_count_t np ;
	if (vio_faulty (m) && m->fault_kind == 3) { m->fault_done = 1 ; return -1 ; }
	switch (whence) { case SEEK_SET : np = offset ; break ; case SEEK_CUR : np = m->pos + offset ; break ; case SEEK_END : np = m->len + offset ; break ; default : return -1 ; }
	if (np < 0) return -1 ;
	m->pos = np ;
	return m->pos ;
}
static sf_count_t vio_read (void *ptr, sf_count_t count, void *u)
{	VIO_MEM *m = u ;
	if (vio_faulty (m) && (m->fault_kind == 1 || m->fault_kind == 2))
	{	m->fault_done = 1 ;
		if (m->fault_kind == 1) return 0 ;
		count = count / 2 ;
		} ;
	if (m->pos >= m->len) return 0 ;
	if (m->pos + count > m->len) count = m->len - m->pos ;
	memcpy (ptr, m->data + m->pos, count) ;
	m->pos += count ;
	return count ;
}
static sf_count_t vio_write (const void *ptr, sf_count_t count, void *u)
{	VIO_MEM *m = u ;
	if (vio_faulty (m) && (m->fault_kind == 1 || m->fault_kind == 2))
	{	m->fault_done = 1 ;
		if (m->fault_kind == 1) return 0 ;
		count = count / 2 ;
		} ;
	if (m->pos + count > m->cap)
	{	sf_count_t nc = (m->pos + count) * 2 + 4096 ;
		m->data = realloc (m->data, nc) ;
		memset (m->data + m->cap, 0, nc - m->cap) ;
		m->cap = nc ;
		} ;
	if (m->pos > m->len) memset (m->data + m->len, 0, m->pos - m->len) ;
	memcpy (m->data + m->pos, ptr, count) ;
	m->pos += count ;
	if (m->pos > m->len) m->len = m->pos ;
	return count ;
}
static sf_count_t vio_tell (void *u) { VIO_MEM *m = u ; return m->pos ; }
static SF_VIRTUAL_IO vio_mem_io = { vio_get_filelen, vio_seek, vio_read, vio_write, vio_tell } ;

static void vio_unsnap (VIO_MEM *m) { free (m->snap) ; m->snap = NULL ; m->snap_len = 0 ; m->snapped = 0 ; }
static void vio_reset (VIO_MEM *m) { m->len = 0 ; m->pos = 0 ; m->calls = 0 ; m->fault_at = 0 ; m->fault_done = 0 ; vio_unsnap (m) ; }
static void vio_set (VIO_MEM *m, const void *data, sf_count_t len)
{	vio_reset (m) ;
	if (len > m->cap) { m->data = realloc (m->data, len + 16) ; m->cap = len + 16 ; }
	if (len) memcpy (m->data, data, len) ;
	m->len = len ;
}
static void vio_free (VIO_MEM *m) { free (m->data) ; free (m->snap) ; memset (m, 0, sizeof (*m)) ; }
#endif

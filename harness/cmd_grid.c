/* C17 tie / oracle: sf_command over the grid  command id x datasize x {NULL, exact-size heap block} x handle state x format.
   Every (command, state, format) cell runs in a forked child (ASan aborts the child on the first out-of-bounds access; the
   parent reports the datasize it died at and carries on).  Exact-size malloc blocks make ASan see any access beyond datasize.
   Output:
     T <cmd hex> <class> <natural size>                                   the command table (also dumped as Gallina by --table)
     C <cmd hex> <state> <fmt hex> ok calls=<n> maxtouch=<list d:extent>   per cell summary
     X <cmd hex> <state> <fmt hex> datasize=<d> data=<null|buf> what=<crash|impure|noterm|touched_beyond|touched_on_reject>
   usage: cmd_grid <seed> <quick|thorough> | cmd_grid --table */
#include <stdio.h>
#include <stdlib.h>
#include <string.h>
#include <stdint.h>
#include <unistd.h>
#include <stddef.h>
#include <sys/wait.h>
#include <sndfile.h>
#include "sfconfig.h"
#include "common.h"
#include "vio_mem.h"

/* classes: F flag (data ignored, datasize is the value), E exact-size struct, S string out, V variable size in, W variable size out,
   C channels * element size, N no data, U unknown / format specific */
typedef struct { int id ; const char *name ; char cls ; int size ; int query ; } CMD ;
#define E(id, sz, q) { id, #id, 'E', (int) (sz), q }
#define F(id, q) { id, #id, 'F', 0, q }
static const CMD CMDS [] =
{	{ SFC_GET_LIB_VERSION, "SFC_GET_LIB_VERSION", 'S', 32, 1 }, { SFC_GET_LOG_INFO, "SFC_GET_LOG_INFO", 'S', 64, 1 },
	E (SFC_GET_CURRENT_SF_INFO, sizeof (SF_INFO), 1), F (SFC_GET_NORM_DOUBLE, 1), F (SFC_GET_NORM_FLOAT, 1), F (SFC_SET_NORM_DOUBLE, 0), F (SFC_SET_NORM_FLOAT, 0),
	F (SFC_SET_SCALE_FLOAT_INT_READ, 0), F (SFC_SET_SCALE_INT_FLOAT_WRITE, 0),
	E (SFC_GET_SIMPLE_FORMAT_COUNT, sizeof (int), 1), E (SFC_GET_SIMPLE_FORMAT, sizeof (SF_FORMAT_INFO), 1), E (SFC_GET_FORMAT_INFO, sizeof (SF_FORMAT_INFO), 1),
	E (SFC_GET_FORMAT_MAJOR_COUNT, sizeof (int), 1), E (SFC_GET_FORMAT_MAJOR, sizeof (SF_FORMAT_INFO), 1), E (SFC_GET_FORMAT_SUBTYPE_COUNT, sizeof (int), 1),
	E (SFC_GET_FORMAT_SUBTYPE, sizeof (SF_FORMAT_INFO), 1),
	E (SFC_CALC_SIGNAL_MAX, sizeof (double), 1), E (SFC_CALC_NORM_SIGNAL_MAX, sizeof (double), 1),
	{ SFC_CALC_MAX_ALL_CHANNELS, "SFC_CALC_MAX_ALL_CHANNELS", 'C', sizeof (double), 1 }, { SFC_CALC_NORM_MAX_ALL_CHANNELS, "SFC_CALC_NORM_MAX_ALL_CHANNELS", 'C', sizeof (double), 1 },
	E (SFC_GET_SIGNAL_MAX, sizeof (double), 1), { SFC_GET_MAX_ALL_CHANNELS, "SFC_GET_MAX_ALL_CHANNELS", 'C', sizeof (double), 1 },
	F (SFC_SET_ADD_PEAK_CHUNK, 0), F (SFC_SET_ADD_HEADER_PAD_CHUNK, 0), F (SFC_UPDATE_HEADER_NOW, 0), F (SFC_SET_UPDATE_HEADER_AUTO, 0),
	E (SFC_FILE_TRUNCATE, sizeof (sf_count_t), 0), E (SFC_SET_RAW_START_OFFSET, sizeof (sf_count_t), 0),
	F (SFC_SET_DITHER_ON_WRITE, 0), F (SFC_SET_DITHER_ON_READ, 0), F (SFC_GET_DITHER_INFO_COUNT, 1), F (SFC_GET_DITHER_INFO, 1),
	E (SFC_GET_EMBED_FILE_INFO, sizeof (SF_EMBED_FILE_INFO), 1), F (SFC_SET_CLIPPING, 0), F (SFC_GET_CLIPPING, 1),
	E (SFC_GET_CUE_COUNT, sizeof (uint32_t), 1), { SFC_GET_CUE, "SFC_GET_CUE", 'W', sizeof (SF_CUES), 1 }, { SFC_SET_CUE, "SFC_SET_CUE", 'V', sizeof (uint32_t) + 3 * sizeof (SF_CUE_POINT), 0 },
	E (SFC_GET_INSTRUMENT, sizeof (SF_INSTRUMENT), 1), E (SFC_SET_INSTRUMENT, sizeof (SF_INSTRUMENT), 0), E (SFC_GET_LOOP_INFO, sizeof (SF_LOOP_INFO), 1),
	{ SFC_GET_BROADCAST_INFO, "SFC_GET_BROADCAST_INFO", 'W', sizeof (SF_BROADCAST_INFO), 1 }, { SFC_SET_BROADCAST_INFO, "SFC_SET_BROADCAST_INFO", 'V', sizeof (SF_BROADCAST_INFO), 0 },
	{ SFC_GET_CHANNEL_MAP_INFO, "SFC_GET_CHANNEL_MAP_INFO", 'C', sizeof (int), 1 }, { SFC_SET_CHANNEL_MAP_INFO, "SFC_SET_CHANNEL_MAP_INFO", 'C', sizeof (int), 0 },
	F (SFC_RAW_DATA_NEEDS_ENDSWAP, 1), F (SFC_WAVEX_SET_AMBISONIC, 0), F (SFC_WAVEX_GET_AMBISONIC, 1), F (SFC_RF64_AUTO_DOWNGRADE, 0),
	E (SFC_SET_VBR_ENCODING_QUALITY, sizeof (double), 0), E (SFC_SET_COMPRESSION_LEVEL, sizeof (double), 0), E (SFC_SET_OGG_PAGE_LATENCY_MS, sizeof (double), 0), E (SFC_SET_OGG_PAGE_LATENCY, sizeof (double), 0),
	E (SFC_GET_OGG_STREAM_SERIALNO, sizeof (int32_t), 1), E (SFC_GET_BITRATE_MODE, 0, 1), E (SFC_SET_BITRATE_MODE, sizeof (int), 0),
	{ SFC_SET_CART_INFO, "SFC_SET_CART_INFO", 'V', sizeof (SF_CART_INFO), 0 }, { SFC_GET_CART_INFO, "SFC_GET_CART_INFO", 'W', sizeof (SF_CART_INFO), 1 },
	E (SFC_SET_ORIGINAL_SAMPLERATE, sizeof (int), 0), E (SFC_GET_ORIGINAL_SAMPLERATE, sizeof (int), 1),
	F (SFC_TEST_IEEE_FLOAT_REPLACE, 0), F (SFC_SET_ADD_DITHER_ON_WRITE, 0), F (SFC_SET_ADD_DITHER_ON_READ, 0),
	/* identifiers that are not defined in sndfile.h */
	{ 0x0000, "undefined_0000", 'U', 16, 0 }, { 0x0fff, "undefined_0fff", 'U', 16, 0 }, { 0x1234, "undefined_1234", 'U', 16, 0 }, { 0x10ff, "undefined_10ff", 'U', 16, 0 },
	{ 0x7fffffff, "undefined_max", 'U', 16, 0 }, { -1, "undefined_neg", 'U', 16, 0 }, { 0x1300, "undefined_1300", 'U', 16, 0 }, { 0x4005, "undefined_4005", 'U', 16, 0 }
} ;
#define NCMD ((int) (sizeof (CMDS) / sizeof (CMDS [0])))

static const int FORMATS [] = { SF_FORMAT_WAV | SF_FORMAT_PCM_16, SF_FORMAT_WAV | SF_FORMAT_FLOAT, SF_FORMAT_WAVEX | SF_FORMAT_PCM_24, SF_FORMAT_RF64 | SF_FORMAT_FLOAT,
	SF_FORMAT_AIFF | SF_FORMAT_PCM_16, SF_FORMAT_CAF | SF_FORMAT_DOUBLE, SF_FORMAT_RAW | SF_FORMAT_PCM_32 } ;
#define NFMT 7

static VIO_MEM mem ;
static uint64_t fnv1 (uint64_t h, const void *p, size_t n) { const unsigned char *b = p ; for (size_t i = 0 ; i < n ; i++) { h ^= b [i] ; h *= 0x100000001b3ULL ; } return h ; }

static uint64_t state_digest (SNDFILE *f)
{	SF_PRIVATE *p = (SF_PRIVATE *) f ; uint64_t d = 0xcbf29ce484222325ULL ;
	if (! p) return d ;
#define ADD(x) d = fnv1 (d, &(x), sizeof (x))
	ADD (p->read_current) ; ADD (p->write_current) ; ADD (p->sf.frames) ; ADD (p->sf.samplerate) ; ADD (p->sf.channels) ; ADD (p->sf.format) ; ADD (p->sf.sections) ;
	ADD (p->sf.seekable) ; ADD (p->have_written) ; ADD (p->norm_double) ; ADD (p->norm_float) ; ADD (p->add_clipping) ; ADD (p->float_int_mult) ;
	ADD (p->scale_int_float) ; ADD (p->auto_header) ; ADD (p->dataoffset) ; ADD (p->datalength) ; ADD (p->blockwidth) ; ADD (p->bytewidth) ; ADD (p->filelength) ;
	ADD (p->strings.storage_used) ; ADD (p->strings.flags) ; ADD (p->ieee_replace) ;
	if (p->peak_info) for (int k = 0 ; k < p->sf.channels ; k++) { ADD (p->peak_info->peaks [k].value) ; ADD (p->peak_info->peaks [k].position) ; }
	if (p->broadcast_16k) d = fnv1 (d, p->broadcast_16k, sizeof (SF_BROADCAST_INFO_16K)) ;
	if (p->cart_16k) d = fnv1 (d, p->cart_16k, sizeof (SF_CART_INFO_16K)) ;
	if (p->cues) d = fnv1 (d, p->cues, sizeof (uint32_t) + (size_t) p->cues->cue_count * sizeof (SF_CUE_POINT)) ;
	if (p->instrument) d = fnv1 (d, p->instrument, sizeof (SF_INSTRUMENT)) ;
	if (p->channel_map) d = fnv1 (d, p->channel_map, sizeof (int) * p->sf.channels) ;
	d = fnv1 (d, mem.data, mem.len) ;
#undef ADD
	return d ;
}

/* build a file with metadata, return handle in the requested state (0 none, 1 read, 2 write, 3 rdwr) */
static SNDFILE *make_handle (int state, int fmt)
{	if (state == 0) return NULL ;
	SF_INFO info ; memset (&info, 0, sizeof (info)) ; info.format = fmt ; info.channels = 2 ; info.samplerate = 44100 ;
	vio_reset (&mem) ;
	SNDFILE *f = sf_open_virtual (&vio_mem_io, SFM_WRITE, &info, &mem) ;
	if (! f) return NULL ;
	if (state != 3) sf_set_string (f, SF_STR_TITLE, "title") ;		/* (a WAV with a LIST chunk cannot be opened for read/write: the rdwr state goes without the string) */
	SF_CUES cues ; memset (&cues, 0, sizeof (cues)) ; cues.cue_count = 3 ; for (int k = 0 ; k < 3 ; k++) { cues.cue_points [k].indx = k ; cues.cue_points [k].sample_offset = 10 * k ; }
	if (state != 3) sf_command (f, SFC_SET_CUE, &cues, sizeof (cues)) ;		/* (nor with cue / smpl chunks before the data) */
	SF_BROADCAST_INFO bi ; memset (&bi, 0, sizeof (bi)) ; snprintf (bi.description, sizeof (bi.description), "desc") ; snprintf (bi.coding_history, sizeof (bi.coding_history), "A=PCM\r\n") ; bi.coding_history_size = (uint32_t) strlen (bi.coding_history) ;
	sf_command (f, SFC_SET_BROADCAST_INFO, &bi, sizeof (bi)) ;
	SF_INSTRUMENT ins ; memset (&ins, 0, sizeof (ins)) ; ins.basenote = 60 ; ins.loop_count = 1 ; ins.loops [0].mode = SF_LOOP_FORWARD ; ins.loops [0].start = 1 ; ins.loops [0].end = 20 ;
	if (state != 3) sf_command (f, SFC_SET_INSTRUMENT, &ins, sizeof (ins)) ;
	if (state == 2) return f ;
	float buf [200] ; for (int k = 0 ; k < 200 ; k++) buf [k] = (float) (k % 17) / 20.0f - 0.3f ;
	sf_writef_float (f, buf, 100) ;
	sf_close (f) ;
	memset (&info, 0, sizeof (info)) ;
	if ((fmt & SF_FORMAT_TYPEMASK) == SF_FORMAT_RAW) { info.format = fmt ; info.channels = 2 ; info.samplerate = 44100 ; }
	mem.pos = 0 ;
	return sf_open_virtual (&vio_mem_io, state == 1 ? SFM_READ : SFM_RDWR, &info, &mem) ;
}

static int is_prefix_clean (const unsigned char *b, int from, int n) { for (int k = from ; k < n ; k++) if (b [k] != 0xA5) return 0 ; return 1 ; }

static void run_cell (const CMD *c, int state, int fmt, int thorough)
{	SNDFILE *f = make_handle (state, fmt) ;
	if (state != 0 && ! f) { printf ("C %x %d %x skipped_open_failed\n", c->id, state, fmt) ; return ; }
	int ch = f ? ((SF_PRIVATE *) f)->sf.channels : 2 ;
	int natural = c->cls == 'C' ? c->size * ch : c->size ;
	int top = natural + 8 ; if (top < 24) top = 24 ;
	int calls = 0 ;
	for (int pass = 0 ; pass < 2 ; pass++)
	for (int d = 0 ; d <= top + 3 ; d++)
	{	int ds = d <= top ? d : (d == top + 1 ? 1000 : d == top + 2 ? 16384 + 11 : 70000) ;
		if (! thorough && ds > natural + 8 && ds < 1000) continue ;
		unsigned char *buf = NULL ;
		if (pass == 1)
		{	buf = malloc (ds > 0 ? ds : 1) ;         /* ASan: exact size (a zero-size request still gets a 1 byte block, poisoned beyond) */
			if (ds == 0) { free (buf) ; buf = malloc (0) ; }
			memset (buf, 0xA5, ds) ;
			/* variable-size inputs: a self-consistent struct that claims to fit the buffer */
			if (c->id == SFC_SET_CUE && ds >= 4) { uint32_t n = (uint32_t) ((ds - 4) / (int) sizeof (SF_CUE_POINT)) ; memset (buf, 0, ds) ; memcpy (buf, &n, 4) ; }
			if ((c->id == SFC_SET_BROADCAST_INFO && ds >= (int) offsetof (SF_BROADCAST_INFO, coding_history)) )
			{	memset (buf, 0, ds) ; uint32_t n = (uint32_t) (ds - (int) offsetof (SF_BROADCAST_INFO, coding_history)) ; memcpy (buf + offsetof (SF_BROADCAST_INFO, coding_history_size), &n, 4) ;
				/* a history that fills the block to its last byte and ends in a line end */
				memset (buf + offsetof (SF_BROADCAST_INFO, coding_history), (ds & 1) ? '\n' : '\r', n) ; }
			if ((c->id == SFC_SET_CART_INFO && ds >= (int) offsetof (SF_CART_INFO, tag_text)) )
			{	memset (buf, 0, ds) ; uint32_t n = (uint32_t) (ds - (int) offsetof (SF_CART_INFO, tag_text)) ; memcpy (buf + offsetof (SF_CART_INFO, tag_text_size), &n, 4) ;
				memset (buf + offsetof (SF_CART_INFO, tag_text), (ds & 1) ? '\n' : 'x', n) ; }
			}
		printf ("P %x %d %x datasize=%d data=%s\n", c->id, state, fmt, ds, buf ? "buf" : "null") ; fflush (stdout) ;
		uint64_t before = state_digest (f) ;
		sf_count_t rp = f ? ((SF_PRIVATE *) f)->read_current : 0 ;
		unsigned char *copy = NULL ; if (buf && ds > 0) { copy = malloc (ds) ; memcpy (copy, buf, ds) ; }
		int r = sf_command (f, c->id, buf, ds) ;
		calls ++ ;
		(void) r ; (void) rp ;
		if (c->query && state_digest (f) != before)
			printf ("X %x %d %x datasize=%d data=%s what=impure\n", c->id, state, fmt, ds, buf ? "buf" : "null") ;
		if (buf && ds > 0)
		{	int changed = memcmp (copy, buf, ds) != 0 ;
			int exact_reject = (c->cls == 'E' || c->cls == 'C') && ds != natural ;
			if (changed && exact_reject)
				printf ("X %x %d %x datasize=%d data=buf what=touched_on_reject\n", c->id, state, fmt, ds) ;
			if (c->cls == 'F' && changed)
				printf ("X %x %d %x datasize=%d data=buf what=flag_command_wrote_data\n", c->id, state, fmt, ds) ;
			if (c->cls == 'S' && ds >= 1 && memchr (buf, 0, ds) == NULL)
				printf ("X %x %d %x datasize=%d data=buf what=noterm\n", c->id, state, fmt, ds) ;
			}
		free (copy) ; free (buf) ;
		if (! c->query && state != 0)
		{	/* commands with effects may close over the handle state: start from a fresh handle now and then */
			if ((calls & 15) == 0) { sf_close (f) ; f = make_handle (state, fmt) ; if (! f) break ; }
			}
		}
	if (f) sf_close (f) ;
	printf ("C %x %d %x ok calls=%d\n", c->id, state, fmt, calls) ;
}

int main (int argc, char **argv)
{	if (argc > 1 && ! strcmp (argv [1], "--table"))
	{	printf ("(* generated by harness/cmd_grid.c --table: command ids, guard class and natural size (sizeof) -- do not edit *)\nFrom Coq Require Import ZArith List.\nImport ListNotations.\nLocal Open Scope Z_scope.\n") ;
		printf ("(* class: 0 flag (no data access), 1 exact-size struct, 2 string out, 3 variable size in, 4 variable size out, 5 channels x element, 6 undefined id *)\n") ;
		printf ("Definition command_table : list (Z * Z * Z) := [") ;
		for (int k = 0 ; k < NCMD ; k++)
		{	const char *cl = "FESVWCU" ; int ci = (int) (strchr (cl, CMDS [k].cls) - cl) ;
			printf ("%s(%d, %d, %d)", k ? "; " : "", CMDS [k].id, ci, CMDS [k].size) ;
			}
		printf ("].\n") ;
		return 0 ;
		}
	int thorough = argc > 2 && ! strcmp (argv [2], "thorough") ;
	setvbuf (stdout, NULL, _IOLBF, 0) ;
	for (int k = 0 ; k < NCMD ; k++)
		for (int state = 0 ; state < 4 ; state++)
			for (int fi = 0 ; fi < NFMT ; fi++)
			{	if (state == 0 && fi > 0) continue ;
				if (! thorough && fi != (k + state) % NFMT && fi != 0) continue ;
				fflush (stdout) ;
				pid_t pid = fork () ;
				if (pid == 0) { run_cell (&CMDS [k], state, FORMATS [fi], thorough) ; fflush (stdout) ; _exit (0) ; }
				int st = 0 ; waitpid (pid, &st, 0) ;
				if (! (WIFEXITED (st) && WEXITSTATUS (st) == 0))
					printf ("X %x %d %x what=crash status=%d (see the last P line above)\n", CMDS [k].id, state, FORMATS [fi], st) ;
				}
	return 0 ;
}

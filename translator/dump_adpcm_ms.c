#include <stdio.h>
#include "ms_adpcm.c"
static void plist_i (const char *name, const int *t, int n)
{	printf ("Definition %s : list Z := [", name) ;
	for (int i = 0 ; i < n ; i++) printf ("%s%s%d%s", i ? "; " : "", t [i] < 0 ? "(" : "", t [i], t [i] < 0 ? ")" : "") ;
	printf ("]%%Z.\n") ;
}
void dump_ms (void)
{	plist_i ("ms_adaptation_table", AdaptationTable, ARRAY_LEN (AdaptationTable)) ;
	plist_i ("ms_coeff1", AdaptCoeff1, ARRAY_LEN (AdaptCoeff1)) ;
	plist_i ("ms_coeff2", AdaptCoeff2, ARRAY_LEN (AdaptCoeff2)) ;
}

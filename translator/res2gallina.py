"""T1/T2: ownership inventory of src/*.c for the C16 ledger (coq/theories/Resources.v).

What is extracted (regular expressions over the working tree's text -- deliberately narrow; anything that does not fit is
reported as a site of its own so that a rewrite shows up as a changed inventory, never as silence):
  freed      the owning fields psf_close releases, in order
  sites      every statement that stores a new allocation into an owning field of SF_PRIVATE (directly, or from a local
             pointer: psf->codec_data = pxxx), with the function it sits in and how the previous occupant is treated
             (null-checked / freed first / blind) and whether the function is an open or init function (fresh field)
  nested     allocations, stdio streams and temporary files stored in members of the private structs, whether the close
             hook of that file releases the member, and where the hook is installed relative to the allocation
  exits      the exits of sf_open / sf_open_fd / sf_open_virtual / psf_open_file after the handle was allocated
The result is written as Gen_Owned.v and returned as a JSON-able inventory (compared with translator/resource_sites.json)."""
import os
import re
import glob

ALLOC = r"(?:calloc|malloc|realloc|strdup|psf_memdup|psf_cues_dup|psf_cues_alloc|psf_instrument_alloc|peak_info_calloc|broadcast_var_alloc|cart_var_alloc|dither_init_alloc)"
NEST_ALLOC = r"(?:calloc|malloc|realloc|strdup|alac_pakt_alloc|psf_open_tmpfile|gsm_create|g72x_reader_init|g72x_writer_init|fopen|tmpfile)"
SKIP = ("ogg", "flac", "mpeg", "test_", "windows")


class Refuse(Exception):
    pass


def functions(text):
    """[(name, first line, last line)] of the functions of a libsndfile source file (name at column 0, body closed by '} /* name */' or a '}' at column 0)."""
    lines = text.split("\n")
    out = []
    cur = None
    for i, l in enumerate(lines):
        m = re.match(r"^([A-Za-z_][A-Za-z0-9_]*)\s*\(", l)
        if m and cur is None and not l.startswith(("if", "for", "while", "switch", "typedef", "static", "extern", "return")):
            cur = (m.group(1), i)
        elif l.startswith("}") and cur is not None:
            out.append((cur[0], cur[1], i))
            cur = None
    return out


def enclosing(funcs, line):
    for (n, a, b) in funcs:
        if a <= line <= b:
            return n, a, b
    return "?", 0, 0


def strip_win32(text):
    return re.sub(r"#ifdef _WIN32.*?(?:#else|#endif)", lambda m: "\n" * m.group(0).count("\n"), text, flags=re.S)


def inventory(repo):
    src = os.path.join(repo, "src")
    main = open(os.path.join(src, "sndfile.c")).read()
    m = re.search(r"^psf_close\s*\(SF_PRIVATE \*psf\)\s*\{.*?^\} /\* psf_close \*/", main, re.S | re.M)
    if not m:
        raise Refuse("psf_close not found")
    body = m.group(0)
    freed = []
    for f in re.findall(r"free \(psf->([A-Za-z0-9_.]+?)(?: \[k\]\.data)?\)", body):
        if f not in freed:
            freed.append(f)
    calls_hooks = [bool(re.search(r"psf->codec_close \(psf\)", body)), bool(re.search(r"psf->container_close \(psf\)", body)),
                   bool(re.search(r"psf_fclose \(psf\)", body)), bool(re.search(r"psf_close_rsrc \(psf\)", body))]
    sites, nested = [], []
    for path in sorted(glob.glob(os.path.join(src, "*.c"))):
        base = os.path.basename(path)
        if base.startswith(SKIP):
            continue
        text = open(path).read()
        lines = text.split("\n")
        funcs = functions(text)
        # aliases of the two private-struct fields
        parent = {}
        for mm in re.finditer(r"\b([a-z]\w*)\s*=\s*(?:\([^)]*\)\s*)?psf->(container_data|codec_data)\b", text):
            parent.setdefault(mm.group(1), mm.group(2))
        for mm in re.finditer(r"psf->(container_data|codec_data)\s*=\s*(?:\([^)]*\)\s*)?([a-z]\w*)\s*;", text):
            parent.setdefault(mm.group(2), mm.group(1))
        hook_fn = {}
        hook_line = {}
        for i, l in enumerate(lines):
            mm = re.search(r"psf->(codec_close|container_close)\s*=\s*([a-z]\w*)\s*;", l)
            if mm:
                which = "codec_data" if mm.group(1) == "codec_close" else "container_data"
                hook_fn.setdefault(which, mm.group(2))
                hook_line.setdefault(which, []).append(i)
        for i, l in enumerate(lines):
            code = l.split("/*")[0] if l.strip().startswith("**") is False else ""
            if l.strip().startswith(("**", "/*", "*")):
                continue
            # --- top level sites
            direct = re.search(r"psf->([A-Za-z0-9_.]+)\s*=\s*(?:\([^)]*\)\s*)?" + ALLOC + r"\b", code)
            alias = re.search(r"psf->(container_data|codec_data|interleave|dither|format_desc|strings\.storage)\s*=\s*(?:\([^)]*\)\s*)?([a-z]\w*)\s*;", code)
            chunkarr = re.search(r"pchk->chunks\s*=\s*" + ALLOC, code)
            field = None
            if direct:
                field = direct.group(1)
            elif alias and alias.group(2) not in ("NULL",):
                field = alias.group(1)
            elif chunkarr and base == "chunk.c":
                fn = enclosing(funcs, i)[0]
                field = "rchunks.chunks" if "read" in fn else "wchunks.chunks"
            if field:
                fn, a, b = enclosing(funcs, i)
                window = "\n".join(lines[max(a, i - 8):i + 1])
                fpat = re.escape("psf->" + field)
                if re.search(r"free \(" + fpat + r"\)", window):
                    guard = "freed_first"
                elif (re.search(fpat + r"\s*==\s*NULL", window) or re.search(r"!\s*" + fpat + r"\b", window) or re.search(r"pdither == NULL", window)
                      or re.search(r"pchk->count == 0", window) or "realloc" in window):
                    guard = "null_checked"
                else:
                    guard = "blind"
                fresh = bool(re.search(r"(_open|_init|_allocate|_reader_init|_writer_init)$", fn))
                if not fresh and re.match(r"^\t[^\t]", l):
                    # a top-level statement (not inside a loop) of a function called exactly once, from an open function
                    callers = [enclosing(funcs, k)[0] for k in range(len(lines)) if re.search(r"\b" + re.escape(fn) + r"\s*\(psf", lines[k]) and not (a <= k <= b) and not lines[k].startswith("static")]
                    fresh = len(callers) == 1 and callers[0].endswith("_open")
                sites.append({"file": base, "fn": fn, "field": field, "guard": guard, "fresh": fresh})
                continue
            # --- nested sites
            nm = re.search(r"\b([a-z]\w*)->([A-Za-z0-9_]+)\s*=\s*(?:\([^)]*\)\s*)?" + NEST_ALLOC + r"\b", code)
            if nm and nm.group(1) not in ("psf", "pchk") and nm.group(1) in parent:
                var, member = nm.group(1), nm.group(2)
                par = parent[var]
                fn, a, b = enclosing(funcs, i)
                hf = hook_fn.get(par)
                released = False
                if hf:
                    for (n2, a2, b2) in funcs:
                        if n2 == hf:
                            released = bool(re.search(r"->" + re.escape(member) + r"\b", "\n".join(lines[a2:b2 + 1])))
                # where is the hook installed relative to the allocation (or to the call of the function that allocates)?
                order, exits = "no_hook", 0
                for hl in hook_line.get(par, []):
                    hfn, ha, hb = enclosing(funcs, hl)
                    if hfn == fn:
                        npos = i
                    else:
                        calls = [k for k in range(ha, hb + 1) if re.search(r"\b" + re.escape(fn) + r"\s*\(", lines[k])]
                        if not calls:
                            continue
                        npos = calls[0]
                    if hl < npos:
                        order, exits = "hook_first", 0
                        break
                    order = "hook_late"
                    exits = len([k for k in range(npos + 1, hl) if re.search(r"\breturn\s+(?!0\s*;)[A-Za-z_(]", lines[k])])
                nested.append({"file": base, "fn": fn, "parent": par, "member": member, "released_in_hook": released, "order": order, "failing_exits_before_hook": exits})
    # --- exits of the open functions
    exits = []
    text = strip_win32(main)
    lines = text.split("\n")
    for (fn, a, b) in functions(text):
        if fn not in ("sf_open", "sf_open_fd", "sf_open_virtual", "psf_open_file"):
            continue
        alloc_line = a if fn == "psf_open_file" else next((k for k in range(a, b + 1) if "psf_allocate ()" in lines[k]), None)
        if alloc_line is None:
            raise Refuse("%s: psf_allocate call not found" % fn)
        alloc_end = next((k for k in range(alloc_line, b + 1) if "} ;" in lines[k]), alloc_line)
        for k in range(a, b + 1):
            mm = re.search(r"\breturn\b\s*(.*?);", lines[k])
            if not mm:
                continue
            val = mm.group(1).strip()
            if val.startswith("psf_open_file"):
                cls = "delegate"
            elif val == "(SNDFILE *) psf":
                cls = "success"
            elif k < alloc_line or (fn != "psf_open_file" and k <= alloc_end):
                cls = "before_allocation"
            elif any("psf_close (psf)" in lines[j] for j in range(max(a, k - 4), k)):
                cls = "closes_first"
            else:
                cls = "bare"
            exits.append({"fn": fn, "class": cls})
        if fn == "psf_open_file":
            gotos = len([k for k in range(a, b + 1) if "goto error_exit" in lines[k]])
            exits.append({"fn": fn, "class": "goto_error_exit_x%d" % gotos})
    return {"freed": freed, "close_calls": calls_hooks, "sites": sites, "nested": nested, "exits": exits}


GUARD = {"null_checked": "GNullChecked", "freed_first": "GFreedFirst", "blind": "GBlind"}


def gallina(inv):
    names = list(inv["freed"])
    for s in inv["sites"]:
        if s["field"] not in names:
            names.append(s["field"])
    fid = {n: i for i, n in enumerate(names)}
    out = ["(* generated by translator/res2gallina.py from psf_close, the allocation sites and the open exits of src/*.c -- do not edit *)",
           "From Coq Require Import ZArith List Bool.", "From SF Require Import Resources.", "Import ListNotations.", "Local Open Scope Z_scope.",
           "(* field numbering: %s *)" % ", ".join("%d=%s" % (i, n) for i, n in enumerate(names)),
           "Definition freed_fields : list Z := [%s]." % "; ".join(str(fid[f]) for f in inv["freed"]),
           "(* psf_close calls: codec_close hook, container_close hook, psf_fclose, psf_close_rsrc *)",
           "Definition close_calls : list bool := [%s]." % "; ".join("true" if b else "false" for b in inv["close_calls"]),
           "(* (field, guard, inside an open / init function) per allocation site *)",
           "Definition alloc_sites : list (Z * guard * bool) := ["]
    out.append(";\n".join("  (%d, %s, %s) (* %s %s %s *)" % (fid[s["field"]], GUARD[s["guard"]], "true" if s["fresh"] else "false", s["file"], s["fn"], s["field"]) for s in inv["sites"]))
    out.append("].")
    out.append("(* (parent field, released by the close hook of its file, hook installed before the allocation, failing exits between allocation and hook) *)")
    out.append("Definition nested_sites : list (Z * bool * bool * Z) := [")
    out.append(";\n".join("  (%d, %s, %s, %d) (* %s %s %s *)" % (fid.get(n["parent"], -1), "true" if n["released_in_hook"] else "false", "true" if n["order"] == "hook_first" else "false",
                                                              n["failing_exits_before_hook"], n["file"], n["fn"], n["member"]) for n in inv["nested"]))
    out.append("].")
    cls = {"delegate": 0, "success": 0, "closes_first": 1, "before_allocation": 2, "bare": 3}
    ex = [e for e in inv["exits"] if e["class"] in cls]
    out.append("(* exits of the open functions: 0 returns the handle or delegates to psf_open_file, 1 psf_close first, 2 before the handle exists, 3 BARE *)")
    out.append("Definition open_exits : list Z := [%s]." % "; ".join(str(cls[e["class"]]) for e in ex))
    return "\n".join(out) + "\n"


if __name__ == "__main__":
    import json
    import sys
    inv = inventory(sys.argv[1] if len(sys.argv) > 1 else "/repo")
    print(json.dumps(inv, indent=1))

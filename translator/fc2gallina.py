"""T2: translate sf_format_check (src/sndfile.c) into a DecList.v program.

Accepted subset (anything else is refused, which breaks the tie on purpose):
  locals   subformat = SF_CODEC (info->format) ; endian = SF_ENDIAN (info->format) ;
  stmts    if (<cond>) return <int> ;   |   return <int> ;   |   break ;
           switch (SF_CONTAINER (info->format)) { case <NAME> : ... default : ... }
  cond     ||  &&  !  ( )  and comparisons == != < <= > >= between one of
           {subformat, endian, info->channels, info->samplerate} and a named constant or integer literal
Environment layout: [channels; samplerate; subformat; endian; container]."""
import re

VARS = {"info->channels": 0, "info->samplerate": 1, "subformat": 2, "endian": 3}
CMP = {"==": "Ceq", "!=": "Cne", "<": "Clt", "<=": "Cle", ">": "Cgt", ">=": "Cge"}
FLIP = {"==": "==", "!=": "!=", "<": ">", "<=": ">=", ">": "<", ">=": "<="}


class Refuse(Exception):
    pass


def tokenize(src):
    src = re.sub(r"/\*.*?\*/", " ", src, flags=re.S)
    src = re.sub(r"info\s*->\s*(\w+)", r"info->\1", src)
    toks = re.findall(r"info->\w+|[A-Za-z_]\w*|0[xX][0-9a-fA-F]+|\d+|\|\||&&|==|!=|<=|>=|[{}();:<>!,=&|*]", src)
    return toks


class P:
    def __init__(self, toks):
        self.t, self.i = toks, 0

    def peek(self, k=0):
        return self.t[self.i + k] if self.i + k < len(self.t) else None

    def eat(self, x=None):
        tok = self.peek()
        if x is not None and tok != x:
            raise Refuse("expected %r, found %r at token %d (%s)" % (x, tok, self.i, " ".join(self.t[max(0, self.i - 6):self.i + 4])))
        self.i += 1
        return tok

    # ---- conditions
    def atom_val(self, tok):
        if tok in VARS:
            return ("var", VARS[tok])
        if re.fullmatch(r"0[xX][0-9a-fA-F]+|\d+", tok):
            return ("const", "%d" % int(tok, 0))
        if re.fullmatch(r"(SF_|SFM_|SFE_)\w+", tok):
            return ("const", "c_" + tok)
        raise Refuse("operand %r not in the accepted subset" % tok)

    def primary(self):
        if self.peek() == "!":
            self.eat()
            return "(Not %s)" % self.primary()
        if self.peek() == "(":
            self.eat("(")
            c = self.orexp()
            self.eat(")")
            return c
        a = self.atom_val(self.eat())
        op = self.eat()
        if op not in CMP:
            raise Refuse("comparison operator expected, found %r" % op)
        b = self.atom_val(self.eat())
        if a[0] == "const" and b[0] == "var":
            a, b, op = b, a, FLIP[op]
        if a[0] != "var" or b[0] != "const":
            raise Refuse("comparison must be between a variable and a constant")
        return "(Cmp %d%%nat %s %s)" % (a[1], CMP[op], b[1] if not b[1].startswith("-") else "(%s)" % b[1])

    def andexp(self):
        c = self.primary()
        while self.peek() == "&&":
            self.eat()
            c = "(And %s %s)" % (c, self.primary())
        return c

    def orexp(self):
        c = self.andexp()
        while self.peek() == "||":
            self.eat()
            c = "(Or %s %s)" % (c, self.andexp())
        return c

    def intlit(self):
        tok = self.eat()
        if tok in ("SF_TRUE", "SF_FALSE"):
            return "1" if tok == "SF_TRUE" else "0"
        if not re.fullmatch(r"\d+", tok):
            raise Refuse("integer literal expected after return, found %r" % tok)
        return tok

    # ---- statements: returns (rules, terminated)
    def rules_until(self, stops):
        rules = []
        dead = False
        while self.peek() not in stops:
            tok = self.peek()
            if tok == "if":
                self.eat()
                self.eat("(")
                c = self.orexp()
                self.eat(")")
                self.eat("return")
                k = self.intlit()
                self.eat(";")
                if not dead:
                    rules.append("(%s, %s)" % (c, k))
            elif tok == "return":
                self.eat()
                k = self.intlit()
                self.eat(";")
                if not dead:
                    rules.append("(CTrue, %s)" % k)
                dead = True
            elif tok == "break":
                self.eat()
                self.eat(";")
                dead = True
            elif tok == ";":
                self.eat()
            else:
                raise Refuse("statement starting with %r not in the accepted subset" % tok)
        return rules, dead


def translate(src_text):
    m = re.search(r"^sf_format_check\s*\(const SF_INFO \*info\)\s*\{(.*?)^\} /\* sf_format_check \*/", src_text, re.S | re.M)
    if not m:
        raise Refuse("sf_format_check not found")
    p = P(tokenize(m.group(1)))
    # locals
    for t in ("int", "subformat", ",", "endian", ";"):
        p.eat(t)
    for (v, mac) in (("subformat", "SF_CODEC"), ("endian", "SF_ENDIAN")):
        for t in (v, "=", mac, "(", "info->format", ")", ";"):
            p.eat(t)
    pre, dead = p.rules_until(("switch",))
    if dead:
        raise Refuse("unconditional return before the switch")
    for t in ("switch", "(", "SF_CONTAINER", "(", "info->format", ")", ")", "{"):
        p.eat(t)
    cases = []
    while p.peek() != "}":
        labels = []
        while p.peek() in ("case", "default"):
            if p.eat() == "case":
                labels.append("c_" + p.eat())
            else:
                labels.append(None)
            p.eat(":")
        if not labels:
            raise Refuse("case label expected, found %r" % p.peek())
        rules, dead = p.rules_until(("case", "default", "}"))
        if not dead and p.peek() != "}":
            raise Refuse("fall-through between case bodies is not in the accepted subset (labels %s)" % labels)
        named = [l for l in labels if l]
        if None in labels and rules:
            raise Refuse("default case with rules not supported")
        if named:
            cases.append((named, rules))
    p.eat("}")
    post, dead = p.rules_until(("}", None))
    if not post or not post[-1].startswith("(CTrue, "):
        raise Refuse("function does not end in an unconditional return")
    if len(post) != 1:
        raise Refuse("statements between the switch and the final return are not supported")
    final = post[-1][len("(CTrue, "):-1]
    out = ["(* generated by translator/fc2gallina.py from sf_format_check in src/sndfile.c -- do not edit *)",
           "From Coq Require Import ZArith List.", "From SF Require Import DecList.", "From SFGen Require Import Gen_Enums.",
           "Import ListNotations.", "Local Open Scope Z_scope.",
           "(* environment: [channels; samplerate; subformat; endian; container] *)",
           "Definition fc_prog : prog := mkprog", "  [" + ";\n   ".join(pre) + "]", "  4%nat", "  ["]
    cs = []
    for labels, rules in cases:
        cs.append("   ([%s],\n    [%s])" % ("; ".join(labels), ";\n     ".join(rules)))
    out.append(";\n".join(cs))
    out.append("  ]")
    out.append("  %s." % final)
    out.append("Definition fc_env (format channels samplerate : Z) : env :=")
    out.append("  [channels; samplerate; Z.land format c_SF_FORMAT_SUBMASK; Z.land format c_SF_FORMAT_ENDMASK; Z.land format c_SF_FORMAT_TYPEMASK].")
    out.append("Definition fc (format channels samplerate : Z) : Z := eval fc_prog (fc_env format channels samplerate).")
    return "\n".join(out) + "\n"


if __name__ == "__main__":
    import sys
    print(translate(open(sys.argv[1] if len(sys.argv) > 1 else "/repo/src/sndfile.c").read()))

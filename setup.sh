#!/bin/sh
# setup_cmd: build everything the checks reuse (library builds of /repo's working tree, the whole Coq
# development).  Offline; writes only under /verif/build and /verif/coq.
set -e
cd "$(dirname "$0")"
python3 - <<'PY'
import sys, os
sys.path.insert(0, "lib")
import vlib
vlib.ensure_lib("asan")
vlib.ensure_lib("plain")
PY
./check --setup

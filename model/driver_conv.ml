(* recomputes every line of harness/conv_api with the extracted conversion model *)
open Sfmodel
open Zutil
let z24 = z_of_int 24 and z53 = z_of_int 53
let penc_of = function "s8" -> Some S8 | "u8" -> Some U8 | "p16" -> Some P16 | "p24" -> Some P24 | "p32" -> Some P32 | _ -> None
let law_of = function "ul" -> Some ULAW | "al" -> Some ALAW | _ -> None
let hexw (w : int) (v : z) = let s = hex_of_z v in if String.length s >= w then s else String.make (w - String.length s) '0' ^ s
let strip s = let i = ref 0 in while !i < String.length s - 1 && s.[!i] = '0' do incr i done; String.sub s !i (String.length s - !i)
let optz f = function Some v -> f v | None -> "OOB"
let dec z = string_of_int (int_of_z z)
(* float_max = (float) ((32768.0 / 32767.0) * fmax) *)
let c3276x = fdiv64 (of_int (z_of_int 32768)) (of_int (z_of_int 32767))
let float_max fmax = round32 (fmul64 c3276x fmax)

let () =
  let n = ref 0 and bad = ref 0 in
  (try while true do
    let line = input_line stdin in
    let w = Array.of_list (String.split_on_char ' ' line) in
    if Array.length w >= 9 then begin
      incr n;
      let dir = w.(0) and enc = w.(1) and t = w.(3) in
      let norm = w.(4) = "1" and clip = w.(5) = "1" and scale = w.(6) = "1" in
      let a = w.(7) and r = w.(8) in
      let p = if t = "d" then z53 else z24 in
      let fin () = if t = "d" then b64_decode (z_of_hex a) else b32_decode (z_of_hex a) in
      let fout v = if t = "d" then hex_of_z (b64_encode v) else hex_of_z (b32_encode v) in
      let m =
        if dir = "W" then begin
          match penc_of enc, law_of enc with
          | Some e, _ ->
              strip (hex_of_z (match t with
                | "s" -> wr_short e (z_of_int (int_of_string a))
                | "i" -> wr_int e (z_of_int (int_of_string a))
                | _ -> wr_flt p e norm clip (fin ())))
          | None, Some l ->
              optz (fun v -> strip (hex_of_z v)) (match t with
                | "s" -> g_wr_short l (z_of_int (int_of_string a))
                | "i" -> g_wr_int l (z_of_int (int_of_string a))
                | _ -> g_wr_flt p l norm (fin ()))
          | None, None ->
              (* float / double file *)
              let pf = if enc = "f32" then z24 else z53 in
              let v = match t with
                | "s" -> ff_wr_short pf scale (z_of_int (int_of_string a))
                | "i" -> ff_wr_int pf scale (z_of_int (int_of_string a))
                | _ -> if enc = "f32" then round32 (fin ()) else fin () in
              strip (if enc = "f32" then hex_of_z (b32_encode v) else hex_of_z (b64_encode v))
        end else begin
          let c = z_of_hex a in
          match penc_of enc, law_of enc with
          | Some e, _ ->
              (match t with
               | "s" -> dec (rd_short e c) | "i" -> dec (rd_int e c)
               | _ -> fout (rd_flt p e norm c))
          | None, Some l ->
              (match t with
               | "s" -> optz dec (g_rd_short l c) | "i" -> optz dec (g_rd_int l c)
               | _ -> optz fout (g_rd_flt p l norm c))
          | None, None ->
              let x = if enc = "f32" then b32_decode c else b64_decode c in
              let pf = if enc = "f32" then z24 else z53 in
              (match t with
               | "f" -> hex_of_z (b32_encode (round32 x))
               | "d" -> hex_of_z (b64_encode x)
               | _ ->
                 let sc =
                   if not scale then of_int (z_of_int 1)
                   else begin
                     let fm = float_max (b64_decode (z_of_hex w.(9))) in
                     if t = "s" then fdiv32 (of_int (z_of_int 32767)) fm
                     else fdiv32 (of_int (z_of_int 2147483648)) fm
                   end in
                 if t = "s" then dec (ff_rd_short pf clip sc x)
                 else
                   (* d2i_clip_array computes the product in a float *)
                   let pf' = if enc = "f64" && clip then z24 else pf in
                   let x' = if enc = "f64" && clip then x else x in
                   if enc = "f64" && clip then dec (ff_rd_i32 z24 clip (round32 sc) (x'))
                   else dec (ff_rd_i32 pf' clip sc x))
        end in
      if m <> strip r && m <> r then begin
        incr bad; if !bad <= 60 then Printf.printf "MISMATCH %s impl=%s model=%s\n" (String.concat " " (Array.to_list (Array.sub w 0 8))) r m end
    end
  done with End_of_file -> ());
  Printf.printf "DONE %d %d\n" !n !bad

(* model side of the K tie for the SDS sample packing (Sds.v); line formats in harness/kern_sds.c *)
open Sfmodel
open Zutil
let bytes_of_hex s = List.init (String.length s / 2) (fun i -> z_of_int (int_of_string ("0x" ^ String.sub s (2 * i) 2)))
let hex_of_bytes l = String.concat "" (List.map (fun b -> Printf.sprintf "%02x" (int_of_z b)) l)
let () =
  let n = ref 0 and bad = ref 0 in
  (try while true do
    let line = input_line stdin in
    match String.split_on_char ' ' line with
    | [tag; nb; a; impl] ->
      incr n;
      let m = (match tag with
        | "P" -> let s = z_of_int (int_of_string a) in hex_of_bytes ((match nb with "2" -> pack2 | "3" -> pack3 | _ -> pack4) s)
        | _ -> string_of_int (int_of_z (unpack (bytes_of_hex a)))) in
      if m <> impl then begin incr bad; if !bad <= 20 then Printf.printf "MISMATCH %s %s %s impl=%s model=%s\n" tag nb a impl m end
    | _ -> ()
  done with End_of_file -> ());
  Printf.printf "DONE %d %d\n" !n !bad

open Sfmodel
open Zutil
let zi s = z_of_int (int_of_string s)
let () =
  let n = ref 0 and bad = ref 0 in
  let st = ref { indx = Z0; hend = Z0; hlen = z_of_int 256 } in
  let show s = Printf.sprintf "%d,%d,%d" (int_of_z s.indx) (int_of_z s.hend) (int_of_z s.hlen) in
  (try while true do
    let line = input_line stdin in
    let w = Array.of_list (String.split_on_char ' ' line) in
    if Array.length w >= 4 then begin
      incr n;
      let m = match w.(0) with
        | "N" -> st := { indx = Z0; hend = Z0; hlen = zi w.(3) }; w.(3)
        | "R" -> let ((s', r), _) = header_read !st (zi w.(1)) (zi w.(2)) in st := s'; Printf.sprintf "%d,%s" (int_of_z r) (show s')
        | "S" -> let (s', _) = seek_set !st (zi w.(1)) (zi w.(2)) in st := s'; show s'
        | "P" -> let (s', (c, r)) = seek_cur_pipe !st (zi w.(1)) (zi w.(2)) in st := s'; Printf.sprintf "%s,%d,%d" (show s') (int_of_z c) (int_of_z r)
        | _ -> let (s', _) = seek_cur !st (zi w.(1)) (zi w.(2)) in st := s'; show s' in
      let impl = w.(Array.length w - 1) in
      if m <> impl then begin incr bad; if !bad <= 40 then Printf.printf "MISMATCH %s impl=%s model=%s\n" (String.concat " " (Array.to_list (Array.sub w 0 3))) impl m end
    end
  done with End_of_file -> ());
  Printf.printf "DONE %d %d\n" !n !bad

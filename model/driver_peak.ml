(* K lines:  PK <channels> <c> <chunk sizes in frames, comma separated> <magnitudes of channel c, comma separated (integers)> <value@position>
   the model folds Peak.update over the chunks of that channel *)
open Sfmodel
open Zutil
let split c s = if s = "-" then [] else String.split_on_char c s
let rec take n l = if n <= 0 then [] else match l with [] -> [] | x :: r -> x :: take (n - 1) r
let rec drop n l = if n <= 0 then l else match l with [] -> [] | _ :: r -> drop (n - 1) r
let () =
  let n = ref 0 and bad = ref 0 in
  (try while true do
    let line = input_line stdin in
    let w = Array.of_list (String.split_on_char ' ' line) in
    if Array.length w >= 6 && w.(0) = "PK" then begin
      incr n;
      let sizes = List.map int_of_string (split ',' w.(3)) and vals = List.map (fun s -> z_of_int (int_of_string s)) (split ',' w.(4)) in
      let rec chunks sz vs = match sz with [] -> [] | k :: r -> take k vs :: chunks r (drop k vs) in
      let p = run { pval = Z0; ppos = Z0 } Z0 (chunks sizes vals) in
      let m = Printf.sprintf "%d@%d" (int_of_z p.pval) (int_of_z p.ppos) in
      if m <> w.(5) then begin incr bad; if !bad <= 40 then Printf.printf "MISMATCH %s impl=%s model=%s\n" (String.concat " " (Array.to_list (Array.sub w 0 5))) w.(5) m end
    end
  done with End_of_file -> ());
  Printf.printf "DONE %d %d\n" !n !bad

(* replays harness/kern_chunk lines with the extracted Chunks.v model *)
open Sfmodel
open Zutil
let bytes_of_hex s = if s = "-" then [] else List.init (String.length s / 2) (fun i -> z_of_int (int_of_string ("0x" ^ String.sub s (2 * i) 2)))
let hex_of_bytes l = if l = [] then "-" else String.concat "" (List.map (fun b -> Printf.sprintf "%02x" (int_of_z b)) l)
let () =
  let n = ref 0 and bad = ref 0 in
  let rt = ref empty and wt = ref empty in
  (try while true do
    let line = input_line stdin in
    let w = Array.of_list (String.split_on_char ' ' line) in
    if Array.length w >= 3 then begin
      incr n;
      let m = match w.(0) with
        | "R" -> rt := empty; wt := empty; "0"
        | "S" ->
            let id = bytes_of_hex w.(1) in
            let c = { chash = hash_of_id id; cmark = marker32 id; cid = id; clen = z_of_int (int_of_string w.(3)); cdata = [] } in
            rt := store_read !rt c;
            Printf.sprintf "%d,%d" (int_of_z (used !rt)) (int_of_z (count !rt))
        | "W" ->
            let id = bytes_of_hex w.(1) and d = bytes_of_hex w.(2) in
            wt := save_write !wt id d;
            let c = List.nth (!wt).chunks (List.length (!wt).chunks - 1) in
            Printf.sprintf "%d,%d,%d,%s" (int_of_z (used !wt)) (int_of_z (count !wt)) (int_of_z c.clen) (hex_of_bytes c.cdata)
        | "I" ->
            let idx = iterate !rt (if w.(1) = "-" then None else Some (bytes_of_hex w.(1))) in
            if idx = [] then "-" else String.concat "," (List.map (fun z -> string_of_int (int_of_z z)) idx)
        | _ -> "?" in
      let impl = w.(Array.length w - 1) in
      if m <> impl then begin incr bad; if !bad <= 40 then Printf.printf "MISMATCH %s impl=%s model=%s\n" (String.concat " " (Array.to_list (Array.sub w 0 (Array.length w - 1)))) impl m end
    end
  done with End_of_file -> ());
  Printf.printf "DONE %d %d\n" !n !bad

open Sfmodel
open Zutil
let bytes_of_hex s = List.init (String.length s / 2) (fun i -> z_of_int (int_of_string ("0x" ^ String.sub s (2 * i) 2)))
let rec nat_of_int n = if n <= 0 then O else S (nat_of_int (n - 1))
let rec take n l = if n <= 0 then [] else match l with [] -> [] | x :: r -> x :: take (n - 1) r
let rec drop n l = if n <= 0 then l else match l with [] -> [] | _ :: r -> drop (n - 1) r
let () =
  let n = ref 0 and bad = ref 0 in
  (try while true do
    let line = input_line stdin in
    match String.split_on_char ' ' line with
    | [tag; ch; ba; hex; impl] ->
      incr n;
      let c = int_of_string ch in
      let bytes = bytes_of_hex hex in
      let rec chunks n l = if l = [] then [] else take n l :: chunks n (drop n l) in
      let aiff_block bs =
          (* AIFC ima4: one 34 byte packet per channel, the decoded channels interleaved sample by sample *)
          let chans = List.init c (fun k -> Array.of_list (aiff_decode (take 34 (drop (34 * k) bs)))) in
          List.concat (List.init 64 (fun i -> List.map (fun a -> a.(i)) chans)) in
      let full l n = List.filter (fun b -> List.length b = n) (chunks n l) in
      let multi = String.length tag = 2 in
      let out = (match tag with
        | "W" -> wav_decode (nat_of_int c) bytes
        | "M" -> ms_decode (nat_of_int c) bytes
        (* several blocks: every block is decoded on its own (the reference decoders are functions of one block) *)
        | "Wn" -> List.concat (List.map (wav_decode (nat_of_int c)) (full bytes (int_of_string ba)))
        | "Mn" -> List.concat (List.map (ms_decode (nat_of_int c)) (full bytes (int_of_string ba)))
        | "An" -> List.concat (List.map aiff_block (full bytes (34 * c)))
        | _ -> aiff_block bytes) in
      (* a multi-block file delivers the frame count of its header: a prefix of the decoded blocks (at least all but the last block) *)
      let nimpl = if impl = "-" then 0 else List.length (String.split_on_char ',' impl) in
      let out = if multi && nimpl <= List.length out && 2 * nimpl > List.length out then take nimpl out else out in
      let m = String.concat "," (List.map (fun z -> string_of_int (int_of_z z)) out) in
      if m <> impl then begin incr bad; if !bad <= 20 then Printf.printf "MISMATCH %s %s %s %s impl=%s model=%s\n" tag ch ba (if String.length hex > 200 then String.sub hex 0 200 else hex) (if String.length impl > 400 then String.sub impl 0 400 else impl) (if String.length m > 400 then String.sub m 0 400 else m) end
    | _ -> ()
  done with End_of_file -> ());
  Printf.printf "DONE %d %d\n" !n !bad

open Sfmodel
open Zutil
let bytes_of_hex s = List.init (String.length s / 2) (fun i -> z_of_int (int_of_string ("0x" ^ String.sub s (2 * i) 2)))
let rec nat_of_int n = if n <= 0 then O else S (nat_of_int (n - 1))
let rec take n l = if n <= 0 then [] else match l with [] -> [] | x :: r -> x :: take (n - 1) r
let rec drop n l = if n <= 0 then l else match l with [] -> [] | _ :: r -> drop (n - 1) r
let () =
  let n = ref 0 and bad = ref 0 in
  (try while true do
    let line = input_line stdin in
    match String.split_on_char ' ' line with
    | [tag; ch; ba; hex; impl] ->
      incr n;
      let c = int_of_string ch in
      let bytes = bytes_of_hex hex in
      let out = (match tag with
        | "W" -> wav_decode (nat_of_int c) bytes
        | "M" -> ms_decode (nat_of_int c) bytes
        | _ ->
          (* AIFC ima4: one 34 byte packet per channel, the decoded channels interleaved sample by sample *)
          let chans = List.init c (fun k -> Array.of_list (aiff_decode (take 34 (drop (34 * k) bytes)))) in
          List.concat (List.init 64 (fun i -> List.map (fun a -> a.(i)) chans))) in
      let m = String.concat "," (List.map (fun z -> string_of_int (int_of_z z)) out) in
      if m <> impl then begin incr bad; if !bad <= 20 then Printf.printf "MISMATCH %s %s %s %s impl=%s model=%s\n" tag ch ba hex impl m end
    | _ -> ()
  done with End_of_file -> ());
  Printf.printf "DONE %d %d\n" !n !bad

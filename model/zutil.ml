(* OCaml int / hex string <-> extracted Z (kept as the extracted inductive; no Extract Constant) *)
open Sfmodel

let rec pos_of_int n = if n = 1 then XH else if n land 1 = 0 then XO (pos_of_int (n lsr 1)) else XI (pos_of_int (n lsr 1))
let z_of_int n = if n = 0 then Z0 else if n > 0 then Zpos (pos_of_int n) else Zneg (pos_of_int (-n))
let rec int_of_pos = function XH -> 1 | XO p -> 2 * int_of_pos p | XI p -> 2 * int_of_pos p + 1
let int_of_z = function Z0 -> 0 | Zpos p -> int_of_pos p | Zneg p -> - (int_of_pos p)

(* arbitrary size, via decimal/hex strings *)
let z_double = function Z0 -> Z0 | Zpos p -> Zpos (XO p) | Zneg p -> Zneg (XO p)
let rec pos_succ = function XH -> XO XH | XO p -> XI p | XI p -> XO (pos_succ p)
let z_succ_nonneg = function Z0 -> Zpos XH | Zpos p -> Zpos (pos_succ p) | z -> z
(* non-negative Z from a hex string (no 0x prefix) *)
let z_of_hex (s : string) : z =
  let acc = ref Z0 in
  String.iter (fun c ->
    let d = match c with '0'..'9' -> Char.code c - 48 | 'a'..'f' -> Char.code c - 87 | 'A'..'F' -> Char.code c - 55 | _ -> failwith "hex" in
    for b = 3 downto 0 do
      acc := z_double !acc;
      if (d lsr b) land 1 = 1 then acc := z_succ_nonneg !acc
    done) s;
  !acc
(* hex string of a non-negative Z *)
let hex_of_z (v : z) : string =
  match v with
  | Z0 -> "0"
  | Zneg _ -> "NEG"
  | Zpos p ->
    let bits = ref [] in
    let rec go = function XH -> bits := 1 :: !bits | XO q -> bits := 0 :: !bits; go q | XI q -> bits := 1 :: !bits; go q in
    go p;
    (* !bits is msb first after the recursion *)
    let l = !bits in
    let n = List.length l in
    let pad = (4 - n mod 4) mod 4 in
    let l = (List.init pad (fun _ -> 0)) @ l in
    let buf = Buffer.create 16 in
    let rec eat = function
      | a :: b :: c :: d :: r -> Buffer.add_char buf "0123456789abcdef".[a*8+b*4+c*2+d]; eat r
      | _ -> () in
    eat l; Buffer.contents buf
(* signed decimal for moderately sized values *)
let rec z_of_dec (s : string) : z =
  if String.length s > 0 && s.[0] = '-' then
    (match z_of_dec (String.sub s 1 (String.length s - 1)) with Zpos p -> Zneg p | z -> z)
  else begin
    (* decimal -> via int when small, else via repeated *10 using hex conversion of chunks *)
    if String.length s <= 17 then z_of_int (int_of_string s)
    else failwith "z_of_dec: too long"
  end
let rec list_of_coq l = l

open Sfmodel
open Zutil
let bytes_of_hex s = List.init (String.length s / 2) (fun i -> z_of_int (int_of_string ("0x" ^ String.sub s (2 * i) 2)))
let hex_of_bytes l = String.concat "" (List.map (fun b -> Printf.sprintf "%02x" (int_of_z b)) l)
let () =
  let n = ref 0 and bad = ref 0 in
  (try while true do
    let line = input_line stdin in
    let w = Array.of_list (String.split_on_char ' ' line) in
    if Array.length w >= 3 then begin
      incr n;
      let m = match w.(0) with
        | "E" -> hex_of_bytes (enc80 (z_of_int (int_of_string w.(1))))
        | _ -> string_of_int (int_of_z (dec80 (bytes_of_hex w.(1)))) in
      let impl = w.(Array.length w - 1) in
      if m <> impl then begin incr bad; if !bad <= 40 then Printf.printf "MISMATCH %s impl=%s model=%s\n" (String.concat " " (Array.to_list (Array.sub w 0 (Array.length w - 1)))) impl m end
    end
  done with End_of_file -> ());
  Printf.printf "DONE %d %d\n" !n !bad

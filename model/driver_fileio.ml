open Sfmodel
open Zutil
let bytes_of_hex s = if s = "-" then [] else List.init (String.length s / 2) (fun i -> z_of_int (int_of_string ("0x" ^ String.sub s (2 * i) 2)))
let hex_of_bytes l = if l = [] then "-" else String.concat "" (List.map (fun b -> Printf.sprintf "%02x" (int_of_z b)) l)
let () =
  let n = ref 0 and bad = ref 0 in
  let fd = ref { bytes = []; pos = Z0 } and fv = ref { bytes = []; pos = Z0 } and k = ref Z0 and flen = ref Z0 in
  (try while true do
    let line = input_line stdin in
    let w = Array.of_list (String.split_on_char ' ' line) in
    if Array.length w >= 4 then begin
      incr n;
      let show = function RZ z -> string_of_int (int_of_z z) | RBytes b -> hex_of_bytes b in
      let m = match w.(0) with
        | "F" ->
            let pre = bytes_of_hex w.(1) and f = bytes_of_hex w.(2) and post = bytes_of_hex w.(3) in
            k := z_of_int (List.length pre); flen := z_of_int (List.length f);
            fd := { bytes = pre @ f @ post; pos = !k }; fv := { bytes = f; pos = Z0 }; w.(3)
        | "L" -> string_of_int (int_of_z (fd_filelen !k !flen !fd))
        | c ->
            let o = (match c with "S" -> Seek (z_of_int (int_of_string w.(2)), z_of_int (int_of_string w.(3))) | "R" -> Read (z_of_int (int_of_string w.(2))) | _ -> Tell) in
            if w.(1) = "d" then (let (f', r) = fd_step !k !fd o in fd := f'; show r) else (let (f', r) = vio_step !fv o in fv := f'; show r) in
      let impl = w.(Array.length w - 1) in
      if m <> impl then begin incr bad; if !bad <= 40 then Printf.printf "MISMATCH %s impl=%s model=%s\n" (String.concat " " (Array.to_list (Array.sub w 0 (min 4 (Array.length w - 1))))) impl m end
    end
  done with End_of_file -> ());
  Printf.printf "DONE %d %d\n" !n !bad

open Sfmodel
open Zutil
let () =
  let n = ref 0 and bad = ref 0 in
  (try while true do
    let line = input_line stdin in
    match String.split_on_char ' ' line with
    | ["R"; p; nx] ->
      incr n;
      let m = string_of_int (int_of_z (rand_next (z_of_int (int_of_string p)))) in
      if m <> nx then begin incr bad; if !bad <= 40 then Printf.printf "MISMATCH R %s impl=%s model=%s\n" p nx m end
    | _ -> ()
  done with End_of_file -> ());
  Printf.printf "DONE %d %d\n" !n !bad

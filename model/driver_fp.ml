open Sfmodel
open Zutil
let () =
  let n = ref 0 and bad = ref 0 in
  let report k args r m = incr bad; if !bad <= 40 then Printf.printf "MISMATCH %s %s impl=%s model=%s\n" k args r m in
  (try while true do
    let line = input_line stdin in
    let w = String.split_on_char ' ' line in
    incr n;
    (match w with
    | ["mul32"; a; b; r] ->
        let m = hex_of_z (b32_encode (fmul32 (b32_decode (z_of_hex a)) (b32_decode (z_of_hex b)))) in
        if m <> r then report "mul32" (a ^ " " ^ b) r m
    | ["mul64"; a; b; r] ->
        let m = hex_of_z (b64_encode (fmul64 (b64_decode (z_of_hex a)) (b64_decode (z_of_hex b)))) in
        if m <> r then report "mul64" (a ^ " " ^ b) r m
    | ["div32"; a; b; r] ->
        let m = hex_of_z (b32_encode (fdiv32 (b32_decode (z_of_hex a)) (b32_decode (z_of_hex b)))) in
        if m <> r then report "div32" (a ^ " " ^ b) r m
    | ["div64"; a; b; r] ->
        let m = hex_of_z (b64_encode (fdiv64 (b64_decode (z_of_hex a)) (b64_decode (z_of_hex b)))) in
        if m <> r then report "div64" (a ^ " " ^ b) r m
    | ["lrintf"; a; r] ->
        let m = string_of_int (int_of_z (psf_lrint (b32_decode (z_of_hex a)))) in
        if m <> r then report "lrintf" a r m
    | ["lrint"; a; r] ->
        let m = string_of_int (int_of_z (psf_lrint (b64_decode (z_of_hex a)))) in
        if m <> r then report "lrint" a r m
    | ["d2f"; a; r] ->
        let m = hex_of_z (b32_encode (round32 (b64_decode (z_of_hex a)))) in
        if m <> r then report "d2f" a r m
    | ["f2d"; a; r] ->
        let m = hex_of_z (b64_encode (b32_decode (z_of_hex a))) in
        if m <> r then report "f2d" a r m
    | ["i2f"; a; r] ->
        let m = hex_of_z (b32_encode (round32 (of_int (z_of_int (int_of_string a))))) in
        if m <> r then report "i2f" a r m
    | ["i2d"; a; r] ->
        let m = hex_of_z (b64_encode (round64 (of_int (z_of_int (int_of_string a))))) in
        if m <> r then report "i2d" a r m
    | ["cmp32"; a; b; r] ->
        let x = b32_decode (z_of_hex a) and y = b32_decode (z_of_hex b) in
        let m = string_of_int ((if fge x y then 2 else 0) + (if fle x y then 1 else 0)) in
        if m <> r then report "cmp32" (a ^ " " ^ b) r m
    | _ -> decr n)
  done with End_of_file -> ());
  Printf.printf "DONE %d %d\n" !n !bad

(* recomputes the lines of harness/grid_open with the extracted translation of sf_format_check (F lines)
   and the write-mode table Writable.v (O lines) *)
open Sfmodel
open Zutil
let () =
  let n = ref 0 and bad = ref 0 in
  let inl x l = List.exists (fun y -> y = x) l in
  (try while true do
    let line = input_line stdin in
    let w = Array.of_list (String.split_on_char ' ' line) in
    if Array.length w >= 5 then begin
      incr n;
      let f = z_of_hex w.(1) and ch = z_of_int (int_of_string w.(2)) and r = z_of_int (int_of_string w.(3)) in
      let m = if w.(0) = "F" then int_of_z (fc f ch r) else int_of_z (writable f ch r) in
      if m <> int_of_string w.(4) then begin
        incr bad; if !bad <= 60 then Printf.printf "MISMATCH %s impl=%s model=%d\n" (String.concat " " (Array.to_list w)) w.(4) m end
    end
  done with End_of_file -> ());
  ignore inl;
  Printf.printf "DONE %d %d\n" !n !bad

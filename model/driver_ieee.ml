open Sfmodel
open Zutil
let bytes_of_hex s = List.init (String.length s / 2) (fun i -> z_of_int (int_of_string ("0x" ^ String.sub s (2*i) 2)))
let hex_of_bytes l = String.concat "" (List.map (fun b -> Printf.sprintf "%02x" (int_of_z b)) l)
let rec nat_of_int n = if n = 0 then O else S (nat_of_int (n - 1))
(* signed decimal of arbitrary size: via hex of magnitude is awkward; print Z in decimal ourselves *)
let dec_of_z (v : z) : string =
  (* values here fit in 64 bits; OCaml ints are 63-bit, so go through two halves *)
  let mag = match v with Z0 -> "0" | Zpos _ -> hex_of_z v | Zneg p -> hex_of_z (Zpos p) in
  let neg = (match v with Zneg _ -> true | _ -> false) in
  (* hex -> decimal string using arbitrary precision on strings of digits *)
  let digits = ref [0] in   (* little endian decimal digits *)
  String.iter (fun c ->
    let d = match c with '0'..'9' -> Char.code c - 48 | _ -> Char.code c - 87 in
    let carry = ref d in
    digits := List.map (fun x -> let t = x * 16 + !carry in carry := t / 10; t mod 10) !digits;
    while !carry > 0 do digits := !digits @ [!carry mod 10]; carry := !carry / 10 done) mag;
  let s = String.concat "" (List.rev_map string_of_int !digits) in
  (* strip leading zeros *)
  let i = ref 0 in while !i < String.length s - 1 && s.[!i] = '0' do incr i done;
  (if neg then "-" else "") ^ String.sub s !i (String.length s - !i)
let z_of_decs (s : string) : z =
  let neg = String.length s > 0 && s.[0] = '-' in
  let s = if neg then String.sub s 1 (String.length s - 1) else s in
  let acc = ref Z0 in
  String.iter (fun c -> acc := Z.add (Z.mul !acc (z_of_int 10)) (z_of_int (Char.code c - 48))) s;
  if neg then Z.opp !acc else !acc

let () =
  let n = ref 0 and bad = ref 0 in
  let report k a r m = incr bad; if !bad <= 40 then Printf.printf "MISMATCH %s %s impl=%s model=%s\n" k a r m in
  let optb = function Some l -> hex_of_bytes l | None -> "NONE" in
  (try while true do
    let line = input_line stdin in
    incr n;
    (match String.split_on_char ' ' line with
    | [k; a; r] ->
      let m = match k with
        | "w32le" -> optb (f32_le_write (b32_decode (z_of_hex a)))
        | "w32be" -> optb (f32_be_write (b32_decode (z_of_hex a)))
        | "w64le" -> optb (f64_le_write (b64_decode (z_of_hex a)))
        | "w64be" -> optb (f64_be_write (b64_decode (z_of_hex a)))
        | "r32le" -> (match bytes_of_hex a with [c0;c1;c2;c3] -> hex_of_z (b32_encode (f32_le_read c0 c1 c2 c3)) | _ -> "?")
        | "r32be" -> (match bytes_of_hex a with [c0;c1;c2;c3] -> hex_of_z (b32_encode (f32_be_read c0 c1 c2 c3)) | _ -> "?")
        | "r64le" -> hex_of_z (b64_encode (f64_le_read (bytes_of_hex a)))
        | "r64be" -> hex_of_z (b64_encode (f64_be_read (bytes_of_hex a)))
        | "sw16" -> hex_of_z (bswap (nat_of_int 2) (z_of_hex a))
        | "sw32" -> hex_of_z (bswap (nat_of_int 4) (z_of_hex a))
        | "sw64" -> hex_of_z (bswap (nat_of_int 8) (z_of_hex a))
        | "gbe16" -> dec_of_z (get_be (nat_of_int 2) (bytes_of_hex a))
        | "gbe24" -> dec_of_z (get_be24 (bytes_of_hex a))
        | "gle24" -> dec_of_z (get_le24 (bytes_of_hex a))
        | "gbe32" -> dec_of_z (get_be (nat_of_int 4) (bytes_of_hex a))
        | "gle32" -> dec_of_z (get_le (nat_of_int 4) (bytes_of_hex a))
        | "gbe64" -> dec_of_z (get_be (nat_of_int 8) (bytes_of_hex a))
        | "gle64" -> dec_of_z (get_le (nat_of_int 8) (bytes_of_hex a))
        | "pbe16" -> hex_of_bytes (put_be (nat_of_int 2) (z_of_decs a))
        | "pbe32" -> hex_of_bytes (put_be (nat_of_int 4) (z_of_decs a))
        | "pbe64" -> hex_of_bytes (put_be (nat_of_int 8) (z_of_decs a))
        | _ -> "?" in
      if m <> r then report k a r m
    | _ -> decr n)
  done with End_of_file -> ());
  Printf.printf "DONE %d %d\n" !n !bad

(* shared by all drivers: OCaml int <-> extracted Z (inductive), no Extract Constant used *)

(* Reads "<kernel> <input> <output>" lines produced by harness/kern_g711 and recomputes each output
   with the extracted Coq model; prints MISMATCH lines and a final count. *)
open Sfmodel
open Zutil

let () =
  let n = ref 0 and bad = ref 0 in
  (try while true do
    let line = input_line stdin in
    match String.split_on_char ' ' line with
    | [k; a; r] ->
      let x = z_of_int (int_of_string a) in
      let m = match k with
        | "ulaw2s" -> c_ulaw2s x | "alaw2s" -> c_alaw2s x
        | "ulaw2i" -> c_ulaw2i x | "alaw2i" -> c_alaw2i x
        | "s2ulaw" -> c_s2ulaw x | "s2alaw" -> c_s2alaw x
        | "i2ulaw" -> c_i2ulaw x | "i2alaw" -> c_i2alaw x
        | _ -> None in
      incr n;
      (* property oracle: the implementation against the G.711 definition itself *)
      let spec = match k with
        | "ulaw2s" -> Some (ulaw_expand x) | "alaw2s" -> Some (alaw_expand x)
        | "s2ulaw" -> Some (g711_ulaw_of_short x) | "s2alaw" -> Some (g711_alaw_of_short x)
        | _ -> None in
      (match spec with
       | Some v when string_of_int (int_of_z v) <> r ->
           incr bad; if !bad <= 50 then Printf.printf "MISMATCH %s %s impl=%s definition=%d\n" k a r (int_of_z v)
       | _ -> ());
      let ms = match m with Some v -> string_of_int (int_of_z v) | None -> "OOB" in
      if ms <> r then begin incr bad; if !bad <= 50 then Printf.printf "MISMATCH %s %s impl=%s model=%s\n" k a r ms end
    | _ -> ()
  done with End_of_file -> ());
  Printf.printf "DONE %d %d\n" !n !bad

(* ledger correspondence: each line is "<ops> <impl>", ops = comma separated
   A<f>n|A<f>f|A<f>b  allocation into field f (null-checked / freed-first / blind), R<f> release, H<p> hook, N<p>.<t> nested, U<p>.<t> un-nest
   the model answers "<discipline kept>,<entries left after close>,<lost>,<ledger blocks before close>" *)
open Sfmodel
open Zutil
let zi s = z_of_int (int_of_string s)
let parse tok =
  let n = String.length tok in
  let body a b = String.sub tok a (b - a) in
  match tok.[0] with
  | 'A' -> let g = (match tok.[n - 1] with 'n' -> GNullChecked | 'f' -> GFreedFirst | _ -> GBlind) in OAlloc (zi (body 1 (n - 1)), g)
  | 'R' -> ORelease (zi (body 1 n))
  | 'H' -> OHook (zi (body 1 n))
  | 'N' -> (match String.split_on_char '.' (body 1 n) with [p; t] -> ONest (zi p, zi t) | _ -> failwith tok)
  | 'U' -> (match String.split_on_char '.' (body 1 n) with [p; t] -> OUnnest (zi p, zi t) | _ -> failwith tok)
  | _ -> failwith tok
let () =
  let n = ref 0 and bad = ref 0 in
  (try while true do
    let line = input_line stdin in
    match String.split_on_char ' ' line with
    | [ops; impl] ->
      incr n;
      let l = if ops = "-" then [] else List.map parse (String.split_on_char ',' ops) in
      let ok = run_ok freed_fields init l in
      let s = run init l in
      let (left, lost) = close freed_fields s in
      let m = Printf.sprintf "%d,%d,%d,%d" (if ok then 1 else 0) (List.length left) (int_of_z lost) (int_of_z (blocks s)) in
      if m <> impl then begin incr bad; if !bad <= 40 then Printf.printf "MISMATCH %s impl=%s model=%s\n" ops impl m end
    | _ -> ()
  done with End_of_file -> ());
  Printf.printf "DONE %d %d\n" !n !bad

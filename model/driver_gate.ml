open Sfmodel
open Zutil
let zd s = if String.length s > 0 && s.[0] = '-' then (match z_of_hex (Printf.sprintf "%Lx" (Int64.neg (Int64.of_string s))) with Zpos p -> Zneg p | z -> z) else z_of_hex (Printf.sprintf "%Lx" (Int64.of_string s))
let () =
  let n = ref 0 and bad = ref 0 in
  (try while true do
    let line = input_line stdin in
    let w = Array.of_list (String.split_on_char ' ' line) in
    if Array.length w >= 7 then begin
      incr n;
      let f = int_of_string ("0x" ^ w.(4)) in
      let e = [zd w.(1); zd w.(2); zd w.(3); z_of_int (f land 0x0FFF0000); z_of_int (f land 0xFFFF); zd w.(5)] in
      let m = string_of_int (int_of_z (eval gate_prog e)) in
      if m <> w.(6) then begin incr bad; if !bad <= 40 then Printf.printf "MISMATCH %s impl=%s model=%s\n" (String.concat " " (Array.to_list (Array.sub w 0 6))) w.(6) m end
    end
  done with End_of_file -> ());
  Printf.printf "DONE %d %d\n" !n !bad

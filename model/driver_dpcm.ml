(* model side of the K tie for the DPCM codecs of src/xi.c (Dpcm.v); line formats are described in harness/kern_dpcm.c *)
open Sfmodel
open Zutil
let rec nat_of_int n = if n <= 0 then O else S (nat_of_int (n - 1))
let csv s = if s = "-" then [] else List.map (fun t -> z_of_int (int_of_string t)) (String.split_on_char ',' s)
let ints s = if s = "-" then [] else List.map int_of_string (String.split_on_char ',' s)
let show l = if l = [] then "-" else String.concat "," (List.map (fun v -> string_of_int (int_of_z v)) l)
let rec take n l = if n <= 0 then [] else match l with [] -> [] | x :: r -> x :: take (n - 1) r
let rec drop n l = if n <= 0 then l else match l with [] -> [] | _ :: r -> drop (n - 1) r
let rec split sizes l = match sizes with [] -> [] | n :: r -> take n l :: split r (drop n l)
let kernel = function
  | "s2dles" -> s2dles | "i2dles" -> i2dles | "dles2s" -> dles2s | "dles2i" -> dles2i
  | "s2dsc" -> s2dsc | "i2dsc" -> i2dsc | "dsc2s" -> dsc2s | "dsc2i" -> dsc2i | s -> failwith s
let () =
  let n = ref 0 and bad = ref 0 in
  (try while true do
    let line = input_line stdin in
    let w = Array.of_list (String.split_on_char ' ' line) in
    if Array.length w >= 4 then begin
      incr n;
      let impl = w.(Array.length w - 1) in
      let m = match w.(0) with
        | "W16" | "W8" ->
            let k = (match w.(0), w.(1) with "W16", "s" -> s2dles | "W16", _ -> i2dles | _, "s" -> s2dsc | _ -> i2dsc) in
            let (o, _) = run_calls k Z0 (split (ints w.(2)) (csv w.(3))) in show o
        | "R16" | "R8" ->
            let wide = w.(0) = "R16" in
            let k = (match wide, w.(1) with true, "s" -> dles2s | true, _ -> dles2i | false, "s" -> dsc2s | _ -> dsc2i) in
            let target = int_of_string w.(2) and pre = z_of_int (int_of_string w.(3)) and cs = csv w.(5) in
            let (st, rest) = if target < 0 then (Z0, cs) else
              ((if wide then dpcm_seek16 else dpcm_seek8) pre cs (nat_of_int target), drop target cs) in
            let (o, _) = run_calls k st (split (ints w.(4)) rest) in
            (* the partition must not matter: for short reads the one-call definition the seek theorems talk about is evaluated as well *)
            let whole = if target < 0 || w.(1) <> "s" then o else (if wide then seek_then_read16 else seek_then_read8) pre cs (nat_of_int target) in
            if whole <> o then "model-inconsistent" else show o
        | kn -> let (o, l) = kernel kn (z_of_int (int_of_string w.(1))) (csv w.(2)) in show o ^ ";" ^ string_of_int (int_of_z l) in
      if m <> impl then begin incr bad; if !bad <= 40 then Printf.printf "MISMATCH %s impl=%s model=%s\n" (String.concat " " (Array.to_list (Array.sub w 0 (min 4 (Array.length w - 1))))) (if String.length impl > 300 then String.sub impl 0 300 else impl) (if String.length m > 300 then String.sub m 0 300 else m) end
    end
  done with End_of_file -> ());
  Printf.printf "DONE %d %d\n" !n !bad

(* model side of the S tie for the wrapper state machine (Api.v): consumes the model script produced by
   lib/sdrive.py and prints one line "<lineno> k=v ..." per operation with the fields the model predicts.
   commands:
     setdata <sid> <frames> <code hex>*            external content of a store's data region
     mopen <lineno> <h> <sid> <mode> <ch> <enc>    enc in s8 u8 p16 p24 p32 ul al f32 f64
     mclose <lineno> <h>
     mr <lineno> <h> <T> <i|f> <n> <lim>
     mw <lineno> <h> <T> <i|f> <n> <lim> v*        values: ints decimal, floats/doubles hex patterns (cycled)
     mseek <lineno> <h> <off> <whence>
     mtrunc <lineno> <h> <n>                       *)
open Sfmodel
open Zutil

let z24 = z_of_int 24 and z53 = z_of_int 53
let mask64 = Int64.minus_one
let rec i64_of_pos = function XH -> 1L | XO p -> Int64.shift_left (i64_of_pos p) 1 | XI p -> Int64.logor (Int64.shift_left (i64_of_pos p) 1) 1L
let i64_of_z = function Z0 -> 0L | Zpos p -> i64_of_pos p | Zneg p -> Int64.neg (i64_of_pos p)
let fnv0 = 0xcbf29ce484222325L
let fnv_prime = 0x100000001b3L
let fnv_i64 (h : int64) (v : int64) : int64 =
  let h = ref h in
  for b = 0 to 7 do
    let byte = Int64.logand (Int64.shift_right_logical v (8 * b)) 0xFFL in
    h := Int64.mul (Int64.logxor !h byte) fnv_prime
  done; !h
let digest (vs : int64 list) = List.fold_left fnv_i64 fnv0 vs

type enc = Pcm of penc | Law of law | F32 | F64
let enc_of = function
  | "s8" -> Pcm S8 | "u8" -> Pcm U8 | "p16" -> Pcm P16 | "p24" -> Pcm P24 | "p32" -> Pcm P32
  | "ul" -> Law ULAW | "al" -> Law ALAW | "f32" -> F32 | "f64" -> F64 | s -> failwith ("enc " ^ s)

let getz = function Some v -> v | None -> failwith "conversion out of table"
(* code -> caller value as int64 (bit pattern for float / double) *)
let conv_read enc t (c : z) : int64 =
  let fl p v = if p == z24 then i64_of_z (b32_encode v) else i64_of_z (b64_encode v) in
  match enc, t with
  | Pcm e, "s" -> i64_of_z (rd_short e c) | Pcm e, "i" -> i64_of_z (rd_int e c)
  | Pcm e, "f" -> fl z24 (rd_flt z24 e true c) | Pcm e, _ -> fl z53 (rd_flt z53 e true c)
  | Law l, "s" -> i64_of_z (getz (g_rd_short l c)) | Law l, "i" -> i64_of_z (getz (g_rd_int l c))
  | Law l, "f" -> fl z24 (getz (g_rd_flt z24 l true c)) | Law l, _ -> fl z53 (getz (g_rd_flt z53 l true c))
  | F32, "f" -> i64_of_z c | F32, "d" -> fl z53 (b32_decode c)
  | F64, "d" -> i64_of_z c | F64, "f" -> fl z24 (round32 (b64_decode c))
  | _ -> failwith "unsupported read conversion"
let conv_write enc t (s : string) : z =
  let zi () = z_of_int (int_of_string s) in
  match enc, t with
  | Pcm e, "s" -> wr_short e (zi ()) | Pcm e, "i" -> wr_int e (zi ())
  | Pcm e, "f" -> wr_flt z24 e true false (b32_decode (z_of_hex s)) | Pcm e, _ -> wr_flt z53 e true false (b64_decode (z_of_hex s))
  | Law l, "s" -> getz (g_wr_short l (zi ())) | Law l, "i" -> getz (g_wr_int l (zi ()))
  | Law l, "f" -> getz (g_wr_flt z24 l true (b32_decode (z_of_hex s))) | Law l, _ -> getz (g_wr_flt z53 l true (b64_decode (z_of_hex s)))
  | F32, "f" -> z_of_hex s | F32, "d" -> b32_encode (round32 (b64_decode (z_of_hex s)))
  | F64, "d" -> z_of_hex s | F64, "f" -> b64_encode (b32_decode (z_of_hex s))
  | _ -> failwith "unsupported write conversion"

type store = { mutable sdata : z list; mutable sframes : z }
let stores : (int, store) Hashtbl.t = Hashtbl.create 16
let get_store sid = match Hashtbl.find_opt stores sid with Some s -> s | None -> let s = { sdata = []; sframes = Z0 } in Hashtbl.add stores sid s; s
type handle = { mutable st : st; enc : enc; sid : int }
let handles : (int, handle) Hashtbl.t = Hashtbl.create 16

let zs v = string_of_int (int_of_z v)
let rec firstn n l = if n <= 0 then [] else match l with [] -> [] | x :: r -> x :: firstn (n - 1) r
let pos_fields (s : st) = Printf.sprintf "err=%s rpos=%s wpos=%s frames=%s cur=%s" (zs s.err) (zs s.rcur) (zs s.wcur) (zs s.frames) (zs s.cur)
let hex64 (v : int64) = Printf.sprintf "%016Lx" v

let () =
  (try while true do
    let line = input_line stdin in
    let w = Array.of_list (List.filter (fun s -> s <> "") (String.split_on_char ' ' line)) in
    if Array.length w > 0 then begin
      match w.(0) with
      | "setdata" ->
          let s = get_store (int_of_string w.(1)) in
          s.sframes <- z_of_int (int_of_string w.(2));
          s.sdata <- List.map z_of_hex (Array.to_list (Array.sub w 3 (Array.length w - 3)))
      | "mexpect" ->
          (* what the model expects a fresh open of this store to see: frame count and the stored codes *)
          let ln = w.(1) and sid = int_of_string w.(2) and ch = int_of_string w.(3) in
          let s = get_store sid in
          let n = int_of_z s.sframes * ch in
          Printf.printf "%s frames=%s rdig=%s\n" ln (zs s.sframes) (hex64 (digest (List.map i64_of_z (firstn n s.sdata))))
      | "mopen" ->
          let ln = w.(1) and h = int_of_string w.(2) and sid = int_of_string w.(3) and mode = int_of_string w.(4)
          and ch = int_of_string w.(5) and enc = enc_of w.(6) in
          let s = get_store sid in
          if mode = 32 then (s.sdata <- []; s.sframes <- Z0);
          let st = opened (z_of_int mode) (z_of_int ch) s.sdata s.sframes in
          Hashtbl.replace handles h { st; enc; sid };
          Printf.printf "%s rpos=%s wpos=%s last_op=%s\n" ln (zs st.rcur) (zs st.wcur) (zs st.last_op)
      | "mclose" ->
          let h = int_of_string w.(2) in
          (match Hashtbl.find_opt handles h with
           | Some hd ->
               let s = get_store hd.sid in
               if int_of_z hd.st.mode <> 16 then begin
                 s.sframes <- hd.st.frames;
                 s.sdata <- firstn (int_of_z hd.st.frames * int_of_z hd.st.ch) hd.st.data end;
               Hashtbl.remove handles h
           | None -> ())
      | "mr" ->
          let ln = w.(1) and hd = Hashtbl.find handles (int_of_string w.(2)) and t = w.(3) and fv = w.(4) = "f" in
          let n = z_of_int (int_of_string w.(5)) and lim = z_of_int (int_of_string w.(6)) in
          let (s', r) = api_read fv n lim hd.st in
          hd.st <- s';
          let ret_items = if fv then int_of_z r.ret * int_of_z hd.st.ch else int_of_z r.ret in
          (* a conversion the driver does not carry (integer reads of float files): the digest is marked, everything else is still predicted *)
          let vals = try Some (List.map (conv_read hd.enc t) (firstn ret_items r.items)) with Failure _ -> None in
          let requested = if int_of_z n <= 0 then 0 else if fv then int_of_z n * int_of_z hd.st.ch else int_of_z n in
          let tail = if ret_items = requested then "-" else if List.length r.items > ret_items then "m" else match r.rtail with TZero _ -> "z" | TUntouched _ -> "u" in
          Printf.printf "%s ret=%s %s dig=%s tail=%s\n" ln (zs r.ret) (pos_fields s') (match vals with Some v -> hex64 (digest v) | None -> "unsupported") tail
      | "mw" ->
          let ln = w.(1) and hd = Hashtbl.find handles (int_of_string w.(2)) and t = w.(3) and fv = w.(4) = "f" in
          let n = int_of_string w.(5) and lim = z_of_int (int_of_string w.(6)) in
          let nv = Array.length w - 7 in
          let items = if n <= 0 then 0 else if fv then n * int_of_z hd.st.ch else n in
          let xs = List.init items (fun k -> if nv = 0 then conv_write hd.enc t (if t = "s" || t = "i" then "0" else "0") else conv_write hd.enc t w.(7 + k mod nv)) in
          let (s', r) = api_write fv (z_of_int n) lim xs hd.st in
          hd.st <- s';
          Printf.printf "%s ret=%s %s\n" ln (zs r) (pos_fields s')
      | "mseek" ->
          let ln = w.(1) and hd = Hashtbl.find handles (int_of_string w.(2)) in
          let (s', r) = api_seek (z_of_int (int_of_string w.(3))) (z_of_int (int_of_string w.(4))) hd.st in
          hd.st <- s';
          Printf.printf "%s ret=%s %s\n" ln (zs r) (pos_fields s')
      | "mtrunc" ->
          let ln = w.(1) and hd = Hashtbl.find handles (int_of_string w.(2)) in
          let (s', r) = api_truncate (z_of_int (int_of_string w.(3))) hd.st in
          hd.st <- s';
          Printf.printf "%s ret=%s %s\n" ln (zs r) (pos_fields s')
      | _ -> ()
    end
  done with End_of_file -> ());
  print_string "DONE\n"

open Sfmodel
open Zutil
let zi s = z_of_int (int_of_string s)
let () =
  let n = ref 0 and bad = ref 0 in
  (try while true do
    let line = input_line stdin in
    let w = Array.of_list (String.split_on_char ' ' line) in
    if Array.length w = 6 then begin
      incr n;
      let r = match w.(0) with
        | "D" ->
          let outs = if w.(4) = "-" then [] else List.map (fun t -> match t with "e" -> OErr | "i" -> OIntr | k -> OXfer (zi k)) (String.split_on_char ',' w.(4)) in
          xfer_desc (zi w.(2)) (zi w.(3)) outs
        | _ -> xfer_vio (zi w.(2)) (zi w.(3)) (zi w.(4)) in
      let m = Printf.sprintf "%d,%d,%d,%d" (int_of_z r.ret) (int_of_z r.moved) (int_of_z r.ncalls) (if r.syserr then 1 else 0) in
      if m <> w.(5) then begin incr bad; if !bad <= 40 then Printf.printf "MISMATCH %s impl=%s model=%s\n" (String.concat " " (Array.to_list (Array.sub w 0 5))) w.(5) m end
    end
  done with End_of_file -> ());
  Printf.printf "DONE %d %d\n" !n !bad

#!/bin/sh
# tools/seedround.sh <tag> <check id> : confirm a delivered seed in its scratch worktree, then run the check of its property against it
tag=$1; chk=$2
echo "=== $tag"
/verif/tools/confirm_seed.sh $tag 2>&1 | tail -4 | cut -c1-180
/verif/tools/seedtest.sh /tmp/seedout/$tag/patch.diff $chk 2>&1 | grep -E "^VIOLATION|^C[0-9][0-9] |->" | cut -c1-260 | head -8

#!/bin/sh
# tools/coqshow.sh <file.v> <line>: replace line N by "Show. admit." and compile a scratch copy to see the goal
f=$1; n=$2
sed "${n}s/.*/  Show. admit./" $f > /tmp/Dbg.v
cd /verif/coq && timeout 120 coqc -Q theories SF -Q gen SFGen /tmp/Dbg.v 2>&1 | head -${3:-60}

#!/bin/sh
# store a confirmed seed: tools/store_seed.sh <tag>
tag=$1; O=/tmp/seedout/$tag; D=/verif/seeded/$tag
mkdir -p $D && cp $O/patch.diff $O/demo.c $O/build_demo.sh $O/meta.json $D/ 2>/dev/null
mkdir -p $D/confirm && cp $O/ctest_with_change.txt $O/demo_with_change.txt $O/demo_unchanged.txt $D/confirm/ 2>/dev/null
git -C /repo worktree remove --force /tmp/seed/$tag 2>/dev/null; rm -rf /tmp/seed/$tag
ls $D

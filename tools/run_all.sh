#!/bin/sh
# tools/run_all.sh <quick|thorough> [ids...] : run the registered checks one after the other on the unchanged tree, one summary line each
tier=${1:-quick}; shift
ids=${@:-C01 C02 C03 C04 C05 C06 C07 C08 C09 C10 C11 C12 C13 C14 C15 C16 C17 C18 C19 C20}
cd /verif
for c in $ids; do
  ./check $c --tier $tier > /tmp/run_all_$c.log 2>&1
  echo "$c rc=$? $(grep -E "^C[0-9][0-9] (quick|thorough)" /tmp/run_all_$c.log | cut -c1-140)"
  grep -E "^VIOLATION" -A1 /tmp/run_all_$c.log | cut -c1-300
done

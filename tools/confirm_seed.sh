#!/bin/sh
# confirm a seeded change delivered by a sub-agent: usage confirm_seed.sh <tag>
# (worktree /tmp/seed/<tag> with the change applied, deliverables in /tmp/seedout/<tag>)
tag=$1
W=/tmp/seed/$tag; O=/tmp/seedout/$tag
cd $W || exit 2
git checkout -q -- . ; git apply $O/patch.diff || { echo "patch does not apply"; exit 2; }
rm -rf _build; cmake -G Ninja -B _build -DCMAKE_BUILD_TYPE=RelWithDebInfo -DCMAKE_C_FLAGS=-Wno-error >/dev/null 2>&1
cmake --build _build -j6 >/dev/null 2>&1 || { echo "build failed with change"; exit 2; }
ctest --test-dir _build -j6 --timeout 900 2>&1 | tail -3 > $O/ctest_with_change.txt
cd $O && ROOT=$W sh ./build_demo.sh >/dev/null 2>&1
( cd $O; ./demo > demo_with_change.txt 2>&1; echo "exit=$?" >> demo_with_change.txt )
cd $W && git checkout -q -- . && cmake --build _build -j6 >/dev/null 2>&1
cd $O && ROOT=$W sh ./build_demo.sh >/dev/null 2>&1
( cd $O; ./demo > demo_unchanged.txt 2>&1; echo "exit=$?" >> demo_unchanged.txt )
rm -f $O/demo
echo "== $tag"; cat $O/ctest_with_change.txt; tail -2 $O/demo_with_change.txt; tail -2 $O/demo_unchanged.txt
rm -rf $W/_build

#!/bin/sh
# tools/seedmatrix.sh [seeded/<tag>...] : every seeded change against the check of its own property (quick tier); one summary line per seed
cd /verif
for d in ${@:-seeded/*}; do
  tag=$(basename $d); id=$(echo $tag | sed 's/^R[0-9]_//')
  if ! git -C /repo apply --check $(readlink -f $d/patch.diff) 2>/dev/null; then echo "$tag PATCH-DOES-NOT-APPLY"; continue; fi
  out=$(tools/seedtest.sh $d/patch.diff $id 2>&1)
  n=$(echo "$out" | grep -c "^VIOLATION")
  echo "$tag violations=$n $(echo "$out" | grep -E "^C[0-9][0-9] (quick|thorough)" | cut -c1-110)"
done
git -C /repo status --short | head -3

#!/bin/sh
# tools/seedmatrix.sh : every seeded change against the check of its own property (quick tier); prints one summary line per seed
cd /verif
for d in ${@:-seeded/C*}; do
  id=$(basename $d)
  out=$(tools/seedtest.sh $d/patch.diff $id 2>&1)
  n=$(echo "$out" | grep -c "^VIOLATION")
  echo "$id violations=$n $(echo "$out" | grep -E "^C[0-9][0-9] (quick|thorough)" | cut -c1-120)"
done
git -C /repo status --short | head -3

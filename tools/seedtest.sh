#!/bin/sh
# tools/seedtest.sh <patch.diff> <check id>...   apply a seeded change to /repo, run the checks (quick), undo it
p=$(readlink -f $1); shift
git -C /repo apply $p || exit 2
for c in "$@"; do
  echo "--- $c on $(basename $(dirname $p))"
  (cd /verif && ./check $c --tier quick 2>&1 | grep -E "^VIOLATION|^KNOWN|^C[0-9][0-9] |->" | cut -c1-330)
done
git -C /repo checkout -- .
git -C /repo status --short | head -3

#!/usr/bin/env python3
"""Regenerates MANIFEST.json from the table below (kept here so the manifest stays consistent)."""
import json, os
HERE = os.path.dirname(os.path.abspath(__file__))
ALL = ["C%02d" % i for i in range(1, 21)]

CLAIMED = {
 "C02": dict(
  text="Theorems (Coq, closed under the global context) over the conversion model PcmConv.v/Fp.v: integer<->integer moves keep the most significant bits "
       "(widening zero-pads, narrowing truncates, U8 = S8 + 128) for every width and every code / int32 / short; normalised double reads return exactly "
       "value/2^(w-1) for every stored code of every width; lrint is the nearest integer; with clipping every finite input is stored inside the range "
       "(never wraps); G.711 through the four types agrees with the 16-bit codec for all 256 codes and float writes never index outside the tables. "
       "Tie: the model is compared with sf_write_T/sf_read_T on in-memory RAW files for every encoding x type x switch setting, exhaustively over all "
       "2^8/2^16 codes and all 2^16 shorts, boundary grids + PRNG for 24/32-bit and floating point (3.8 million evaluations per quick run).",
  note="Trusted: Coq kernel, the hand-written model (tied by the exhaustive/boundary correspondence on every run), extraction, harness, the float model Fp.v "
       "(validated against the hardware on every run). Not proved: saturation at exactly x>=1 and monotonicity of the float scaling (covered by the "
       "correspondence grids only); USE_SSE2 build variant is modelled (same psf_lrint result) but not separately compiled.",
  technique="Coq proof over an executable conversion model + exhaustive differential correspondence through the public API",
  design_ref="DESIGN.md section 5 C02"),
 "C20": dict(
  text="Theorems (Coq, closed under the global context): the G.711 tables regenerated from the source compute the Recommendation's "
       "expansion/compression for all 256 codes and all 65536 shorts (complete evaluation in the kernel, lifted to forall), "
       "code fixed points, the quantiser statement, the int path for every int32; the portable IEEE-754 writers/readers are exact for "
       "every normal binary32/binary64 value (symbolic in sign, exponent, fraction); byte-order helpers are involutions for every width. "
       "Tie: T1 table regeneration + exhaustive/boundary K correspondence of the C kernels against the extracted model and against the definition.",
  note="Trusted: Coq kernel + vm_compute, the transcription of G.711 into G711.v, extraction (ExtrOcamlBasic only), the K harness, libm frexp/pow exactness, "
       "the hand-written model of the serialisers (tied by K on >10^5 patterns per run). IMA/MS ADPCM decoder conformance is not yet covered by this check.",
  technique="Coq proof (finite domains by vm_compute + forallb lifting; symbolic lia proofs for IEEE) + regenerated tables + differential K correspondence",
  design_ref="DESIGN.md section 5 C20"),
}


def main():
    checks = []
    for pid in ALL:
        if pid in CLAIMED:
            c = CLAIMED[pid]
            checks.append({
                "property_id": pid,
                "quick_cmd": "./check %s --tier quick" % pid,
                "thorough_cmd": "./check %s --tier thorough" % pid,
                "evidence_file": "/verif/evidence/%s.json" % pid,
                "replay_cmd_template": "./check %s --replay {path}" % pid,
                "engine": "coq-proof+correspondence",
                "level_claimed": {"category": "proof", "text": c["text"], "design_ref": c["design_ref"]},
                "level_note": c["note"],
                "technique": c["technique"],
            })
    na = [{"property_id": p, "reason": "check under construction in this round (DESIGN.md section 13); not claimed until it runs green on the unchanged tree"}
          for p in ALL if p not in CLAIMED]
    m = {
        "version": 1,
        "setup_cmd": "./setup.sh",
        "hooks": {
            "guard": "LIBSNDFILE_VERIF",
            "enable": "checks compile /repo's working tree into /verif/build/{asan,plain} with -DLIBSNDFILE_VERIF=1; no source hook is needed so far (harnesses #include the .c files and read SF_PRIVATE)",
            "baseline_off_cmd": "cmake --build /repo/_build -j16 && ctest --test-dir /repo/_build -j8 --timeout 900",
            "source_commits": [],
            "add_only": True,
        },
        "engines": [{"name": "coq-proof+correspondence", "path": "/verif/check",
                     "serves_properties": sorted(CLAIMED), "kind_free_text": "Coq 8.16 theorems over an executable Gallina model; model tied to /repo by regenerated tables/translation and differential correspondence harnesses"}],
        "checks": checks,
        "not_applicable": na,
        "notes": "See DESIGN.md. known_findings.json lists recorded defects and fix: commits.",
    }
    json.dump(m, open(os.path.join(HERE, "MANIFEST.json"), "w"), indent=1)


if __name__ == "__main__":
    main()

#!/usr/bin/env python3
"""Regenerates MANIFEST.json from the table below (kept here so the manifest stays consistent)."""
import json, os
HERE = os.path.dirname(os.path.abspath(__file__))
ALL = ["C%02d" % i for i in range(1, 21)]

CLAIMED = {
 "C02": dict(
  text="Theorems (Coq, closed under the global context) over the conversion model PcmConv.v/Fp.v: integer<->integer moves keep the most significant bits "
       "(widening zero-pads, narrowing truncates, U8 = S8 + 128) for every width and every code / int32 / short; normalised double reads return exactly "
       "value/2^(w-1) for every stored code of every width; lrint is the nearest integer; with clipping every finite input is stored inside the range "
       "(never wraps); G.711 through the four types agrees with the 16-bit codec for all 256 codes and float writes never index outside the tables. "
       "Tie: the model is compared with sf_write_T/sf_read_T on in-memory RAW files for every encoding x type x switch setting, exhaustively over all "
       "2^8/2^16 codes and all 2^16 shorts, boundary grids + PRNG for 24/32-bit and floating point (3.8 million evaluations per quick run).",
  note="Trusted: Coq kernel, the hand-written model (tied by the exhaustive/boundary correspondence on every run), extraction, harness, the float model Fp.v "
       "(validated against the hardware on every run). Not proved: saturation at exactly x>=1 and monotonicity of the float scaling (covered by the "
       "correspondence grids only); USE_SSE2 build variant is modelled (same psf_lrint result) but not separately compiled.",
  technique="Coq proof over an executable conversion model + exhaustive differential correspondence through the public API",
  design_ref="DESIGN.md section 5 C02"),
 "C20": dict(
  text="Theorems (Coq, closed under the global context): the G.711 tables regenerated from the source compute the Recommendation's "
       "expansion/compression for all 256 codes and all 65536 shorts (complete evaluation in the kernel, lifted to forall), "
       "code fixed points, the quantiser statement, the int path for every int32; the portable IEEE-754 writers/readers are exact for "
       "every normal binary32/binary64 value (symbolic in sign, exponent, fraction); byte-order helpers are involutions for every width. "
       "Tie: T1 table regeneration + exhaustive/boundary K correspondence of the C kernels against the extracted model and against the definition.",
  note="Trusted: Coq kernel + vm_compute, the transcription of G.711 into G711.v, extraction (ExtrOcamlBasic only), the K harness, libm frexp/pow exactness, "
       "the hand-written model of the serialisers (tied by K on >10^5 patterns per run). IMA/MS ADPCM decoder conformance is not yet covered by this check.",
  technique="Coq proof (finite domains by vm_compute + forallb lifting; symbolic lia proofs for IEEE) + regenerated tables + differential K correspondence",
  design_ref="DESIGN.md section 5 C20"),
 "C05": dict(
  text="Theorems (Coq, closed under the global context) over Api.v, the state machine of the 32 typed sf_read/sf_readf/sf_write/sf_writef wrappers over a "
       "sample-granular codec: 0 <= r <= requested for every state and every amount the I/O layer transfers; the read position advances by exactly the "
       "returned frames; the stored items plus the (zero-filled or untouched) tail are exactly the requested region; at end of data 0 is returned, the "
       "request is zero-filled and no error is set; a fault-free read delivers exactly the next min(requested, remaining) frames of the stream; a write "
       "returns the request and advances position and frame count by it; the 'whole number of frames' clause is refuted for files with a pad byte "
       "(witness theorem, replayed on the implementation). Tie: transcription check of all 32 wrappers against the text the model was written from + "
       "script correspondence (return value, error, both positions, frame count, file cursor, data digest, tail class) over every container x "
       "sample-granular encoding x channels{1,2,3}, all entry points, straddling / EOF / misaligned / >8 KiB requests; block codecs: contract oracle.",
  note="Oracles on the implementation: block codecs with requests beyond the staging buffers (RAW files opened with their parameters), sf_read_raw / sf_write_raw on every sample-granular container. Trusted: Coq kernel, the hand-written model Api.v (tied on every run as described), extraction, sfdrive harness (guard-banded buffers, ASan+UBSan "
       "build of the working tree), PcmConv.v conversions (C02). Block codecs are covered by the property oracle on the implementation only. "
       "Known findings: SDS final partial block, pad-byte partial frame.",
  technique="Coq proof over an executable wrapper state machine + source transcription check + differential script correspondence",
  design_ref="DESIGN.md section 5 C05"),
 "C06": dict(
  text="Theorems (Coq): sf_seek returns the requested absolute frame and moves exactly the selected pointer(s), or returns -1 with a non-zero error and "
       "changes nothing else, or is a pure position query; zero-offset SEEK_CUR reports the next frame; any partition of a read into item/frame calls of "
       "any sizes delivers the same sequence as one sequential read (induction over the call list); after a successful seek to k the reads deliver frames "
       "k, k+1, ...; the DPCM codec's own seek (dpcm_seek, decode-and-discard) delivers the sequential stream from a clear predictor, and the stale-predictor "
       "case is refuted with a witness (latent: unreachable through the API of the pinned tree). Tie: K on xi.c (kernels, dpcm_seek called directly); transcription check + script correspondence for the sample-granular encodings; for every block codec (IMA/MS ADPCM, GSM, G72x, "
       "NMS, VOX, DWVW, DPCM, PAF24, SDS, ALAC) the position-function oracle compares every delivered item with an independent sequential decode after "
       "reads up to block boundaries, relative/absolute seeks with every whence, targets 0, F-1, F, block edges +-1.",
  note="Trusted: as C05. The block-codec seek functions other than dpcm_seek are decided by the oracle on the implementation, not by a theorem.",
  technique="Coq proof (induction over call lists) over the wrapper/default-seek model + transcription check + sequential-decode oracle",
  design_ref="DESIGN.md section 5 C06"),
 "C08": dict(
  text="Theorems (Coq): the cursor invariant (last_op=READ -> file cursor at the read position, last_op=WRITE -> at the write position, data region "
       ">= frames whole frames) holds in every reachable state of every history of reads, writes, seeks with every whence and truncations (induction "
       "over the operation list); data written at p is what a read at p returns; writing inside keeps length and everything outside the range, writing at/"
       "past the end extends; whence|SFM_READ moves only the read pointer, |SFM_WRITE only the write pointer, plain both; SFC_FILE_TRUNCATE n keeps exactly "
       "the first n frames. Tie: transcription check + random RDWR histories (virtual and descriptor routes, truncate, header updates, close/re-open) over "
       "every container that opens SFM_RDWR x sample-granular encoding, and ALL histories of depth 2 (quick) / 3 (thorough) over a 13-letter alphabet; the "
       "model predicts every return value, both positions, cursor, data and what a fresh open sees.",
  note="Trusted: as C05. Header rewriting and close-time truncation of each container are observed through the re-open, not modelled. RDWR on block codecs "
       "(PAF24, SDS) is outside the model. Known finding: VOC RDWR close appends a terminator each time.",
  technique="Coq proof (invariant by induction over operation histories, refinement lemmas) + transcription check + bounded-exhaustive and random differential histories",
  design_ref="DESIGN.md section 5 C08"),
 "C09": dict(
  text="Theorems (Coq): every rejected read/write/seek returns its failure value, records a non-zero error and yields exactly the previous state with only "
       "the error field changed (record equality: positions, frame count, data, file cursor, last_op); zero-length calls are no-ops; every accepted call "
       "leaves the error at 0; every error number 0..SFE_MAX_ERROR has a non-empty message that is not the placeholder (complete evaluation over the table "
       "regenerated from src/sndfile.c on every run). Tie: transcription check + invalid-call sandwiches (every invalid class through all 16 entry points "
       "and sf_seek, after every kind of preceding operation, in read/write/rdwr mode, followed by valid calls, close and re-open) compared with the model "
       "field by field incl. the file cursor + state digest before/after + failed-open oracle (truncated/garbage files, impossible formats, three routes, "
       "descriptor closed, LeakSanitizer).",
  note="Trusted: as C05; the T1 dump of the error table. Invalid pointer arguments other than NULL are outside the property.",
  technique="Coq proof (frame conditions as record equalities; finite table by vm_compute) + regenerated error table + differential invalid-call scripts",
  design_ref="DESIGN.md section 5 C09"),
 "C10": dict(
  text="Theorems (Coq): [fc], the decision list regenerated from sf_format_check by the translator on every run, equals the hand-written write-mode table "
       "[writable] for EVERY channel count and EVERY sample rate other than 0 and every enumerated container x encoding with any endian bits (generic "
       "theorem of DecList.v: two decision lists that agree on the representatives k-1,k,k+1 of the constants they mention agree on all integers; the "
       "2.6 million representative environments are evaluated in the kernel); the unrestricted statement is refuted at sample rate 0 (witness theorem); "
       "the simple / major / subtype lists have pairwise distinct formats and non-empty distinct names, refuse out-of-range indices, every simple "
       "format passes sf_format_check and every major has a usable subtype (complete evaluation over the regenerated lists). Tie: T2 translation "
       "(refuses anything outside its subset) cross-checked against the C function on the complete property grid + 40 000 random words; the table is "
       "tied by enumerating the grid on the implementation: open for write, frames through all four sample types, close, re-open as the same "
       "container/encoding/channels.",
  note="Trusted: Coq kernel + vm_compute, translator/fc2gallina.py, T1 list dump, the hand-written table Writable.v (tied by the grid run), extraction, "
       "harness. Known findings: sample rate 0 accepted by sf_format_check only; IRCAM float32 rate field at 2^31-1.",
  technique="Coq proof over a decision list regenerated from the source (translator) + reduction-to-representatives theorem + complete grid enumeration",
  design_ref="DESIGN.md section 5 C10"),
 "C13": dict(
  text="Theorems (Coq) over Chunks.v, the model of src/chunk.c: after any number of sf_set_chunk / parsed chunks the used part of a table never exceeds "
       "its allocation and the slot written lies inside it (induction over the list, capacities 20 -> 31 -> 48 -> ...); chunks are kept in order and "
       "none is dropped at a growth step; the stored payload is the caller's bytes zero-padded to the 4-byte alignment; iteration over all chunks "
       "visits indices 0..used-1 exactly once in order then ends; iteration by id visits exactly the chunks whose hash equals the id's, each once, in "
       "order; sf_get_chunk_data copies min(datalen, length) bytes. Tie: K correspondence of chunk.c called directly (histories of 0..230 operations, "
       "ids of 1..80 characters, abandoned iterations) against the extracted model + API oracle through WAV, RF64, AIFF, CAF with 0..200 chunks, "
       "short buffers under guard bands, late chunks, audio intact.",
  note="Trusted: Coq kernel, hand-written model Chunks.v (tied by K on every run), extraction, harnesses. The container chunk walkers are covered by the API "
       "oracle only. Seven defects found here were repaired by fix: commits (see known_findings.json); known finding: 64 KiB header capacity.",
  technique="Coq proof (induction over chunk lists, iteration by fuel) + differential K correspondence on chunk.c + API-level oracle",
  design_ref="DESIGN.md section 5 C13"),
 "C17": dict(
  text="Theorems (Coq) over Command.v and the command table regenerated from the build: for EVERY command identifier (defined or not), every datasize >= 0, "
       "every channel count and NULL / non-NULL data the bytes of the caller's block a command may touch are at most datasize and none through NULL; a "
       "struct command given any other size touches nothing; string commands given datasize >= 1 terminate within it. Tie: the property's grid is "
       "enumerated completely on the implementation: all 63 identifiers of sndfile.h + 8 undefined ones x datasize 0..sizeof+8 and large x {NULL, exact-"
       "size heap block} x {no handle, read, write, read/write} x 7 formats, each cell in its own process under AddressSanitizer (any access beyond "
       "datasize aborts the cell and is reported with the datasize), block unchanged on rejected sizes, state digest equal before/after query commands.",
  note="Trusted: Coq kernel, the guard-class table in harness/cmd_grid.c (dumped to Gen_Cmds.v), ASan. Reads inside [0,datasize) of unneeded bytes are not "
       "observable. Three defects found here were repaired by fix: commits.",
  technique="Coq proof over a regenerated command table + complete grid enumeration under AddressSanitizer",
  design_ref="DESIGN.md section 5 C17"),
 "C18": dict(
  text="Theorems (Coq) over Peak.v, the model of float32_peak_update / double64_peak_update and the running per-channel peak: for every split of a "
       "channel's frames into chunks (write calls / staging chunks starting on frame boundaries) the stored peak equals that of the concatenated "
       "signal (induction over the chunk list); it is >= every sample; its position is the frame of the FIRST occurrence of the maximum (ties keep "
       "the earlier frame). The frame-boundary hypothesis is refuted for the staged write paths with channel counts that do not divide the staging "
       "length (witness theorem; known finding). Tie: every PEAK stored by the implementation in WAV/WAVEX/RF64/AIFF/CAF float and double files "
       "(channels 1,2,3,5; maxima at first/last frame, ties, call boundaries, silence; all partitions; both write types) is recomputed by the "
       "extracted model; SFC_GET_SIGNAL_MAX / SFC_GET_MAX_ALL_CHANNELS after re-open; SFC_CALC_* against an independent scan at several read "
       "positions with the state digest (position, norm_double) compared before/after.",
  note="Trusted: Coq kernel, hand-written Peak.v (tied by recomputing every stored PEAK of the run), extraction, sfdrive. PEAK (de)serialisers are exercised "
       "through the re-open only. Known finding: staged chunks not frame aligned; fixed: CALC commands in RDWR mode.",
  technique="Coq proof (induction over write partitions) + model recomputation of every stored PEAK + independent-scan oracle for SFC_CALC_*",
  design_ref="DESIGN.md section 5 C18"),
 "C12": dict(
  text="Theorems (Coq) over StrMeta.v: the output of psf_strlcpy_crlf never contains a bare CR or LF; every line end (CR LF, LF CR, CR, LF) becomes exactly "
       "one CR LF so the number of lines is preserved (two bare line ends stay an empty line); all other characters pass through in order; with room "
       "nothing is cut; the 32-slot string table refines a map type -> string (a successful set is what get returns, every other type's string is "
       "untouched whether the set succeeded or not). Tie: K correspondence of psf_strlcpy_crlf / psf_store_string / psf_get_string called directly "
       "(exact-size blocks under ASan) + set / close / re-open / get oracle through WAV, WAVEX, RF64, AIFF, CAF for strings of all ten types, bext "
       "(all fields, histories with every line-end style), cart, 0..100 cues, instrument with 0..16 loops, channel maps, in random order, and sets "
       "made too late.",
  note="The instrument oracle compares base note, detune (swept 0..50), loop mode / bounds / count. Trusted: Coq kernel, hand-written StrMeta.v (tied by K on every run), extraction, sfdrive. The chunk writers/readers of wavlike.c, aiff.c, caf.c are "
       "covered by the round-trip oracle only. Cue names and instrument detune/gain/velocity/key ranges are not compared (WAV does not store them); the "
       "AIFF writer stores neither cues nor instrument (accepted and ignored).",
  technique="Coq proof (line-end normaliser, string table refinement) + differential K correspondence + metadata round-trip oracle",
  design_ref="DESIGN.md section 5 C12"),
 "C01": dict(
  text="Theorems (Coq): a short written to PCM >= 16 bits wide reads back bit exact for every short; an int reads back with exactly its top w bits, hence bit "
       "exact whenever the low 32-w bits are zero (every width); stored bytes read back as the same code in both byte orders; the 8 KiB staging loops "
       "equal the per-sample map for EVERY length (induction over the refills); for any block length B, any per-block codec with dec(enc b) = b and "
       "any history of write calls the closed file decodes to the samples written followed by fewer than B zero samples (first N bit exact, "
       "N <= F < N + B); the DPCM codecs of xi.c concretely (Dpcm.v, kernels as coded with their 16/8-bit wrap): any shorts, any partition into write calls, "
       "any partition of the stored codes into read calls come back bit exact (16-bit), ints keep their top 16 / 8 bits; the 7-bit sample packing of sds.c concretely (Sds.v: unsigned offset, shifts, OR-ing as coded): an int comes back "
       "with exactly its top 14 / 21 / 28 bits, lossless for the low-bit-zero ints of each subtype. Tie: K on SDS files through the API (packed bytes of every sample, "
       "arbitrary bytes through the reader); K on the eight DPCM kernels and "
       "on XI files written / read through the API in random partitions beyond the staging buffer; C02's exhaustive conversion correspondence; the stored codes and frame count of every sample-granular file of the run "
       "are predicted by the model; write / close / re-open / read oracle over every lossless container x encoding x endian x caller type, channels 1 "
       "and max, N around every block boundary and 4097, full-range noise with only the unrepresentable low bits cleared, arbitrary finite float / "
       "double bit patterns.",
  note="Trusted: Coq kernel, PcmConv.v / Endian.v / Stream.v, extraction, sfdrive. The concrete block codecs (ALAC, DWVW, the PAF24 packer, the SDS block framing) are "
       "abstract in the theorem and decided by the oracle. Known findings: PAF24 and SDS final block, ALAC_20/24 noise, ALAC_32, tiny SD2 files, trailing "
       "zero frames of header-less DWVW.",
  technique="Coq proof (per-sample round trips, staging-loop induction, generic block-stream theorem) + model prediction of stored codes + round-trip oracle",
  design_ref="DESIGN.md section 5 C01"),
 "C04": dict(
  text="Theorems (Coq): the AIFF 80-bit sample-rate field returns every rate 1 <= r < 2^30 exactly (symbolic in r) and is refuted from 2^30 (witness); for any "
       "block length B, block codec with dec(enc b) = b and write history, the closed file holds F items with N <= F < N + B. Tie: K correspondence of "
       "uint2tenbytefloat / tenbytefloat2int (static functions of aiff.c reached by inclusion); frame counts and stored codes of sample-granular files are "
       "predicted by the model in C01 / C05; re-open oracle over every writable container x encoding x channels{1,2,3,8,256,1024} x rates {1 .. 2^31-1} x N "
       "{0,1,2,7,64,505,1001} split over calls and types with stale SF_INFO.frames: channels, container, encoding, rate (exact for integer-Hz containers), "
       "N <= F < N + B, reading delivers exactly F frames then EOF.",
  note="Lengths include whole numbers of codec blocks and multi-packet incompressible ALAC; frame-count findings are keyed by direction (short / long). Trusted: Coq kernel, Ext80.v (tied by K), Stream.v (block codecs abstract). Header writers / parsers of the 23 containers are decided by the oracle. B is "
       "measured on the implementation (one-frame file). Known findings: AIFF rate >= 2^30, PAF24 / SDS final block, tiny SD2 files, PVF short header.",
  technique="Coq proof (symbolic arithmetic for the 80-bit rate, generic block-stream theorem) + differential K correspondence + re-open oracle",
  design_ref="DESIGN.md section 5 C04"),
 "C07": dict(
  text="Theorems (Coq): for any block length, per-block codec and two histories of write calls with the same concatenated samples the written blocks and the "
       "flushed final block are identical (induction over the call lists); the staged conversion loops equal the per-sample map for every length, so "
       "splitting a call cannot change the bytes; the PEAK value / position equals that of the concatenated signal for every partition; the DPCM writer of xi.c (predictor carried from call to "
       "call) stores the same codes for every partition (K-tied). Oracle: byte length, "
       "header digest and data digest of the closed files for every writable container x encoding x channels{1,2,3} written as one call, one frame per "
       "call, 3+rest, random split, 161-frame calls, N-1+1, alternating item / frame variants, SFC_UPDATE_HEADER_NOW in between, process clock pinned.",
  note="Trusted: Coq kernel, Stream.v / Peak.v (encoders abstract and deterministic), the pinned clock (link-time wrap of time()). Concrete encoders and header "
       "writers are decided by the digest oracle. Known findings: VOX odd-length calls, XI header without update.",
  technique="Coq proof (partition independence by induction) + byte-digest oracle across write partitions",
  design_ref="DESIGN.md section 5 C07"),
 "C11": dict(
  text="Theorems (Coq): at every point of every write history the blocks already emitted decode to exactly the first floor(N/B)*B items written so far (the "
       "rest, fewer than B, is still in memory); header updates do not change the finished file. Oracle: for every container with a rewritable header x "
       "encoding (ALAC excluded) x channels{1,2}: after every write in auto-update mode or explicit SFC_UPDATE_HEADER_NOW the stored bytes are copied and "
       "opened by a second handle: same parameters, frame count = frames written (whole blocks for block codecs), reading delivers exactly that count and "
       "those frames equal the first frames of the finished file.",
  note="Includes header updates issued while the write position is in the middle of the file (overwrite after seek). Trusted: Coq kernel, Stream.v (block writers abstract). Header writers / parsers are decided by the crash-image oracle. Known findings: AIFF/DWVW bit "
       "reservoir, SDS / PAF24 final block.",
  technique="Coq proof (prefix invariant of block writers by induction) + crash-image oracle at every update point",
  design_ref="DESIGN.md section 5 C11"),
 "C03": dict(
  partial=True,
  text="PARTIAL. Theorems (Coq): for every history of header reads / seeks with sizes and positions taken from untrusted bytes and ANY I/O outcome the header cache "
       "keeps 0 <= indx <= len, 0 <= end <= len <= 100 KiB and touches the cache only inside its allocation (HeaderCache.v, induction over histories); a handle is "
       "returned only if validate_sfinfo accepts, and then samplerate >= 1, frames >= 0, 1 <= channels <= 1024, format fields non-zero, sections >= 1 (OpenGate.v over "
       "Gen_Gate.v, which is translated from the source on every run; proof through agree_everywhere); a read touches exactly the caller's region (Api.v). "
       "Ties: K correspondence for header_read / header_seek / psf_bump_header_allocation under injected short transfers and for validate_sfinfo. "
       "Search/support (not proof): structure-aware mutation of library-written files of every format and hand-built chunk soups, opened and exercised through every "
       "read type, seeks, commands, strings, chunk iteration under ASan/UBSan/LSan with guard-banded buffers and a time budget.",
  note="Mutation search includes repeated chunks with a changed leading field, a sweep that zeroes / saturates every header field, read/write opens, and the stored-maxima queries. The memory safety of the ~25 format parsers themselves and the wall-clock bound are NOT theorems: they are only exercised by the mutation runs. "
       "Trusted: Coq kernel, translator/gate2gallina.py, hand-written HeaderCache.v (K tie), extraction, sfdrive.",
  technique="Coq proof (invariant by induction over header-cache histories; translated open gate) + K correspondence; sanitizer mutation runs as search support",
  design_ref="DESIGN.md section 5 C03"),
 "C16": dict(
  text="PARTIAL. Theorems (Coq) over the ownership ledger Resources.v: for EVERY history of allocating operations that follows the allocation discipline (store into a field "
       "psf_close frees; keep, free or know-empty the previous occupant; nested resources only under an installed close hook) psf_close leaves no block, stream, descriptor "
       "or temporary file, and so does a failing open after any prefix (induction over histories); each rule is shown necessary by a leaking counter-history. The source's "
       "release list, 50 allocation sites with their guards, nested resources and the exits of the four open functions are regenerated from src/*.c on every run "
       "(Gen_Owned.v) and proved to follow the discipline (vm_compute over the finite inventory). Ties: inventory against a committed expectation; ledger correspondence "
       "(events observed per handle through SF_PRIVATE replayed on the extracted model); oracle after every sf_close / failing sf_open: per-handle live heap blocks (ASan "
       "allocator hooks) = 0, descriptor count and private TMPDIR back to base, sf_close = 0, LeakSanitizer, over every format x mode x metadata history and failing opens "
       "at every parse depth.",
  note="Not proved: that the codec initialisers follow the discipline on every path (local pointers handed over later), descriptors and temp files: observed only. "
       "Trusted: Coq kernel, translator/res2gallina.py (regex), hand-written Resources.v, sfdrive + ASan hooks / LSan / procfs.",
  technique="Coq proof (ledger invariant by induction over allocation histories; finite inventory regenerated from the source) + ledger correspondence + leak oracle",
  design_ref="DESIGN.md section 5 C16"),
 "C15": dict(
  text="PARTIAL. Theorems (Coq): for EVERY request and EVERY sequence of kernel answers (EIO, EINTR, zero, partial, full) the transfer loops of psf_fread / psf_fwrite return a "
       "count in [0, items], report only whole items that really moved, and make at most moved + interrupts + 1 calls (FaultIO.v, induction over the answer list); the read / "
       "write wrappers return inside [0, n] and advance the position by exactly the returned count for ANY codec transfer count, the frame count never shrinks, items before the "
       "write position survive a write accepted only partly (Api.v); the header cache stays inside its allocation for any I/O outcome (HeaderCache.v). Ties: K on the transfer "
       "loops (link-time wrap of read / write) and the header cache; S with the model driven by the observed transfer counts. Fault enumeration (complete): every virtual I/O "
       "callback index 1..K x 5 fault kinds x {persistent, single} for write-close / open-read-seek-close / rdwr workloads of the representative formats, plus /dev/full, EBADF and "
       "truncated pipe streams, under ASan/UBSan/LSan, guard bands, per-call time budget, per-handle resource ledger, snapshot of the bytes accepted before the first fault.",
  note="Not proved: the block codecs' buffers, the per-format header parsers / writers, memory safety, the time bound (enumerated only). Four endless parse loops found by the "
       "enumeration were repaired (fix: commits); one finding is recorded (header rewrite ignores failed seeks). Trusted: Coq kernel, hand-written FaultIO.v / Api.v / HeaderCache.v "
       "(K / S ties), sfdrive's fault-injecting virtual I/O.",
  technique="Coq proof (transfer loops, wrappers, header cache total under any I/O outcome) + K/S correspondence + complete fault-point enumeration of representative workloads",
  design_ref="DESIGN.md section 5 C15"),
 "C19": dict(
  text="Theorems (Coq): in a system of per-handle private states plus process-wide cells that no per-handle result reads, ANY interleaving of calls on any number of handles gives "
       "every handle the results and final state of its solo run (induction over the interleaving), independent of what the cells held before (earlier library use); calls on "
       "other handles leave a handle's private state (its error state) untouched. The hypothesis is tied to the code by the inventory of the library's writable globals, "
       "regenerated with nm from the build on every run and proved covered by the classification (3 diagnostics, 3 scratch buffers, 1 generator, tables); psf_rand_int32's step is "
       "proved injective and in range and K-tied. Oracle: 2..8 workloads (every stateful codec, RDWR, failing calls / opens) interleaved (round robin, PRNG, sequential, same "
       "workload twice, ALL merges of two short ALAC scripts) vs solo runs in fresh processes; measured write footprint on every writable global.",
  note="The step from 'the inventory has only these objects' to 'no per-handle result reads them' is by reading the code for the classified objects plus the oracle; a new static "
       "breaks the inventory theorem. Trusted: Coq kernel, nm, hand-written Isolation.v, sfdrive.",
  technique="Coq proof (non-interference by induction over interleavings) + regenerated globals inventory + K tie on the generator + interleaved-vs-solo oracle",
  design_ref="DESIGN.md section 5 C19"),
 "C14": dict(
  text="Theorems (Coq) over FileIO.v, the route switch of psf_fseek / psf_fread / psf_ftell / psf_get_filelen / psf_fclose: for EVERY history of seeks (SET/CUR), "
       "reads and tells that stay inside the sound file the descriptor route at fileoffset |pre| on pre ++ F ++ post returns exactly what the virtual route "
       "returns on F, for any leading / trailing junk (induction over the history); the length answered for an embedded file is the sound file's own; "
       "sf_close closes the descriptor iff close_desc. Tie: K correspondence of the file_io.c primitives called directly on an embedded file and through "
       "virtual callbacks + route oracle: the same samples written through four routes give byte identical files; the same read / seek / string / info script "
       "through virtual I/O, path, descriptor (close_desc 0/1), descriptor at an offset inside a junk-wrapped file, and (WAV/AIFF/AU) a pipe gives identical "
       "results; fcntl(F_GETFD) after sf_close.",
  note="The descriptor table is checked after every close and failing open on every route (descriptor ledger of sfdrive). Trusted: Coq kernel, hand-written FileIO.v (tied by K on every run), sfdrive. Pipe behaviour (kernel buffering, is_pipe paths of the header readers) is covered "
       "by the oracle only; SD2 (resource fork file) only exists on the path route.",
  technique="Coq proof (refinement between I/O routes by induction over operation histories) + differential K correspondence + cross-route oracle",
  design_ref="DESIGN.md section 5 C14"),
}


def main():
    checks = []
    for pid in ALL:
        if pid in CLAIMED:
            c = CLAIMED[pid]
            checks.append({
                "property_id": pid,
                "quick_cmd": "./check %s --tier quick" % pid,
                "thorough_cmd": "./check %s --tier thorough" % pid,
                "evidence_file": "/verif/evidence/%s.json" % pid,
                "replay_cmd_template": "./check %s --replay {path}" % pid,
                "engine": "coq-proof+correspondence",
                "level_claimed": {"category": "proof", "text": c["text"], "design_ref": c["design_ref"]},
                "level_note": c["note"],
                "technique": c["technique"],
            })
    na = [{"property_id": p, "reason": "check under construction in this round (DESIGN.md section 13); not claimed until it runs green on the unchanged tree"}
          for p in ALL if p not in CLAIMED]
    m = {
        "version": 1,
        "setup_cmd": "./setup.sh",
        "hooks": {
            "guard": "LIBSNDFILE_VERIF",
            "enable": "checks compile /repo's working tree into /verif/build/{asan,plain} with -DLIBSNDFILE_VERIF=1; no source hook is needed so far (harnesses #include the .c files and read SF_PRIVATE)",
            "baseline_off_cmd": "cmake --build /repo/_build -j16 && ctest --test-dir /repo/_build -j8 --timeout 900",
            "source_commits": [],
            "add_only": True,
        },
        "engines": [{"name": "coq-proof+correspondence", "path": "/verif/check",
                     "serves_properties": sorted(CLAIMED), "kind_free_text": "Coq 8.16 theorems over an executable Gallina model; model tied to /repo by regenerated tables/translation and differential correspondence harnesses"}],
        "checks": checks,
        "not_applicable": na,
        "notes": "See DESIGN.md. known_findings.json lists recorded defects and fix: commits.",
    }
    json.dump(m, open(os.path.join(HERE, "MANIFEST.json"), "w"), indent=1)


if __name__ == "__main__":
    main()

(** Proofs about the wrapper state machine Api.v (used by Properties_C05/C06/C08/C09/C15). *)
From Coq Require Import ZArith List Lia Bool.
From SFGen Require Import Gen_Enums.
From SF Require Import Api.
Import ListNotations.
Local Open Scope Z_scope.

(** * constants of the generated enum file that the proofs rely on (re-checked on every regeneration) *)
Lemma modes_ok : c_SFM_READ = 16 /\ c_SFM_WRITE = 32 /\ c_SFM_RDWR = 48.
Proof. repeat split; reflexivity. Qed.
Lemma errs_nonzero :
  c_SFE_NEGATIVE_RW_LEN <> 0 /\ c_SFE_NOT_READMODE <> 0 /\ c_SFE_NOT_WRITEMODE <> 0 /\ c_SFE_BAD_READ_ALIGN <> 0 /\
  c_SFE_BAD_WRITE_ALIGN <> 0 /\ c_SFE_NOT_SEEKABLE <> 0 /\ c_SFE_WRONG_SEEK <> 0 /\ c_SFE_BAD_SEEK <> 0 /\ c_SFE_AMBIGUOUS_SEEK <> 0.
Proof. repeat split; discriminate. Qed.

(** * list facts *)
Lemma len_nonneg {A} (l : list A) : 0 <= len l. Proof. unfold len; lia. Qed.
Lemma len_app {A} (a b : list A) : len (a ++ b) = len a + len b. Proof. unfold len; rewrite app_length; lia. Qed.
Lemma len_zeros n : len (zeros n) = Z.max 0 n. Proof. unfold len, zeros; rewrite repeat_length; lia. Qed.
Lemma len_firstn {A} n (l : list A) : len (firstn (Z.to_nat n) l) = Z.min (Z.max 0 n) (len l).
Proof. unfold len; rewrite firstn_length; lia. Qed.
Lemma len_skipn {A} n (l : list A) : len (skipn (Z.to_nat n) l) = Z.max 0 (len l - Z.max 0 n).
Proof. unfold len; rewrite skipn_length; lia. Qed.
Lemma len_slice l a n : len (slice l a n) = Z.min (Z.max 0 n) (Z.max 0 (len l - Z.max 0 a)).
Proof. unfold slice; rewrite len_firstn, len_skipn; reflexivity. Qed.
Lemma len_pad l n : len (pad l n) = Z.max (len l) n.
Proof. unfold pad; rewrite len_app, len_zeros; pose proof (len_nonneg l); lia. Qed.
Lemma len_overwrite l a xs : 0 <= a -> len (overwrite l a xs) = Z.max (len l) (a + len xs).
Proof.
  intros Ha; unfold overwrite; rewrite !len_app, len_firstn, len_skipn, len_pad.
  pose proof (len_nonneg l); pose proof (len_nonneg xs); lia.
Qed.
Lemma len_resize l n : 0 <= n -> len (resize l n) = n.
Proof. intros; unfold resize; rewrite len_firstn, len_pad; lia. Qed.

Lemma skipn_app_exact {A} (a b : list A) n : n = length a -> skipn n (a ++ b) = b.
Proof. intros ->; rewrite skipn_app, skipn_all, Nat.sub_diag; reflexivity. Qed.
Lemma firstn_app_exact {A} (a b : list A) n : n = length a -> firstn n (a ++ b) = a.
Proof. intros ->; rewrite firstn_app, firstn_all, Nat.sub_diag; simpl; apply app_nil_r. Qed.

(** reading back what was just written *)
Lemma slice_overwrite_same l a xs : 0 <= a -> slice (overwrite l a xs) a (len xs) = xs.
Proof.
  intros Ha; unfold slice, overwrite.
  rewrite skipn_app_exact.
  - unfold len; rewrite Nat2Z.id; apply firstn_app_exact; reflexivity.
  - pose proof (len_firstn a (pad l a)) as H; rewrite len_pad in H; unfold len in H.
    pose proof (len_nonneg l); unfold len in *; lia.
Qed.

(** items before the written range are preserved *)
Lemma firstn_overwrite_before l a xs k : 0 <= k <= a -> k <= len l ->
  firstn (Z.to_nat k) (overwrite l a xs) = firstn (Z.to_nat k) l.
Proof.
  intros Hk Hl; unfold overwrite, pad.
  assert (Hlen : (Z.to_nat k <= length (firstn (Z.to_nat a) (l ++ zeros (a - len l))))%nat).
  { rewrite firstn_length, app_length; unfold len in *; unfold zeros; rewrite repeat_length; lia. }
  rewrite firstn_app.
  replace (Z.to_nat k - length (firstn (Z.to_nat a) (l ++ zeros (a - len l))))%nat with 0%nat by lia.
  simpl; rewrite app_nil_r, firstn_firstn.
  replace (Nat.min (Z.to_nat k) (Z.to_nat a)) with (Z.to_nat k) by lia.
  rewrite firstn_app. replace (Z.to_nat k - length l)%nat with 0%nat by (unfold len in *; lia).
  simpl; apply app_nil_r.
Qed.

(** items after the written range are preserved *)
Lemma skipn_overwrite_after l a xs : 0 <= a -> a + len xs <= len l ->
  skipn (Z.to_nat (a + len xs)) (overwrite l a xs) = skipn (Z.to_nat (a + len xs)) l.
Proof.
  intros Ha Hl; unfold overwrite.
  rewrite app_assoc. apply skipn_app_exact.
  rewrite app_length. pose proof (len_firstn a (pad l a)) as H; rewrite len_pad in H.
  pose proof (len_nonneg xs); unfold len in *; lia.
Qed.

(** * well-formed states *)
Definition wf (s : st) : Prop :=
  0 < ch s /\ 0 <= frames s /\ 0 <= rcur s /\ 0 <= wcur s /\ 0 <= cur s /\
  frames s * ch s <= len (data s) /\ Z.rem (len (data s)) (ch s) = 0 /\
  (last_op s = c_SFM_READ -> cur s = rcur s * ch s \/ frames s <= rcur s) /\
  (last_op s = c_SFM_WRITE -> cur s = wcur s * ch s).

(** the audio the handle denotes: the first frames*ch items of the data region *)
Definition content (s : st) : list Z := firstn (Z.to_nat (frames s * ch s)) (data s).

Ltac zb :=
  repeat match goal with
  | H : (_ =? _) = true |- _ => apply Z.eqb_eq in H
  | H : (_ =? _) = false |- _ => apply Z.eqb_neq in H
  | H : (_ <? _) = true |- _ => apply Z.ltb_lt in H
  | H : (_ <? _) = false |- _ => apply Z.ltb_ge in H
  | H : (_ <=? _) = true |- _ => apply Z.leb_le in H
  | H : (_ <=? _) = false |- _ => apply Z.leb_gt in H
  | H : (_ && _) = true |- _ => apply andb_true_iff in H; destruct H
  | H : (_ || _) = false |- _ => apply orb_false_iff in H; destruct H
  | H : negb _ = true |- _ => apply negb_true_iff in H
  | H : negb _ = false |- _ => apply negb_false_iff in H
  end.

Lemma quot_bounds a b : 0 <= a -> 0 < b -> 0 <= Z.quot a b /\ Z.quot a b * b <= a < (Z.quot a b + 1) * b.
Proof.
  intros Ha Hb. rewrite Z.quot_div_nonneg by lia.
  pose proof (Z.div_mod a b ltac:(lia)). pose proof (Z.mod_pos_bound a b Hb). split; [apply Z.div_pos; lia | nia].
Qed.
Lemma quot_mul a b : 0 < b -> Z.quot (a * b) b = a.
Proof. intros; apply Z.quot_mul; lia. Qed.

(** * C05: the read contract *)
Definition req (fv : bool) (n : Z) (s : st) : Z := if fv then n * ch s else n.
Definition tail_n (t : tail) : Z := match t with TZero n => n | TUntouched n => n end.
Definition frames_of (fv : bool) (r : Z) (s : st) : Z := if fv then r else Z.quot r (ch s).

Theorem read_ret_range fv n lim s :
  0 < ch s -> 0 <= frames s -> 0 <= rcur s ->
  let '(s', r) := api_read fv n lim s in 0 <= ret r <= Z.max 0 n.
Proof.
  intros Hc Hf Hr. unfold api_read.
  destruct (n =? 0) eqn:E0; [simpl; lia|].
  destruct (n <? 0) eqn:E1; [simpl; lia|].
  destruct (mode s =? c_SFM_WRITE) eqn:E2; [simpl; lia|].
  destruct (negb fv && negb (Z.rem n (ch s) =? 0)) eqn:E3; [simpl; lia|].
  destruct (frames s <=? rcur s) eqn:E4; [simpl; lia|].
  zb.
  set (s1 := if last_op s =? c_SFM_READ then set_err s 0 else codec_seek (set_err s 0) (rcur s)).
  set (l := if fv then n * ch s else n).
  set (avail := Z.max 0 (len (data s1) - cur s1)).
  set (count := Z.min (Z.min l avail) (Z.max 0 lim)).
  assert (Hl : 0 <= l) by (subst l; destruct fv; nia).
  assert (Hcnt : 0 <= count <= l) by (subst count avail; lia).
  destruct (quot_bounds count (ch s) ltac:(lia) Hc) as [Hq0 Hq].
  destruct (rcur s + Z.quot count (ch s) <=? frames s) eqn:E5; zb; simpl.
  - destruct fv; subst l; [nia | lia].
  - destruct fv.
    + rewrite quot_mul by lia. subst l. nia.
    + subst l. nia.
Qed.

Theorem read_position fv n lim s :
  0 < ch s ->
  let '(s', r) := api_read fv n lim s in
  rcur s' = rcur s + frames_of fv (ret r) s \/ (frames s <= rcur s /\ rcur s' = rcur s /\ ret r = 0).
Proof.
  intros Hc. unfold api_read, frames_of.
  destruct (n =? 0) eqn:E0; [simpl; left; destruct fv; [lia | rewrite Z.quot_0_l by lia; lia]|].
  destruct (n <? 0) eqn:E1; [simpl; left; destruct fv; [lia | rewrite Z.quot_0_l by lia; lia]|].
  destruct (mode s =? c_SFM_WRITE) eqn:E2; [simpl; left; destruct fv; [lia | rewrite Z.quot_0_l by lia; lia]|].
  destruct (negb fv && negb (Z.rem n (ch s) =? 0)) eqn:E3; [simpl; left; destruct fv; [lia | rewrite Z.quot_0_l by lia; lia]|].
  destruct (frames s <=? rcur s) eqn:E4; [zb; simpl; right; lia|].
  match goal with |- context [if ?c then _ else _] => destruct c eqn:E5 end; simpl; left.
  - destruct fv; reflexivity.
  - destruct fv; rewrite ?quot_mul by lia; lia.
Qed.

(** extent: what is stored plus the tail is exactly the requested region *)
Theorem read_extent fv n lim s :
  0 < ch s -> 0 <= frames s -> 0 <= rcur s -> 0 <= cur s -> 0 < n ->
  mode s <> c_SFM_WRITE -> (fv = false -> Z.rem n (ch s) = 0) ->
  let '(s', r) := api_read fv n lim s in
  (frames s <= rcur s \/ len (items r) + tail_n (rtail r) = req fv n s) /\ 0 <= tail_n (rtail r) /\
  (frames s <= rcur s -> items r = [] /\ rtail r = TZero (req fv n s) /\ ret r = 0 /\ err s' = 0).
Proof.
  intros Hc Hf Hr Hcu Hn Hm Hal. unfold api_read, req.
  destruct (n =? 0) eqn:E0; [zb; lia|].
  destruct (n <? 0) eqn:E1; [zb; lia|].
  destruct (mode s =? c_SFM_WRITE) eqn:E2; [zb; contradiction|].
  destruct (negb fv && negb (Z.rem n (ch s) =? 0)) eqn:E3.
  { zb. destruct fv; [discriminate|]. rewrite (Hal eq_refl) in *. congruence. }
  destruct (frames s <=? rcur s) eqn:E4; zb.
  { simpl. split; [left; lia|]. split; [destruct fv; nia|]. intros _. repeat split; reflexivity. }
  set (s1 := if last_op s =? c_SFM_READ then set_err s 0 else codec_seek (set_err s 0) (rcur s)).
  set (l := if fv then n * ch s else n).
  set (avail := Z.max 0 (len (data s1) - cur s1)).
  set (count := Z.min (Z.min l avail) (Z.max 0 lim)).
  assert (Hl : 0 <= l) by (subst l; destruct fv; nia).
  assert (Hcnt : 0 <= count <= l) by (subst count avail; lia).
  assert (Hc1 : 0 <= cur s1).
  { subst s1. destruct (last_op s =? c_SFM_READ); simpl; [assumption | nia]. }
  assert (Hgot : len (slice (data s1) (cur s1) count) = count).
  { rewrite len_slice. subst count avail. lia. }
  destruct (quot_bounds count (ch s) ltac:(lia) Hc) as [Hq0 Hq].
  match goal with |- context [if ?c then _ else _] => destruct c eqn:E5 end; zb; simpl.
  - split; [right; lia|]. split; [lia|]. intros; lia.
  - split; [right; rewrite len_firstn, Hgot; nia|]. split; [nia|]. intros; lia.
Qed.

(** * the stream characterisation of a fault-free read (C05 / C06 / C08) *)
Lemma firstn_slice l c n a : firstn (Z.to_nat a) (slice l c n) = slice l c (Z.min a n).
Proof. unfold slice. rewrite firstn_firstn. f_equal. lia. Qed.

Lemma rem0_mul a b : 0 < b -> Z.rem a b = 0 -> a = (Z.quot a b) * b.
Proof. intros Hb H. pose proof (Z.quot_rem' a b). lia. Qed.

Definition nframes (fv : bool) (n : Z) (s : st) : Z := if fv then n else Z.quot n (ch s).

Theorem read_spec fv n lim s :
  wf s -> mode s <> c_SFM_WRITE -> 0 < n -> (fv = false -> Z.rem n (ch s) = 0) -> req fv n s <= lim ->
  let k := Z.min (nframes fv n s) (Z.max 0 (frames s - rcur s)) in
  let '(s', r) := api_read fv n lim s in
  items r = slice (data s) (rcur s * ch s) (k * ch s) /\
  ret r = (if fv then k else k * ch s) /\
  rcur s' = rcur s + k /\ wf s' /\ err s' = 0 /\
  data s' = data s /\ frames s' = frames s /\ wcur s' = wcur s /\ mode s' = mode s /\ ch s' = ch s.
Proof.
  intros (Hc & Hf & Hr & Hw & Hcu & Hlen & Hrem & Hlr & Hlw) Hm Hn Hal Hlim.
  unfold api_read, req, nframes in *.
  destruct (n =? 0) eqn:E0; [zb; lia|].
  destruct (n <? 0) eqn:E1; [zb; lia|].
  destruct (mode s =? c_SFM_WRITE) eqn:E2; [zb; contradiction|].
  destruct (negb fv && negb (Z.rem n (ch s) =? 0)) eqn:E3.
  { zb. destruct fv; [discriminate|]. rewrite (Hal eq_refl) in *. congruence. }
  (* requested frames nf, l = nf * ch *)
  set (nf := if fv then n else Z.quot n (ch s)).
  assert (Hl : (if fv then n * ch s else n) = nf * ch s).
  { subst nf; destruct fv; [reflexivity|]. apply rem0_mul; auto. }
  assert (Hnf : 0 < nf).
  { subst nf; destruct fv; [lia|]. pose proof (rem0_mul n (ch s) Hc (Hal eq_refl)). nia. }
  rewrite Hl in *.
  destruct (frames s <=? rcur s) eqn:E4; zb.
  { simpl. replace (Z.min nf (Z.max 0 (frames s - rcur s))) with 0 by lia.
    repeat split; try reflexivity; try assumption; try lia.
    all: try (destruct fv; reflexivity).
    all: try (simpl; intros H; destruct (Hlr H); [left; assumption | right; assumption]). }
  set (s1 := if last_op s =? c_SFM_READ then set_err s 0 else codec_seek (set_err s 0) (rcur s)).
  assert (Hd1 : data s1 = data s) by (subst s1; destruct (last_op s =? c_SFM_READ); reflexivity).
  assert (Hc1 : cur s1 = rcur s * ch s).
  { subst s1; destruct (last_op s =? c_SFM_READ) eqn:E; zb; simpl; [|reflexivity].
    destruct (Hlr E); [assumption | lia]. }
  rewrite Hd1, Hc1.
  pose proof (rem0_mul _ _ Hc Hrem) as HD. set (D := Z.quot (len (data s)) (ch s)) in *.
  assert (HDf : frames s <= D) by nia.
  set (avail := Z.max 0 (len (data s) - rcur s * ch s)).
  assert (Hav : avail = (D - rcur s) * ch s) by (subst avail; nia).
  set (count := Z.min (Z.min (nf * ch s) avail) (Z.max 0 lim)).
  set (m := Z.min nf (D - rcur s)).
  assert (Hcount : count = m * ch s) by (subst count m; nia).
  assert (Hq : Z.quot count (ch s) = m) by (rewrite Hcount; apply quot_mul; assumption).
  rewrite Hq.
  assert (Hm0 : 0 < m) by (subst m; lia).
  destruct (rcur s + m <=? frames s) eqn:E5; zb; simpl.
  - assert (Hk : Z.min nf (Z.max 0 (frames s - rcur s)) = m) by (subst m; lia).
    rewrite Hk, Hcount.
    split; [reflexivity|]. split; [destruct fv; reflexivity|]. split; [reflexivity|].
    split; [| repeat split; reflexivity].
    unfold wf; simpl. repeat split; try assumption; try lia.
    all: try (intros _; left; lia).
    all: try (intros H; destruct modes_ok as (? & ? & ?); congruence).
  - assert (Hk : Z.min nf (Z.max 0 (frames s - rcur s)) = frames s - rcur s) by (subst m; lia).
    rewrite Hk, firstn_slice.
    replace (Z.min ((frames s - rcur s) * ch s) count) with ((frames s - rcur s) * ch s) by nia.
    split; [reflexivity|]. split; [destruct fv; [apply quot_mul; assumption | reflexivity]|]. split; [lia|].
    split; [| repeat split; reflexivity].
    unfold wf; simpl. repeat split; try assumption; try lia; try nia.
    all: try (intros _; right; lia).
    all: try (intros H; destruct modes_ok as (? & ? & ?); congruence).
Qed.

(** * writes (C05 / C08) *)
Theorem write_spec fv n lim xs s :
  wf s -> mode s <> c_SFM_READ -> 0 < n -> (fv = false -> Z.rem n (ch s) = 0) -> req fv n s <= lim ->
  len xs = req fv n s ->
  let k := nframes fv n s in
  let '(s', w) := api_write fv n lim xs s in
  w = n /\ wcur s' = wcur s + k /\ frames s' = Z.max (frames s) (wcur s + k) /\
  data s' = overwrite (data s) (wcur s * ch s) xs /\
  rcur s' = rcur s /\ err s' = 0 /\ mode s' = mode s /\ ch s' = ch s /\ seekable s' = seekable s /\ wf s'.
Proof.
  intros (Hc & Hf & Hr & Hw & Hcu & Hlen & Hrem & Hlr & Hlw) Hm Hn Hal Hlim Hxs.
  unfold api_write, req, nframes in *.
  destruct (n =? 0) eqn:E0; [zb; lia|].
  destruct (n <? 0) eqn:E1; [zb; lia|].
  destruct (mode s =? c_SFM_READ) eqn:E2; [zb; contradiction|].
  destruct (negb fv && negb (Z.rem n (ch s) =? 0)) eqn:E3.
  { zb. destruct fv; [discriminate|]. rewrite (Hal eq_refl) in *. congruence. }
  set (nf := if fv then n else Z.quot n (ch s)).
  assert (Hl : (if fv then n * ch s else n) = nf * ch s).
  { subst nf; destruct fv; [reflexivity|]. apply rem0_mul; auto. }
  assert (Hnf : 0 < nf).
  { subst nf; destruct fv; [lia|]. pose proof (rem0_mul n (ch s) Hc (Hal eq_refl)). nia. }
  rewrite Hl in *.
  set (s1 := if last_op s =? c_SFM_WRITE then s else codec_seek s (wcur s)).
  assert (Hc1 : cur s1 = wcur s * ch s).
  { subst s1; destruct (last_op s =? c_SFM_WRITE) eqn:E; zb; simpl; [auto | reflexivity]. }
  rewrite Hc1.
  replace (Z.min (nf * ch s) (Z.max 0 lim)) with (nf * ch s) by nia.
  rewrite quot_mul by assumption.
  destruct (nf * ch s =? 0) eqn:E6; [zb; nia|].
  assert (Hfx : firstn (Z.to_nat (nf * ch s)) xs = xs).
  { apply firstn_all2. unfold len in Hxs. lia. }
  rewrite Hfx. simpl.
  split; [destruct fv; [reflexivity | symmetry; exact Hl]|].
  split; [reflexivity|]. split; [reflexivity|]. split; [reflexivity|].
  split; [reflexivity|]. split; [reflexivity|]. split; [reflexivity|]. split; [reflexivity|]. split; [reflexivity|].
  pose proof (rem0_mul _ _ Hc Hrem) as HD.
  unfold wf; simpl. rewrite len_overwrite by nia. rewrite Hxs.
  repeat split; try assumption; try lia; try nia.
  - (* the data region stays a whole number of frames *)
    destruct (Z.max_spec (len (data s)) (wcur s * ch s + nf * ch s)) as [[_ ->] | [_ ->]].
    + replace (wcur s * ch s + nf * ch s) with ((wcur s + nf) * ch s) by ring. apply Z.rem_mul; lia.
    + assumption.
  - intros H. destruct modes_ok as (? & ? & ?). congruence.
Qed.

(** * seek (C06 / C08) *)
Definition seek_failed (s s' : st) (r : Z) : Prop := r = -1 /\ err s' <> 0 /\ s' = set_err s (err s').
Definition seek_query (s s' : st) (r : Z) : Prop := s' = set_err s 0 /\ (r = rcur s \/ r = wcur s).
Definition seek_moved (s s' : st) (r : Z) : Prop :=
  0 <= r /\ err s' = 0 /\ frames s' = frames s /\ data s' = data s /\ mode s' = mode s /\ ch s' = ch s /\
  cur s' = r * ch s /\ have_written s' = have_written s /\
  ((rcur s' = r /\ wcur s' = wcur s /\ last_op s' = c_SFM_READ) \/
   (wcur s' = r /\ rcur s' = rcur s /\ last_op s' = c_SFM_WRITE) \/
   (rcur s' = r /\ wcur s' = r /\ last_op s' = c_SFM_READ)).

Theorem seek_result off w s :
  let '(s', r) := api_seek off w s in seek_failed s s' r \/ seek_query s s' r \/ seek_moved s s' r.
Proof.
  unfold api_seek, seek_failed, seek_query, seek_moved. destruct errs_nonzero as (? & ? & ? & ? & ? & ? & ? & ? & ?).
  destruct (negb (seekable s)); [left; simpl; auto|].
  match goal with |- context [if ?c then (set_err s c_SFE_WRONG_SEEK, -1) else _] => destruct c end; [left; simpl; auto|].
  destruct (seek_decode s off w) eqn:D.
  - right. left. unfold seek_decode in D.
    repeat match type of D with
    | (if ?c then _ else _) = _ => destruct c eqn:?
    end; inversion D; subst; auto.
  - destruct ((pos <? 0) || _) eqn:E; [left; simpl; auto|].
    zb.
    destruct ((if whence_mode w =? 0 then mode s else whence_mode w) =? c_SFM_READ) eqn:E1;
      [|destruct ((if whence_mode w =? 0 then mode s else whence_mode w) =? c_SFM_WRITE) eqn:E2]; simpl;
      right; right; (split; [lia|]); repeat (split; [reflexivity|]); auto.
  - left. simpl. unfold seek_decode in D.
    repeat match type of D with
    | (if ?c then _ else _) = _ => destruct c eqn:?
    end; inversion D; subst; auto.
Qed.

(** a successful seek with SFM_READ moves only the read pointer, with SFM_WRITE only the write pointer,
    a plain whence in SFM_RDWR mode moves both *)
Theorem seek_pointer_selection off w s pos :
  seek_decode s off w = STarget pos ->
  let '(s', r) := api_seek off w s in
  r <> -1 ->
  r = pos /\
  (whence_mode w = c_SFM_READ -> rcur s' = r /\ wcur s' = wcur s) /\
  (whence_mode w = c_SFM_WRITE -> wcur s' = r /\ rcur s' = rcur s) /\
  (whence_mode w = 0 -> mode s = c_SFM_RDWR -> rcur s' = r /\ wcur s' = r) /\
  (whence_mode w = 0 -> mode s = c_SFM_READ -> rcur s' = r /\ wcur s' = wcur s) /\
  (whence_mode w = 0 -> mode s = c_SFM_WRITE -> wcur s' = r /\ rcur s' = rcur s).
Proof.
  intros D. unfold api_seek. destruct modes_ok as (M1 & M2 & M3).
  destruct (negb (seekable s)); [simpl; intros; lia|].
  match goal with |- context [if ?c then (set_err s c_SFE_WRONG_SEEK, -1) else _] => destruct c end; [simpl; intros; lia|].
  rewrite D.
  destruct ((pos <? 0) || _) eqn:E; [simpl; intros; lia|].
  destruct (whence_mode w =? 0) eqn:W0; zb.
  - rewrite W0.
    destruct (mode s =? c_SFM_READ) eqn:E1; [|destruct (mode s =? c_SFM_WRITE) eqn:E2]; simpl; zb; intros _;
      repeat split; intros; try reflexivity; try congruence; try lia.
  - destruct (whence_mode w =? c_SFM_READ) eqn:E1; [|destruct (whence_mode w =? c_SFM_WRITE) eqn:E2]; simpl; zb; intros _;
      repeat split; intros; try reflexivity; try congruence; try lia.
Qed.

(** zero-offset SEEK_CUR reports the index of the next frame and changes nothing (C06) *)
Theorem seek_cur0_read s : seekable s = true -> mode s = c_SFM_READ -> api_seek 0 SEEK_CUR s = (set_err s 0, rcur s).
Proof.
  intros Hs Hm. unfold api_seek, seek_decode, whence_mode, SEEK_CUR, SEEK_SET. rewrite Hs, Hm.
  destruct modes_ok as (-> & -> & ->). reflexivity.
Qed.
Theorem seek_cur0_read_flag s : seekable s = true -> mode s <> c_SFM_WRITE -> api_seek 0 (SEEK_CUR + c_SFM_READ) s = (set_err s 0, rcur s).
Proof.
  intros Hs Hm. unfold api_seek, seek_decode, whence_mode, SEEK_CUR, SEEK_SET. rewrite Hs.
  destruct modes_ok as (M1 & M2 & M3). rewrite M1, M2, M3 in *. simpl.
  destruct (mode s =? 32) eqn:E; zb; [contradiction|]. reflexivity.
Qed.

(** * invalid calls (C09): the failure value, a non-zero error, and nothing else changes *)
Definition read_invalid (fv : bool) (n : Z) (s : st) : Prop :=
  n < 0 \/ mode s = c_SFM_WRITE \/ (fv = false /\ Z.rem n (ch s) <> 0).
Definition write_invalid (fv : bool) (n : Z) (s : st) : Prop :=
  n < 0 \/ mode s = c_SFM_READ \/ (fv = false /\ Z.rem n (ch s) <> 0).


(** a zero-length call returns 0 and changes nothing at all (not even the error field) *)
Theorem zero_length_noop fv lim s xs : api_read fv 0 lim s = (s, mkr 0 [] (TUntouched 0)) /\ api_write fv 0 lim xs s = (s, 0).
Proof. split; reflexivity. Qed.

Theorem invalid_read_frame fv n lim s : n <> 0 -> read_invalid fv n s ->
  exists e, e <> 0 /\ api_read fv n lim s = (set_err s e, mkr 0 [] (TUntouched 0)).
Proof.
  destruct errs_nonzero as (? & ? & ? & ? & ? & ? & ? & ? & ?).
  intros Hn Hi. unfold api_read.
  destruct (n =? 0) eqn:E0; zb; [contradiction|].
  destruct (n <? 0) eqn:E1; [eauto|].
  destruct (mode s =? c_SFM_WRITE) eqn:E2; [eauto|].
  zb. destruct Hi as [Hi | [Hi | [Hf Hi]]]; [lia | contradiction |].
  subst fv. simpl. destruct (Z.rem n (ch s) =? 0) eqn:E3; zb; [contradiction|]. simpl. eauto.
Qed.

Theorem invalid_write_frame fv n lim xs s : n <> 0 -> write_invalid fv n s ->
  exists e, e <> 0 /\ api_write fv n lim xs s = (set_err s e, 0).
Proof.
  destruct errs_nonzero as (? & ? & ? & ? & ? & ? & ? & ? & ?).
  intros Hn Hi. unfold api_write.
  destruct (n =? 0) eqn:E0; zb; [contradiction|].
  destruct (n <? 0) eqn:E1; [eauto|].
  destruct (mode s =? c_SFM_READ) eqn:E2; [eauto|].
  zb. destruct Hi as [Hi | [Hi | [Hf Hi]]]; [lia | contradiction |].
  subst fv. simpl. destruct (Z.rem n (ch s) =? 0) eqn:E3; zb; [contradiction|]. simpl. eauto.
Qed.

(** a failing seek returns -1, records a non-zero error and changes nothing else; this is [seek_failed] of
    [seek_result]; the conditions under which it must fail: *)
Theorem invalid_seek_frame off w s :
  seekable s = false \/
  (whence_mode w = c_SFM_WRITE /\ mode s = c_SFM_READ) \/ (whence_mode w = c_SFM_READ /\ mode s = c_SFM_WRITE) \/
  (exists e, seek_decode s off w = SBad e) \/
  (exists pos, seek_decode s off w = STarget pos /\ (pos < 0 \/ (mode s = c_SFM_READ /\ frames s < pos))) ->
  exists e, e <> 0 /\ api_seek off w s = (set_err s e, -1).
Proof.
  destruct errs_nonzero as (? & ? & ? & ? & ? & ? & ? & ? & ?). destruct modes_ok as (M1 & M2 & M3).
  intros H'. unfold api_seek.
  destruct (seekable s) eqn:Es; simpl; [|eauto].
  destruct H' as [H' | H']; [discriminate|].
  match goal with |- context [if ?c then (set_err s c_SFE_WRONG_SEEK, -1) else _] => destruct c eqn:Ew end; [eauto|].
  apply orb_false_iff in Ew. destruct Ew as [Ew1 Ew2].
  destruct H' as [[Ha Hb] | [[Ha Hb] | [[e He] | [pos [Hp Hq]]]]].
  - rewrite Ha, Hb, !Z.eqb_refl in Ew1. discriminate.
  - rewrite Ha, Hb, !Z.eqb_refl in Ew2. discriminate.
  - rewrite He. (* every SBad code produced by seek_decode is one of the two non-zero constants *)
    unfold seek_decode in He.
    repeat match type of He with
    | (if ?c then _ else _) = _ => destruct c eqn:?
    end; inversion He; subst; eauto.
  - rewrite Hp.
    assert (Hc : ((pos <? 0) || negb ((mode s =? c_SFM_RDWR) || (mode s =? c_SFM_WRITE)) && (frames s <? pos)) = true).
    { destruct Hq as [Hq | [Hq1 Hq2]].
      - apply orb_true_iff; left; apply Z.ltb_lt; assumption.
      - apply orb_true_iff; right. rewrite Hq1, M1, M2, M3. simpl. apply Z.ltb_lt; assumption. }
    rewrite Hc. eauto.
Qed.

(** every call that is not rejected leaves the error field at 0 (C09) *)
Theorem valid_read_clears_error fv n lim s : n <> 0 -> ~ read_invalid fv n s -> err (fst (api_read fv n lim s)) = 0.
Proof.
  intros Hn H. unfold api_read, read_invalid in *.
  destruct (n =? 0) eqn:E0; zb; [contradiction|].
  destruct (n <? 0) eqn:E1; zb; [exfalso; apply H; left; assumption|].
  destruct (mode s =? c_SFM_WRITE) eqn:E2; zb; [exfalso; apply H; right; left; assumption|].
  destruct (negb fv && negb (Z.rem n (ch s) =? 0)) eqn:E3.
  { zb. exfalso. apply H. right. right. destruct fv; [discriminate|]. split; [reflexivity|assumption]. }
  destruct (frames s <=? rcur s); [reflexivity|].
  match goal with |- context [if ?c then _ else _] => destruct c end; reflexivity.
Qed.
Theorem valid_write_clears_error fv n lim xs s : n <> 0 -> ~ write_invalid fv n s -> err (fst (api_write fv n lim xs s)) = 0.
Proof.
  intros Hn H. unfold api_write, write_invalid in *.
  destruct (n =? 0) eqn:E0; zb; [contradiction|].
  destruct (n <? 0) eqn:E1; zb; [exfalso; apply H; left; assumption|].
  destruct (mode s =? c_SFM_READ) eqn:E2; zb; [exfalso; apply H; right; left; assumption|].
  destruct (negb fv && negb (Z.rem n (ch s) =? 0)) eqn:E3.
  { zb. exfalso. apply H. right. right. destruct fv; [discriminate|]. split; [reflexivity|assumption]. }
  reflexivity.
Qed.
Theorem valid_seek_clears_error off w s : snd (api_seek off w s) <> -1 -> err (fst (api_seek off w s)) = 0.
Proof.
  pose proof (seek_result off w s) as H. destruct (api_seek off w s) as [s' r]. simpl.
  intros Hr. destruct H as [(H1 & _) | [(H1 & _) | (_ & H1 & _)]]; [contradiction | subst s'; reflexivity | assumption].
Qed.

(** the error message table (T1-regenerated): every number 0..SFE_MAX_ERROR has a non-empty text that is
    not the "no error defined" placeholder *)
Definition error_entry_ok (e : Z * Z * bool) : bool := let '(c, l, bad) := e in (0 <? l) && negb bad.
Definition error_table_ok : bool :=
  forallb error_entry_ok error_number_tab &&
  (len error_number_tab =? c_SFE_MAX_ERROR + 1) &&
  forallb (fun p => fst (fst (fst p)) =? snd p) (combine error_number_tab (map Z.of_nat (seq 0 (length error_number_tab)))).
Theorem error_table_total : error_table_ok = true.
Proof. vm_compute. reflexivity. Qed.
Lemma nth_error_combine {A B} (l1 : list A) (l2 : list B) n a b :
  nth_error l1 n = Some a -> nth_error l2 n = Some b -> nth_error (combine l1 l2) n = Some (a, b).
Proof.
  revert l2 n; induction l1 as [|x xs IH]; intros [|y ys] [|k] E1 E2; simpl in *; try discriminate.
  - inversion E1; inversion E2; reflexivity.
  - apply IH; assumption.
Qed.
Theorem error_table_lookup e : 0 <= e <= c_SFE_MAX_ERROR ->
  exists l bad, nth_error error_number_tab (Z.to_nat e) = Some (e, l, bad) /\ 0 < l /\ bad = false.
Proof.
  intros He. pose proof error_table_total as H. unfold error_table_ok in H.
  apply andb_true_iff in H. destruct H as [H H3]. apply andb_true_iff in H. destruct H as [H1 H2].
  apply Z.eqb_eq in H2.
  assert (Hlt : (Z.to_nat e < length error_number_tab)%nat) by (unfold len in H2; lia).
  destruct (nth_error error_number_tab (Z.to_nat e)) as [[[c l] bad]|] eqn:En; [|apply nth_error_None in En; lia].
  rewrite forallb_forall in H1. pose proof (H1 _ (nth_error_In _ _ En)) as Hok. simpl in Hok.
  apply andb_true_iff in Hok. destruct Hok as [Hl Hb]. apply Z.ltb_lt in Hl. apply negb_true_iff in Hb.
  rewrite forallb_forall in H3.
  assert (Hin : In ((c, l, bad), Z.of_nat (Z.to_nat e)) (combine error_number_tab (map Z.of_nat (seq 0 (length error_number_tab))))).
  { apply nth_error_In with (n := Z.to_nat e).
    assert (Hnth : nth_error (map Z.of_nat (seq 0 (length error_number_tab))) (Z.to_nat e) = Some (Z.of_nat (Z.to_nat e))).
    { rewrite nth_error_map, nth_error_nth' with (d := 0%nat) by (rewrite seq_length; assumption).
      rewrite seq_nth by assumption. reflexivity. }
    apply nth_error_combine; assumption. }
  pose proof (H3 _ Hin) as Hc. simpl in Hc. apply Z.eqb_eq in Hc. subst c.
  exists l, bad. rewrite Z2Nat.id by lia. auto.
Qed.

(** * well-formedness is preserved by every operation (the RDWR cursor invariant of C08) *)
Lemma wf_set_err s e : wf s -> wf (set_err s e).
Proof. unfold wf; simpl; tauto. Qed.

Lemma read_invalid_dec fv n s : read_invalid fv n s \/ ~ read_invalid fv n s.
Proof.
  unfold read_invalid.
  destruct (Z.ltb_spec n 0); [left; left; assumption|].
  destruct (Z.eq_dec (mode s) c_SFM_WRITE); [left; right; left; assumption|].
  destruct fv; [right; intros [?|[?|[? ?]]]; [lia | contradiction | discriminate]|].
  destruct (Z.eq_dec (Z.rem n (ch s)) 0); [right; intros [?|[?|[? ?]]]; [lia | contradiction | contradiction]|].
  left; right; right; split; [reflexivity | assumption].
Qed.
Lemma write_invalid_dec fv n s : write_invalid fv n s \/ ~ write_invalid fv n s.
Proof.
  unfold write_invalid.
  destruct (Z.ltb_spec n 0); [left; left; assumption|].
  destruct (Z.eq_dec (mode s) c_SFM_READ); [left; right; left; assumption|].
  destruct fv; [right; intros [?|[?|[? ?]]]; [lia | contradiction | discriminate]|].
  destruct (Z.eq_dec (Z.rem n (ch s)) 0); [right; intros [?|[?|[? ?]]]; [lia | contradiction | contradiction]|].
  left; right; right; split; [reflexivity | assumption].
Qed.

Lemma not_read_invalid fv n s : n <> 0 -> ~ read_invalid fv n s -> 0 < n /\ mode s <> c_SFM_WRITE /\ (fv = false -> Z.rem n (ch s) = 0).
Proof.
  unfold read_invalid; intros Hn H. repeat split.
  - destruct (Z.ltb_spec n 0); [exfalso; apply H; left; assumption | lia].
  - intros E; apply H; right; left; assumption.
  - intros Hf. destruct (Z.eq_dec (Z.rem n (ch s)) 0); [assumption|]. exfalso; apply H; right; right; split; assumption.
Qed.
Lemma not_write_invalid fv n s : n <> 0 -> ~ write_invalid fv n s -> 0 < n /\ mode s <> c_SFM_READ /\ (fv = false -> Z.rem n (ch s) = 0).
Proof.
  unfold write_invalid; intros Hn H. repeat split.
  - destruct (Z.ltb_spec n 0); [exfalso; apply H; left; assumption | lia].
  - intros E; apply H; right; left; assumption.
  - intros Hf. destruct (Z.eq_dec (Z.rem n (ch s)) 0); [assumption|]. exfalso; apply H; right; right; split; assumption.
Qed.

Definition same_shape (s s' : st) : Prop := ch s' = ch s /\ mode s' = mode s.

Lemma read_preserves_wf fv n lim s : wf s -> req fv n s <= lim -> wf (fst (api_read fv n lim s)) /\ same_shape s (fst (api_read fv n lim s)).
Proof.
  intros Hwf Hlim. destruct (Z.eq_dec n 0) as [->|Hn]; [simpl; split; [assumption | split; reflexivity]|].
  destruct (read_invalid_dec fv n s) as [Hi | Hv].
  - destruct (invalid_read_frame fv n lim s Hn Hi) as (e & _ & ->). simpl. split; [apply wf_set_err; assumption | split; reflexivity].
  - destruct (not_read_invalid _ _ _ Hn Hv) as (Hp & Hm & Hal).
    pose proof (read_spec fv n lim s Hwf Hm Hp Hal Hlim) as H. destruct (api_read fv n lim s) as [s' r]. simpl.
    destruct H as (_ & _ & _ & Hw & _ & _ & _ & _ & Hmo & Hch). split; [assumption | split; assumption].
Qed.

Lemma write_preserves_wf fv n lim xs s : wf s -> req fv n s <= lim -> (0 < n -> len xs = req fv n s) ->
  wf (fst (api_write fv n lim xs s)) /\ same_shape s (fst (api_write fv n lim xs s)).
Proof.
  intros Hwf Hlim Hxs. destruct (Z.eq_dec n 0) as [->|Hn]; [simpl; split; [assumption | split; reflexivity]|].
  destruct (write_invalid_dec fv n s) as [Hi | Hv].
  - destruct (invalid_write_frame fv n lim xs s Hn Hi) as (e & _ & ->). simpl. split; [apply wf_set_err; assumption | split; reflexivity].
  - destruct (not_write_invalid _ _ _ Hn Hv) as (Hp & Hm & Hal).
    pose proof (write_spec fv n lim xs s Hwf Hm Hp Hal Hlim (Hxs Hp)) as H. destruct (api_write fv n lim xs s) as [s' r]. simpl.
    destruct H as (_ & _ & _ & _ & _ & _ & Hmo & Hch & _ & Hw). split; [assumption | split; assumption].
Qed.

Lemma seek_preserves_wf off w s : wf s -> wf (fst (api_seek off w s)) /\ same_shape s (fst (api_seek off w s)).
Proof.
  intros Hwf. pose proof (seek_result off w s) as H. destruct (api_seek off w s) as [s' r]. simpl.
  destruct modes_ok as (M1 & M2 & M3).
  destruct H as [(_ & _ & ->) | [(-> & _) | H]].
  - split; [apply wf_set_err; assumption | split; reflexivity].
  - split; [apply wf_set_err; assumption | split; reflexivity].
  - destruct H as (Hr & He & Hf & Hd & Hm & Hc & Hcu & _ & Hp).
    destruct Hwf as (W1 & W2 & W3 & W4 & W5 & W6 & W7 & W8 & W9).
    split; [|split; assumption].
    unfold wf. rewrite Hc, Hf, Hd, Hcu.
    destruct Hp as [(P1 & P2 & P3) | [(P1 & P2 & P3) | (P1 & P2 & P3)]]; rewrite P1, P2, P3;
      repeat split; try assumption; try lia; try nia; try (intros; left; reflexivity); try (intros; congruence).
Qed.

Lemma seek_set_cases n s :
  let '(s', r) := api_seek n SEEK_SET s in seek_failed s s' r \/ (seek_moved s s' r /\ r = n).
Proof.
  assert (D : seek_decode s n SEEK_SET = STarget n) by reflexivity.
  unfold api_seek, seek_failed, seek_moved. rewrite D. destruct errs_nonzero as (? & ? & ? & ? & ? & ? & ? & ? & ?).
  destruct (negb (seekable s)); [left; simpl; auto|].
  match goal with |- context [if ?c then (set_err s c_SFE_WRONG_SEEK, -1) else _] => destruct c end; [left; simpl; auto|].
  destruct ((n <? 0) || _) eqn:E; [left; simpl; auto|].
  zb.
  destruct ((if whence_mode SEEK_SET =? 0 then mode s else whence_mode SEEK_SET) =? c_SFM_READ) eqn:E1;
    [|destruct ((if whence_mode SEEK_SET =? 0 then mode s else whence_mode SEEK_SET) =? c_SFM_WRITE) eqn:E2]; simpl;
    right; (split; [|reflexivity]); (split; [lia|]); repeat (split; [reflexivity|]); auto.
Qed.

Lemma truncate_preserves_wf n s : wf s -> n <> -1 -> wf (fst (api_truncate n s)) /\ same_shape s (fst (api_truncate n s)).
Proof.
  intros Hwf Hn1. unfold api_truncate.
  destruct (negb ((mode s =? c_SFM_WRITE) || (mode s =? c_SFM_RDWR))); [simpl; split; [apply wf_set_err; assumption | split; reflexivity]|].
  pose proof (seek_preserves_wf n SEEK_SET s Hwf) as [Hw1 Hs1].
  pose proof (seek_set_cases n s) as H.
  destruct (api_seek n SEEK_SET s) as [s1 r]. simpl in *.
  destruct (r =? n) eqn:E; zb; simpl; [|split; assumption].
  subst r. split; [|destruct Hs1; split; assumption].
  destruct Hw1 as (W1 & W2 & W3 & W4 & W5 & W6 & W7 & W8 & W9).
  destruct H as [(Hr & _) | (H & _)]; [contradiction|].
  destruct H as (Hr & He & Hf & Hd & Hm & Hc & Hcu & _ & Hp).
  unfold wf; simpl. rewrite len_resize by assumption. rewrite Hcu, <- Hc.
  repeat split; try assumption; try lia.
  all: try (apply Z.rem_mul; lia).
  all: try (intros HL; rewrite <- Hc; apply W9; assumption).
  intros HL. destruct (W8 HL) as [W | W]; [left; rewrite <- W, Hcu, Hc; reflexivity|].
  destruct Hp as [(P1 & _) | [(_ & _ & P3) | (P1 & _)]].
  - right. lia.
  - destruct modes_ok as (M1 & M2 & M3). congruence.
  - right. lia.
Qed.

(** operations whose arguments are well formed and whose I/O does not fail *)
Definition op_ok (c : Z) (o : op) : Prop :=
  match o with
  | ORead fv n lim => (if fv then n * c else n) <= lim
  | OWrite fv n lim xs => (if fv then n * c else n) <= lim /\ (0 < n -> len xs = (if fv then n * c else n))
  | OSeek _ _ => True
  | OTrunc n => n <> -1
  end.

Lemma step_preserves_wf s o : wf s -> op_ok (ch s) o -> wf (fst (step s o)) /\ same_shape s (fst (step s o)).
Proof.
  intros Hwf Hok. destruct o as [fv n lim | fv n lim xs | off w | n]; simpl in *.
  - pose proof (read_preserves_wf fv n lim s Hwf Hok). destruct (api_read fv n lim s); assumption.
  - destruct Hok as [H1 H2]. pose proof (write_preserves_wf fv n lim xs s Hwf H1 H2). destruct (api_write fv n lim xs s); assumption.
  - pose proof (seek_preserves_wf off w s Hwf). destruct (api_seek off w s); assumption.
  - pose proof (truncate_preserves_wf n s Hwf Hok). destruct (api_truncate n s); assumption.
Qed.

(** every reachable state of any operation sequence is well formed: in particular the cursor is where
    the last operation's pointer says it is, so reads and writes never mix up the two positions *)
Theorem run_preserves_wf ops : forall s, wf s -> Forall (op_ok (ch s)) ops -> wf (fst (run s ops)) /\ same_shape s (fst (run s ops)).
Proof.
  induction ops as [|o ops IH]; intros s Hwf Hok; simpl.
  - split; [assumption | split; reflexivity].
  - inversion Hok as [|? ? Ho Hr]; subst.
    destruct (step_preserves_wf s o Hwf Ho) as [H1 [H2 H3]].
    destruct (step s o) as [s1 x]. simpl in *.
    rewrite <- H2 in Hr. destruct (IH s1 H1 Hr) as [H4 [H5 H6]].
    destruct (run s1 ops) as [s2 xs]. simpl in *. split; [assumption | split; congruence].
Qed.

(** * C06: partition independence of reads, seek-then-read *)
Lemma skipn_add {A} (a b : nat) (l : list A) : skipn (a + b) l = skipn b (skipn a l).
Proof. revert l; induction a as [|a IH]; intros [|x xs]; simpl; try reflexivity; [destruct b; reflexivity | apply IH]. Qed.
Lemma slice_app l a n1 n2 : 0 <= a -> 0 <= n1 -> 0 <= n2 -> slice l a n1 ++ slice l (a + n1) n2 = slice l a (n1 + n2).
Proof.
  intros Ha H1 H2. unfold slice.
  rewrite Z2Nat.inj_add by assumption. rewrite skipn_add.
  rewrite (Z2Nat.inj_add n1 n2) by assumption.
  generalize (skipn (Z.to_nat a) l) as x. generalize (Z.to_nat n2) as k2. generalize (Z.to_nat n1) as k1.
  induction k1 as [|k1 IH]; intros k2 x; simpl; [reflexivity|].
  destruct x as [|y ys]; simpl; [rewrite firstn_nil; reflexivity|].
  f_equal. apply IH.
Qed.

Fixpoint do_reads (s : st) (rs : list (bool * Z)) : st * list Z :=
  match rs with
  | [] => (s, [])
  | (fv, n) :: r =>
      let '(s1, o) := api_read fv n (req fv n s) s in
      let '(s2, l) := do_reads s1 r in (s2, items o ++ l)
  end.
Definition total_frames (c : Z) (rs : list (bool * Z)) : Z :=
  fold_right (fun (p : bool * Z) (acc : Z) => (if fst p then snd p else Z.quot (snd p) c) + acc) 0 rs.
Definition read_ok (c : Z) (p : bool * Z) : Prop := 0 < snd p /\ (fst p = false -> Z.rem (snd p) c = 0).

Lemma total_frames_nonneg c rs : 0 < c -> Forall (read_ok c) rs -> 0 <= total_frames c rs.
Proof.
  intros Hc H. induction H as [|[fv n] r [Hn Hal] _ IH]; simpl in *; [lia|].
  destruct fv; [lia|]. pose proof (rem0_mul n c Hc (Hal eq_refl)). nia.
Qed.

Theorem read_partition rs : forall s, wf s -> mode s <> c_SFM_WRITE -> Forall (read_ok (ch s)) rs ->
  let k := Z.min (total_frames (ch s) rs) (Z.max 0 (frames s - rcur s)) in
  let '(s', l) := do_reads s rs in
  l = slice (data s) (rcur s * ch s) (k * ch s) /\ rcur s' = rcur s + k /\ data s' = data s /\ frames s' = frames s.
Proof.
  induction rs as [|[fv n] r IH]; intros s Hwf Hm Hok; simpl.
  - replace (Z.min 0 (Z.max 0 (frames s - rcur s))) with 0 by lia. simpl. unfold slice; simpl. repeat split; lia.
  - inversion Hok as [|? ? [Hn Hal] Hr]; subst. simpl in Hn, Hal.
    pose proof (read_spec fv n (req fv n s) s Hwf Hm Hn Hal (Z.le_refl _)) as H.
    destruct (api_read fv n (req fv n s) s) as [s1 o].
    destruct H as (Hit & _ & Hrc & Hwf1 & _ & Hd & Hf & _ & Hmo & Hch).
    assert (Hm1 : mode s1 <> c_SFM_WRITE) by congruence.
    rewrite <- Hch in Hr. specialize (IH s1 Hwf1 Hm1 Hr).
    destruct (do_reads s1 r) as [s2 l2]. destruct IH as (Hl2 & Hr2 & Hd2 & Hf2).
    destruct Hwf as (Hc & Hfr & Hrc0 & _).
    pose proof (total_frames_nonneg (ch s1) r ltac:(lia) Hr) as Htn.
    rewrite Hch, Hd, Hf, Hrc in *.
    set (nf := nframes fv n s) in *.
    assert (Hnf : 0 < nf).
    { subst nf; unfold nframes; destruct fv; [lia|]. pose proof (rem0_mul n (ch s) Hc (Hal eq_refl)). nia. }
    change (if fv then n else Z.quot n (ch s)) with nf.
    set (T := total_frames (ch s) r) in *.
    set (k1 := Z.min nf (Z.max 0 (frames s - rcur s))) in *.
    set (k2 := Z.min T (Z.max 0 (frames s - (rcur s + k1)))) in *.
    assert (Hk : Z.min (nf + T) (Z.max 0 (frames s - rcur s)) = k1 + k2) by (subst k1 k2; lia).
    rewrite Hk. split; [|split; [lia | split; congruence]].
    rewrite Hit, Hl2.
    replace ((rcur s + k1) * ch s) with (rcur s * ch s + k1 * ch s) by ring.
    replace ((k1 + k2) * ch s) with (k1 * ch s + k2 * ch s) by ring.
    apply slice_app; subst k1 k2; nia.
Qed.

(** after a successful seek to frame k the following reads deliver frames k, k+1, ... *)
Theorem seek_then_read k w rs s : wf s -> mode s = c_SFM_READ -> seekable s = true -> (w = SEEK_SET \/ w = SEEK_SET + c_SFM_READ) ->
  0 <= k <= frames s -> Forall (read_ok (ch s)) rs ->
  let '(s1, r) := api_seek k w s in
  r = k /\
  let m := Z.min (total_frames (ch s) rs) (frames s - k) in
  let '(s2, l) := do_reads s1 rs in l = slice (data s) (k * ch s) (m * ch s) /\ rcur s2 = k + m.
Proof.
  intros Hwf Hm Hs Hw Hk Hok.
  pose proof (seek_preserves_wf k w s Hwf) as [Hwf1 [Hc1 Hm1]].
  pose proof (seek_result k w s) as Hres.
  assert (D : seek_decode s k w = STarget k) by (destruct Hw; subst w; reflexivity).
  pose proof (seek_pointer_selection k w s k D) as Hsel.
  assert (Hne : snd (api_seek k w s) <> -1).
  { unfold api_seek. rewrite Hs, D, Hm. destruct modes_ok as (M1 & M2 & M3). rewrite M1, M2, M3.
    destruct Hw; subst w; simpl;
      (destruct (k <? 0) eqn:E1; zb; [lia|]); (destruct (frames s <? k) eqn:E2; zb; [lia|]); simpl; lia. }
  destruct (api_seek k w s) as [s1 r]. simpl in *.
  specialize (Hsel Hne). destruct Hsel as (Hrk & S1 & _ & _ & S4 & _). subst r. split; [reflexivity|].
  assert (Hr1 : rcur s1 = k).
  { destruct modes_ok as (M1 & M2 & M3). destruct Hw; subst w; [apply S4; [reflexivity | assumption] | apply S1; rewrite M1; reflexivity]. }
  destruct Hres as [(Hx & _) | [(Hx & _) | Hx]].
  - contradiction.
  - (* not a query: SEEK_SET always moves *) subst s1. simpl in *.
    assert (Hm1' : mode (set_err s 0) <> c_SFM_WRITE) by (simpl; destruct modes_ok as (M1 & M2 & M3); congruence).
    pose proof (read_partition rs (set_err s 0) Hwf1 Hm1' Hok) as HP. simpl in HP.
    destruct (do_reads (set_err s 0) rs) as [s2 l]. destruct HP as (H1 & H2 & _). rewrite Hr1 in *.
    replace (Z.max 0 (frames s - k)) with (frames s - k) in * by lia. split; assumption.
  - destruct Hx as (_ & _ & Hf & Hd & _ & _).
    rewrite <- Hc1 in Hok. assert (Hm1' : mode s1 <> c_SFM_WRITE) by (destruct modes_ok as (M1 & M2 & M3); congruence).
    pose proof (read_partition rs s1 Hwf1 Hm1' Hok) as HP.
    destruct (do_reads s1 rs) as [s2 l]. destruct HP as (H1 & H2 & _). rewrite Hr1, Hc1, Hd, Hf in *.
    replace (Z.max 0 (frames s - k)) with (frames s - k) in * by lia. split; assumption.
Qed.

(** * C08: what a read / write handle sees *)
Lemma seek_set_read_eq k s : seekable s = true -> mode s = c_SFM_RDWR -> 0 <= k ->
  api_seek k (SEEK_SET + c_SFM_READ) s =
  (mk (mode s) (ch s) (frames s) k (wcur s) c_SFM_READ 0 (k * ch s) (data s) (have_written s) (seekable s), k).
Proof.
  intros Hs Hm Hk. destruct modes_ok as (M1 & M2 & M3).
  unfold api_seek, seek_decode, whence_mode. rewrite Hs, Hm, M1, M2, M3. simpl.
  destruct (k <? 0) eqn:E; zb; [lia|]. reflexivity.
Qed.

(** data written at frame p is what a later read at p returns *)
Theorem write_then_read n xs s : wf s -> mode s = c_SFM_RDWR -> seekable s = true -> 0 < n -> len xs = n * ch s ->
  let '(s1, w) := api_write true n (n * ch s) xs s in
  let '(s2, r) := api_seek (wcur s) (SEEK_SET + c_SFM_READ) s1 in
  let '(s3, o) := api_read true n (n * ch s) s2 in
  w = n /\ r = wcur s /\ items o = xs /\ ret o = n /\ wcur s3 = wcur s + n /\ rcur s3 = wcur s + n.
Proof.
  intros Hwf Hm Hs Hn Hxs. destruct modes_ok as (M1 & M2 & M3).
  assert (Hmr : mode s <> c_SFM_READ) by congruence.
  pose proof (write_spec true n (n * ch s) xs s Hwf Hmr Hn ltac:(discriminate) (Z.le_refl _) Hxs) as HW.
  destruct (api_write true n (n * ch s) xs s) as [s1 w]. simpl in HW.
  destruct HW as (-> & Hw1 & Hf1 & Hd1 & Hr1 & _ & Hm1 & Hc1 & Hs1 & Hwf1).
  pose proof Hwf as (W1 & W2 & W3 & W4 & W5 & W6 & W7 & W8 & W9).
  rewrite seek_set_read_eq by (try congruence; assumption).
  set (s2 := mk (mode s1) (ch s1) (frames s1) (wcur s) (wcur s1) c_SFM_READ 0 (wcur s * ch s1) (data s1) (have_written s1) (seekable s1)).
  assert (Hwf2 : wf s2).
  { destruct Hwf1 as (V1 & V2 & V3 & V4 & V5 & V6 & V7 & V8 & V9).
    unfold wf, s2; simpl. repeat split; try assumption; try lia; try nia.
    all: try (intros _; left; reflexivity).
    all: try (intros H; congruence). }
  assert (Hm2 : mode s2 <> c_SFM_WRITE) by (simpl; congruence).
  assert (Hlim : req true n s2 <= n * ch s) by (unfold req; simpl; rewrite Hc1; lia).
  pose proof (read_spec true n (n * ch s) s2 Hwf2 Hm2 Hn ltac:(discriminate) Hlim) as HR.
  destruct (api_read true n (n * ch s) s2) as [s3 o]. simpl in HR.
  destruct HR as (Hit & Hret & Hrc & _ & _ & _ & _ & Hw3 & _).
  replace (Z.min n (Z.max 0 (frames s1 - wcur s))) with n in * by lia.
  rewrite Hc1, Hd1 in Hit. rewrite <- Hxs in Hit. rewrite slice_overwrite_same in Hit by nia.
  repeat split; try assumption; try lia.
Qed.

(** writing inside existing data keeps the length and everything outside the written range;
    writing at or past the end extends the frame count *)
Theorem write_effect n xs s : wf s -> mode s <> c_SFM_READ -> 0 < n -> len xs = n * ch s ->
  let '(s1, w) := api_write true n (n * ch s) xs s in
  w = n /\
  (wcur s + n <= frames s -> frames s1 = frames s /\ len (data s1) = len (data s) /\
      skipn (Z.to_nat ((wcur s + n) * ch s)) (data s1) = skipn (Z.to_nat ((wcur s + n) * ch s)) (data s)) /\
  (frames s < wcur s + n -> frames s1 = wcur s + n) /\
  (wcur s <= frames s -> firstn (Z.to_nat (wcur s * ch s)) (data s1) = firstn (Z.to_nat (wcur s * ch s)) (data s)) /\
  slice (data s1) (wcur s * ch s) (n * ch s) = xs /\ rcur s1 = rcur s.
Proof.
  intros Hwf Hm Hn Hxs.
  pose proof (write_spec true n (n * ch s) xs s Hwf Hm Hn ltac:(discriminate) (Z.le_refl _) Hxs) as HW.
  destruct (api_write true n (n * ch s) xs s) as [s1 w]. simpl in HW.
  destruct HW as (-> & Hw1 & Hf1 & Hd1 & Hr1 & _ & Hm1 & Hc1 & Hs1 & Hwf1).
  destruct Hwf as (W1 & W2 & W3 & W4 & W5 & W6 & W7 & W8 & W9).
  split; [reflexivity|]. rewrite Hd1, Hf1.
  split; [intros Hin; split; [lia|]; split|].
  - rewrite len_overwrite by nia. rewrite Hxs. nia.
  - replace ((wcur s + n) * ch s) with (wcur s * ch s + len xs) by (rewrite Hxs; ring).
    apply skipn_overwrite_after; [nia | rewrite Hxs; nia].
  - split; [intros; lia|]. split; [|split; [|assumption]].
    + intros Hle. apply firstn_overwrite_before; nia.
    + rewrite <- Hxs. apply slice_overwrite_same. nia.
Qed.

(** SFC_FILE_TRUNCATE n: the file keeps exactly its first n frames *)
Theorem truncate_spec n s : wf s -> (mode s = c_SFM_RDWR \/ mode s = c_SFM_WRITE) -> seekable s = true -> 0 <= n ->
  let '(s1, r) := api_truncate n s in
  r = 0 /\ frames s1 = n /\ data s1 = resize (data s) (n * ch s) /\
  (n <= frames s -> content s1 = firstn (Z.to_nat (n * ch s)) (content s)).
Proof.
  intros Hwf Hm Hs Hn. destruct modes_ok as (M1 & M2 & M3).
  unfold api_truncate.
  assert (E : negb ((mode s =? c_SFM_WRITE) || (mode s =? c_SFM_RDWR)) = false).
  { destruct Hm as [-> | ->]; rewrite M2, M3; reflexivity. }
  rewrite E.
  assert (Hseek : exists s1, api_seek n SEEK_SET s = (s1, n) /\ cur s1 = n * ch s /\ data s1 = data s /\ ch s1 = ch s).
  { unfold api_seek, seek_decode, whence_mode, SEEK_SET. rewrite Hs. simpl.
    destruct Hm as [Hm | Hm]; rewrite Hm, M1, M2, M3; simpl; (destruct (n <? 0) eqn:E1; zb; [lia|]); simpl; eexists; repeat split. }
  destruct Hseek as (s1 & -> & Hc1 & Hd1 & Hch1).
  rewrite Z.eqb_refl. simpl. rewrite Hc1, Hd1. repeat split.
  intros Hle. unfold content; simpl. rewrite Hch1. unfold resize, pad.
  destruct Hwf as (W1 & W2 & W3 & W4 & W5 & W6 & W7 & W8 & W9).
  rewrite firstn_firstn. replace (Nat.min (Z.to_nat (n * ch s)) (Z.to_nat (n * ch s))) with (Z.to_nat (n * ch s)) by lia.
  rewrite firstn_firstn. replace (Nat.min (Z.to_nat (n * ch s)) (Z.to_nat (frames s * ch s))) with (Z.to_nat (n * ch s)) by nia.
  rewrite firstn_app. replace (Z.to_nat (n * ch s) - length (data s))%nat with 0%nat by (unfold len in *; nia).
  simpl. apply app_nil_r.
Qed.

(** * C15: the wrappers are total whatever the I/O layer transfers *)
Theorem write_ret_range fv n lim xs s : 0 < ch s ->
  let '(s', w) := api_write fv n lim xs s in
  0 <= w <= Z.max 0 n /\ (wcur s' = wcur s + (if fv then w else Z.quot w (ch s))) /\
  (frames s <= frames s') /\ (frames s' = frames s \/ frames s' = wcur s').
Proof.
  intros Hc. unfold api_write.
  destruct (n =? 0) eqn:E0; [simpl; zb; rewrite ?Z.quot_0_l by lia; destruct fv; lia|].
  destruct (n <? 0) eqn:E1; [simpl; rewrite ?Z.quot_0_l by lia; destruct fv; lia|].
  destruct (mode s =? c_SFM_READ) eqn:E2; [simpl; rewrite ?Z.quot_0_l by lia; destruct fv; lia|].
  destruct (negb fv && negb (Z.rem n (ch s) =? 0)) eqn:E3; [simpl; rewrite ?Z.quot_0_l by lia; destruct fv; lia|].
  zb. simpl.
  set (l := if fv then n * ch s else n).
  assert (Hl : 0 <= l) by (subst l; destruct fv; nia).
  set (count := Z.min l (Z.max 0 lim)).
  destruct (quot_bounds count (ch s) ltac:(subst count; lia) Hc) as [Hq0 Hq].
  destruct fv; subst l; split; try lia; try nia.
Qed.

(** the "whole number of frames" clause of C05 does NOT hold for the wrappers as coded when the data region
    carries a trailing partial frame (the pad byte after an odd-length data chunk): witness *)
Theorem read_whole_frames_refuted :
  exists s n, 0 < n /\ Z.rem n (ch s) = 0 /\ mode s = c_SFM_READ /\ 0 < ch s /\ frames s * ch s <= len (data s) /\
              Z.rem (ret (snd (api_read false n n s))) (ch s) <> 0.
Proof.
  exists (opened c_SFM_READ 3 [128; 128; 129; 0] 1), 9. vm_compute. repeat split; try reflexivity; discriminate.
Qed.

(** C15: whatever part of a write the I/O layer accepts (any [lim], including nothing), the items stored before the write
    position are not touched -- "data accepted before the failure is not corrupted by later calls" at the item level *)
Theorem write_any_outcome_keeps_prefix fv n lim xs s k :
  0 <= k -> k <= len (data s) ->
  k <= (if last_op s =? c_SFM_WRITE then cur s else wcur s * ch s) ->
  firstn (Z.to_nat k) (data (fst (api_write fv n lim xs s))) = firstn (Z.to_nat k) (data s).
Proof.
  intros Hk Hl Hc. unfold api_write.
  destruct (n =? 0); [reflexivity|].
  destruct (n <? 0); [reflexivity|].
  destruct (mode s =? c_SFM_READ); [reflexivity|].
  destruct (negb fv && negb (Z.rem n (ch s) =? 0)); [reflexivity|].
  cbn [fst data].
  match goal with |- context [if ?c then data s else _] => destruct c; [reflexivity|] end.
  apply firstn_overwrite_before; [|exact Hl].
  split; [exact Hk|]. destruct (last_op s =? c_SFM_WRITE); [exact Hc|]. unfold codec_seek, set_cur. cbn [cur]. exact Hc.
Qed.

(** C11: rewriting frames written earlier changes neither the frame count nor the length of the data region *)
Theorem overwrite_keeps_frames n xs s :
  wf s -> mode s <> c_SFM_READ -> 0 < n -> len xs = n * ch s -> wcur s + n <= frames s ->
  frames (fst (api_write true n (n * ch s) xs s)) = frames s /\
  len (data (fst (api_write true n (n * ch s) xs s))) = len (data s).
Proof.
  intros Hwf Hm Hn Hxs Hle.
  pose proof (write_effect n xs s Hwf Hm Hn Hxs) as H.
  destruct (api_write true n (n * ch s) xs s) as [s1 w]. cbn [fst].
  destruct H as (_ & H1 & _). destruct (H1 Hle) as (Hf & Hl & _). split; assumption.
Qed.

(** C04 -- a closed file describes exactly what was written into it.
    Models: Ext80.v (the AIFF sample-rate field), Stream.v (block writers / readers: frame count of the closed file), Api.v
    (frame count of sample-granular encodings).  Tie: K correspondence of the AIFF rate codec (static functions of aiff.c),
    the stored-code / frame-count prediction of C01 / C05, and the re-open oracle of checks/c04.py over every writable format,
    rates 1 .. 2^31-1, channel counts up to the maximum, all N, stale SF_INFO.frames. *)
From Coq Require Import ZArith List Lia Bool.
From SF Require Import Ext80 Ext80Proofs Stream StreamProofs.
Import ListNotations.
Local Open Scope Z_scope.

(** AIFF: every sample rate 1 <= r < 2^30 is reported back exactly (symbolic in r: case analysis on the position of the
    leading bit, linear arithmetic) *)
Theorem aiff_rate_field_exact : forall r, 1 <= r < 2 ^ 30 -> dec80 (enc80 r) = r.
Proof. exact ext80_roundtrip. Qed.
(** ... and not beyond: the statement for the whole range [1, 2^31-1] is false of the code *)
Theorem aiff_rate_field_refuted : exists r, 2 ^ 30 <= r < 2 ^ 31 /\ dec80 (enc80 r) <> r.
Proof. exact ext80_roundtrip_refuted. Qed.

(** block encodings: whatever the split of the N frames over write calls, the closed file holds F items with N <= F < N + B *)
Theorem block_file_frame_count : forall B, (0 < B)%nat -> forall enc dec : list Z -> list Z,
  (forall b, length b = B -> dec (enc b) = b) -> forall calls,
  let N := length (concat calls) in
  let F := length (read_all dec (written_file B enc calls)) in
  (N <= F < N + B)%nat.
Proof.
  intros B HB enc dec Hdec calls. cbn zeta.
  destruct (block_stream_roundtrip B HB enc dec Hdec calls) as (pad & Hr & Hp).
  rewrite Hr, app_length, repeat_length. lia.
Qed.

Print Assumptions aiff_rate_field_exact.
Print Assumptions block_file_frame_count.

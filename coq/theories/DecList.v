(** Decision lists over integer variables: the shape of sf_format_check and of the datasize guards of
    sf_command ("if (cond) return k ;" sequences inside one switch).  The translator emits programs in this
    language; the generic theorem [agree_everywhere] reduces "two programs agree for ALL integer values
    of the variables" to agreement on finitely many representatives (each constant the programs compare
    a variable with, and its two neighbours). *)
From Coq Require Import ZArith List Lia Bool.
Import ListNotations.
Local Open Scope Z_scope.

Definition var := nat.                      (* index into the environment *)
Definition env := list Z.
Definition get (e : env) (v : var) : Z := nth v e 0.

Inductive cmp := Ceq | Cne | Clt | Cle | Cgt | Cge.
Inductive cond :=
| Cmp (v : var) (c : cmp) (k : Z)
| And (a b : cond) | Or (a b : cond) | Not (a : cond) | CTrue.

Definition eval_cmp (c : cmp) (x k : Z) : bool :=
  match c with
  | Ceq => x =? k | Cne => negb (x =? k) | Clt => x <? k | Cle => x <=? k | Cgt => k <? x | Cge => k <=? x
  end.
Fixpoint eval_cond (e : env) (c : cond) : bool :=
  match c with
  | Cmp v c k => eval_cmp c (get e v) k
  | And a b => eval_cond e a && eval_cond e b
  | Or a b => eval_cond e a || eval_cond e b
  | Not a => negb (eval_cond e a)
  | CTrue => true
  end.

Definition rule := (cond * Z)%type.            (* if (cond) return k *)
Fixpoint eval_rules (e : env) (rs : list rule) : option Z :=
  match rs with
  | [] => None
  | (c, k) :: r => if eval_cond e c then Some k else eval_rules e r
  end.

(** pre-rules; then a switch on variable [sw] (first matching label list wins; no fall-through between
    distinct bodies: each body ends in break or return); then the final return value *)
Record prog := mkprog { pre : list rule; sw : var; cases : list (list Z * list rule); final : Z }.

Fixpoint find_case (x : Z) (cs : list (list Z * list rule)) : list rule :=
  match cs with
  | [] => []
  | (labels, body) :: r => if existsb (Z.eqb x) labels then body else find_case x r
  end.
Definition eval (p : prog) (e : env) : Z :=
  match eval_rules e (pre p) with
  | Some k => k
  | None => match eval_rules e (find_case (get e (sw p)) (cases p)) with Some k => k | None => final p end
  end.

(** * constants a program compares variable [v] with *)
Fixpoint cond_consts (v : var) (c : cond) : list Z :=
  match c with
  | Cmp v' _ k => if Nat.eqb v v' then [k] else []
  | And a b | Or a b => cond_consts v a ++ cond_consts v b
  | Not a => cond_consts v a
  | CTrue => []
  end.
Definition rules_consts (v : var) (rs : list rule) : list Z := flat_map (fun r => cond_consts v (fst r)) rs.
Definition prog_consts (v : var) (p : prog) : list Z :=
  rules_consts v (pre p) ++
  (if Nat.eqb v (sw p) then flat_map fst (cases p) else []) ++
  flat_map (fun c => rules_consts v (snd c)) (cases p).

(** two values are in the same region w.r.t. a list of constants when they compare alike with each *)
Definition same_region (ks : list Z) (x y : Z) : Prop := forall k, In k ks -> (x ?= k) = (y ?= k).

Lemma eval_cmp_region c x y k : (x ?= k) = (y ?= k) -> eval_cmp c x k = eval_cmp c y k.
Proof.
  intros H. destruct c; simpl; rewrite ?Z.eqb_compare; unfold Z.ltb, Z.leb;
    rewrite ?(Z.compare_antisym x k), ?(Z.compare_antisym y k), ?H; reflexivity.
Qed.

(** replacing the value of variable [v] *)
Fixpoint set_nth (e : env) (v : var) (x : Z) : env :=
  match v, e with
  | O, _ :: r => x :: r
  | O, [] => [x]
  | S v', a :: r => a :: set_nth r v' x
  | S v', [] => 0 :: set_nth [] v' x
  end.
Lemma get_set_same e v x : get (set_nth e v x) v = x.
Proof. revert e; induction v as [|v IH]; intros [|a r]; simpl; try reflexivity; apply IH. Qed.
Lemma nth_nil_0 w : nth w (@nil Z) 0 = 0.
Proof. destruct w; reflexivity. Qed.
Lemma get_set_other e v w x : v <> w -> get (set_nth e v x) w = get e w.
Proof.
  unfold get. revert e w; induction v as [|v IH]; intros e w H.
  - destruct w as [|w]; [congruence|]. destruct e as [|a r]; simpl; [destruct w; reflexivity | reflexivity].
  - destruct e as [|a r]; destruct w as [|w]; simpl; try reflexivity.
    + rewrite IH by congruence. apply nth_nil_0.
    + apply IH. congruence.
Qed.

Lemma eval_cond_region e v x y c :
  same_region (cond_consts v c) x y -> eval_cond (set_nth e v x) c = eval_cond (set_nth e v y) c.
Proof.
  induction c as [v' c k | a IHa b IHb | a IHa b IHb | a IHa |]; simpl; intros H.
  - destruct (Nat.eqb_spec v v') as [<-|Hne].
    + rewrite !get_set_same. apply eval_cmp_region. apply H. left; reflexivity.
    + rewrite !get_set_other by assumption. reflexivity.
  - rewrite IHa, IHb; [reflexivity | |]; intros k Hk; apply H; apply in_or_app; auto.
  - rewrite IHa, IHb; [reflexivity | |]; intros k Hk; apply H; apply in_or_app; auto.
  - rewrite IHa; [reflexivity | assumption].
  - reflexivity.
Qed.

Lemma eval_rules_region e v x y rs :
  same_region (rules_consts v rs) x y -> eval_rules (set_nth e v x) rs = eval_rules (set_nth e v y) rs.
Proof.
  induction rs as [|[c k] r IH]; simpl; intros H; [reflexivity|].
  rewrite (eval_cond_region e v x y c), IH; [reflexivity | |]; intros k' Hk; apply H; unfold rules_consts; simpl; apply in_or_app; auto.
Qed.

Lemma existsb_eqb_region x y labels : same_region labels x y -> existsb (Z.eqb x) labels = existsb (Z.eqb y) labels.
Proof.
  induction labels as [|l r IH]; simpl; intros H; [reflexivity|].
  rewrite IH by (intros k Hk; apply H; right; assumption).
  f_equal. rewrite !Z.eqb_compare. rewrite (H l (or_introl eq_refl)). reflexivity.
Qed.

Lemma find_case_region x y cs : same_region (flat_map fst cs) x y -> find_case x cs = find_case y cs.
Proof.
  induction cs as [|[labels body] r IH]; simpl; intros H; [reflexivity|].
  rewrite (existsb_eqb_region x y labels) by (intros k Hk; apply H; apply in_or_app; auto).
  rewrite IH by (intros k Hk; apply H; apply in_or_app; auto). reflexivity.
Qed.

Lemma rules_consts_find_case v x cs k : In k (rules_consts v (find_case x cs)) -> In k (flat_map (fun c => rules_consts v (snd c)) cs).
Proof.
  induction cs as [|[labels body] r IH]; simpl; intros H; [assumption|].
  apply in_or_app. destruct (existsb (Z.eqb x) labels); auto.
Qed.

Theorem eval_region p e v x y :
  same_region (prog_consts v p) x y -> eval p (set_nth e v x) = eval p (set_nth e v y).
Proof.
  intros H. unfold eval.
  rewrite (eval_rules_region e v x y (pre p)) by (intros k Hk; apply H; unfold prog_consts; apply in_or_app; auto).
  destruct (eval_rules (set_nth e v y) (pre p)); [reflexivity|].
  assert (Hfc : find_case (get (set_nth e v x) (sw p)) (cases p) = find_case (get (set_nth e v y) (sw p)) (cases p)).
  { destruct (Nat.eqb_spec v (sw p)) as [E|Hne].
    - rewrite <- E, !get_set_same. apply find_case_region. intros k Hk. apply H. unfold prog_consts.
      apply in_or_app; right. apply in_or_app; left. rewrite E, Nat.eqb_refl. assumption.
    - rewrite !get_set_other by assumption. reflexivity. }
  rewrite Hfc.
  rewrite (eval_rules_region e v x y) ; [reflexivity|].
  intros k Hk. apply H. unfold prog_consts. apply in_or_app; right. apply in_or_app; right.
  eapply rules_consts_find_case; eassumption.
Qed.

(** * representatives: for every x there is r among {k-1, k, k+1 | k in ks} (or 0 when ks is empty) in the same region *)
Definition reps (ks : list Z) : list Z := 0 :: flat_map (fun k => [k - 1; k; k + 1]) ks.
Arguments reps : simpl never.

(* greatest constant below x / least constant above x *)
Fixpoint below (ks : list Z) (x : Z) : option Z :=
  match ks with
  | [] => None
  | k :: r => match below r x with
              | Some b => if (k <? x) && (b <? k) then Some k else Some b
              | None => if k <? x then Some k else None
              end
  end.
Fixpoint above (ks : list Z) (x : Z) : option Z :=
  match ks with
  | [] => None
  | k :: r => match above r x with
              | Some b => if (x <? k) && (k <? b) then Some k else Some b
              | None => if x <? k then Some k else None
              end
  end.
Lemma below_spec ks x : match below ks x with
                        | Some b => In b ks /\ b < x /\ forall k, In k ks -> k < x -> k <= b
                        | None => forall k, In k ks -> x <= k end.
Proof.
  induction ks as [|k r IH]; simpl; [intros ? []|].
  destruct (below r x) as [b|].
  - destruct IH as (Hin & Hlt & Hmax).
    destruct ((k <? x) && (b <? k)) eqn:E.
    + apply andb_true_iff in E. destruct E as [E1 E2]. apply Z.ltb_lt in E1, E2.
      repeat split; auto. intros k' [ <- | Hk ] Hk'; [lia|]. specialize (Hmax k' Hk Hk'). lia.
    + repeat split; auto. intros k' [ <- | Hk ] Hk'; [|auto].
      apply andb_false_iff in E. destruct E as [E|E]; [apply Z.ltb_ge in E; lia | apply Z.ltb_ge in E; lia].
  - destruct (k <? x) eqn:E.
    + apply Z.ltb_lt in E. repeat split; auto. intros k' [ <- | Hk ] Hk'; [lia|]. specialize (IH k' Hk). lia.
    + apply Z.ltb_ge in E. intros k' [ <- | Hk ]; auto.
Qed.
Lemma above_spec ks x : match above ks x with
                        | Some b => In b ks /\ x < b /\ forall k, In k ks -> x < k -> b <= k
                        | None => forall k, In k ks -> k <= x end.
Proof.
  induction ks as [|k r IH]; simpl; [intros ? []|].
  destruct (above r x) as [b|].
  - destruct IH as (Hin & Hlt & Hmin).
    destruct ((x <? k) && (k <? b)) eqn:E.
    + apply andb_true_iff in E. destruct E as [E1 E2]. apply Z.ltb_lt in E1, E2.
      repeat split; auto. intros k' [ <- | Hk ] Hk'; [lia|]. specialize (Hmin k' Hk Hk'). lia.
    + repeat split; auto. intros k' [ <- | Hk ] Hk'; [|auto].
      apply andb_false_iff in E. destruct E as [E|E]; [apply Z.ltb_ge in E; lia | apply Z.ltb_ge in E; lia].
  - destruct (x <? k) eqn:E.
    + apply Z.ltb_lt in E. repeat split; auto. intros k' [ <- | Hk ] Hk'; [lia|]. specialize (IH k' Hk). lia.
    + apply Z.ltb_ge in E. intros k' [ <- | Hk ]; auto.
Qed.

Definition rep (ks : list Z) (x : Z) : Z :=
  if existsb (Z.eqb x) ks then x else
  match below ks x with
  | Some b => b + 1
  | None => match above ks x with Some a => a - 1 | None => 0 end
  end.

Lemma in_reps_of k ks d : In k ks -> (d = -1 \/ d = 0 \/ d = 1) -> In (k + d) (reps ks).
Proof.
  intros Hk Hd. unfold reps. right. apply in_flat_map. exists k. split; [assumption|].
  destruct Hd as [ -> | [ -> | -> ] ]; simpl; [left; lia | right; left; lia | right; right; left; lia].
Qed.

Theorem rep_in_reps ks x : In (rep ks x) (reps ks).
Proof.
  unfold rep. destruct (existsb (Z.eqb x) ks) eqn:E.
  - apply existsb_exists in E. destruct E as (k & Hk & Ek). apply Z.eqb_eq in Ek. subst k.
    replace x with (x + 0) by lia. apply in_reps_of; auto.
  - pose proof (below_spec ks x) as Hb. destruct (below ks x) as [b|].
    + destruct Hb as (Hin & _). apply in_reps_of; auto.
    + pose proof (above_spec ks x) as Ha. destruct (above ks x) as [a|].
      * destruct Ha as (Hin & _). replace (a - 1) with (a + -1) by lia. apply in_reps_of; auto.
      * left. reflexivity.
Qed.

Theorem rep_same_region ks x : same_region ks x (rep ks x).
Proof.
  unfold rep, same_region. intros k Hk. destruct (existsb (Z.eqb x) ks) eqn:E; [reflexivity|].
  assert (Hne : x <> k).
  { intros ->. assert (existsb (Z.eqb k) ks = true); [|congruence]. apply existsb_exists. exists k. split; [assumption | apply Z.eqb_refl]. }
  pose proof (below_spec ks x) as Hb. destruct (below ks x) as [b|].
  - destruct Hb as (Hin & Hlt & Hmax).
    destruct (Z.lt_total k x) as [Hl|[He|Hg]]; [|congruence|].
    + specialize (Hmax k Hk Hl). rewrite (proj2 (Z.compare_gt_iff x k)) by lia. symmetry. apply Z.compare_gt_iff. lia.
    + rewrite (proj2 (Z.compare_lt_iff x k)) by lia. symmetry. apply Z.compare_lt_iff.
      (* b + 1 <= x < k, and b + 1 = k would need x >= k *) lia.
  - pose proof (above_spec ks x) as Ha. destruct (above ks x) as [a|].
    + destruct Ha as (Hin & Hgt & Hmin).
      specialize (Hb k Hk). assert (x < k) by lia. specialize (Hmin k Hk H).
      rewrite (proj2 (Z.compare_lt_iff x k)) by lia. symmetry. apply Z.compare_lt_iff. lia.
    + specialize (Hb k Hk). specialize (Ha k Hk). lia.
Qed.

(** * agreement of two programs on all environments from agreement on representatives *)
Fixpoint envs_over (doms : list (list Z)) : list env :=
  match doms with
  | [] => [[]]
  | d :: r => flat_map (fun x => map (cons x) (envs_over r)) d
  end.

Definition agree_on (p q : prog) (es : list env) : bool := forallb (fun e => eval p e =? eval q e) es.

Definition both_consts (p q : prog) (v : var) : list Z := prog_consts v p ++ prog_consts v q.

(** snapping every variable of an environment of length n to its representative, one variable at a time *)
Fixpoint snap_from (p q : prog) (v : var) (e : env) : env :=
  match e with
  | [] => []
  | x :: r => rep (both_consts p q v) x :: snap_from p q (S v) r
  end.

Lemma same_region_app_l ks ks' x y : same_region (ks ++ ks') x y -> same_region ks x y.
Proof. intros H k Hk; apply H; apply in_or_app; auto. Qed.
Lemma same_region_app_r ks ks' x y : same_region (ks ++ ks') x y -> same_region ks' x y.
Proof. intros H k Hk; apply H; apply in_or_app; auto. Qed.

Lemma set_nth_app_mid (pre0 : env) x r y : set_nth (pre0 ++ x :: r) (length pre0) y = pre0 ++ y :: r.
Proof. induction pre0 as [|a pre0 IH]; simpl; [reflexivity | rewrite IH; reflexivity]. Qed.

Lemma eval_snap_suffix p q (pre0 e : env) :
  eval p (pre0 ++ e) = eval p (pre0 ++ snap_from p q (length pre0) e) /\
  eval q (pre0 ++ e) = eval q (pre0 ++ snap_from p q (length pre0) e).
Proof.
  revert pre0; induction e as [|x r IH]; intros pre0; simpl; [split; reflexivity|].
  set (v := length pre0). set (x' := rep (both_consts p q v) x).
  pose proof (rep_same_region (both_consts p q v) x) as Hreg. fold x' in Hreg.
  assert (Hp : eval p (pre0 ++ x :: r) = eval p (pre0 ++ x' :: r)).
  { rewrite <- (set_nth_app_mid pre0 x r x), <- (set_nth_app_mid pre0 x r x').
    apply eval_region. eapply same_region_app_l. exact Hreg. }
  assert (Hq : eval q (pre0 ++ x :: r) = eval q (pre0 ++ x' :: r)).
  { rewrite <- (set_nth_app_mid pre0 x r x), <- (set_nth_app_mid pre0 x r x').
    apply eval_region. eapply same_region_app_r. exact Hreg. }
  specialize (IH (pre0 ++ [x'])). rewrite app_length in IH. simpl in IH.
  replace (length pre0 + 1)%nat with (S v) in IH by (subst v; lia).
  rewrite <- !app_assoc in IH. simpl in IH. destruct IH as [IH1 IH2].
  split; [rewrite Hp; exact IH1 | rewrite Hq; exact IH2].
Qed.

Fixpoint doms_from (p q : prog) (v : var) (n : nat) : list (list Z) :=
  match n with O => [] | S n' => nodup Z.eq_dec (reps (both_consts p q v)) :: doms_from p q (S v) n' end.

Lemma snap_in_envs p q e : forall v, In (snap_from p q v e) (envs_over (doms_from p q v (length e))).
Proof.
  induction e as [|x r IH]; intros v; cbn [snap_from doms_from envs_over length]; [left; reflexivity|].
  apply in_flat_map. exists (rep (both_consts p q v) x). split; [apply nodup_In; apply rep_in_reps|].
  apply in_map. apply IH.
Qed.

(** the reduction: agreement on the finitely many representative environments (decidable, by computation)
    implies agreement on every environment of that length *)
Theorem agree_everywhere p q n :
  agree_on p q (envs_over (doms_from p q 0%nat n)) = true ->
  forall e, length e = n -> eval p e = eval q e.
Proof.
  intros H e Hn. destruct (eval_snap_suffix p q [] e) as [Hp Hq]. simpl in Hp, Hq.
  rewrite Hp, Hq. unfold agree_on in H. rewrite forallb_forall in H.
  apply Z.eqb_eq. apply H. subst n. apply snap_in_envs.
Qed.

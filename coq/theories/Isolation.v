(** Isolation.v -- several open handles in one process (C19).

    The system state is one private state per handle plus the process-wide cells.  A call on handle h computes its result and
    the new private state from h's private state alone ([hstep]); it may write process-wide cells ([gstep]) but no result
    depends on them.  Under that shape -- which the inventory of the library's writable globals is there to justify -- any
    interleaving of per-handle scripts gives every handle the transcript and final state of its solo run, whatever the
    process-wide cells held at the start. *)
From Coq Require Import ZArith List Bool Lia String.
Import ListNotations.
Local Open Scope Z_scope.

Section System.
Variables (S O Op G : Type).
Variable hstep : Op -> S -> S * O.          (* the call on its own handle *)
Variable gstep : Op -> S -> G -> G.         (* what it leaves in the process-wide cells *)

Definition handle := Z.
Definition sys : Type := (handle -> S) * G.

Definition upd (m : handle -> S) (h : handle) (s : S) : handle -> S := fun k => if k =? h then s else m k.

Definition sstep (st : sys) (c : handle * Op) : sys * (handle * O) :=
  let '(m, g) := st in
  let '(h, op) := c in
  let '(s', o) := hstep op (m h) in
  ((upd m h s', gstep op (m h) g), (h, o)).

Fixpoint srun (st : sys) (calls : list (handle * Op)) : sys * list (handle * O) :=
  match calls with
  | [] => (st, [])
  | c :: r => let '(st1, o) := sstep st c in let '(st2, os) := srun st1 r in (st2, o :: os)
  end.

(** one handle alone *)
Fixpoint solo (s : S) (ops : list Op) : S * list O :=
  match ops with
  | [] => (s, [])
  | op :: r => let '(s1, o) := hstep op s in let '(s2, os) := solo s1 r in (s2, o :: os)
  end.

Definition mine (h : handle) {A} (l : list (handle * A)) : list A := map snd (filter (fun c => fst c =? h) l).
End System.

(** the library's writable process-wide objects, by what the code does with them *)
Inductive gclass :=
  | Diagnostic      (* written by sf_open* / sf_close paths, read only through sf_error (NULL) / sf_strerror (NULL) / sf_command (NULL, SFC_GET_LOG_INFO) *)
  | Scratch         (* function-local static buffer, written and then read inside one call (a log message) *)
  | Generator       (* psf_rand_int32's state: unique ids and temporary file names only *)
  | Table.          (* initialised table that is never written (not declared const in the source) *)

Definition classified : list (string * gclass) := [
  ("sf_errno", Diagnostic); ("sf_parselog", Diagnostic); ("sf_syserr", Diagnostic);
  ("alac_error_string.errstr", Scratch); ("mat4_marker_to_str.str", Scratch); ("macos_guess_file_type.rsrc_name", Scratch);
  ("psf_rand_int32.value", Generator);
  ("SndfileErrors", Table); ("bad_header", Table); ("channel_mask_bits", Table); ("data_MARKER16", Table); ("fact_MARKER16", Table);
  ("fmt_MARKER16", Table); ("riff_MARKER16", Table); ("wave_MARKER16", Table); ("zero_chan", Table); ("one_chan", Table); ("two_chan", Table);
  ("three_chan", Table); ("four_chan", Table); ("five_chan", Table); ("six_chan", Table); ("seven_chan", Table); ("eight_chan", Table);
  ("gsm_A", Table); ("gsm_B", Table); ("gsm_DLB", Table); ("gsm_FAC", Table); ("gsm_H", Table); ("gsm_INVA", Table); ("gsm_MAC", Table);
  ("gsm_MIC", Table); ("gsm_NRFAC", Table); ("gsm_QLB", Table); ("major_formats", Table); ("map", Table); ("qtab_721", Table);
  ("qtab_723_16", Table); ("qtab_723_24", Table); ("qtab_723_40", Table); ("simple_formats", Table); ("subtype_formats", Table);
  ("svx_write_header.annotation", Table); ("wave_descs", Table); ("dwvw_close.last_values", Table)
]%string.

Definition class_of (name : string) : option gclass :=
  match find (fun p => String.eqb (fst p) name) classified with Some p => Some (snd p) | None => None end.

(** psf_rand_int32 (src/common.c): 4 + (value & 7) steps of a linear congruential generator modulo 2^31; the state is what is returned *)
Definition lcg (v : Z) : Z := Z.land (11117 * v + 211231) 2147483647.
Fixpoint iter (n : nat) (v : Z) : Z := match n with O => v | Datatypes.S k => iter k (lcg v) end.
Definition rand_next (v : Z) : Z := iter (Z.to_nat (4 + Z.land v 7)) v.

(** The 80-bit IEEE extended sample rate field of AIFF COMM chunks: uint2tenbytefloat / tenbytefloat2int of src/aiff.c
    (the first six bytes; the writer leaves the rest zero). *)
From Coq Require Import ZArith List Lia Bool.
Import ListNotations.
Local Open Scope Z_scope.

Definition enc80 (r : Z) : list Z :=
  if r <=? 1 then [63; 255; 128; 0; 0; 0]
  else if 2 ^ 30 <=? r then [64; 29; 0; 0; 0; 0]
  else let L := Z.log2 r in
       let n := r * 2 ^ (31 - L) in      (* num << (count + 1), count = 30 - L: the leading one lands on bit 31 *)
       [64; L - 1; n / 2 ^ 24 mod 256; n / 2 ^ 16 mod 256; n / 2 ^ 8 mod 256; n mod 256].

Definition dec80 (b : list Z) : Z :=
  match b with
  | [b0; b1; b2; b3; b4; b5] =>
      if 128 <=? b0 then 0
      else if b0 <=? 63 then 1
      else if 64 <? b0 then 67108864
      else if 28 <? b1 then 800000000
      else (b2 * 2 ^ 23 + b3 * 2 ^ 15 + b4 * 2 ^ 7 + b5 / 2) / 2 ^ (29 - b1)
  | _ => 0
  end.

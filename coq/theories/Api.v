(** The public read / write / seek / truncate wrappers of src/sndfile.c (sf_read_T, sf_readf_T,
    sf_write_T, sf_writef_T, sf_seek, SFC_FILE_TRUNCATE) over a sample-granular codec with
    psf_default_seek, as a state machine.

    The data region is a list of stored codes ([data], from psf->dataoffset to the end of the file,
    one element per item of [bytewidth] bytes); the conversion between codes and caller samples is
    PcmConv.v (applied by the driver, abstract here), the byte layout is Endian.v.  [cur] is the
    position of the shared file cursor, in items, relative to dataoffset.  [lim] is the fault
    oracle: the number of items the I/O layer is willing to transfer in this call. *)
From Coq Require Import ZArith List Lia Bool.
From SFGen Require Import Gen_Enums.
Import ListNotations.
Local Open Scope Z_scope.

Record st := mk {
  mode : Z;            (* SFM_READ / SFM_WRITE / SFM_RDWR *)
  ch : Z;              (* channels *)
  frames : Z;          (* psf->sf.frames *)
  rcur : Z;            (* psf->read_current *)
  wcur : Z;            (* psf->write_current *)
  last_op : Z;         (* psf->last_op *)
  err : Z;             (* psf->error *)
  cur : Z;             (* file cursor (items from dataoffset) *)
  data : list Z;       (* stored codes *)
  have_written : bool;
  seekable : bool
}.

Definition len {A} (l : list A) : Z := Z.of_nat (length l).
Definition slice (l : list Z) (a n : Z) : list Z := firstn (Z.to_nat n) (skipn (Z.to_nat a) l).
Definition zeros (n : Z) : list Z := repeat 0 (Z.to_nat n).
Definition pad (l : list Z) (n : Z) : list Z := l ++ zeros (n - len l).
(* pwrite at item offset a: a gap beyond the end is zero filled (as the OS / the memory store does) *)
Definition overwrite (l : list Z) (a : Z) (xs : list Z) : list Z :=
  firstn (Z.to_nat a) (pad l a) ++ xs ++ skipn (Z.to_nat (a + len xs)) l.
Definition resize (l : list Z) (n : Z) : list Z := firstn (Z.to_nat n) (pad l n).

Definition set_err (s : st) (e : Z) : st :=
  mk (mode s) (ch s) (frames s) (rcur s) (wcur s) (last_op s) e (cur s) (data s) (have_written s) (seekable s).
Definition set_cur (s : st) (c : Z) : st :=
  mk (mode s) (ch s) (frames s) (rcur s) (wcur s) (last_op s) (err s) c (data s) (have_written s) (seekable s).

(** what a read call did to the caller's buffer: [items] stored at the start, then the tail either
    zero filled or left untouched *)
Inductive tail := TZero (n : Z) | TUntouched (n : Z).
Record rout := mkr { ret : Z; items : list Z; rtail : tail }.

(** psf_default_seek (frame position -> cursor); cannot fail on a seekable store *)
Definition codec_seek (s : st) (pos : Z) : st := set_cur s (pos * ch s).

(** sf_read_T (fv = false, n items) / sf_readf_T (fv = true, n frames) *)
Definition api_read (fv : bool) (n lim : Z) (s : st) : st * rout :=
  if n =? 0 then (s, mkr 0 [] (TUntouched 0)) else
  let s0 := set_err s 0 in
  if n <? 0 then (set_err s c_SFE_NEGATIVE_RW_LEN, mkr 0 [] (TUntouched 0)) else
  if mode s =? c_SFM_WRITE then (set_err s c_SFE_NOT_READMODE, mkr 0 [] (TUntouched 0)) else
  if negb fv && negb (Z.rem n (ch s) =? 0) then (set_err s c_SFE_BAD_READ_ALIGN, mkr 0 [] (TUntouched 0)) else
  let l := if fv then n * ch s else n in
  if frames s <=? rcur s then (s0, mkr 0 [] (TZero l)) else
  let s1 := if last_op s =? c_SFM_READ then s0 else codec_seek s0 (rcur s) in
  let avail := Z.max 0 (len (data s1) - cur s1) in
  let count := Z.min (Z.min l avail) (Z.max 0 lim) in
  let got := slice (data s1) (cur s1) count in
  let cur' := cur s1 + count in
  if rcur s + Z.quot count (ch s) <=? frames s then
    (mk (mode s) (ch s) (frames s) (rcur s + Z.quot count (ch s)) (wcur s) c_SFM_READ 0 cur' (data s) (have_written s) (seekable s),
     mkr (if fv then Z.quot count (ch s) else count) got (TUntouched (l - count)))
  else
    let count' := (frames s - rcur s) * ch s in
    (mk (mode s) (ch s) (frames s) (frames s) (wcur s) c_SFM_READ 0 cur' (data s) (have_written s) (seekable s),
     mkr (if fv then Z.quot count' (ch s) else count') (firstn (Z.to_nat count') got) (TZero (l - count'))).

(** sf_write_T / sf_writef_T; [xs] = the codes of the caller's samples (length = items) *)
Definition api_write (fv : bool) (n lim : Z) (xs : list Z) (s : st) : st * Z :=
  if n =? 0 then (s, 0) else
  if n <? 0 then (set_err s c_SFE_NEGATIVE_RW_LEN, 0) else
  if mode s =? c_SFM_READ then (set_err s c_SFE_NOT_WRITEMODE, 0) else
  if negb fv && negb (Z.rem n (ch s) =? 0) then (set_err s c_SFE_BAD_WRITE_ALIGN, 0) else
  let l := if fv then n * ch s else n in
  let s1 := if last_op s =? c_SFM_WRITE then s else codec_seek s (wcur s) in
  let count := Z.min l (Z.max 0 lim) in
  let d' := if count =? 0 then data s else overwrite (data s) (cur s1) (firstn (Z.to_nat count) xs) in
  let w' := wcur s + Z.quot count (ch s) in
  (mk (mode s) (ch s) (Z.max (frames s) w') (rcur s) w' c_SFM_WRITE 0 (cur s1 + count) d' true (seekable s),
   if fv then Z.quot count (ch s) else count).

(** sf_seek *)
Definition SEEK_SET := 0. Definition SEEK_CUR := 1. Definition SEEK_END := 2.
Definition whence_mode (w : Z) : Z := Z.land w c_SFM_RDWR.     (* SFM_MASK *)

Inductive seek_target := SImmediate (r : Z) | STarget (pos : Z) | SBad (e : Z).
Definition seek_decode (s : st) (off w : Z) : seek_target :=
  let base := w - whence_mode w in
  let wm := whence_mode w in
  if (base =? SEEK_SET) then STarget off
  else if (w =? SEEK_CUR) then
    if (off =? 0) && (mode s =? c_SFM_READ) then SImmediate (rcur s)
    else if (off =? 0) && (mode s =? c_SFM_WRITE) then SImmediate (wcur s)
    else if mode s =? c_SFM_READ then STarget (rcur s + off)
    else if (mode s =? c_SFM_WRITE) || (mode s =? c_SFM_RDWR) then STarget (wcur s + off)
    else SBad c_SFE_AMBIGUOUS_SEEK
  else if (w =? SEEK_CUR + c_SFM_READ) then (if off =? 0 then SImmediate (rcur s) else STarget (rcur s + off))
  else if (w =? SEEK_CUR + c_SFM_WRITE) then (if off =? 0 then SImmediate (wcur s) else STarget (wcur s + off))
  else if (base =? SEEK_END) && negb (wm =? c_SFM_RDWR) then STarget (frames s + off)
  else SBad c_SFE_BAD_SEEK.

Definition api_seek (off w : Z) (s : st) : st * Z :=
  let s0 := set_err s 0 in
  if negb (seekable s) then (set_err s c_SFE_NOT_SEEKABLE, -1) else
  if ((whence_mode w =? c_SFM_WRITE) && (mode s =? c_SFM_READ)) || ((whence_mode w =? c_SFM_READ) && (mode s =? c_SFM_WRITE))
  then (set_err s c_SFE_WRONG_SEEK, -1) else
  match seek_decode s off w with
  | SImmediate r => (s0, r)
  | SBad e => (set_err s e, -1)
  | STarget pos =>
      if (pos <? 0) || (negb ((mode s =? c_SFM_RDWR) || (mode s =? c_SFM_WRITE)) && (frames s <? pos))
      then (set_err s c_SFE_BAD_SEEK, -1)
      else
        let nm := if whence_mode w =? 0 then mode s else whence_mode w in
        let c := pos * ch s in
        if nm =? c_SFM_READ then
          (mk (mode s) (ch s) (frames s) pos (wcur s) c_SFM_READ 0 c (data s) (have_written s) (seekable s), pos)
        else if nm =? c_SFM_WRITE then
          (mk (mode s) (ch s) (frames s) (rcur s) pos c_SFM_WRITE 0 c (data s) (have_written s) (seekable s), pos)
        else
          (mk (mode s) (ch s) (frames s) pos pos c_SFM_READ 0 c (data s) (have_written s) (seekable s), pos)
  end.

(** SFC_FILE_TRUNCATE with a well-formed argument; returns 0 on success, 1 (SF_TRUE) when refused *)
Definition api_truncate (n : Z) (s : st) : st * Z :=
  if negb ((mode s =? c_SFM_WRITE) || (mode s =? c_SFM_RDWR)) then (set_err s 0, 1) else
  let '(s1, r) := api_seek n SEEK_SET s in
  if negb (r =? n) then (s1, 1) else
  (mk (mode s1) (ch s1) n (rcur s1) (wcur s1) (last_op s1) (err s1) (cur s1) (resize (data s1) (cur s1)) (have_written s1) (seekable s1), 0).

(** operations and runs *)
Inductive op :=
| ORead (fv : bool) (n lim : Z)
| OWrite (fv : bool) (n lim : Z) (xs : list Z)
| OSeek (off w : Z)
| OTrunc (n : Z).

Inductive out := OutR (r : rout) | OutZ (z : Z).

Definition step (s : st) (o : op) : st * out :=
  match o with
  | ORead fv n lim => let '(s', r) := api_read fv n lim s in (s', OutR r)
  | OWrite fv n lim xs => let '(s', z) := api_write fv n lim xs s in (s', OutZ z)
  | OSeek off w => let '(s', z) := api_seek off w s in (s', OutZ z)
  | OTrunc n => let '(s', z) := api_truncate n s in (s', OutZ z)
  end.

Fixpoint run (s : st) (ops : list op) : st * list out :=
  match ops with
  | [] => (s, [])
  | o :: r => let '(s1, x) := step s o in let '(s2, xs) := run s1 r in (s2, x :: xs)
  end.

(** state right after a successful open (cursor at the start of the data) *)
Definition opened (m c : Z) (d : list Z) (fr : Z) : st :=
  mk m c fr 0 (if m =? c_SFM_RDWR then fr else 0) m 0 0 d ((m =? c_SFM_RDWR) && (0 <? fr)) true.

(** C13 -- custom chunks: any number set, all retrievable, audio untouched.
    Model: Chunks.v (src/chunk.c: the write table, the read table, the single per-handle iterator); proofs in
    ChunksProofs.v.  Tie: K correspondence of chunk.c (direct calls, PRNG histories of 0..230 operations crossing every
    capacity step) and the API-level oracle of checks/c13.py through WAV, RF64, AIFF and CAF. *)
From Coq Require Import ZArith List Lia Bool.
From SF Require Import Chunks ChunksProofs.
Import ListNotations.
Local Open Scope Z_scope.

(** however many chunks are set or parsed, the used part of a table never exceeds its allocation and the slot a store
    writes lies inside it (unbounded in the number of chunks: induction over the list) *)
Theorem write_table_never_overflows : forall cs t, cap_ok t -> cap_ok (run_saves t cs) /\ used (run_saves t cs) = used t + len cs.
Proof. exact saves_capacity. Qed.
Theorem write_slot_inside_allocation : forall t i d, cap_ok t ->
  cap_ok (save_write t i d) /\ used (save_write t i d) = used t + 1 /\ used t < count (save_write t i d).
Proof. exact save_write_cap. Qed.
Theorem read_table_never_overflows : forall cs t, cap_ok t -> cap_ok (run_stores t cs) /\ used (run_stores t cs) = used t + len cs.
Proof. exact stores_capacity. Qed.

(** chunks are kept in the order they were stored, none is dropped (not even the one that triggers a growth step) *)
Theorem chunks_stored_in_order : forall cs t, cap_ok t -> chunks (run_stores t cs) = chunks t ++ cs.
Proof. exact stores_in_order. Qed.

(** the stored payload is the caller's bytes, zero padded to the 4-byte alignment *)
Theorem payload_kept_and_padded : forall t i d, cap_ok t ->
  exists c, chunks (save_write t i d) = chunks t ++ [c] /\ firstn (length d) (cdata c) = d /\ len (cdata c) = clen c /\
            clen c mod 4 = 0 /\ len d <= clen c < len d + 4 /\ cid c = i.
Proof. exact saved_payload_padded. Qed.

(** full iteration visits every stored chunk exactly once, in order, then ends *)
Theorem full_iteration_visits_each_chunk_once : forall t, iterate t None = map Z.of_nat (seq 0 (length (chunks t))).
Proof. exact iterate_all. Qed.
(** iteration by identifier visits exactly the chunks with that identifier's hash, each once, in order *)
Theorem iteration_by_id_visits_matching_chunks : forall t id, hash_of_id id <> 0 ->
  iterate t (Some id) = matches (chunks t) 0 (hash_of_id id).
Proof. exact iterate_by_id. Qed.

(** sf_get_chunk_data copies at most the caller's datalen bytes *)
Theorem get_chunk_data_bounded : forall datalen clen, 0 <= datalen -> 0 <= clen ->
  0 <= copy_len datalen clen <= datalen /\ copy_len datalen clen <= clen.
Proof. exact copy_bounded. Qed.

Example c13_witness :
  let t := run_saves empty (map (fun k => ([84; 101; 115; 116], [k])) (map Z.of_nat (seq 0 33))) in
  cap_ok t /\ used t = 33 /\ count t = 48.
Proof. vm_compute. split; [right; split; [reflexivity | discriminate] | split; reflexivity]. Qed.

Print Assumptions write_table_never_overflows.
Print Assumptions chunks_stored_in_order.
Print Assumptions full_iteration_visits_each_chunk_once.
Print Assumptions iteration_by_id_visits_matching_chunks.
Print Assumptions payload_kept_and_padded.

From Coq Require Import ZArith List Lia Bool.
From SF Require Import Chunks.
Import ListNotations.
Local Open Scope Z_scope.
Ltac Zify.zify_post_hook ::= Z.div_mod_to_equations.

Lemma len_app {A} (a b : list A) : len (a ++ b) = len a + len b. Proof. unfold len; rewrite app_length; lia. Qed.
Lemma grow_gt c : 0 < c -> c < grow c. Proof. unfold grow; intros; lia. Qed.

(** capacity: the used part never exceeds the allocation, and the slot written by a store lies inside it *)
Definition cap_ok (t : table) : Prop := (count t = 0 /\ chunks t = []) \/ (0 < count t /\ used t <= count t).

Lemma store_read_cap t c : cap_ok t -> cap_ok (store_read t c) /\ used (store_read t c) = used t + 1 /\ used t < count (store_read t c).
Proof.
  unfold cap_ok, store_read, used. intros [[Hc Hn] | [Hc Hu]].
  - rewrite Hc, Hn. simpl. split; [right; unfold len; simpl; lia | unfold len; simpl; lia].
  - destruct (count t =? 0) eqn:E0; [apply Z.eqb_eq in E0; lia|].
    destruct (len (chunks t) =? count t) eqn:E1; simpl; rewrite len_app; unfold len in *; simpl length.
    + apply Z.eqb_eq in E1. pose proof (grow_gt (count t) Hc). split; [right; lia | lia].
    + apply Z.eqb_neq in E1. split; [right; lia | lia].
Qed.

Lemma save_write_cap t i d : cap_ok t -> cap_ok (save_write t i d) /\ used (save_write t i d) = used t + 1 /\ used t < count (save_write t i d).
Proof.
  unfold cap_ok, save_write, used. intros [[Hc Hn] | [Hc Hu]].
  - rewrite Hc, Hn. simpl. split; [right; unfold len; simpl; lia | unfold len; simpl; lia].
  - destruct (count t =? 0) eqn:E0; [apply Z.eqb_eq in E0; lia|].
    destruct (count t <=? len (chunks t)) eqn:E1; simpl; rewrite len_app; unfold len in *; simpl length.
    + apply Z.leb_le in E1. pose proof (grow_gt (count t) Hc). split; [right; lia | lia].
    + apply Z.leb_gt in E1. split; [right; lia | lia].
Qed.

Theorem stores_capacity cs : forall t, cap_ok t -> cap_ok (run_stores t cs) /\ used (run_stores t cs) = used t + len cs.
Proof.
  induction cs as [|c r IH]; intros t H; simpl; [split; [assumption | unfold len; simpl; lia]|].
  destruct (store_read_cap t c H) as (H1 & H2 & _). destruct (IH _ H1) as [H3 H4].
  split; [assumption|]. rewrite H4, H2. unfold len; simpl length; lia.
Qed.
Theorem saves_capacity cs : forall t, cap_ok t -> cap_ok (run_saves t cs) /\ used (run_saves t cs) = used t + len cs.
Proof.
  induction cs as [|[i d] r IH]; intros t H; simpl; [split; [assumption | unfold len; simpl; lia]|].
  destruct (save_write_cap t i d H) as (H1 & H2 & _). destruct (IH _ H1) as [H3 H4].
  split; [assumption|]. rewrite H4, H2. unfold len; simpl length; lia.
Qed.

(** chunks are kept in the order they were stored *)
Lemma store_read_chunks t c : cap_ok t -> chunks (store_read t c) = chunks t ++ [c].
Proof.
  unfold store_read, cap_ok. intros [[Hc Hn] | [Hc Hu]].
  - rewrite Hc, Hn. reflexivity.
  - destruct (count t =? 0) eqn:E; [apply Z.eqb_eq in E; lia|]. destruct (used t =? count t); reflexivity.
Qed.
Theorem stores_in_order cs : forall t, cap_ok t -> chunks (run_stores t cs) = chunks t ++ cs.
Proof.
  induction cs as [|c r IH]; intros t H; simpl; [rewrite app_nil_r; reflexivity|].
  destruct (store_read_cap t c H) as (H1 & _). rewrite IH by assumption. rewrite store_read_chunks by assumption.
  rewrite <- app_assoc. reflexivity.
Qed.

(** * iteration *)
(* indices (counted from k) of the elements of l with hash h *)
Fixpoint matches (l : list chunk) (k : Z) (h : Z) : list Z :=
  match l with [] => [] | c :: r => if chash c =? h then k :: matches r (k + 1) h else matches r (k + 1) h end.

Lemma find_from_matches l k h : find_from l k h = hd_error (matches l k h).
Proof. revert k; induction l as [|c r IH]; intros k; simpl; [reflexivity|]. destruct (chash c =? h); [reflexivity | apply IH]. Qed.

Lemma skipn_S_nth {A} (l : list A) n x r : skipn n l = x :: r -> skipn (S n) l = r.
Proof. revert l; induction n as [|n IH]; intros [|y ys] H; simpl in *; try discriminate; [inversion H; reflexivity | apply IH; assumption]. Qed.

(* visiting with a filter, starting from the suffix of the chunk list at position k *)
Lemma matches_tail l k h j rest : matches l k h = j :: rest ->
  k <= j /\ rest = matches (skipn (Z.to_nat (j + 1 - k)) l) (j + 1) h.
Proof.
  revert k; induction l as [|c r IH]; intros k H; simpl in H; [discriminate|].
  destruct (chash c =? h).
  - inversion H; subst. split; [lia|]. replace (Z.to_nat (j + 1 - j)) with 1%nat by lia. reflexivity.
  - destruct (IH _ H) as [H1 H2]. split; [lia|].
    replace (Z.to_nat (j + 1 - k)) with (S (Z.to_nat (j + 1 - (k + 1)))) by lia. simpl. exact H2.
Qed.

Lemma matches_length l k h : (length (matches l k h) <= length l)%nat.
Proof. revert k; induction l as [|c r IH]; intros k; simpl; [lia|]. destruct (chash c =? h); simpl; specialize (IH (k + 1)); lia. Qed.

Lemma skipn_skipn' {A} (a b : nat) (l : list A) : skipn a (skipn b l) = skipn (b + a) l.
Proof. revert l; induction b as [|b IH]; intros l; simpl; [reflexivity|]. destruct l; [destruct a; reflexivity | apply IH]. Qed.

Lemma visit_filtered t h : h <> 0 -> forall fuel k,
  0 <= k -> (length (matches (skipn (Z.to_nat k) (chunks t)) k h) < fuel)%nat ->
  visit t fuel (match find_hash t k h with Some j => Some (mki j h) | None => None end) = matches (skipn (Z.to_nat k) (chunks t)) k h.
Proof.
  intros Hh. induction fuel as [|f IH]; intros k Hk Hlen; [lia|].
  unfold find_hash. rewrite find_from_matches.
  destruct (matches (skipn (Z.to_nat k) (chunks t)) k h) as [|j rest] eqn:E; simpl; [reflexivity|].
  f_equal. unfold next_iterator. simpl. destruct (h =? 0) eqn:E0; [apply Z.eqb_eq in E0; contradiction|]. simpl.
  destruct (matches_tail _ _ _ _ _ E) as [Hkj Hrest].
  rewrite skipn_skipn' in Hrest. replace (Z.to_nat k + Z.to_nat (j + 1 - k))%nat with (Z.to_nat (j + 1)) in Hrest by lia.
  rewrite Hrest. apply IH; [lia|]. rewrite <- Hrest. simpl in Hlen. lia.
Qed.

(** iteration by id visits exactly the chunks whose hash is the id's hash, each once, in order *)
Theorem iterate_by_id t id : hash_of_id id <> 0 ->
  iterate t (Some id) = matches (chunks t) 0 (hash_of_id id).
Proof.
  intros Hh. unfold iterate, get_iterator.
  pose proof (visit_filtered t (hash_of_id id) Hh (S (length (chunks t))) 0 ltac:(lia)) as H. simpl skipn in H.
  apply H. pose proof (matches_length (chunks t) 0 (hash_of_id id)). lia.
Qed.

Lemma visit_all t : forall fuel k, 0 <= k < used t -> (Z.to_nat (used t - k) <= fuel)%nat ->
  visit t fuel (Some (mki k 0)) = map Z.of_nat (seq (Z.to_nat k) (Z.to_nat (used t - k))).
Proof.
  induction fuel as [|f IH]; intros k Hk Hf; [lia|].
  simpl. unfold next_iterator. simpl.
  replace (Z.to_nat (used t - k)) with (S (Z.to_nat (used t - (k + 1)))) by lia. simpl. f_equal; [lia|].
  destruct (k + 1 <? used t) eqn:E.
  - apply Z.ltb_lt in E. rewrite IH by lia. replace (S (Z.to_nat k)) with (Z.to_nat (k + 1)) by lia. reflexivity.
  - apply Z.ltb_ge in E. replace (Z.to_nat (used t - (k + 1))) with 0%nat by lia. destruct f; reflexivity.
Qed.

(** iteration over all chunks visits every index 0 .. used-1 exactly once, in order, then stops *)
Theorem iterate_all t : iterate t None = map Z.of_nat (seq 0 (length (chunks t))).
Proof.
  unfold iterate, get_iterator. destruct (0 <? used t) eqn:E.
  - apply Z.ltb_lt in E. rewrite visit_all by (unfold used, len in *; lia).
    unfold used, len. f_equal. f_equal. lia.
  - apply Z.ltb_ge in E. unfold used, len in E. destruct (chunks t); [reflexivity | simpl in E; lia].
Qed.

(** at most the caller's datalen bytes are copied *)
Theorem copy_bounded datalen clen : 0 <= datalen -> 0 <= clen -> 0 <= copy_len datalen clen <= datalen /\ copy_len datalen clen <= clen.
Proof. unfold copy_len; lia. Qed.

(** the stored payload is the caller's bytes followed by zero padding up to a multiple of 4 (alignment) *)
Theorem saved_payload_padded t i d : cap_ok t ->
  exists c, chunks (save_write t i d) = chunks t ++ [c] /\ firstn (length d) (cdata c) = d /\ len (cdata c) = clen c /\
            clen c mod 4 = 0 /\ len d <= clen c < len d + 4 /\ cid c = i.
Proof.
  intros H. unfold save_write.
  set (c := mkc _ _ _ _ _).
  exists c. split.
  - unfold cap_ok in H. destruct H as [[Hc Hn] | [Hc Hu]]; [rewrite Hc, Hn; reflexivity|].
    destruct (count t =? 0) eqn:E; [apply Z.eqb_eq in E; lia|]. destruct (count t <=? used t); reflexivity.
  - subst c. simpl. unfold pad4. assert (0 <= len d) by (unfold len; lia).
    repeat split; try lia.
    + rewrite firstn_app, Nat.sub_diag, firstn_all. simpl. apply app_nil_r.
    + rewrite len_app. unfold len at 2. rewrite repeat_length. lia.
Qed.

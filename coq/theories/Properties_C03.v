(** C03 -- arbitrary input bytes never cause memory errors, hangs or insane info  (PARTIAL: the logic cores are theorems, the
    memory safety of the ~25 format parsers and the wall-clock bound are exercised by the mutation harness only).
    Models: HeaderCache.v (the cache every parser reads through), OpenGate.v over Gen_Gate.v (validate_sfinfo translated from
    the source on every run), Api.v (reads never write outside the requested region: Properties_C05).
    Ties: K correspondence of header_read / header_seek under fault injection and of validate_sfinfo; structure-aware
    mutation runs under ASan / UBSan with guard-banded buffers and a time budget (checks/c03.py). *)
From Coq Require Import ZArith List Lia Bool.
From SF Require Import DecList HeaderCache HeaderCacheProofs OpenGate Api ApiProofs.
From SFGen Require Import Gen_Enums Gen_Gate.
Import ListNotations.
Local Open Scope Z_scope.

(** every history of header reads and seeks -- sizes and positions taken from untrusted header bytes, arbitrary I/O outcomes --
    keeps 0 <= indx <= len, 0 <= end <= len <= 100 KiB, and reads / writes the cache only inside its allocation *)
Theorem header_cache_never_leaves_its_allocation : forall ops s, HeaderCache.inv s -> Forall HeaderCache.op_ok ops ->
  let '(s', es) := HeaderCache.run s ops in HeaderCache.inv s' /\ Forall (ext_ok (hlen s')) es.
Proof. exact header_cache_safe. Qed.

(** a handle is only returned when validate_sfinfo accepts: then the SF_INFO is sane *)
Theorem accepted_info_is_sane : forall samplerate frames channels container codec sections,
  eval gate_prog [samplerate; frames; channels; container; codec; sections] = 1 ->
  1 <= samplerate /\ 0 <= frames /\ 1 <= channels <= 1024 /\ container <> 0 /\ codec <> 0 /\ 1 <= sections.
Proof. exact open_gate_sane. Qed.

(** a read call on any accepted handle touches exactly the requested region of the caller's buffer (whatever the codec
    transfers): the wrapper part of "never writes outside the caller-supplied buffers" *)
Theorem read_stays_in_callers_buffer : forall fv n lim s,
  0 < ch s -> 0 <= frames s -> 0 <= rcur s -> 0 <= cur s -> 0 < n -> mode s <> c_SFM_WRITE -> (fv = false -> Z.rem n (ch s) = 0) ->
  let '(s', r) := api_read fv n lim s in
  (frames s <= rcur s \/ Api.len (items r) + tail_n (rtail r) = req fv n s) /\ 0 <= tail_n (rtail r) /\
  (frames s <= rcur s -> items r = [] /\ rtail r = TZero (req fv n s) /\ ret r = 0 /\ err s' = 0).
Proof. exact read_extent. Qed.

Example c03_witness : HeaderCache.inv (mkh 0 0 256) /\
  fst (HeaderCache.run (mkh 0 0 256) [HeaderCache.ORead 12 12; HeaderCache.OSet 300 100; HeaderCache.OCur (-5) 3; HeaderCache.ORead 4000 9; HeaderCache.ORead 150000 9]) = mkh 115 115 8000.
Proof. split; [unfold HeaderCache.inv, LIMIT; simpl; lia | reflexivity]. Qed.

Print Assumptions header_cache_never_leaves_its_allocation.
Print Assumptions accepted_info_is_sane.

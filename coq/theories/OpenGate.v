(** The gate every successful sf_open passes: validate_sfinfo (translated from src/sndfile.c into Gen_Gate.v on every run).
    A handle is only returned when the gate answers 1, so the SF_INFO the caller receives satisfies [sane]. *)
From Coq Require Import ZArith List Lia Bool.
From SF Require Import DecList.
From SFGen Require Import Gen_Enums Gen_Gate.
Import ListNotations.
Local Open Scope Z_scope.

(* [samplerate; frames; channels; container; codec; sections] *)
Definition sane (e : env) : Prop :=
  1 <= get e 0%nat /\ 0 <= get e 1%nat /\ 1 <= get e 2%nat <= 1024 /\ get e 3%nat <> 0 /\ get e 4%nat <> 0 /\ 1 <= get e 5%nat.

(** the readable statement of the gate, in the same language *)
Definition gate_spec : prog :=
  mkprog [ (Cmp 0%nat Clt 1, 0); (Cmp 1%nat Clt 0, 0); (Or (Cmp 2%nat Clt 1) (Cmp 2%nat Cgt 1024), 0);
           (Cmp 3%nat Ceq 0, 0); (Cmp 4%nat Ceq 0, 0); (Cmp 5%nat Clt 1, 0) ] 0%nat [] 1.

Lemma gate_agrees_check : agree_on gate_prog gate_spec (envs_over (doms_from gate_prog gate_spec 0%nat 6)) = true.
Proof. vm_compute. reflexivity. Qed.

Lemma gate_is_spec : forall e, length e = 6%nat -> eval gate_prog e = eval gate_spec e.
Proof. exact (agree_everywhere gate_prog gate_spec 6 gate_agrees_check). Qed.

Lemma spec_sound e : eval gate_spec e = 1 -> sane e.
Proof.
  unfold eval, gate_spec, sane. cbn [pre sw cases final eval_rules eval_cond eval_cmp find_case].
  destruct (get e 0%nat <? 1) eqn:E0; [discriminate|].
  destruct (get e 1%nat <? 0) eqn:E1; [discriminate|].
  destruct ((get e 2%nat <? 1) || (1024 <? get e 2%nat)) eqn:E2; [discriminate|].
  destruct (get e 3%nat =? 0) eqn:E3; [discriminate|].
  destruct (get e 4%nat =? 0) eqn:E4; [discriminate|].
  destruct (get e 5%nat <? 1) eqn:E5; [discriminate|].
  intros _. apply orb_false_iff in E2. destruct E2 as [E2a E2b].
  apply Z.ltb_ge in E0, E1, E2a, E2b, E5. apply Z.eqb_neq in E3, E4. repeat split; try lia; assumption.
Qed.

(** whatever header bytes led to it: if validate_sfinfo accepts, the SF_INFO is sane *)
Theorem open_gate_sane : forall samplerate frames channels container codec sections,
  eval gate_prog [samplerate; frames; channels; container; codec; sections] = 1 ->
  1 <= samplerate /\ 0 <= frames /\ 1 <= channels <= 1024 /\ container <> 0 /\ codec <> 0 /\ 1 <= sections.
Proof.
  intros sr fr ch co cd se H. rewrite gate_is_spec in H by reflexivity. apply spec_sound in H. exact H.
Qed.

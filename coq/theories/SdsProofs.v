From Coq Require Import ZArith List Lia Bool.
From SF Require Import Sds.
Import ListNotations.
Local Open Scope Z_scope.

Lemma lor_shift_add a b k : 0 <= k -> 0 <= b < 2 ^ k -> Z.lor (a * 2 ^ k) b = a * 2 ^ k + b.
Proof.
  intros Hk Hb. assert (L0 : Z.land (a * 2 ^ k) b = 0); [| rewrite (Z.add_nocarry_lxor _ _ L0); symmetry; apply Z.lxor_lor; exact L0].
  apply Z.bits_inj'. intros n Hn.
  rewrite Z.land_spec, Z.bits_0. destruct (Z.lt_ge_cases n k) as [L|G].
  - rewrite Z.mul_pow2_bits_low by lia. reflexivity.
  - destruct (Z.eq_dec b 0) as [->|Nz]; [rewrite Z.bits_0; apply andb_false_r|].
    rewrite (Z.bits_above_log2 b n); [apply andb_false_r | lia |].
    apply Z.log2_lt_pow2; [lia|]. apply Z.lt_le_trans with (2 ^ k); [lia|]. apply Z.pow_le_mono_r; lia.
Qed.

Lemma lor_add a b k : 0 <= k -> a mod 2 ^ k = 0 -> 0 <= b < 2 ^ k -> Z.lor a b = a + b.
Proof.
  intros Hk Ha Hb. assert (P : 0 < 2 ^ k) by (apply Z.pow_pos_nonneg; lia).
  rewrite (Z.div_mod a (2 ^ k)) at 1 2 by lia. rewrite Ha, Z.add_0_r, (Z.mul_comm (2 ^ k)).
  apply lor_shift_add; assumption.
Qed.

Definition is_int32 x := - 2 ^ 31 <= x < 2 ^ 31.

Ltac Zify.zify_post_hook ::= Z.div_mod_to_equations.

Theorem sds3_roundtrip s : is_int32 s -> unpack (pack3 s) = s / 2 ^ 11 * 2 ^ 11.
Proof.
  unfold is_int32, pack3, unpack, u32, s32. intros R.
  change (2 ^ 32) with 4294967296 in *. change (2 ^ 31) with 2147483648 in *. change (2 ^ 25) with 33554432.
  change (2 ^ 18) with 262144. change (2 ^ 11) with 2048.
  rewrite (Z.mod_small (s + 2147483648)) by lia.
  set (u := s + 2147483648) in *. assert (U : 0 <= u < 4294967296) by lia.
  set (b0 := u / 33554432 mod 128). set (b1 := u / 262144 mod 128). set (b2 := u / 2048 mod 128).
  assert (B0 : 0 <= b0 < 128) by (apply Z.mod_pos_bound; lia).
  assert (B1 : 0 <= b1 < 128) by (apply Z.mod_pos_bound; lia).
  assert (B2 : 0 <= b2 < 128) by (apply Z.mod_pos_bound; lia).
  rewrite (Z.mod_small (b0 * 33554432)) by lia.
  rewrite (lor_add (b0 * 33554432) (b1 * 262144) 25) by (try change (2 ^ 25) with 33554432; lia).
  rewrite (lor_add (b0 * 33554432 + b1 * 262144) (b2 * 2048) 18) by (try change (2 ^ 18) with 262144; lia).
  subst b0 b1 b2 u. lia.
Qed.

Theorem sds2_roundtrip s : is_int32 s -> unpack (pack2 s) = s / 2 ^ 18 * 2 ^ 18.
Proof.
  unfold is_int32, pack2, unpack, u32, s32. intros R.
  change (2 ^ 32) with 4294967296 in *. change (2 ^ 31) with 2147483648 in *. change (2 ^ 25) with 33554432.
  change (2 ^ 18) with 262144.
  rewrite (Z.mod_small (s + 2147483648)) by lia.
  set (u := s + 2147483648) in *. assert (U : 0 <= u < 4294967296) by lia.
  set (b0 := u / 33554432 mod 128). set (b1 := u / 262144 mod 128).
  assert (B0 : 0 <= b0 < 128) by (apply Z.mod_pos_bound; lia).
  assert (B1 : 0 <= b1 < 128) by (apply Z.mod_pos_bound; lia).
  rewrite (Z.mod_small (b0 * 33554432)) by lia. rewrite (Z.mod_small (b1 * 262144)) by lia.
  rewrite (lor_add (b0 * 33554432) (b1 * 262144) 25) by (try change (2 ^ 25) with 33554432; lia).
  subst b0 b1 u. lia.
Qed.

Theorem sds4_roundtrip s : is_int32 s -> unpack (pack4 s) = s / 2 ^ 4 * 2 ^ 4.
Proof.
  unfold is_int32, pack4, unpack, u32, s32. intros R.
  change (2 ^ 32) with 4294967296 in *. change (2 ^ 31) with 2147483648 in *. change (2 ^ 25) with 33554432.
  change (2 ^ 18) with 262144. change (2 ^ 11) with 2048. change (2 ^ 4) with 16.
  rewrite (Z.mod_small (s + 2147483648)) by lia.
  set (u := s + 2147483648) in *. assert (U : 0 <= u < 4294967296) by lia.
  set (b0 := u / 33554432 mod 128). set (b1 := u / 262144 mod 128). set (b2 := u / 2048 mod 128). set (b3 := u / 16 mod 128).
  assert (B0 : 0 <= b0 < 128) by (apply Z.mod_pos_bound; lia).
  assert (B1 : 0 <= b1 < 128) by (apply Z.mod_pos_bound; lia).
  assert (B2 : 0 <= b2 < 128) by (apply Z.mod_pos_bound; lia).
  assert (B3 : 0 <= b3 < 128) by (apply Z.mod_pos_bound; lia).
  rewrite (Z.mod_small (b0 * 33554432)) by lia.
  rewrite (lor_add (b0 * 33554432) (b1 * 262144) 25) by (try change (2 ^ 25) with 33554432; lia).
  rewrite (lor_add (b0 * 33554432 + b1 * 262144) (b2 * 2048) 18) by (try change (2 ^ 18) with 262144; lia).
  rewrite (lor_add (b0 * 33554432 + b1 * 262144 + b2 * 2048) (b3 * 16) 11) by (try change (2 ^ 11) with 2048; lia).
  subst b0 b1 b2 b3 u. lia.
Qed.

(** hence the subtypes the container offers are lossless for ints whose low bits are zero: PCM_S8 (2 bytes, 14 bits kept),
    PCM_16 (3 bytes, 21 bits), PCM_24 (4 bytes, 28 bits) *)
Corollary sds_lossless_16 s : is_int32 s -> s mod 2 ^ 16 = 0 -> unpack (pack3 s) = s.
Proof. intros R M. rewrite sds3_roundtrip by assumption. unfold is_int32 in R. change (2 ^ 16) with 65536 in M. change (2 ^ 11) with 2048. lia. Qed.
Corollary sds_lossless_8 s : is_int32 s -> s mod 2 ^ 24 = 0 -> unpack (pack2 s) = s.
Proof. intros R M. rewrite sds2_roundtrip by assumption. change (2 ^ 24) with 16777216 in M. change (2 ^ 18) with 262144. lia. Qed.
Corollary sds_lossless_24 s : is_int32 s -> s mod 2 ^ 8 = 0 -> unpack (pack4 s) = s.
Proof. intros R M. rewrite sds4_roundtrip by assumption. change (2 ^ 8) with 256 in M. change (2 ^ 4) with 16. lia. Qed.

(** every packed byte is a MIDI data byte (bit 7 clear) *)
Theorem sds_bytes_are_7bit s : Forall (fun b => 0 <= b < 128) (pack2 s ++ pack3 s ++ pack4 s).
Proof. unfold pack2, pack3, pack4. cbn [app]. repeat constructor; apply Z.mod_pos_bound; lia. Qed.

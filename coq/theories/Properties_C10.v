(** C10 -- sf_format_check agrees with what can really be written; format lists are sound.
    [fc] is the translation of sf_format_check regenerated from src/sndfile.c on every run (T2,
    translator/fc2gallina.py); [writable] is the hand-written write-mode table of Writable.v, tied to the
    implementation by the complete grid enumeration of checks/c10.py; the lists are regenerated through the
    enumeration commands (T1).  Proofs in WritableProofs.v / DecList.v. *)
From Coq Require Import ZArith List Lia Bool.
From SF Require Import DecList Writable WritableProofs.
From SFGen Require Import Gen_Enums Gen_FormatCheck Gen_Formats.
Import ListNotations.
Local Open Scope Z_scope.

(** for EVERY channel count and EVERY sample rate other than 0, and every enumerated container x encoding (any
    endian bits), sf_format_check returns exactly what the write-mode table says *)
Theorem format_check_agrees_with_write_table_partial : forall format channels samplerate,
  In (Z.land format c_SF_FORMAT_TYPEMASK) majors -> In (Z.land format c_SF_FORMAT_SUBMASK) subtypes -> samplerate <> 0 ->
  fc format channels samplerate = writable format channels samplerate.
Proof. exact format_check_iff_writable. Qed.

(** the full statement (no restriction on the rate) is false of the code: sample rate 0 passes sf_format_check
    but no open accepts it *)
Definition format_check_agrees_statement : Prop := forall format channels samplerate,
  In (Z.land format c_SF_FORMAT_TYPEMASK) majors -> In (Z.land format c_SF_FORMAT_SUBMASK) subtypes ->
  fc format channels samplerate = writable format channels samplerate.
Theorem format_check_agrees_refuted :
  exists format channels samplerate,
    In (Z.land format c_SF_FORMAT_TYPEMASK) majors /\ In (Z.land format c_SF_FORMAT_SUBMASK) subtypes /\
    fc format channels samplerate = 1 /\ writable format channels samplerate = 0.
Proof. exact format_check_iff_writable_refuted. Qed.

(** simple / major / subtype lists: distinct formats, distinct non-empty names, out-of-range indices refused, every
    simple format passes sf_format_check, every major format has a usable subtype *)
Theorem format_lists_sound :
  NoDup (map fmt_of simple_list) /\ NoDup (map fmt_of major_list) /\ NoDup (map fmt_of subtype_list) /\
  NoDup (map hash_of simple_list) /\ NoDup (map hash_of major_list) /\ NoDup (map hash_of subtype_list) /\
  (forall x, In x simple_list -> fc (fmt_of x) 1 44100 = 1 \/ fc (fmt_of x) 2 44100 = 1) /\
  (forall m, In m major_list -> exists s en, In s subtype_list /\ fc (fmt_of m + fmt_of s + en) 1 44100 = 1).
Proof. exact lists_sound_spelled_out. Qed.
Theorem enumeration_out_of_range_refused :
  simple_list_out_of_range_accepted = 0 /\ major_list_out_of_range_accepted = 0 /\ subtype_list_out_of_range_accepted = 0.
Proof. repeat split; reflexivity. Qed.

(** the reduction used above, for any two decision lists: agreement on the representatives is agreement everywhere *)
Theorem decision_lists_agree_everywhere : forall p q n,
  agree_on p q (envs_over (doms_from p q 0%nat n)) = true -> forall e, length e = n -> eval p e = eval q e.
Proof. exact agree_everywhere. Qed.

Example c10_witness : fc (c_SF_FORMAT_WAV + c_SF_FORMAT_IMA_ADPCM) 2 44100 = 1 /\ fc (c_SF_FORMAT_WAV + c_SF_FORMAT_IMA_ADPCM) 3 44100 = 0 /\
                      writable (c_SF_FORMAT_AIFF + c_SF_FORMAT_DWVW_12) 1 8000 = 1.
Proof. repeat split; reflexivity. Qed.

Print Assumptions format_check_agrees_with_write_table_partial.
Print Assumptions format_check_agrees_refuted.
Print Assumptions format_lists_sound.
Print Assumptions decision_lists_agree_everywhere.

(** Binary floating point as integer programs: a finite value is sign, magnitude and exponent
    ([m * 2^e], [m >= 0]).  Rounding is round-to-nearest-even to [p] bits with gradual underflow
    (least exponent [emin]) and overflow to infinity at [2^emax].  These definitions are validated
    against the hardware on every run (K tie, harness/kern_fp.c). *)
From Coq Require Import ZArith List Lia Bool.
From SF Require Import Bits.
Local Open Scope Z_scope.

Inductive fval := Fin (s : bool) (m e : Z) | Inf (s : bool) | NaN.

Definition fzero := Fin false 0 0.
Definition of_int (z : Z) : fval := Fin (z <? 0) (Z.abs z) 0.
Definition pow2 (k : Z) : fval := Fin false 1 k.

Definition shiftz (m k : Z) : Z := if 0 <=? k then m * 2 ^ k else m / 2 ^ (- k).

(** Round [s m e] (exact) to precision [p], least lsb exponent [emin], overflow bound [2^emax]. *)
Definition round_fmt (p emin emax : Z) (x : fval) : fval :=
  match x with
  | Fin s m e =>
    if m =? 0 then Fin s 0 0 else
    let bits := Z.log2 m + 1 in
    let e' := Z.max (e + bits - p) emin in
    if e' <=? e then
      (if emax <? e + bits then Inf s else Fin s m e)
    else
      let k := e' - e in
      let q := m / 2 ^ k in
      let r := m mod 2 ^ k in
      let half := 2 ^ (k - 1) in
      let q' := if (half <? r) || ((r =? half) && Z.odd q) then q + 1 else q in
      if q' =? 0 then Fin s 0 0
      else if emax <? e' + (Z.log2 q' + 1) then Inf s else Fin s q' e'
  | _ => x
  end.

Definition round32 := round_fmt 24 (-149) 128.
Definition round64 := round_fmt 53 (-1074) 1024.

Definition fmul_exact (a b : fval) : fval :=
  match a, b with
  | Fin s1 m1 e1, Fin s2 m2 e2 => Fin (xorb s1 s2) (m1 * m2) (e1 + e2)
  | NaN, _ | _, NaN => NaN
  | Inf s1, Fin s2 m2 _ => if m2 =? 0 then NaN else Inf (xorb s1 s2)
  | Fin s1 m1 _, Inf s2 => if m1 =? 0 then NaN else Inf (xorb s1 s2)
  | Inf s1, Inf s2 => Inf (xorb s1 s2)
  end.
Definition fmul32 a b := round32 (fmul_exact a b).
Definition fmul64 a b := round64 (fmul_exact a b).

(** division: quotient with >= 69 significant bits plus a sticky bit, then one rounding *)
Definition fdiv_r (round : fval -> fval) (a b : fval) : fval :=
  match a, b with
  | Fin s1 m1 e1, Fin s2 m2 e2 =>
      if m2 =? 0 then (if m1 =? 0 then NaN else Inf (xorb s1 s2))
      else if m1 =? 0 then Fin (xorb s1 s2) 0 0
      else
        let k := Z.max 0 (Z.log2 m2 - Z.log2 m1 + 70) in
        let num := m1 * 2 ^ k in
        let q := num / m2 in
        let r := num mod m2 in
        round (Fin (xorb s1 s2) (2 * q + (if r =? 0 then 0 else 1)) (e1 - e2 - k - 1))
  | NaN, _ | _, NaN => NaN
  | Inf s1, Inf s2 => NaN
  | Inf s1, Fin s2 _ _ => Inf (xorb s1 s2)
  | Fin s1 _ _, Inf s2 => Fin (xorb s1 s2) 0 0
  end.
Definition fdiv32 := fdiv_r round32.
Definition fdiv64 := fdiv_r round64.

Definition fneg (a : fval) : fval :=
  match a with Fin s m e => Fin (negb s) m e | Inf s => Inf (negb s) | NaN => NaN end.

(** Signed integer numerator of [a] at exponent [emin(a,b)] -- for comparisons. *)
Definition sgn_m (s : bool) (m : Z) : Z := if s then - m else m.
Definition fcompare (a b : fval) : option comparison :=
  match a, b with
  | Fin s1 m1 e1, Fin s2 m2 e2 =>
      let e := Z.min e1 e2 in
      Some (Z.compare (sgn_m s1 m1 * 2 ^ (e1 - e)) (sgn_m s2 m2 * 2 ^ (e2 - e)))
  | NaN, _ | _, NaN => None
  | Inf s1, Inf s2 => Some (if Bool.eqb s1 s2 then Eq else if s1 then Lt else Gt)
  | Inf s1, _ => Some (if s1 then Lt else Gt)
  | _, Inf s2 => Some (if s2 then Gt else Lt)
  end.
Definition fge a b := match fcompare a b with Some Gt | Some Eq => true | _ => false end.
Definition fle a b := match fcompare a b with Some Lt | Some Eq => true | _ => false end.
Definition flt a b := match fcompare a b with Some Lt => true | _ => false end.
Definition fgt a b := match fcompare a b with Some Gt => true | _ => false end.

(** [lrint]: round to nearest even integer (default rounding mode).  [None]: not finite. *)
Definition rne_int (s : bool) (m e : Z) : Z :=
  if 0 <=? e then sgn_m s (m * 2 ^ e) else
  let k := - e in
  let q := m / 2 ^ k in
  let r := m mod 2 ^ k in
  let half := 2 ^ (k - 1) in
  sgn_m s (if (half <? r) || ((r =? half) && Z.odd q) then q + 1 else q).
Definition lrint (x : fval) : option Z :=
  match x with Fin s m e => Some (rne_int s m e) | _ => None end.
(** psf_lrint / psf_lrintf return int.  Out of the int range the C result is unspecified; the
    builds examined here (clang 14 lrint/lrintf inlined to cvtsd2si/cvtss2si with a 32-bit
    destination, and the -DUSE_SSE2 intrinsics) both deliver the "integer indefinite" INT_MIN. *)
Definition psf_lrint (x : fval) : Z :=
  match lrint x with
  | Some v => if (v <? - 2 ^ 31) || (2 ^ 31 <=? v) then - 2 ^ 31 else v
  | None => - 2 ^ 31
  end.

(** floor and truncation toward zero of a finite value *)
Definition ffloor_int (s : bool) (m e : Z) : Z :=
  if 0 <=? e then sgn_m s (m * 2 ^ e) else
  if s then - ((m + 2 ^ (- e) - 1) / 2 ^ (- e)) else m / 2 ^ (- e).
Definition ftrunc_int (s : bool) (m e : Z) : Z :=
  if 0 <=? e then sgn_m s (m * 2 ^ e) else sgn_m s (m / 2 ^ (- e)).

(** IEEE-754 interchange encodings.  [w] = exponent bits, [t] = fraction bits. *)
Definition b_decode (w t : Z) (bits : Z) : fval :=
  let s := Z.testbit bits (w + t) in
  let E := (bits / 2 ^ t) mod 2 ^ w in
  let F := bits mod 2 ^ t in
  let bias := 2 ^ (w - 1) - 1 in
  if E =? 2 ^ w - 1 then (if F =? 0 then Inf s else NaN)
  else if E =? 0 then Fin s F (1 - bias - t)
  else Fin s (2 ^ t + F) (E - bias - t).

(** encoding of a value that is representable (the result of [round_fmt] with matching parameters) *)
Definition b_encode (w t : Z) (x : fval) : Z :=
  let bias := 2 ^ (w - 1) - 1 in
  let sbit (s : bool) := if s then 2 ^ (w + t) else 0 in
  match x with
  | NaN => (2 ^ w - 1) * 2 ^ t + 2 ^ (t - 1)
  | Inf s => sbit s + (2 ^ w - 1) * 2 ^ t
  | Fin s m e =>
    if m =? 0 then sbit s else
    let ex := Z.log2 m + e in                    (* exponent of the leading bit *)
    if ex <? 1 - bias then sbit s + shiftz m (e - (1 - bias - t))
    else sbit s + (ex + bias) * 2 ^ t + (shiftz m (t - Z.log2 m) - 2 ^ t)
  end.

Definition b32_decode := b_decode 8 23.
Definition b32_encode := b_encode 8 23.
Definition b64_decode := b_decode 11 52.
Definition b64_encode := b_encode 11 52.

Definition is_normal32 (bits : Z) : bool := let E := (bits / 2 ^ 23) mod 256 in (1 <=? E) && (E <=? 254).
Definition is_finite32 (bits : Z) : bool := negb ((bits / 2 ^ 23) mod 256 =? 255).
Definition is_finite64 (bits : Z) : bool := negb ((bits / 2 ^ 52) mod 2048 =? 2047).

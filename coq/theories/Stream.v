(** Stream level of the codecs: the 8 KiB staging loops of pcm.c / float32.c / double64.c / ulaw.c / alaw.c (convert a
    bufferful, transfer it, repeat) and the block-accumulating writers / block readers of sds.c, paf.c, ima_adpcm.c, ...
    (collect a block, encode and emit it when full, flush a zero padded partial block at close). *)
From Coq Require Import ZArith List Lia Bool.
Import ListNotations.
Local Open Scope Z_scope.

Section Staging.
  Context {A B : Type} (f : A -> B).
  (** one pass of the loop handles at most [n] items; [fuel] bounds the number of passes *)
  Fixpoint staged (n : nat) (fuel : nat) (xs : list A) : list B :=
    match fuel with
    | O => []
    | S k => match xs with
             | [] => []
             | _ => map f (firstn n xs) ++ staged n k (skipn n xs)
             end
    end.
End Staging.

Section Blocks.
  Context (B : nat).                             (* block length in items, > 0 *)
  Context (enc dec : list Z -> list Z).          (* one block: B items <-> its stored form *)
  (** the writer: whole blocks are emitted as they fill up, the rest is carried; close flushes a zero padded block *)
  Fixpoint emit (fuel : nat) (xs : list Z) : list (list Z) * list Z :=    (* (emitted blocks, carried partial block) *)
    match fuel with
    | O => ([], xs)
    | S k => if Nat.leb B (length xs) then let '(bs, c) := emit k (skipn B xs) in (enc (firstn B xs) :: bs, c)
             else ([], xs)
    end.
  Definition write_call (carry : list Z) (xs : list Z) : list (list Z) * list Z := emit (S (length (carry ++ xs))) (carry ++ xs).
  Definition close_flush (carry : list Z) : list (list Z) :=
    match carry with [] => [] | _ => [enc (carry ++ repeat 0 (B - length carry))] end.
  (** a history of write calls: emitted blocks so far and the carry *)
  Fixpoint write_calls (carry : list Z) (calls : list (list Z)) : list (list Z) * list Z :=
    match calls with
    | [] => ([], carry)
    | c :: r => let '(b1, k1) := write_call carry c in let '(b2, k2) := write_calls k1 r in (b1 ++ b2, k2)
    end.
  Definition written_file (calls : list (list Z)) : list (list Z) :=
    let '(bs, k) := write_calls [] calls in bs ++ close_flush k.
  Definition read_all (blocks : list (list Z)) : list Z := concat (map dec blocks).
End Blocks.

(** Proofs about the DPCM codecs of src/xi.c (model: Dpcm.v). *)
From Coq Require Import ZArith List Lia Bool.
From SF Require Import Dpcm.
Import ListNotations.
Local Open Scope Z_scope.

Lemma wrap_range H x : 0 < H -> in_range H (wrap H x).
Proof. intros HH. unfold in_range, wrap. pose proof (Z.mod_pos_bound (x + H) (2 * H) ltac:(lia)). lia. Qed.

Lemma wrap_id H x : 0 < H -> in_range H x -> wrap H x = x.
Proof. intros HH R. unfold in_range in R. unfold wrap. rewrite Z.mod_small by lia. lia. Qed.

Lemma wrap_add_wrap H a b : 0 < H -> wrap H (a + wrap H b) = wrap H (a + b).
Proof.
  intros HH. unfold wrap. f_equal.
  replace (a + ((b + H) mod (2 * H) - H) + H) with (a + (b + H) mod (2 * H)) by lia.
  rewrite Zplus_mod_idemp_r. f_equal. lia.
Qed.

(** one step of the codec: the decoder recovers the sample, whatever the predictor *)
Lemma step_roundtrip H last x : 0 < H -> in_range H x -> wrap H (last + wrap H (x - last)) = x.
Proof. intros HH R. rewrite wrap_add_wrap by assumption. replace (last + (x - last)) with x by lia. apply wrap_id; assumption. Qed.

Theorem dec_enc H : 0 < H -> forall xs last, Forall (in_range H) xs -> dec H last (enc H last xs) = xs.
Proof.
  intros HH xs. induction xs as [|x r IH]; intros last F; [reflexivity|].
  inversion F as [|? ? Hx Hr]; subst. cbn [enc dec]. cbv zeta.
  rewrite step_roundtrip by assumption. f_equal. apply IH; assumption.
Qed.

Lemma last_cons_indep {A} : forall (r : list A) y d d', last (y :: r) d = last (y :: r) d'.
Proof. induction r as [|z r IH]; intros y d d'; [reflexivity|]. change (last (z :: r) d = last (z :: r) d'). apply IH. Qed.
Lemma last_cons {A} : forall (r : list A) x d, last (x :: r) d = last r x.
Proof. intros r x d. destruct r as [|y r]; [reflexivity|]. change (last (y :: r) d = last (y :: r) x). apply last_cons_indep. Qed.

Lemma carry_app l a b : carry l (a ++ b) = carry (carry l a) b.
Proof.
  unfold carry. revert l. induction a as [|x r IH]; intros l; [reflexivity|].
  cbn [app]. rewrite !last_cons. apply IH.
Qed.

Lemma enc_app H : forall a last b, enc H last (a ++ b) = enc H last a ++ enc H (carry last a) b.
Proof.
  induction a as [|x r IH]; intros last b; [reflexivity|].
  cbn [app enc]. rewrite IH. f_equal. f_equal. f_equal.
  unfold carry. symmetry. apply last_cons.
Qed.

Lemma dec_app H : forall a last b, dec H last (a ++ b) = dec H last a ++ dec H (carry last (dec H last a)) b.
Proof.
  induction a as [|c r IH]; intros last b; [reflexivity|].
  cbn [app dec]. cbv zeta. rewrite IH. cbn [app]. f_equal. f_equal. f_equal.
  unfold carry. symmetry. apply last_cons.
Qed.

Lemma dec_in_range H : 0 < H -> forall cs last, Forall (in_range H) (dec H last cs).
Proof. intros HH cs. induction cs as [|c r IH]; intros last; cbn [dec]; cbv zeta; constructor; [apply wrap_range; assumption | apply IH]. Qed.

Lemma dec_length H : forall cs last, length (dec H last cs) = length cs.
Proof. induction cs as [|c r IH]; intros last; cbn [dec length]; cbv zeta; [reflexivity | f_equal; apply IH]. Qed.
Lemma enc_length H : forall xs last, length (enc H last xs) = length xs.
Proof. induction xs as [|c r IH]; intros last; cbn [enc length]; [reflexivity | f_equal; apply IH]. Qed.

(** calls thread the state: any partition of the samples into calls writes the codes of one call *)
Lemma run_calls_gen (k : Z -> list Z -> list Z * Z) (f : Z -> list Z -> list Z) (g : Z -> list Z -> Z) :
  (forall l c, k l c = (f l c, g l c)) ->
  (forall l a b, f l (a ++ b) = f l a ++ f (g l a) b) ->
  (forall l a b, g l (a ++ b) = g (g l a) b) ->
  (forall l, f l [] = [] /\ g l [] = l) ->
  forall calls l, run_calls k l calls = (f l (concat calls), g l (concat calls)).
Proof.
  intros Hk Hf Hg Hn calls. induction calls as [|c r IH]; intros l; cbn [run_calls concat].
  - destruct (Hn l) as [A B]. rewrite A, B. reflexivity.
  - rewrite Hk, IH, Hf, Hg. reflexivity.
Qed.

Theorem s2dles_calls : forall calls l, run_calls s2dles l calls = s2dles l (concat calls).
Proof.
  apply (run_calls_gen s2dles (enc H16) carry); [reflexivity | intros; apply enc_app | intros; apply carry_app | intros; split; reflexivity].
Qed.

Lemma dles2s_app l a b : fst (dles2s l (a ++ b)) = fst (dles2s l a) ++ fst (dles2s (snd (dles2s l a)) b)
  /\ snd (dles2s l (a ++ b)) = snd (dles2s (snd (dles2s l a)) b).
Proof. unfold dles2s; cbn [fst snd]. rewrite dec_app. split; [reflexivity | apply carry_app]. Qed.

Theorem dles2s_calls : forall calls l, run_calls dles2s l calls = dles2s l (concat calls).
Proof.
  apply (run_calls_gen dles2s (fun l c => fst (dles2s l c)) (fun l c => snd (dles2s l c))).
  - intros; reflexivity.
  - intros l a b. apply (proj1 (dles2s_app l a b)).
  - intros l a b. apply (proj2 (dles2s_app l a b)).
  - intros; split; reflexivity.
Qed.

Lemma dsc2s_app l a b : in_range H16 l -> l mod 256 = 0 ->
  fst (dsc2s l (a ++ b)) = fst (dsc2s l a) ++ fst (dsc2s (snd (dsc2s l a)) b)
  /\ snd (dsc2s l (a ++ b)) = snd (dsc2s (snd (dsc2s l a)) b).
Proof.
  intros _ _. unfold dsc2s; cbn [fst snd]. rewrite Z.div_mul by lia. rewrite dec_app, map_app. split; [reflexivity|].
  rewrite carry_app. reflexivity.
Qed.

(** --- whole-kernel round trips, as the library composes them ------------------------------------------- *)

Definition is_short x := in_range H16 x.
Definition is_int32 x := - 2147483648 <= x < 2147483648.

Theorem dpcm16_short_roundtrip : forall xs l, Forall is_short xs ->
  dles2s l (fst (s2dles l xs)) = (xs, snd (s2dles l xs)).
Proof.
  intros xs l F. unfold dles2s, s2dles; cbn [fst snd]. rewrite dec_enc by (unfold H16; lia || assumption). reflexivity.
Qed.

Lemma top16_short x : is_int32 x -> is_short (x / 65536).
Proof. unfold is_int32, is_short, in_range, H16. intros R. split; [apply Z.div_le_lower_bound | apply Z.div_lt_upper_bound]; lia. Qed.
Lemma top8_of_int x : is_int32 x -> in_range H8 (x / 16777216).
Proof. unfold is_int32, in_range, H8. intros R. split; [apply Z.div_le_lower_bound | apply Z.div_lt_upper_bound]; lia. Qed.
Lemma top8_of_short x : is_short x -> in_range H8 (x / 256).
Proof. unfold is_short, in_range, H16, H8. intros R. split; [apply Z.div_le_lower_bound | apply Z.div_lt_upper_bound]; lia. Qed.

Theorem dpcm16_int_roundtrip : forall xs l, Forall is_int32 xs ->
  fst (dles2i l (fst (i2dles l xs))) = map (fun x => x / 65536 * 65536) xs.
Proof.
  intros xs l F. unfold dles2i, i2dles, s2dles; cbn [fst snd]. rewrite dec_enc.
  - rewrite map_map. reflexivity.
  - unfold H16; lia.
  - apply Forall_forall. intros y Hy. apply in_map_iff in Hy. destruct Hy as [x [E I]]. subst y.
    apply top16_short. exact (proj1 (Forall_forall _ _) F x I).
Qed.

Theorem dpcm16_int_roundtrip_exact : forall xs l, Forall is_int32 xs -> Forall (fun x => x mod 65536 = 0) xs ->
  fst (dles2i l (fst (i2dles l xs))) = xs.
Proof.
  intros xs l F Z. rewrite dpcm16_int_roundtrip by assumption.
  rewrite <- (map_id xs) at 2. apply map_ext_in. intros x I.
  pose proof (proj1 (Forall_forall _ _) Z x I) as M. cbv beta in M.
  pose proof (Z.div_mod x 65536 ltac:(lia)). lia.
Qed.

(** shorts written, ints read (and the other way round) see the same 16-bit values *)
Theorem dpcm16_short_write_int_read : forall xs l, Forall is_short xs ->
  fst (dles2i l (fst (s2dles l xs))) = map (fun x => x * 65536) xs.
Proof. intros xs l F. unfold dles2i, s2dles; cbn [fst snd]. rewrite dec_enc by (unfold H16; lia || assumption). reflexivity. Qed.

Theorem dpcm8_short_roundtrip : forall xs l, Forall is_short xs ->
  fst (dsc2s l (fst (s2dsc l xs))) = map (fun x => x / 256 * 256) xs
  /\ snd (dsc2s l (fst (s2dsc l xs))) = snd (s2dsc l xs).
Proof.
  intros xs l F. unfold dsc2s, s2dsc; cbn [fst snd]. rewrite dec_enc.
  - rewrite map_map. split; reflexivity.
  - unfold H8; lia.
  - apply Forall_forall. intros y Hy. apply in_map_iff in Hy. destruct Hy as [x [E I]]. subst y.
    apply top8_of_short. exact (proj1 (Forall_forall _ _) F x I).
Qed.

Theorem dpcm8_int_roundtrip : forall xs l, Forall is_int32 xs ->
  fst (dsc2i l (fst (i2dsc l xs))) = map (fun x => x / 16777216 * 16777216) xs.
Proof.
  intros xs l F. unfold dsc2i, i2dsc; cbn [fst snd]. rewrite dec_enc.
  - rewrite map_map. reflexivity.
  - unfold H8; lia.
  - apply Forall_forall. intros y Hy. apply in_map_iff in Hy. destruct Hy as [x [E I]]. subst y.
    apply top8_of_int. exact (proj1 (Forall_forall _ _) F x I).
Qed.

Theorem dpcm8_short_roundtrip_exact : forall xs l, Forall is_short xs -> Forall (fun x => x mod 256 = 0) xs ->
  fst (dsc2s l (fst (s2dsc l xs))) = xs.
Proof.
  intros xs l F Z. rewrite (proj1 (dpcm8_short_roundtrip xs l F)).
  rewrite <- (map_id xs) at 2. apply map_ext_in. intros x I.
  pose proof (proj1 (Forall_forall _ _) Z x I) as M. cbv beta in M.
  pose proof (Z.div_mod x 256 ltac:(lia)). lia.
Qed.

(** the whole stream: any partition of the samples into write calls, any partition of the codes into read calls *)
Theorem dpcm16_stream_roundtrip : forall wcalls rcalls,
  Forall is_short (concat wcalls) -> concat rcalls = fst (run_calls s2dles 0 wcalls) ->
  fst (run_calls dles2s 0 rcalls) = concat wcalls.
Proof.
  intros wcalls rcalls F E. rewrite dles2s_calls, E, s2dles_calls.
  rewrite dpcm16_short_roundtrip by assumption. reflexivity.
Qed.

(** decoded values are shorts for ANY code sequence (arbitrary file bytes) *)
Theorem dpcm16_decoder_total : forall cs l, Forall is_short (fst (dles2s l cs)).
Proof. intros cs l. unfold dles2s; cbn [fst]. apply dec_in_range. unfold H16; lia. Qed.

(** seek: with a clear predictor (a fresh handle, or any handle for target 0) decode-and-discard from the start leaves
    exactly the state a sequential read would have *)
Lemma seek16_clear cs k : dpcm_seek16 0 cs k = snd (dles2s 0 (firstn k cs)).
Proof. destruct k; reflexivity. Qed.
Lemma seek8_clear cs k : dpcm_seek8 0 cs k = snd (dsc2s 0 (firstn k cs)).
Proof. destruct k; reflexivity. Qed.

Theorem dpcm16_seek_is_sequential : forall cs k, seek_then_read16 0 cs k = skipn k (fst (dles2s 0 cs)).
Proof.
  intros cs k. unfold seek_then_read16. rewrite seek16_clear.
  rewrite <- (firstn_skipn k cs) at 3.
  rewrite (proj1 (dles2s_app 0 (firstn k cs) (skipn k cs))).
  destruct (Nat.le_gt_cases k (length cs)) as [Hle|Hgt].
  - rewrite skipn_app.
    assert (L : length (fst (dles2s 0 (firstn k cs))) = k).
    { unfold dles2s; cbn [fst]. rewrite dec_length. apply firstn_length_le; exact Hle. }
    rewrite L, Nat.sub_diag. cbn [skipn].
    rewrite (skipn_all2 (fst (dles2s 0 (firstn k cs)))) by lia. reflexivity.
  - rewrite (skipn_all2 cs) by lia. rewrite firstn_all2 by lia.
    unfold dles2s at 1; cbn [fst dec]. rewrite app_nil_r.
    rewrite skipn_all2; [reflexivity|]. unfold dles2s; cbn [fst]. rewrite dec_length. lia.
Qed.

Theorem dpcm16_seek_to_start_any_state : forall l cs, seek_then_read16 l cs 0 = fst (dles2s 0 cs).
Proof. reflexivity. Qed.

Theorem dpcm8_seek_is_sequential : forall cs k, seek_then_read8 0 cs k = skipn k (fst (dsc2s 0 cs)).
Proof.
  intros cs k. unfold seek_then_read8. rewrite seek8_clear.
  rewrite <- (firstn_skipn k cs) at 3.
  assert (R0 : in_range H16 0) by (unfold in_range, H16; lia).
  rewrite (proj1 (dsc2s_app 0 (firstn k cs) (skipn k cs) R0 eq_refl)).
  assert (Ld : forall l c, length (fst (dsc2s l c)) = length c).
  { intros l c. unfold dsc2s; cbn [fst]. rewrite map_length, dec_length. reflexivity. }
  destruct (Nat.le_gt_cases k (length cs)) as [Hle|Hgt].
  - rewrite skipn_app.
    assert (L : length (fst (dsc2s 0 (firstn k cs))) = k) by (rewrite Ld; apply firstn_length_le; exact Hle).
    rewrite L, Nat.sub_diag. cbn [skipn].
    rewrite (skipn_all2 (fst (dsc2s 0 (firstn k cs)))) by lia. reflexivity.
  - rewrite (skipn_all2 cs) by lia. rewrite firstn_all2 by lia.
    assert (N : forall l, fst (dsc2s l []) = []) by reflexivity.
    rewrite N, app_nil_r.
    rewrite skipn_all2; [reflexivity|]. rewrite Ld. lia.
Qed.

(** ... and with a stale predictor a seek to k > 0 is NOT the sequential stream: dpcm_seek forgets to clear last_16 on that
    branch.  Latent in the pinned tree: xi_open marks the container as not seekable (sf_seek refuses) and the read/write
    switches of a SFM_RDWR handle reach dpcm_seek either with target 0 or in write mode (which it rejects). *)
Theorem dpcm16_seek_stale_predictor_refuted :
  exists l cs k, seek_then_read16 l cs k <> skipn k (fst (dles2s 0 cs)).
Proof. exists 5, [1; 1], 1%nat. vm_compute. discriminate. Qed.

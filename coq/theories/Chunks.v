(** src/chunk.c: the growable tables of custom chunks (chunks to write, chunks seen while parsing) and the
    single per-handle iterator.  Lists model the used part of the C arrays; [count] is the allocated capacity. *)
From Coq Require Import ZArith List Lia Bool.
Import ListNotations.
Local Open Scope Z_scope.

Definition len {A} (l : list A) : Z := Z.of_nat (length l).
Definition grow (c : Z) : Z := 3 * (c + 1) / 2.

(** ids: a list of bytes (no NUL).  Up to 4 characters the hash is the little-endian 32-bit marker, longer ids
    use hash_of_str (times 0x7f plus byte, in 64-bit arithmetic) *)
Definition wrap64 (x : Z) : Z := ((x + 2 ^ 63) mod 2 ^ 64) - 2 ^ 63.
Definition hash_of_str (id : list Z) : Z := fold_left (fun m c => wrap64 (m * 127 + c)) id 0.
(* the four-character marker, shorter ids padded with spaces as RIFF / IFF prescribe *)
Definition marker32 (id : list Z) : Z :=
  nth 0 id 32 + 256 * nth 1 id 32 + 65536 * nth 2 id 32 + 16777216 * nth 3 id 32.
Definition hash_of_id (id : list Z) : Z := if (4 <? len id) then hash_of_str id else marker32 id.

Record chunk := mkc { chash : Z; cmark : Z; cid : list Z; clen : Z; cdata : list Z }.
Record table := mkt { count : Z; chunks : list chunk }.
Definition used (t : table) : Z := len (chunks t).
Definition empty : table := mkt 0 [].

(** psf_store_read_chunk: grows when used = count *)
Definition store_read (t : table) (c : chunk) : table :=
  if count t =? 0 then mkt 20 [c]
  else if used t =? count t then mkt (grow (count t)) (chunks t ++ [c])
  else mkt (count t) (chunks t ++ [c]).
(** psf_save_write_chunk: grows when used >= count; payload kept zero padded to a multiple of 4 *)
Definition pad4 (n : Z) : Z := (n + 3) / 4 * 4.
Definition save_write (t : table) (id data : list Z) : table :=
  let c := mkc (hash_of_id id) (marker32 (firstn 4 id)) id (pad4 (len data)) (data ++ repeat 0 (Z.to_nat (pad4 (len data) - len data))) in
  if count t =? 0 then mkt 20 [c]
  else if count t <=? used t then mkt (grow (count t)) (chunks t ++ [c])
  else mkt (count t) (chunks t ++ [c]).

(** the iterator: index of the current chunk and the hash searched for (0 = every chunk) *)
Record iter := mki { current : Z; ihash : Z }.

Fixpoint find_from (l : list chunk) (k : Z) (h : Z) : option Z :=     (* first index >= k (list positions counted from k) with that hash *)
  match l with
  | [] => None
  | c :: r => if chash c =? h then Some k else find_from r (k + 1) h
  end.
Definition find_hash (t : table) (from : Z) (h : Z) : option Z := find_from (skipn (Z.to_nat from) (chunks t)) from h.

Definition get_iterator (t : table) (id : option (list Z)) : option iter :=
  match id with
  | Some m => match find_hash t 0 (hash_of_id m) with Some k => Some (mki k (hash_of_id m)) | None => None end
  | None => if 0 <? used t then Some (mki 0 0) else None
  end.
Definition next_iterator (t : table) (it : iter) : option iter :=
  let cur := current it + 1 in
  if negb (ihash it =? 0) then
    match find_hash t cur (ihash it) with Some k => Some (mki k (ihash it)) | None => None end
  else if cur <? used t then Some (mki cur 0) else None.

(** indices visited by a complete iteration (fuel = number of chunks) *)
Fixpoint visit (t : table) (fuel : nat) (it : option iter) : list Z :=
  match fuel, it with
  | S f, Some i => current i :: visit t f (next_iterator t i)
  | _, _ => []
  end.
Definition iterate (t : table) (id : option (list Z)) : list Z := visit t (S (length (chunks t))) (get_iterator t id).

(** sf_get_chunk_data copies min (caller's datalen, chunk length) bytes *)
Definition copy_len (datalen clen : Z) : Z := Z.min datalen clen.

Fixpoint run_stores (t : table) (cs : list chunk) : table := match cs with [] => t | c :: r => run_stores (store_read t c) r end.
Fixpoint run_saves (t : table) (cs : list (list Z * list Z)) : table := match cs with [] => t | (i, d) :: r => run_saves (save_write t i d) r end.

(** ITU-T G.711 as functions on integers (written from the Recommendation's segment tables, in the
    16-bit scaling used by every software implementation), and the code-shaped model of
    src/ulaw.c / src/alaw.c table lookups.  The tables themselves are regenerated from the source
    (SFGen.Gen_G711) on every run. *)
From Coq Require Import ZArith List Lia Bool.
From SF Require Import Bits.
From SFGen Require Import Gen_G711.
Import ListNotations.
Local Open Scope Z_scope.

(** ** The definition (spec side) *)

(** mu-law expansion: the byte is stored inverted; sign, 3-bit segment, 4-bit step. *)
Definition ulaw_expand (c : Z) : Z :=
  let u := 255 - c in
  let e := (u / 16) mod 8 in
  let m := u mod 16 in
  let t := (m * 8 + 132) * 2 ^ e in
  if 128 <=? u then 132 - t else t - 132.

(** mu-law compression of a sign and a 13-bit magnitude ([mag] = |x| in 14-bit units). *)
Definition ulaw_compress (neg : bool) (mag : Z) : Z :=
  let m := Z.min (mag + 33) 8191 in
  let seg := Z.log2 m - 5 in
  let mant := (m / 2 ^ (seg + 1)) mod 16 in
  (if neg then 127 else 255) - (seg * 16 + mant).

(** A-law expansion: even bits inverted (xor 0x55). *)
Definition alaw_expand (c : Z) : Z :=
  let a := Z.lxor c 85 in
  let seg := (a / 16) mod 8 in
  let t := (a mod 16) * 16 in
  let v := if seg =? 0 then t + 8 else (t + 264) * 2 ^ (seg - 1) in
  if 128 <=? a then v else - v.

(** A-law compression of a sign and a 12-bit magnitude ([mag] = |x| in 12-bit units). *)
Definition alaw_compress (neg : bool) (mag : Z) : Z :=
  let m := Z.min mag 2047 in
  let seg := if m <? 16 then 0 else Z.log2 m - 3 in
  let mant := if seg <? 2 then m mod 16 else (m / 2 ^ (seg - 1)) mod 16 in
  Z.lxor (seg * 16 + mant) (if neg then 85 else 213).

(** 16-bit linear input: sign and truncated magnitude (G.711 is defined on sign-magnitude values). *)
Definition g711_ulaw_of_short (s : Z) : Z := ulaw_compress (s <? 0) (Z.abs s / 4).
Definition g711_alaw_of_short (s : Z) : Z := alaw_compress (s <? 0) (Z.abs s / 16).

(** ** The code (model side): table lookups exactly as the C indexes them.
    [None] = the C would index outside the table. *)

Definition land7f (x : Z) : Z := x mod 128.

Definition c_ulaw2s (c : Z) : option Z := lookup ulaw_decode_tab c.
Definition c_alaw2s (c : Z) : option Z := lookup alaw_decode_tab c.

(* s2ulaw_array: ptr[i] >= 0 ? enc[ptr[i]/4] : 0x7F & enc[ptr[i] / -4]   (C division truncates) *)
Definition c_s2ulaw (s : Z) : option Z :=
  if 0 <=? s then lookup ulaw_encode_tab (Z.quot s 4)
  else option_map land7f (lookup ulaw_encode_tab (Z.quot s (-4))).
Definition c_s2alaw (s : Z) : option Z :=
  if 0 <=? s then lookup alaw_encode_tab (Z.quot s 16)
  else option_map land7f (lookup alaw_encode_tab (Z.quot s (-16))).

(* i2ulaw_array: INT_MIN special case, then >> (16+2) on the magnitude *)
Definition INT_MIN := -2147483648.
Definition INT_MAX := 2147483647.
Definition c_i2ulaw (x : Z) : option Z :=
  if x =? INT_MIN then option_map land7f (lookup ulaw_encode_tab (Z.shiftr INT_MAX 18))
  else if 0 <=? x then lookup ulaw_encode_tab (Z.shiftr x 18)
  else option_map land7f (lookup ulaw_encode_tab (Z.shiftr (- x) 18)).
Definition c_i2alaw (x : Z) : option Z :=
  if x =? INT_MIN then option_map land7f (lookup alaw_encode_tab (Z.shiftr INT_MAX 20))
  else if 0 <=? x then lookup alaw_encode_tab (Z.shiftr x 20)
  else option_map land7f (lookup alaw_encode_tab (Z.shiftr (- x) 20)).

(* ulaw2i_array: ((uint32_t) dec[c]) << 16, stored into an int *)
Definition c_ulaw2i (c : Z) : option Z := option_map (fun d => wrap 32 (d * 65536)) (lookup ulaw_decode_tab c).
Definition c_alaw2i (c : Z) : option Z := option_map (fun d => wrap 32 (d * 65536)) (lookup alaw_decode_tab c).

(* f2ulaw / d2ulaw with the already rounded product r = lrint (normfact * x) and the sign test on x *)
Definition clamp_idx (mx r : Z) : Z := if (r <? 0) || (mx <? r) then mx else r.
(* the negation is done in int: - INT_MIN wraps to INT_MIN *)
Definition c_r2ulaw (nonneg : bool) (r : Z) : option Z :=
  if nonneg then lookup ulaw_encode_tab (clamp_idx 8192 r)
  else option_map land7f (lookup ulaw_encode_tab (clamp_idx 8192 (wrap 32 (- r)))).
Definition c_r2alaw (nonneg : bool) (r : Z) : option Z :=
  if nonneg then lookup alaw_encode_tab (clamp_idx 2048 r)
  else option_map land7f (lookup alaw_encode_tab (clamp_idx 2048 (wrap 32 (- r)))).

(** ** Boolean checkers evaluated over the complete domains *)

Definition opt_eqb (o : option Z) (v : Z) : bool := match o with Some x => x =? v | None => false end.

Definition chk_udec (c : Z) : bool := opt_eqb (c_ulaw2s c) (ulaw_expand c).
Definition chk_adec (c : Z) : bool := opt_eqb (c_alaw2s c) (alaw_expand c).
Definition chk_uenc (s : Z) : bool := opt_eqb (c_s2ulaw s) (g711_ulaw_of_short s).
Definition chk_aenc (s : Z) : bool := opt_eqb (c_s2alaw s) (g711_alaw_of_short s).

(* encode after decode is the identity on codes (mu-law 0x7F, the negative zero, goes to 0xFF as G.711 prescribes) *)
Definition chk_ucode (c : Z) : bool :=
  opt_eqb (c_s2ulaw (ulaw_expand c)) (if c =? 127 then 255 else c).
Definition chk_acode (c : Z) : bool := opt_eqb (c_s2alaw (alaw_expand c)) c.

(* quantiser: decoded value of the code chosen for s *)
Definition uq (s : Z) : Z := ulaw_expand (g711_ulaw_of_short s).
Definition aq (s : Z) : Z := alaw_expand (g711_alaw_of_short s).
(* half the quantisation step of the segment the magnitude falls in, in 16-bit units *)
Definition ustep_half (s : Z) : Z := 2 ^ (Z.log2 (Z.min (Z.abs s / 4 + 33) 8191) - 5 + 2).
Definition astep_half (s : Z) : Z :=
  let m := Z.min (Z.abs s / 16) 2047 in if m <? 32 then 8 else 2 ^ (Z.log2 m - 1).

From Coq Require Import ZArith List Lia Bool.
From SF Require Import StrMeta.
Import ListNotations.
Local Open Scope Z_scope.

(** * line-end normalisation *)
Lemma normalised_crlf_cons l : normalised (CR :: LF :: l) = normalised l.
Proof. reflexivity. Qed.

Theorem norm_r_normalised src : forall pending room, normalised (norm_r src pending room) = true.
Proof.
  induction src as [|c r IH]; intros p room; simpl; [reflexivity|].
  destruct (room <=? 0); [reflexivity|]. destruct (partner p c); [apply IH|].
  destruct (is_le c) eqn:E; [rewrite normalised_crlf_cons; apply IH|].
  unfold is_le in E. apply orb_false_iff in E. destruct E as [E1 E2]. simpl. rewrite E1, E2. apply IH.
Qed.
Theorem strlcpy_crlf_output_normalised src destmax : normalised (strlcpy_crlf src destmax) = true.
Proof. apply norm_r_normalised. Qed.

(** with enough room nothing is cut *)
Lemma norm_r_enough src : forall pending room, 2 * Z.of_nat (length src) < room -> norm_r src pending room = norm src pending.
Proof.
  induction src as [|c r IH]; intros p room H; simpl; [reflexivity|].
  simpl length in H. destruct (room <=? 0) eqn:E; [apply Z.leb_le in E; lia|].
  destruct (partner p c); [apply IH; lia|]. destruct (is_le c); rewrite IH by lia; reflexivity.
Qed.

Lemma count_crlf_crlf l : count_crlf (CR :: LF :: l) = 1 + count_crlf l.
Proof. reflexivity. Qed.
Lemma count_crlf_other c l : is_le c = false -> count_crlf (c :: l) = count_crlf l.
Proof.
  intros H. unfold is_le in H. apply orb_false_iff in H. destruct H as [H1 H2].
  destruct l as [|b r]; [reflexivity|]. cbn [count_crlf]. rewrite H1. reflexivity.
Qed.

(** every line end of the source -- CR LF, LF CR, bare CR or bare LF -- becomes exactly one CR LF: the number of lines
    is preserved (in particular two bare line ends in a row stay two lines) *)
Theorem norm_preserves_lines src : forall pending, count_crlf (norm src pending) = line_ends src pending.
Proof.
  induction src as [|c r IH]; intros p; simpl; [reflexivity|].
  destruct (partner p c); [apply IH|].
  destruct (is_le c) eqn:E; [rewrite count_crlf_crlf, IH; reflexivity | rewrite count_crlf_other, IH by assumption; reflexivity].
Qed.

(** characters other than line ends pass through in order *)
Definition strip (l : list Z) : list Z := filter (fun c => negb (is_le c)) l.
Theorem norm_keeps_text src : forall pending, strip (norm src pending) = strip src.
Proof.
  induction src as [|c r IH]; intros p; simpl; [reflexivity|].
  destruct (partner p c) eqn:P.
  - rewrite IH. unfold partner in P. assert (is_le c = true) as ->; [|reflexivity].
    unfold is_le. apply orb_true_iff in P. destruct P as [P|P]; apply andb_true_iff in P; destruct P as [_ P]; rewrite P; [apply orb_true_r | reflexivity].
  - destruct (is_le c) eqn:E; simpl; rewrite ?E; simpl; rewrite IH; reflexivity.
Qed.

(** * the string table *)
Lemma store_walk_length t ty : length (fst (store_walk t ty)) = length t.
Proof. induction t as [|s r IH]; simpl; [reflexivity|]. destruct (stype _ =? 0); simpl; [reflexivity|]. destruct (store_walk r ty); simpl in *; lia. Qed.

(* the walk leaves no live entry of type ty before (or at) the slot it returns, and keeps the other live entries *)
Lemma store_walk_spec t ty : ty <> 0 -> ty <> -1 ->
  let '(t', k) := store_walk t ty in
  match k with
  | Some n => (n < length t')%nat /\ stype (nth n t' (mks 0 [])) = 0 /\
              (forall i, (i < n)%nat -> stype (nth i t' (mks 0 [])) <> ty)
  | None => True
  end.
Proof.
  intros H0 H1. induction t as [|s r IH]; simpl; [exact I|].
  destruct (stype (if stype s =? ty then mks (-1) (stext s) else s) =? 0) eqn:E.
  - simpl. split; [lia|]. split; [apply Z.eqb_eq in E; exact E|]. intros i Hi; lia.
  - destruct (store_walk r ty) as [r' k]. destruct k as [n|]; simpl; [|exact I].
    destruct IH as (A & B & C). split; [lia|]. split; [assumption|].
    intros i Hi. destruct i as [|i]; simpl.
    + destruct (stype s =? ty) eqn:F; simpl in *; [lia|]. apply Z.eqb_neq in F. assumption.
    + apply C. lia.
Qed.

(** after a successful store the string of that type is the one just set ... *)
Lemma get_set_nth_first t n ty s :
  (n < length t)%nat -> (forall i, (i < n)%nat -> stype (nth i t (mks 0 [])) <> ty) ->
  get_string (set_nth t n (mks ty s)) ty = Some s.
Proof.
  revert n; induction t as [|a r IH]; intros n Hn Hb; simpl in *; [lia|].
  destruct n as [|n]; simpl.
  - rewrite Z.eqb_refl. reflexivity.
  - specialize (Hb 0%nat ltac:(lia)) as H0. simpl in H0. destruct (stype a =? ty) eqn:E; [apply Z.eqb_eq in E; contradiction|].
    apply IH; [lia|]. intros i Hi. apply (Hb (S i)). lia.
Qed.

Theorem store_then_get t ty s : ty <> 0 -> ty <> -1 -> snd (store_string t ty s) = true ->
  get_string (fst (store_string t ty s)) ty = Some s.
Proof.
  intros H0 H1. unfold store_string. pose proof (store_walk_spec t ty H0 H1) as W.
  destruct (store_walk t ty) as [t' k]. destruct k as [n|]; simpl; [|discriminate].
  intros _. destruct W as (A & _ & C). apply get_set_nth_first; [assumption|]. intros i Hi. apply (C i Hi).
Qed.

(** ... and the strings of every other type are untouched *)
Lemma store_walk_other t ty ty' : ty' <> ty -> ty' <> -1 -> get_string (fst (store_walk t ty)) ty' = get_string t ty'.
Proof.
  intros Hne Hm. induction t as [|s r IH]; [reflexivity|].
  cbn [store_walk]. destruct (stype s =? ty) eqn:E.
  - apply Z.eqb_eq in E. cbn [stype].
    replace (-1 =? 0) with false by reflexivity.
    destruct (store_walk r ty) as [r' k] eqn:W. cbn [fst get_string stype] in *.
    assert (stype s =? ty' = false) as -> by (apply Z.eqb_neq; lia).
    assert (-1 =? ty' = false) as -> by (apply Z.eqb_neq; lia). exact IH.
  - destruct (stype s =? 0) eqn:Z0; [reflexivity|].
    destruct (store_walk r ty) as [r' k] eqn:W. cbn [fst get_string] in *. rewrite IH. reflexivity.
Qed.
Lemma get_set_nth_other t n ty ty' s : ty' <> ty -> ty' <> 0 -> stype (nth n t (mks 0 [])) = 0 ->
  get_string (set_nth t n (mks ty s)) ty' = get_string t ty'.
Proof.
  intros Hne H0. revert n; induction t as [|a r IH]; intros n Hn; simpl in *; [reflexivity|].
  destruct n as [|n]; simpl.
  - assert (ty =? ty' = false) as -> by (apply Z.eqb_neq; lia). simpl in Hn. rewrite Hn.
    assert (0 =? ty' = false) as -> by (apply Z.eqb_neq; lia). reflexivity.
  - destruct (stype a =? ty'); [reflexivity | apply IH; assumption].
Qed.
Theorem store_keeps_other_types t ty s ty' : ty <> 0 -> ty <> -1 -> ty' <> ty -> ty' <> 0 -> ty' <> -1 ->
  get_string (fst (store_string t ty s)) ty' = get_string t ty'.
Proof.
  intros H0 H1 Hne H0' H1'. unfold store_string. pose proof (store_walk_spec t ty H0 H1) as W.
  pose proof (store_walk_other t ty ty' Hne H1') as O.
  destruct (store_walk t ty) as [t' k]. simpl in O. destruct k as [n|]; simpl; [|exact O].
  destruct W as (_ & B & _). rewrite get_set_nth_other by assumption. exact O.
Qed.

(** a store succeeds while a free slot is left: at most 32 stores in the life of a handle (replaced entries are not reused) *)
Lemma store_walk_finds_free t ty : ty <> 0 -> (exists s, In s t /\ stype s = 0) -> snd (store_walk t ty) <> None.
Proof.
  intros H0 (s & Hin & Hs). induction t as [|a r IH]; simpl; [contradiction|].
  destruct (stype (if stype a =? ty then mks (-1) (stext a) else a) =? 0) eqn:E; simpl; [discriminate|].
  destruct Hin as [<-|Hin].
  - rewrite Hs in E. destruct (0 =? ty) eqn:F; [apply Z.eqb_eq in F; congruence|]. simpl in E. rewrite Hs in E. discriminate.
  - specialize (IH Hin). destruct (store_walk r ty) as [r' k]. simpl in *. destruct k; [discriminate | contradiction].
Qed.

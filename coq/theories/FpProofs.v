(** Facts about the float model used by the conversion theorems. *)
From Coq Require Import ZArith List Lia Bool.
From SF Require Import Bits Fp.
Local Open Scope Z_scope.

(** a value that fits the format is a fixed point of rounding *)
Lemma round_fmt_exact p emin emax s m e :
  0 < m -> Z.log2 m + 1 <= p -> emin <= e -> e + Z.log2 m + 1 <= emax ->
  round_fmt p emin emax (Fin s m e) = Fin s m e.
Proof.
  intros Hm Hb He Ho. unfold round_fmt.
  replace (m =? 0) with false by (symmetry; apply Z.eqb_neq; lia).
  replace (Z.max (e + (Z.log2 m + 1) - p) emin <=? e) with true by (symmetry; apply Z.leb_le; lia).
  replace (emax <? e + (Z.log2 m + 1)) with false by (symmetry; apply Z.ltb_ge; lia).
  reflexivity.
Qed.

Lemma round_fmt_zero p emin emax s e : round_fmt p emin emax (Fin s 0 e) = Fin s 0 0.
Proof. reflexivity. Qed.

(** nearest integer: [rne_int] is within half a unit of the value (stated on integers:
    value = sgn * m * 2^e, for e < 0 compare numerators at denominator 2^-e) *)
Lemma rne_int_nonneg_exp s m e : 0 <= e -> rne_int s m e = sgn_m s (m * 2 ^ e).
Proof. intro H. unfold rne_int. replace (0 <=? e) with true by (symmetry; apply Z.leb_le; lia). reflexivity. Qed.

Lemma rne_int_half s m k : 0 <= m -> 0 < k ->
  2 * Z.abs (rne_int s m (- k) * 2 ^ k - sgn_m s m) <= 2 ^ k.
Proof.
  intros Hm Hk. unfold rne_int.
  replace (0 <=? - k) with false by (symmetry; apply Z.leb_gt; lia).
  replace (- - k) with k by lia.
  assert (0 < 2 ^ k) as HP by (apply Z.pow_pos_nonneg; lia).
  assert (2 ^ k = 2 * 2 ^ (k - 1)) as E.
  { replace k with (Z.succ (k - 1)) at 1 by lia. rewrite Z.pow_succ_r by lia. reflexivity. }
  set (P := 2 ^ k) in *. set (H := 2 ^ (k - 1)) in *.
  pose proof (Z.div_mod m P ltac:(lia)) as D. pose proof (Z.mod_pos_bound m P HP) as B.
  set (q := m / P) in *. set (r := m mod P) in *. clearbody P H q r.
  destruct ((H <? r) || ((r =? H) && Z.odd q)) eqn:C.
  - assert (H <= r) as Hr.
    { apply orb_true_iff in C. destruct C as [C|C]; [apply Z.ltb_lt in C; lia|].
      apply andb_true_iff in C. destruct C as [C _]. apply Z.eqb_eq in C. lia. }
    destruct s; unfold sgn_m; lia.
  - assert (r <= H) as Hr.
    { apply orb_false_iff in C. destruct C as [C _]. apply Z.ltb_ge in C. lia. }
    destruct s; unfold sgn_m; lia.
Qed.

(** an integer interval that contains the value contains its rounding *)
Lemma rne_int_between s m e a b :
  0 <= m ->
  (if 0 <=? e then a <= sgn_m s (m * 2 ^ e) <= b
   else a * 2 ^ (- e) <= sgn_m s m <= b * 2 ^ (- e)) ->
  a <= rne_int s m e <= b.
Proof.
  intros Hm H. unfold rne_int. destruct (0 <=? e) eqn:E; [exact H|].
  apply Z.leb_gt in E.
  assert (0 < 2 ^ (- e)) as HP by (apply Z.pow_pos_nonneg; lia).
  set (P := 2 ^ (- e)) in *.
  pose proof (Z.div_mod m P ltac:(lia)) as D. pose proof (Z.mod_pos_bound m P HP) as B.
  set (q := m / P) in *. set (r := m mod P) in *.
  assert (0 < 2 ^ (- e - 1)) as HH by (apply Z.pow_pos_nonneg; lia).
  set (H2 := 2 ^ (- e - 1)) in *. clearbody P q r H2.
  destruct ((H2 <? r) || ((r =? H2) && Z.odd q)) eqn:C.
  - assert (0 < r) as Hr.
    { apply orb_true_iff in C. destruct C as [C|C]; [apply Z.ltb_lt in C; lia|].
      apply andb_true_iff in C. destruct C as [C _]. apply Z.eqb_eq in C. lia. }
    destruct s; unfold sgn_m in *; nia.
  - destruct s; unfold sgn_m in *; nia.
Qed.

(** comparisons against integers, unfolded *)
Lemma fcompare_int s m e (n : Z) :
  fcompare (Fin s m e) (of_int n) =
  Some (if 0 <=? e then Z.compare (sgn_m s m * 2 ^ e) n else Z.compare (sgn_m s m) (n * 2 ^ (- e))).
Proof.
  unfold fcompare, of_int. f_equal.
  assert (sgn_m (n <? 0) (Z.abs n) = n) as Hn.
  { unfold sgn_m. destruct (n <? 0) eqn:K; [apply Z.ltb_lt in K | apply Z.ltb_ge in K]; lia. }
  rewrite Hn. destruct (0 <=? e) eqn:E.
  - apply Z.leb_le in E. replace (Z.min e 0) with 0 by lia.
    replace (e - 0) with e by lia. replace (0 - 0) with 0 by lia. rewrite Z.pow_0_r, Z.mul_1_r. reflexivity.
  - apply Z.leb_gt in E. replace (Z.min e 0) with e by lia.
    replace (e - e) with 0 by lia. rewrite Z.pow_0_r, Z.mul_1_r. replace (0 - e) with (- e) by lia. reflexivity.
Qed.

(** rounding keeps the shape: a finite input with non-negative mantissa gives a finite value with
    non-negative mantissa, or an infinity -- never NaN *)
Definition good (x : fval) : Prop := match x with Fin _ m _ => 0 <= m | Inf _ => True | NaN => False end.

Lemma round_fmt_good p emin emax s m e : 0 <= m -> good (round_fmt p emin emax (Fin s m e)).
Proof.
  intro Hm. unfold round_fmt.
  destruct (m =? 0); [simpl; lia|].
  destruct (Z.max (e + (Z.log2 m + 1) - p) emin <=? e).
  - destruct (emax <? e + (Z.log2 m + 1)); simpl; auto.
  - set (k := Z.max (e + (Z.log2 m + 1) - p) emin - e).
    assert (0 <= m / 2 ^ k) as Hq.
    { destruct (Z_le_gt_dec 0 k).
      - apply Z.div_pos; [lia | apply Z.pow_pos_nonneg; lia].
      - rewrite Z.pow_neg_r by lia. rewrite Zdiv_0_r. lia. }
    set (q' := if (2 ^ (k - 1) <? m mod 2 ^ k) || (m mod 2 ^ k =? 2 ^ (k - 1)) && Z.odd (m / 2 ^ k) then m / 2 ^ k + 1 else m / 2 ^ k).
    assert (0 <= q') as Hq'.
    { unfold q'. destruct ((2 ^ (k - 1) <? m mod 2 ^ k) || (m mod 2 ^ k =? 2 ^ (k - 1)) && Z.odd (m / 2 ^ k)); lia. }
    destruct (q' =? 0); [simpl; lia|].
    destruct (emax <? _); simpl; auto.
Qed.

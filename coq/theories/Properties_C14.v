(** C14 -- path, descriptor, virtual-I/O and embedded access give identical results.
    Model: FileIO.v (the route switch at the top of psf_fseek / psf_fread / psf_ftell / psf_get_filelen, psf_fclose).
    Tie: K correspondence of the file_io.c primitives on an embedded file with leading / trailing junk and on the virtual
    route; the API-level route oracle of checks/c14.py (same script through sf_open, sf_open_fd with close_desc 0/1,
    sf_open_virtual, sf_open_fd at an offset inside a junk-wrapped file, and a pipe). *)
From Coq Require Import ZArith List Lia Bool.
From SF Require Import FileIO FileIOProofs.
Import ListNotations.
Local Open Scope Z_scope.

(** for every history of seeks (SEEK_SET / SEEK_CUR), reads and tells that stay inside the sound file, the descriptor route at
    fileoffset |pre| on pre ++ F ++ post returns exactly what the virtual route returns on F, whatever the junk around it *)
Theorem embedded_descriptor_route_equals_virtual_route : forall ops pre F post p, 0 <= p <= len F -> all_inside (len F) F p ops ->
  let '(fv, rs) := run vio_step (mkf F p) ops in
  run (fd_step (len pre)) (mkf (pre ++ F ++ post) (len pre + p)) ops = (mkf (pre ++ F ++ post) (len pre + pos fv), rs).
Proof. exact route_refinement. Qed.

Theorem embedded_file_length_is_its_own : forall pre F post, 0 < len pre -> 0 < len F ->
  fd_filelen (len pre) (len F) (mkf (pre ++ F ++ post) 0) = len F.
Proof. exact embedded_length_is_the_sound_files. Qed.

(** sf_close closes a descriptor passed to sf_open_fd exactly when close_desc was true *)
Theorem close_respects_descriptor_ownership : forall keep, fclose keep true = keep.
Proof. exact descriptor_ownership. Qed.

Example c14_witness :
  run (fd_step 3) (mkf [9; 9; 9; 1; 2; 3; 4; 7; 7] 3) [Read 2; Seek 1 0; Read 3; Tell] =
  (mkf [9; 9; 9; 1; 2; 3; 4; 7; 7] 7, [RBytes [1; 2]; RZ 1; RBytes [2; 3; 4]; RZ 4]).
Proof. reflexivity. Qed.

Print Assumptions embedded_descriptor_route_equals_virtual_route.
Print Assumptions close_respects_descriptor_ownership.

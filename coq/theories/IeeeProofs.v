(** The portable serialisers are exact on every normal value: symbolic in sign, exponent field and fraction. *)
From Coq Require Import ZArith List Lia Bool.
From SF Require Import Bits Fp Ieee.
Import ListNotations.
Local Open Scope Z_scope.
Ltac Zify.zify_post_hook ::= Z.div_mod_to_equations.
(* equality of explicit lists, element by element, each closed by lia *)
Ltac list_lia := repeat (apply (f_equal2 (@cons Z)); [try (destruct_s_lia) |]); try reflexivity
with destruct_s_lia := match goal with s : bool |- _ => destruct s; lia | _ => lia end.

(** Normal binary32 value with fields s, E (1..254), F (23 bits), and its native bytes (big endian). *)
Definition val32 (s : bool) (E F : Z) : fval := Fin s (2 ^ 23 + F) (E - 150).
Definition pat32 (s : bool) (E F : Z) : Z := (if s then 2 ^ 31 else 0) + E * 2 ^ 23 + F.
Definition native32_be (s : bool) (E F : Z) : list Z := be_bytes 4 (pat32 s E F).

Definition val64 (s : bool) (E F : Z) : fval := Fin s (2 ^ 52 + F) (E - 1075).
Definition pat64 (s : bool) (E F : Z) : Z := (if s then 2 ^ 63 else 0) + E * 2 ^ 52 + F.
Definition native64_be (s : bool) (E F : Z) : list Z := be_bytes 8 (pat64 s E F).

Lemma log2_23 F : 0 <= F < 2 ^ 23 -> Z.log2 (2 ^ 23 + F) = 23.
Proof. intro H. apply Z.log2_unique; lia. Qed.
Lemma log2_52 F : 0 <= F < 2 ^ 52 -> Z.log2 (2 ^ 52 + F) = 52.
Proof. intro H. apply Z.log2_unique; lia. Qed.

(** [b32_decode] of the native pattern is the value *)
Lemma decode32_normal s E F : 1 <= E <= 254 -> 0 <= F < 2 ^ 23 ->
  b32_decode (pat32 s E F) = val32 s E F.
Proof.
  intros HE HF. unfold b32_decode, b_decode, pat32, val32.
  assert (Z.testbit ((if s then 2 ^ 31 else 0) + E * 2 ^ 23 + F) (8 + 23) = s) as Hs.
  { change (8 + 23) with 31. destruct s.
    - apply Z.testbit_true; [lia|].
      replace ((2 ^ 31 + E * 2 ^ 23 + F) / 2 ^ 31) with 1 by (apply Z.div_unique with (E * 2 ^ 23 + F); lia). reflexivity.
    - apply Z.testbit_false; [lia|]. rewrite Z.div_small by lia. reflexivity. }
  rewrite Hs.
  assert (((if s then 2 ^ 31 else 0) + E * 2 ^ 23 + F) / 2 ^ 23 mod 2 ^ 8 = E) as HEe by (destruct s; lia).
  rewrite HEe.
  assert (((if s then 2 ^ 31 else 0) + E * 2 ^ 23 + F) mod 2 ^ 23 = F) as HFf by (destruct s; lia).
  rewrite HFf.
  replace (E =? 2 ^ 8 - 1) with false by (symmetry; apply Z.eqb_neq; lia).
  replace (E =? 0) with false by (symmetry; apply Z.eqb_neq; lia).
  f_equal. change (2 ^ (8 - 1) - 1) with 127. lia.
Qed.

(** every normal value is a fixed point of [round32] *)
Lemma round32_normal s E F : 1 <= E <= 254 -> 0 <= F < 2 ^ 23 -> round32 (val32 s E F) = val32 s E F.
Proof.
  intros HE HF. unfold round32, round_fmt, val32.
  replace (2 ^ 23 + F =? 0) with false by (symmetry; apply Z.eqb_neq; lia).
  rewrite log2_23 by lia.
  replace (Z.max (E - 150 + (23 + 1) - 24) (-149)) with (E - 150) by lia.
  rewrite Z.leb_refl.
  replace (128 <? E - 150 + (23 + 1)) with false by (symmetry; apply Z.ltb_ge; lia).
  reflexivity.
Qed.

(** *** read *)
Lemma bytes_of_pat32 s E F : 1 <= E <= 254 -> 0 <= F < 2 ^ 23 ->
  native32_be s E F =
    [ (if s then 128 else 0) + E / 2 ; (E mod 2) * 128 + F / 65536 ; (F / 256) mod 256 ; F mod 256 ].
Proof.
  intros HE HF. unfold native32_be, be_bytes, pat32. cbn [le_bytes rev app].
  set (P := (if s then 2 ^ 31 else 0) + E * 2 ^ 23 + F).
  assert (P = ((if s then 128 else 0) + E / 2) * 2 ^ 24 + ((E mod 2) * 128 + F / 65536) * 65536 + ((F / 256) mod 256) * 256 + F mod 256) as HP.
  { unfold P. destruct s; lia. }
  assert (0 <= (if s then 128 else 0) + E / 2 < 256) by (destruct s; lia).
  assert (0 <= (E mod 2) * 128 + F / 65536 < 256) by lia.
  assert (0 <= (F / 256) mod 256 < 256) by lia.
  assert (0 <= F mod 256 < 256) by lia.
  clearbody P.
  set (b0 := (if s then 128 else 0) + E / 2) in *. set (b1 := E mod 2 * 128 + F / 65536) in *.
  set (b2 := (F / 256) mod 256) in *. set (b3 := F mod 256) in *. clearbody b0 b1 b2 b3.
  subst P.
  list_lia.
Qed.

Theorem f32_be_read_normal s E F : 1 <= E <= 254 -> 0 <= F < 2 ^ 23 ->
  match native32_be s E F with
  | [c0; c1; c2; c3] => f32_be_read c0 c1 c2 c3 = val32 s E F
  | _ => False
  end.
Proof.
  intros HE HF. rewrite bytes_of_pat32 by assumption. unfold f32_be_read.
  assert ((128 <=? (if s then 128 else 0) + E / 2) = s) as Hs.
  { destruct s; [apply Z.leb_le; lia | apply Z.leb_gt; lia]. }
  rewrite Hs.
  assert ((((if s then 128 else 0) + E / 2) mod 128) * 2 + (E mod 2 * 128 + F / 65536) / 128 = E) as HEe.
  { destruct s; lia. }
  rewrite HEe.
  assert ((E mod 2 * 128 + F / 65536) mod 128 * 65536 + (F / 256) mod 256 * 256 + F mod 256 = F) as HFf by lia.
  rewrite HFf.
  replace (E =? 0) with false by (symmetry; apply Z.eqb_neq; lia). cbn [andb].
  replace (Fin s (F + 2 ^ 23) (E - 127 - 23)) with (val32 s E F) by (unfold val32; f_equal; lia).
  apply round32_normal; assumption.
Qed.

(** *** write *)
Lemma not_below_thr32 s E F : 1 <= E <= 254 -> 0 <= F < 2 ^ 23 -> flt (fabs (val32 s E F)) thr32 = false.
Proof.
  intros HE HF. unfold flt, fcompare, fabs, val32, thr32, sgn_m.
  assert (Z.min (E - 150) (-126) = E - 150 \/ Z.min (E - 150) (-126) = -126) as [K|K] by lia; rewrite K.
  - replace (E - 150 - (E - 150)) with 0 by lia. rewrite Z.pow_0_r.
    assert (2 ^ (-126 - (E - 150)) <= 2 ^ 23) by (apply Z.pow_le_mono_r; lia).
    set (P := 2 ^ (-126 - (E - 150))) in *. clearbody P.
    destruct (Z.compare_spec ((2 ^ 23 + F) * 1) (1 * P)) as [C|C|C]; try reflexivity. lia.
  - replace (-126 - -126) with 0 by lia. rewrite Z.pow_0_r.
    assert (0 < 2 ^ (E - 150 - -126)) by (apply Z.pow_pos_nonneg; lia).
    set (P := 2 ^ (E - 150 - -126)) in *. clearbody P.
    destruct (Z.compare_spec ((2 ^ 23 + F) * P) (1 * 1)) as [C|C|C]; try reflexivity. nia.
Qed.

Theorem f32_be_write_normal s E F : 1 <= E <= 254 -> 0 <= F < 2 ^ 23 ->
  f32_be_write (val32 s E F) = Some (native32_be s E F).
Proof.
  intros HE HF. rewrite bytes_of_pat32 by assumption.
  unfold f32_be_write, f32_le_write. unfold val32 at 1. fold (val32 s E F).
  rewrite not_below_thr32 by assumption. rewrite log2_23 by lia.
  unfold shiftz. replace (23 - 23) with 0 by lia. cbn [Z.leb Z.compare]. rewrite Z.pow_0_r, Z.mul_1_r.
  replace ((2 ^ 23 + F) mod 2 ^ 23) with F by (apply Z.mod_unique with 1; lia).
  replace (23 + 1 + (E - 150) + 126) with E by lia.
  cbn [option_map rev app]. f_equal. list_lia.
Qed.

(** The tree as found flushed every |x| < 1e-30; witness: the normal value 2^-100 (E = 27, F = 0). *)
Definition f32_le_write_old (x : fval) : option (list Z) :=
  match x with Fin _ m e => if flt (Fin false m e) thr_1e30 then Some [0; 0; 0; 0] else f32_le_write x | _ => None end.
Lemma old_threshold_flushed_normals :
  exists E F, 1 <= E <= 254 /\ 0 <= F < 2 ^ 23 /\ f32_le_write_old (val32 false E F) <> f32_le_write (val32 false E F).
Proof. exists 27, 0. split; [lia|]. split; [lia|]. vm_compute. discriminate. Qed.

(** *** binary64 *)
Lemma round64_normal s E F : 1 <= E <= 2046 -> 0 <= F < 2 ^ 52 -> round64 (val64 s E F) = val64 s E F.
Proof.
  intros HE HF. unfold round64, round_fmt, val64.
  replace (2 ^ 52 + F =? 0) with false by (symmetry; apply Z.eqb_neq; lia).
  rewrite log2_52 by lia.
  replace (Z.max (E - 1075 + (52 + 1) - 53) (-1074)) with (E - 1075) by lia.
  rewrite Z.leb_refl.
  replace (1024 <? E - 1075 + (52 + 1)) with false by (symmetry; apply Z.ltb_ge; lia).
  reflexivity.
Qed.

Definition bytes64 (s : bool) (E F : Z) : list Z :=
  [ (if s then 128 else 0) + E / 16 ; (E mod 16) * 16 + F / 2 ^ 48 ;
    (F / 2 ^ 40) mod 256 ; (F / 2 ^ 32) mod 256 ; (F / 2 ^ 24) mod 256 ;
    (F / 2 ^ 16) mod 256 ; (F / 2 ^ 8) mod 256 ; F mod 256 ].

Lemma bytes_of_pat64 s E F : 1 <= E <= 2046 -> 0 <= F < 2 ^ 52 -> native64_be s E F = bytes64 s E F.
Proof.
  intros HE HF. unfold native64_be, be_bytes, pat64, bytes64.
  set (P := (if s then 2 ^ 63 else 0) + E * 2 ^ 52 + F).
  set (b0 := (if s then 128 else 0) + E / 16). set (b1 := E mod 16 * 16 + F / 2 ^ 48).
  set (b2 := (F / 2 ^ 40) mod 256). set (b3 := (F / 2 ^ 32) mod 256). set (b4 := (F / 2 ^ 24) mod 256).
  set (b5 := (F / 2 ^ 16) mod 256). set (b6 := (F / 2 ^ 8) mod 256). set (b7 := F mod 256).
  assert (P = b0 * 2 ^ 56 + b1 * 2 ^ 48 + b2 * 2 ^ 40 + b3 * 2 ^ 32 + b4 * 2 ^ 24 + b5 * 2 ^ 16 + b6 * 2 ^ 8 + b7) as HP.
  { unfold P, b0, b1, b2, b3, b4, b5, b6, b7. destruct s; lia. }
  assert (0 <= b0 < 256) by (unfold b0; destruct s; lia).
  assert (0 <= b1 < 256) by (unfold b1; lia).
  assert (0 <= b2 < 256) by (unfold b2; lia). assert (0 <= b3 < 256) by (unfold b3; lia).
  assert (0 <= b4 < 256) by (unfold b4; lia). assert (0 <= b5 < 256) by (unfold b5; lia).
  assert (0 <= b6 < 256) by (unfold b6; lia). assert (0 <= b7 < 256) by (unfold b7; lia).
  clearbody P b0 b1 b2 b3 b4 b5 b6 b7.
  assert (P = le_value [b7; b6; b5; b4; b3; b2; b1; b0]) as HL by (cbn [le_value]; lia).
  rewrite HL. change 8%nat with (length [b7; b6; b5; b4; b3; b2; b1; b0]).
  rewrite le_bytes_value; [reflexivity|].
  repeat (constructor; [assumption|]). constructor.
Qed.

Theorem f64_be_read_normal s E F : 1 <= E <= 2046 -> 0 <= F < 2 ^ 52 ->
  f64_be_read (native64_be s E F) = val64 s E F.
Proof.
  intros HE HF. rewrite bytes_of_pat64 by assumption. unfold bytes64, f64_be_read.
  assert ((128 <=? (if s then 128 else 0) + E / 16) = s) as Hs.
  { destruct s; [apply Z.leb_le; lia | apply Z.leb_gt; lia]. }
  rewrite Hs.
  assert ((((if s then 128 else 0) + E / 16) mod 128) * 16 + (E mod 16 * 16 + F / 2 ^ 48) / 16 = E) as HEe.
  { destruct s; lia. }
  rewrite HEe.
  replace (E =? 0) with false by (symmetry; apply Z.eqb_neq; lia). cbn [andb].
  set (upper := (E mod 16 * 16 + F / 2 ^ 48) mod 16 * 2 ^ 24 + (F / 2 ^ 40) mod 256 * 65536 + (F / 2 ^ 32) mod 256 * 256 + (F / 2 ^ 24) mod 256).
  set (lower := (F / 2 ^ 16) mod 256 * 65536 + (F / 2 ^ 8) mod 256 * 256 + F mod 256).
  assert (upper * 2 ^ 24 + lower = F) as HFf by (unfold upper, lower; lia).
  replace (upper * 2 ^ 24 + lower + 2 ^ 52) with (2 ^ 52 + F) by lia.
  replace (E - 1023 - 52) with (E - 1075) by lia.
  apply round64_normal; assumption.
Qed.

Lemma not_below_thr64 s E F : 1 <= E <= 2046 -> 0 <= F < 2 ^ 52 -> flt (fabs (val64 s E F)) thr64 = false.
Proof.
  intros HE HF. unfold flt, fcompare, fabs, val64, thr64, sgn_m.
  assert (Z.min (E - 1075) (-1022) = E - 1075 \/ Z.min (E - 1075) (-1022) = -1022) as [K|K] by lia; rewrite K.
  - replace (E - 1075 - (E - 1075)) with 0 by lia. rewrite Z.pow_0_r.
    assert (2 ^ (-1022 - (E - 1075)) <= 2 ^ 52) by (apply Z.pow_le_mono_r; lia).
    set (P := 2 ^ (-1022 - (E - 1075))) in *. clearbody P.
    destruct (Z.compare_spec ((2 ^ 52 + F) * 1) (1 * P)) as [C|C|C]; try reflexivity. lia.
  - replace (-1022 - -1022) with 0 by lia. rewrite Z.pow_0_r.
    assert (0 < 2 ^ (E - 1075 - -1022)) by (apply Z.pow_pos_nonneg; lia).
    set (P := 2 ^ (E - 1075 - -1022)) in *. clearbody P.
    destruct (Z.compare_spec ((2 ^ 52 + F) * P) (1 * 1)) as [C|C|C]; try reflexivity. nia.
Qed.

Theorem f64_be_write_normal s E F : 1 <= E <= 2046 -> 0 <= F < 2 ^ 52 ->
  f64_be_write (val64 s E F) = Some (native64_be s E F).
Proof.
  intros HE HF. rewrite bytes_of_pat64 by assumption.
  unfold f64_be_write. unfold val64 at 1. fold (val64 s E F).
  rewrite not_below_thr64 by assumption. rewrite log2_52 by lia.
  unfold shiftz. replace (52 - 52) with 0 by lia. cbn [Z.leb Z.compare]. rewrite Z.pow_0_r, Z.mul_1_r.
  replace (52 + 1 + (E - 1075) + 1022) with E by lia.
  unfold bytes64.
  set (hi := (2 ^ 52 + F) / 2 ^ 24). set (lo := (2 ^ 52 + F) mod 2 ^ 24).
  assert (hi = 2 ^ 28 + F / 2 ^ 24) as Hhi by (unfold hi; lia).
  assert (lo = F mod 2 ^ 24) as Hlo by (unfold lo; lia).
  clearbody hi lo. subst hi lo.
  f_equal. list_lia.
Qed.

(** C16 -- no leaked memory, descriptors or temporary files for any call history  (PARTIAL: the ownership ledger and the
    discipline of the allocation sites are theorems; that each *_open / codec init function follows the discipline on every
    parse path -- in particular the local-pointer allocations that are handed to the handle later -- and the descriptor /
    temporary file side are observed on the implementation: block ledger, /proc/self/fd, TMPDIR, LeakSanitizer).
    Model: Resources.v; inventory Gen_Owned.v regenerated from psf_close, the allocation sites and the open exits on every run. *)
From Coq Require Import ZArith List Bool.
From SF Require Import Resources ResourcesProofs.
From SFGen Require Import Gen_Owned.
Import ListNotations.
Local Open Scope Z_scope.

(** every history of allocating calls that follows the discipline: sf_close leaves nothing behind *)
Theorem close_releases_everything : forall ops,
  run_ok freed_fields init ops = true -> close freed_fields (run init ops) = ([], 0).
Proof. exact (close_releases_all freed_fields). Qed.

(** ... and so does an open that fails after any prefix of such a history (the failing sf_open runs the same psf_close) *)
Theorem failing_open_releases_everything : forall ops rest,
  run_ok freed_fields init (ops ++ rest) = true -> close freed_fields (run init ops) = ([], 0).
Proof. exact (failed_open_releases_all freed_fields). Qed.

(** no block is ever unreachable while the handle lives: the live blocks are the ledger entries *)
Theorem live_blocks_are_the_ledger : forall ops,
  run_ok freed_fields init ops = true -> blocks (run init ops) = Z.of_nat (length (live (run init ops))).
Proof. exact (blocks_are_ledger freed_fields). Qed.

(** the source's sites follow the discipline (regenerated inventory): owned field; previous occupant kept, freed, or the
    handle is fresh; nested resources released by their close hook; psf_close runs every release step; no open exit
    abandons an allocated handle *)
Theorem source_sites_follow_the_discipline :
  forallb site_ok alloc_sites = true /\ forallb (fun '(p, rel, _, _) => rel && memz p freed_fields) nested_sites = true /\
  forallb (fun b => b) close_calls = true /\ forallb (fun c => negb (c =? 3)) open_exits = true.
Proof. exact (conj alloc_sites_disciplined (conj nested_sites_released (conj close_runs_everything open_exits_release))). Qed.

Theorem source_site_meets_model : forall x s, In x alloc_sites ->
  let '(f, g, fresh) := x in
  (fresh = true -> holds s (Top f) = false) -> count_under f (live s) = 0 -> op_ok freed_fields s (OAlloc f g) = true.
Proof. exact inventory_site_ok. Qed.

(** each rule is necessary: a field psf_close does not free, an overwrite of an occupied field, a nested resource stored
    before the close hook is installed -- each leaves a leaking history *)
Theorem discipline_is_necessary :
  (forall s f g, memz f freed_fields = false -> holds s (Top f) = false -> In (Top f) (fst (close freed_fields (step s (OAlloc f g))))) /\
  (forall s f, holds s (Top f) = true -> lost (step s (OAlloc f GBlind)) = lost s + 1) /\
  (forall s p t, memz p (hooks s) = false -> holds s (Nest p t) = false -> In (Nest p t) (fst (close freed_fields (step s (ONest p t))))).
Proof. exact (conj (unowned_field_leaks freed_fields) (conj blind_overwrite_leaks (late_hook_leaks freed_fields))). Qed.

(** non-vacuity: an AIFF read-open that parses PEAK twice, MARK (nested marker table) and an instrument, then is closed;
    and the same history with the hook installed late, which leaks the marker table when the open fails in between *)
Example c16_witness :
  run_ok freed_fields init [OAlloc 0 GBlind; OAlloc 1 GBlind; OHook 1; OAlloc 5 GFreedFirst; OAlloc 5 GFreedFirst; ONest 1 0; OAlloc 8 GNullChecked] = true /\
  close freed_fields (run init [OAlloc 0 GBlind; OAlloc 1 GBlind; OAlloc 5 GFreedFirst; ONest 1 0]) = ([Nest 1 0], 0).
Proof. vm_compute. split; reflexivity. Qed.

Print Assumptions close_releases_everything.
Print Assumptions failing_open_releases_everything.
Print Assumptions source_sites_follow_the_discipline.
Print Assumptions discipline_is_necessary.

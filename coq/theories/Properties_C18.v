(** C18 -- PEAK data and signal-max commands equal the true maxima.
    Model: Peak.v (float32_peak_update / double64_peak_update and the running per-channel peak); proofs in PeakProofs.v.
    Tie: PEAK values and positions stored by the implementation for every container that carries a PEAK chunk, all write
    partitions, channel counts and both float encodings are recomputed by the extracted model (checks/c18.py); the
    SFC_CALC_* commands are checked against an independent scan of the same file. *)
From Coq Require Import ZArith List Lia Bool.
From SF Require Import Peak PeakProofs.
Import ListNotations.
Local Open Scope Z_scope.

(** however the frames of a channel are split over write calls (the chunks handed to the update routine), the stored
    peak is that of the concatenated signal *)
Theorem peak_does_not_depend_on_write_partition : forall chunks p base, run p base chunks = spec p base (concat chunks).
Proof. exact peak_partition_independent. Qed.

(** ... which is the maximum magnitude ... *)
Theorem stored_peak_is_the_maximum : forall xs, let s := spec (mkp 0 0) 0 xs in Forall (fun x => x <= pval s) xs /\ 0 <= pval s.
Proof. exact peak_is_true_maximum. Qed.

(** ... at the frame of its FIRST occurrence (ties keep the earlier frame) *)
Theorem stored_position_is_first_occurrence : forall xs, let s := spec (mkp 0 0) 0 xs in
  s = mkp 0 0 \/ (0 <= ppos s < Z.of_nat (length xs) /\ nth (Z.to_nat (ppos s)) xs 0 = pval s /\
                  Forall (fun x => x < pval s) (firstn (Z.to_nat (ppos s)) xs)).
Proof. exact peak_position_is_first_maximum. Qed.

(** the hypothesis hidden in [run]: every chunk starts on a frame boundary.  The staged (converting / byte swapping) write
    paths hand over 2048-item chunks; with a channel count that does not divide 2048 the second chunk starts inside a frame
    and its first item is attributed to channel 0 although it belongs to another channel: witness *)
Theorem staged_chunks_misattribute_channels_refuted :
  exists (chunk2 : list Z),
    let true_channel_of_first_item := Nat.modulo 2048 3 in
    true_channel_of_first_item = 2%nat /\ hd 0 (misaligned_channel_view 3 0 chunk2) = hd 0 chunk2.
Proof. exact staged_chunk_misattributes. Qed.

Example c18_witness : run (mkp 0 0) 0 [[3; 7]; [7; 2]; []; [9; 9]] = mkp 9 4 /\ spec (mkp 0 0) 0 [3; 7; 7; 2; 9; 9] = mkp 9 4.
Proof. split; reflexivity. Qed.

Print Assumptions peak_does_not_depend_on_write_partition.
Print Assumptions stored_peak_is_the_maximum.
Print Assumptions stored_position_is_first_occurrence.

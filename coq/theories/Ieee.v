(** The portable IEEE-754 serialisers of src/float32.c and src/double64.c, byte level. *)
From Coq Require Import ZArith List Lia Bool.
From SF Require Import Bits Fp.
Import ListNotations.
Local Open Scope Z_scope.

(** flush thresholds tested by the writers: FLT_MIN = 2^-126 and DBL_MIN = 2^-1022 (only subnormals
    are written as zero).  The tree as found used (double) 1e-30 = 5708990770823840 * 2^-152 in
    both, which also flushed normal values -- repaired by a fix: commit, see known_findings.json. *)
Definition thr32 : fval := Fin false 1 (-126).
Definition thr64 : fval := Fin false 1 (-1022).
Definition thr_1e30 : fval := Fin false 5708990770823840 (-152).

Definition fabs (x : fval) : fval := match x with Fin _ m e => Fin false m e | Inf _ => Inf false | NaN => NaN end.

(* float32_le_write: out[0..3]; None = input outside the finite values *)
Definition f32_le_write (x : fval) : option (list Z) :=
  match x with
  | Fin s m e =>
    if flt (fabs x) thr32 then Some [0; 0; 0; 0] else
    let exponent := Z.log2 m + 1 + e + 126 in           (* frexp exponent + 126 *)
    let scaled := shiftz m (23 - Z.log2 m) in             (* frexp fraction * 2^24, exact *)
    let mantissa := scaled mod 2 ^ 23 in                  (* (int) in & 0x7FFFFF *)
    Some [ mantissa mod 256 ;
           (mantissa / 256) mod 256 ;
           (exponent mod 2) * 128 + (mantissa / 65536) mod 128 ;
           (if s then 128 else 0) + (exponent / 2) mod 128 ]
  | _ => None
  end.
Definition f32_be_write (x : fval) : option (list Z) := option_map (@rev Z) (f32_le_write x).

(* float32_be_read on bytes c0 c1 c2 c3 (c0 carries the sign) *)
Definition f32_be_read (c0 c1 c2 c3 : Z) : fval :=
  let negative := 128 <=? c0 in
  let exponent := (c0 mod 128) * 2 + c1 / 128 in
  let mantissa := (c1 mod 128) * 65536 + c2 * 256 + c3 in
  if (exponent =? 0) && (mantissa =? 0) then Fin false 0 0 else
  let mantissa := mantissa + 2 ^ 23 in
  let exponent := if exponent =? 0 then 0 else exponent - 127 in
  round32 (Fin negative mantissa (exponent - 23)).
Definition f32_le_read (c0 c1 c2 c3 : Z) : fval := f32_be_read c3 c2 c1 c0.

(* double64_be_write: out[0..7] *)
Definition f64_be_write (x : fval) : option (list Z) :=
  match x with
  | Fin s m e =>
    if flt (fabs x) thr64 then Some [0; 0; 0; 0; 0; 0; 0; 0] else
    let exponent := Z.log2 m + 1 + e + 1022 in
    let frac53 := shiftz m (52 - Z.log2 m) in             (* frexp fraction * 2^53, exact *)
    let hi := frac53 / 2 ^ 24 in                          (* floor (in * 2^29) *)
    let lo := frac53 mod 2 ^ 24 in                        (* floor (fmod (in,1) * 2^24) *)
    Some [ (if s then 128 else 0) + (exponent / 16) mod 128 ;
           ((exponent * 16) mod 256) / 16 * 16 + (hi / 2 ^ 24) mod 16 ;
           (hi / 65536) mod 256 ; (hi / 256) mod 256 ; hi mod 256 ;
           (lo / 65536) mod 256 ; (lo / 256) mod 256 ; lo mod 256 ]
  | _ => None
  end.
Definition f64_le_write (x : fval) : option (list Z) := option_map (@rev Z) (f64_be_write x).

Definition f64_be_read (c : list Z) : fval :=
  match c with
  | [c0; c1; c2; c3; c4; c5; c6; c7] =>
    let negative := 128 <=? c0 in
    let exponent := (c0 mod 128) * 16 + c1 / 16 in
    let upper := (c1 mod 16) * 2 ^ 24 + c2 * 65536 + c3 * 256 + c4 in
    let lower := c5 * 65536 + c6 * 256 + c7 in
    if (exponent =? 0) && (upper =? 0) && (lower =? 0) then Fin false 0 0 else
    (* dvalue = (upper + lower/2^24 + 2^28) / 2^28, all exact in double *)
    let mant := upper * 2 ^ 24 + lower + 2 ^ 52 in
    round64 (Fin negative mant (exponent - 1023 - 52))
  | _ => NaN
  end.
Definition f64_le_read (c : list Z) : fval := f64_be_read (rev c).

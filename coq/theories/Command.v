(** sf_command: which bytes of the caller's [data] block a command may touch, by guard class.
    The classes and natural sizes of all command identifiers are regenerated from the build (Gen_Cmds.v, T1);
    the grid run of checks/c17.py confirms on the implementation, for every identifier, datasize and handle state, that
    nothing beyond datasize is accessed (exact-size heap blocks under AddressSanitizer), that a rejected size leaves the
    block untouched and that queries leave the handle unchanged. *)
From Coq Require Import ZArith List Lia Bool.
From SFGen Require Import Gen_Cmds.
Import ListNotations.
Local Open Scope Z_scope.

(* 0 flag (data ignored, datasize is the value), 1 exact-size struct, 2 string out, 3 variable size in, 4 variable size out,
   5 channels x element, 6 undefined identifier *)
Definition extent (cls size ch d : Z) (null : bool) : Z :=
  if null then 0 else
  if cls =? 1 then (if d =? size then size else 0)
  else if cls =? 5 then (if d =? size * ch then d else 0)
  else if cls =? 2 then (if d <? 1 then 0 else d)
  else if (cls =? 3) || (cls =? 4) then (if d <? 4 then 0 else d)
  else 0.

(** snprintf (data, d, "%s", s): what ends up in the block *)
Definition snprintf_out (s : list Z) (d : Z) : list Z := if d <? 1 then [] else firstn (Z.to_nat (d - 1)) s ++ [0].

Definition lookup (id : Z) : option (Z * Z) :=
  match find (fun e => fst (fst e) =? id) command_table with Some e => Some (snd (fst e), snd e) | None => None end.
(** the extent for ANY identifier: listed ones by their class, everything else (undefined ids) touches nothing *)
Definition cmd_extent (id ch d : Z) (null : bool) : Z :=
  match lookup id with Some (cls, size) => extent cls size ch d null | None => 0 end.

Theorem extent_bounded cls size ch d null : 0 <= d -> 0 <= size -> 0 <= ch ->
  0 <= extent cls size ch d null <= d /\ (null = true -> extent cls size ch d null = 0).
Proof.
  intros Hd Hs Hc. unfold extent. destruct null; [split; [lia | reflexivity]|].
  split; [|discriminate].
  destruct (cls =? 1); [destruct (d =? size) eqn:E; [apply Z.eqb_eq in E; lia | lia]|].
  destruct (cls =? 5); [destruct (d =? size * ch); lia|].
  destruct (cls =? 2); [destruct (d <? 1); lia|].
  destruct ((cls =? 3) || (cls =? 4)); [destruct (d <? 4); lia | lia].
Qed.

Definition table_sizes_ok : bool := forallb (fun e => 0 <=? snd e) command_table.
Lemma table_sizes : table_sizes_ok = true. Proof. vm_compute. reflexivity. Qed.

Lemma lookup_size id cls size : lookup id = Some (cls, size) -> 0 <= size.
Proof.
  unfold lookup. destruct (find _ command_table) as [e|] eqn:F; [|discriminate].
  intros H. inversion H; subst. apply find_some in F. destruct F as [Hin _].
  pose proof table_sizes as T. unfold table_sizes_ok in T. rewrite forallb_forall in T. specialize (T e Hin). apply Z.leb_le in T. exact T.
Qed.

(** for every command identifier, defined or not, every datasize >= 0 and every channel count: at most datasize bytes, none through NULL *)
Theorem command_extent_bounded id ch d null : 0 <= d -> 0 <= ch ->
  0 <= cmd_extent id ch d null <= d /\ (null = true -> cmd_extent id ch d null = 0).
Proof.
  intros Hd Hc. unfold cmd_extent. destruct (lookup id) as [[cls size]|] eqn:L.
  - apply extent_bounded; try assumption. eapply lookup_size; eassumption.
  - split; [lia | reflexivity].
Qed.

(** string commands given datasize >= 1 terminate within it *)
Theorem string_terminated s d : 1 <= d ->
  Z.of_nat (length (snprintf_out s d)) <= d /\ last (snprintf_out s d) 1 = 0.
Proof.
  intros Hd. unfold snprintf_out. destruct (d <? 1) eqn:E; [apply Z.ltb_lt in E; lia|].
  rewrite app_length, firstn_length, last_last. simpl. split; [lia | reflexivity].
Qed.

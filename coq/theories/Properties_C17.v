(** C17 -- sf_command never touches more than datasize bytes and queries are pure.
    Model: Command.v over the command table regenerated from the build (Gen_Cmds.v).  Tie: the complete grid
    command id x datasize 0..sizeof+8 (+ large) x {NULL, exact-size heap block} x handle state x format on the
    implementation under AddressSanitizer (checks/c17.py). *)
From Coq Require Import ZArith List Lia Bool.
From SF Require Import Command.
From SFGen Require Import Gen_Cmds.
Import ListNotations.
Local Open Scope Z_scope.

Theorem command_touches_at_most_datasize : forall id ch d null, 0 <= d -> 0 <= ch ->
  0 <= cmd_extent id ch d null <= d /\ (null = true -> cmd_extent id ch d null = 0).
Proof. exact command_extent_bounded. Qed.

Theorem string_commands_terminate_within_datasize : forall s d, 1 <= d ->
  Z.of_nat (length (snprintf_out s d)) <= d /\ last (snprintf_out s d) 1 = 0.
Proof. exact string_terminated. Qed.

(** a struct command given any size other than its own touches nothing (the grid checks the block is unchanged) *)
Theorem wrong_size_touches_nothing : forall size ch d, d <> size -> extent 1 size ch d false = 0.
Proof. intros size ch d H. unfold extent. simpl. destruct (d =? size) eqn:E; [apply Z.eqb_eq in E; contradiction | reflexivity]. Qed.

Example c17_witness : cmd_extent 4098 2 (snd (match lookup 4098 with Some p => p | None => (0, 0) end)) false <> 0 /\ lookup 4098 <> None.
Proof. vm_compute. split; discriminate. Qed.

Print Assumptions command_touches_at_most_datasize.
Print Assumptions string_commands_terminate_within_datasize.

(** Proofs about the G.711 model: every statement is closed by evaluating a boolean checker over the
    complete (finite) domain inside the kernel and lifting with [forall_range]. *)
From Coq Require Import ZArith List Lia Bool.
From SF Require Import Bits G711.
Local Open Scope Z_scope.

Lemma opt_eqb_eq o v : opt_eqb o v = true -> o = Some v.
Proof. destruct o as [x|]; simpl; [|discriminate]. intro H. apply Z.eqb_eq in H. congruence. Qed.

(** Table-level facts: one linear pass per table. *)
Lemma ulaw_decode_tab_ok : tab_ok ulaw_expand Gen_G711.ulaw_decode_tab 0 = true. Proof. vm_compute. reflexivity. Qed.
Lemma alaw_decode_tab_ok : tab_ok alaw_expand Gen_G711.alaw_decode_tab 0 = true. Proof. vm_compute. reflexivity. Qed.
Lemma ulaw_encode_tab_ok : tab_ok (ulaw_compress false) Gen_G711.ulaw_encode_tab 0 = true. Proof. vm_compute. reflexivity. Qed.
Lemma alaw_encode_tab_ok : tab_ok (alaw_compress false) Gen_G711.alaw_encode_tab 0 = true. Proof. vm_compute. reflexivity. Qed.
Lemma ulaw_tab_len : Z.of_nat (length Gen_G711.ulaw_encode_tab) = 8193. Proof. vm_compute. reflexivity. Qed.
Lemma alaw_tab_len : Z.of_nat (length Gen_G711.alaw_encode_tab) = 2049. Proof. vm_compute. reflexivity. Qed.
Lemma udec_tab_len : Z.of_nat (length Gen_G711.ulaw_decode_tab) = 256. Proof. vm_compute. reflexivity. Qed.
Lemma adec_tab_len : Z.of_nat (length Gen_G711.alaw_decode_tab) = 256. Proof. vm_compute. reflexivity. Qed.

(* the sign mask: 0x7F & (code of +m) is the code of -m *)
Definition chk_umask (m : Z) : bool := land7f (ulaw_compress false m) =? ulaw_compress true m.
Definition chk_amask (m : Z) : bool := land7f (alaw_compress false m) =? alaw_compress true m.
Lemma umask_all : forallb chk_umask (zrange 0 8193) = true. Proof. vm_compute. reflexivity. Qed.
Lemma amask_all : forallb chk_amask (zrange 0 2049) = true. Proof. vm_compute. reflexivity. Qed.

Lemma ulaw_decode_is_g711_l c : 0 <= c < 256 -> c_ulaw2s c = Some (ulaw_expand c).
Proof. intro H. unfold c_ulaw2s. rewrite (tab_ok_lookup _ _ 0 ulaw_decode_tab_ok) by (rewrite udec_tab_len; lia). reflexivity. Qed.
Lemma alaw_decode_is_g711_l c : 0 <= c < 256 -> c_alaw2s c = Some (alaw_expand c).
Proof. intro H. unfold c_alaw2s. rewrite (tab_ok_lookup _ _ 0 alaw_decode_tab_ok) by (rewrite adec_tab_len; lia). reflexivity. Qed.

Lemma ulaw_encode_is_g711_l s : is_short s -> c_s2ulaw s = Some (g711_ulaw_of_short s).
Proof.
  unfold is_short, c_s2ulaw, g711_ulaw_of_short. intro H.
  destruct (0 <=? s) eqn:E.
  - apply Z.leb_le in E. replace (s <? 0) with false by (symmetry; apply Z.ltb_ge; lia).
    rewrite Z.abs_eq by lia. rewrite Z.quot_div_nonneg by lia.
    assert (0 <= s / 4 < 8193) by (split; [apply Z.div_pos; lia| apply Z.div_lt_upper_bound; lia]).
    rewrite (tab_ok_lookup _ _ 0 ulaw_encode_tab_ok) by (rewrite ulaw_tab_len; lia). reflexivity.
  - apply Z.leb_gt in E. replace (s <? 0) with true by (symmetry; apply Z.ltb_lt; lia).
    rewrite Z.abs_neq by lia.
    replace (Z.quot s (-4)) with (- s / 4).
    2:{ replace s with (- (- s)) at 2 by lia. replace (-4) with (- (4)) by reflexivity.
        rewrite Z.quot_opp_opp by lia. rewrite Z.quot_div_nonneg by lia. reflexivity. }
    assert (0 <= - s / 4 < 8193) by (split; [apply Z.div_pos; lia| apply Z.div_lt_upper_bound; lia]).
    rewrite (tab_ok_lookup _ _ 0 ulaw_encode_tab_ok) by (rewrite ulaw_tab_len; lia). cbn [option_map Z.add].
    f_equal. apply Z.eqb_eq. apply (forall_range chk_umask 0 8193 umask_all). lia.
Qed.

Lemma alaw_encode_is_g711_l s : is_short s -> c_s2alaw s = Some (g711_alaw_of_short s).
Proof.
  unfold is_short, c_s2alaw, g711_alaw_of_short. intro H.
  destruct (0 <=? s) eqn:E.
  - apply Z.leb_le in E. replace (s <? 0) with false by (symmetry; apply Z.ltb_ge; lia).
    rewrite Z.abs_eq by lia. rewrite Z.quot_div_nonneg by lia.
    assert (0 <= s / 16 < 2049) by (split; [apply Z.div_pos; lia| apply Z.div_lt_upper_bound; lia]).
    rewrite (tab_ok_lookup _ _ 0 alaw_encode_tab_ok) by (rewrite alaw_tab_len; lia). reflexivity.
  - apply Z.leb_gt in E. replace (s <? 0) with true by (symmetry; apply Z.ltb_lt; lia).
    rewrite Z.abs_neq by lia.
    replace (Z.quot s (-16)) with (- s / 16).
    2:{ replace s with (- (- s)) at 2 by lia. replace (-16) with (- (16)) by reflexivity.
        rewrite Z.quot_opp_opp by lia. rewrite Z.quot_div_nonneg by lia. reflexivity. }
    assert (0 <= - s / 16 < 2049) by (split; [apply Z.div_pos; lia| apply Z.div_lt_upper_bound; lia]).
    rewrite (tab_ok_lookup _ _ 0 alaw_encode_tab_ok) by (rewrite alaw_tab_len; lia). cbn [option_map Z.add].
    f_equal. apply Z.eqb_eq. apply (forall_range chk_amask 0 2049 amask_all). lia.
Qed.

(* encode after decode on codes: decode values are shorts, so the encode lemma applies; the
   remaining statement is about the two definitions and is evaluated on all 256 codes *)
Definition chk_ucode_spec (c : Z) : bool :=
  (g711_ulaw_of_short (ulaw_expand c) =? (if c =? 127 then 255 else c)) &&
  (-32768 <=? ulaw_expand c) && (ulaw_expand c <=? 32767).
Definition chk_acode_spec (c : Z) : bool :=
  (g711_alaw_of_short (alaw_expand c) =? c) && (-32768 <=? alaw_expand c) && (alaw_expand c <=? 32767).
Lemma ucode_spec_all : forallb chk_ucode_spec (zrange 0 256) = true. Proof. vm_compute. reflexivity. Qed.
Lemma acode_spec_all : forallb chk_acode_spec (zrange 0 256) = true. Proof. vm_compute. reflexivity. Qed.

Lemma ulaw_codes_fixed_l c : 0 <= c < 256 ->
  c_s2ulaw (ulaw_expand c) = Some (if c =? 127 then 255 else c).
Proof.
  intro H. pose proof (forall_range chk_ucode_spec 0 256 ucode_spec_all c H) as K.
  unfold chk_ucode_spec in K. apply andb_prop in K. destruct K as [K K3]. apply andb_prop in K. destruct K as [K1 K2].
  apply Z.eqb_eq in K1. apply Z.leb_le in K2. apply Z.leb_le in K3.
  rewrite ulaw_encode_is_g711_l by (unfold is_short; lia). congruence.
Qed.
Lemma alaw_codes_fixed_l c : 0 <= c < 256 -> c_s2alaw (alaw_expand c) = Some c.
Proof.
  intro H. pose proof (forall_range chk_acode_spec 0 256 acode_spec_all c H) as K.
  unfold chk_acode_spec in K. apply andb_prop in K. destruct K as [K K3]. apply andb_prop in K. destruct K as [K1 K2].
  apply Z.eqb_eq in K1. apply Z.leb_le in K2. apply Z.leb_le in K3.
  rewrite alaw_encode_is_g711_l by (unfold is_short; lia). congruence.
Qed.

(** Quantiser: decode after encode lands within half a step of the segment (the G.711 decision
    intervals), is monotone, and every output level is a fixed point. *)
Lemma uq_err_all : forallb (leb_chk (fun s => Z.abs (uq s - s)) ustep_half) (zrange (-32635) 32636) = true.  Proof. vm_compute. reflexivity. Qed.
Lemma aq_err_all : forallb (leb_chk (fun s => Z.abs (aq s - s)) astep_half) (zrange (-32768) 32768) = true.  Proof. vm_compute. reflexivity. Qed.
Lemma uq_mono_all : forallb (leb_chk uq (fun s => uq (s + 1))) (zrange (-32768) 32767) = true. Proof. vm_compute. reflexivity. Qed.
Lemma aq_mono_all : forallb (leb_chk aq (fun s => aq (s + 1))) (zrange (-32768) 32767) = true. Proof. vm_compute. reflexivity. Qed.
Lemma uq_fix_all : forallb (eqb_chk (fun s => uq (uq s)) uq) (zrange (-32768) 32768) = true. Proof. vm_compute. reflexivity. Qed.
Lemma aq_fix_all : forallb (eqb_chk (fun s => aq (aq s)) aq) (zrange (-32768) 32768) = true. Proof. vm_compute. reflexivity. Qed.

Lemma ulaw_quantiser_l s : is_short s ->
  (Z.abs s <= 32635 -> Z.abs (uq s - s) <= ustep_half s) /\
  (s < 32767 -> uq s <= uq (s + 1)) /\ uq (uq s) = uq s.
Proof.
  unfold is_short; intro H. split; [|split].
  - intro Ha. assert (-32635 <= s < 32636) as R by lia.
    exact (leb_chk_sound _ _ _ _ uq_err_all s R).
  - intro Hs. assert (-32768 <= s < 32767) as R by lia.
    exact (leb_chk_sound _ _ _ _ uq_mono_all s R).
  - assert (-32768 <= s < 32768) as R by lia.
    exact (eqb_chk_sound _ _ _ _ uq_fix_all s R).
Qed.
Lemma alaw_quantiser_l s : is_short s ->
  Z.abs (aq s - s) <= astep_half s /\ (s < 32767 -> aq s <= aq (s + 1)) /\ aq (aq s) = aq s.
Proof.
  unfold is_short; intro H. split; [|split].
  - assert (-32768 <= s < 32768) as R by lia.
    exact (leb_chk_sound _ _ _ _ aq_err_all s R).
  - intro Hs. assert (-32768 <= s < 32767) as R by lia.
    exact (leb_chk_sound _ _ _ _ aq_mono_all s R).
  - assert (-32768 <= s < 32768) as R by lia.
    exact (eqb_chk_sound _ _ _ _ aq_fix_all s R).
Qed.

(** The int path: for every int32 [x] other than INT_MIN the code chosen equals the code of the
    short made of the top 16 bits' magnitude -- proved symbolically from the short theorem:
    [x >> 18] for x >= 0 is [(x / 65536) / 4], and for x < 0 [(-x) >> 18] is [(-x / 65536) / 4]. *)
Definition mag16 (x : Z) : Z := Z.abs x / 65536.

Lemma shiftr18 x : 0 <= x -> Z.shiftr x 18 = x / 65536 / 4.
Proof. intro H. rewrite Z.shiftr_div_pow2 by lia. rewrite Z.div_div by lia. reflexivity. Qed.
Lemma shiftr20 x : 0 <= x -> Z.shiftr x 20 = x / 65536 / 16.
Proof. intro H. rewrite Z.shiftr_div_pow2 by lia. rewrite Z.div_div by lia. reflexivity. Qed.

Lemma quot_nonneg a b : 0 <= a -> 0 < b -> Z.quot a b = a / b.
Proof. intros. apply Z.quot_div_nonneg; lia. Qed.

(* the short whose magnitude is the top-16-bit magnitude of x and whose sign is x's *)
Definition short_of_int (x : Z) : Z := if 0 <=? x then mag16 x else - mag16 x.

Lemma c_i2ulaw_via_short x : is_int32 x -> x <> INT_MIN ->
  c_i2ulaw x = (if (x <? 0) && (mag16 x =? 0) then option_map land7f (c_s2ulaw 0) else c_s2ulaw (short_of_int x)).
Proof.
  unfold is_int32, c_i2ulaw, c_s2ulaw, short_of_int, mag16, INT_MIN, INT_MAX. intros H Hm.
  destruct (x =? -2147483648) eqn:E; [apply Z.eqb_eq in E; lia|].
  destruct (0 <=? x) eqn:E1.
  - apply Z.leb_le in E1. replace (x <? 0) with false by (symmetry; apply Z.ltb_ge; lia). simpl.
    rewrite Z.abs_eq by lia.
    assert (0 <= x / 65536) by (apply Z.div_pos; lia).
    replace (0 <=? x / 65536) with true by (symmetry; apply Z.leb_le; lia).
    rewrite shiftr18, quot_nonneg by lia. reflexivity.
  - apply Z.leb_gt in E1. replace (x <? 0) with true by (symmetry; apply Z.ltb_lt; lia).
    rewrite Z.abs_neq by lia. rewrite shiftr18 by lia.
    assert (0 <= - x / 65536) by (apply Z.div_pos; lia).
    destruct (- x / 65536 =? 0) eqn:E2; simpl.
    + apply Z.eqb_eq in E2. rewrite E2. reflexivity.
    + apply Z.eqb_neq in E2.
      replace (0 <=? - (- x / 65536)) with false by (symmetry; apply Z.leb_gt; lia).
      f_equal. f_equal. replace (-4) with (- (4)) by reflexivity.
      rewrite Z.quot_opp_opp by lia. rewrite quot_nonneg by lia. reflexivity.
Qed.

Lemma c_i2alaw_via_short x : is_int32 x -> x <> INT_MIN ->
  c_i2alaw x = (if (x <? 0) && (mag16 x =? 0) then option_map land7f (c_s2alaw 0) else c_s2alaw (short_of_int x)).
Proof.
  unfold is_int32, c_i2alaw, c_s2alaw, short_of_int, mag16, INT_MIN, INT_MAX. intros H Hm.
  destruct (x =? -2147483648) eqn:E; [apply Z.eqb_eq in E; lia|].
  destruct (0 <=? x) eqn:E1.
  - apply Z.leb_le in E1. replace (x <? 0) with false by (symmetry; apply Z.ltb_ge; lia). simpl.
    rewrite Z.abs_eq by lia.
    assert (0 <= x / 65536) by (apply Z.div_pos; lia).
    replace (0 <=? x / 65536) with true by (symmetry; apply Z.leb_le; lia).
    rewrite shiftr20, quot_nonneg by lia. reflexivity.
  - apply Z.leb_gt in E1. replace (x <? 0) with true by (symmetry; apply Z.ltb_lt; lia).
    rewrite Z.abs_neq by lia. rewrite shiftr20 by lia.
    assert (0 <= - x / 65536) by (apply Z.div_pos; lia).
    destruct (- x / 65536 =? 0) eqn:E2; simpl.
    + apply Z.eqb_eq in E2. rewrite E2. reflexivity.
    + apply Z.eqb_neq in E2.
      replace (0 <=? - (- x / 65536)) with false by (symmetry; apply Z.leb_gt; lia).
      f_equal. f_equal. replace (-16) with (- (16)) by reflexivity.
      rewrite Z.quot_opp_opp by lia. rewrite quot_nonneg by lia. reflexivity.
Qed.

(** INT_MIN takes the code of the negative extreme (the code of -32768 as a short). *)
Lemma i2ulaw_int_min : c_i2ulaw INT_MIN = c_s2ulaw (-32768).
Proof. vm_compute. reflexivity. Qed.
Lemma i2alaw_int_min : c_i2alaw INT_MIN = c_s2alaw (-32768).
Proof. vm_compute. reflexivity. Qed.

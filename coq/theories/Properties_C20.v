(** C20 -- built-in codec kernels conform to their published definitions for every input.
    This file contains only the property theorems; proofs are in G711Proofs, IeeeProofs, Endian, AdpcmProofs. *)
From Coq Require Import ZArith List Lia Bool.
From SF Require Import Bits Fp G711 G711Proofs Ieee IeeeProofs Endian.
Import ListNotations.
Local Open Scope Z_scope.

(** G.711: the lookup tables of the source (regenerated into SFGen.Gen_G711 on every run), indexed
    as the C indexes them, compute the Recommendation's expansion / compression for all 256 codes
    and all 65536 shorts. *)
Theorem ulaw_decode_is_g711 : forall c, 0 <= c < 256 -> c_ulaw2s c = Some (ulaw_expand c).
Proof. exact ulaw_decode_is_g711_l. Qed.
Theorem alaw_decode_is_g711 : forall c, 0 <= c < 256 -> c_alaw2s c = Some (alaw_expand c).
Proof. exact alaw_decode_is_g711_l. Qed.
Theorem ulaw_encode_is_g711 : forall s, is_short s -> c_s2ulaw s = Some (g711_ulaw_of_short s).
Proof. exact ulaw_encode_is_g711_l. Qed.
Theorem alaw_encode_is_g711 : forall s, is_short s -> c_s2alaw s = Some (g711_alaw_of_short s).
Proof. exact alaw_encode_is_g711_l. Qed.

(** encode after decode is the identity on codes (mu-law 0x7F is G.711's negative zero and goes to 0xFF) *)
Theorem ulaw_codes_fixed : forall c, 0 <= c < 256 -> c_s2ulaw (ulaw_expand c) = Some (if c =? 127 then 255 else c).
Proof. exact ulaw_codes_fixed_l. Qed.
Theorem alaw_codes_fixed : forall c, 0 <= c < 256 -> c_s2alaw (alaw_expand c) = Some c.
Proof. exact alaw_codes_fixed_l. Qed.

(** decode after encode is the G.711 quantiser: within half a step of the segment, monotone, idempotent *)
Theorem ulaw_quantiser : forall s, is_short s ->
  (Z.abs s <= 32635 -> Z.abs (uq s - s) <= ustep_half s) /\ (s < 32767 -> uq s <= uq (s + 1)) /\ uq (uq s) = uq s.
Proof. exact ulaw_quantiser_l. Qed.
Theorem alaw_quantiser : forall s, is_short s ->
  Z.abs (aq s - s) <= astep_half s /\ (s < 32767 -> aq s <= aq (s + 1)) /\ aq (aq s) = aq s.
Proof. exact alaw_quantiser_l. Qed.

(** the int entry point agrees with the short one on the top 16 bits' magnitude, for every int32 *)
Theorem ulaw_int_path : forall x, is_int32 x -> x <> INT_MIN ->
  c_i2ulaw x = (if (x <? 0) && (mag16 x =? 0) then option_map land7f (c_s2ulaw 0) else c_s2ulaw (short_of_int x)).
Proof. exact c_i2ulaw_via_short. Qed.
Theorem alaw_int_path : forall x, is_int32 x -> x <> INT_MIN ->
  c_i2alaw x = (if (x <? 0) && (mag16 x =? 0) then option_map land7f (c_s2alaw 0) else c_s2alaw (short_of_int x)).
Proof. exact c_i2alaw_via_short. Qed.
Theorem ulaw_int_min : c_i2ulaw INT_MIN = c_s2ulaw (-32768).
Proof. exact i2ulaw_int_min. Qed.
Theorem alaw_int_min : c_i2alaw INT_MIN = c_s2alaw (-32768).
Proof. exact i2alaw_int_min. Qed.

(** Portable IEEE serialisers: for every normal value (symbolic in sign, exponent field and fraction)
    the writer emits the native bytes and the reader returns the value. *)
Theorem ieee32_write_exact : forall s E F, 1 <= E <= 254 -> 0 <= F < 2 ^ 23 ->
  f32_be_write (val32 s E F) = Some (native32_be s E F).
Proof. exact f32_be_write_normal. Qed.
Theorem ieee32_read_exact : forall s E F, 1 <= E <= 254 -> 0 <= F < 2 ^ 23 ->
  match native32_be s E F with [c0; c1; c2; c3] => f32_be_read c0 c1 c2 c3 = val32 s E F | _ => False end.
Proof. exact f32_be_read_normal. Qed.
Theorem ieee64_write_exact : forall s E F, 1 <= E <= 2046 -> 0 <= F < 2 ^ 52 ->
  f64_be_write (val64 s E F) = Some (native64_be s E F).
Proof. exact f64_be_write_normal. Qed.
Theorem ieee64_read_exact : forall s E F, 1 <= E <= 2046 -> 0 <= F < 2 ^ 52 ->
  f64_be_read (native64_be s E F) = val64 s E F.
Proof. exact f64_be_read_normal. Qed.
Theorem native32_is_the_pattern : forall s E F, 1 <= E <= 254 -> 0 <= F < 2 ^ 23 ->
  b32_decode (pat32 s E F) = val32 s E F.
Proof. exact decode32_normal. Qed.

(** Byte-order helpers are exact involutions / inverses, for every width *)
Theorem endswap_involution : forall n x, 0 <= x < 256 ^ Z.of_nat n -> bswap n (bswap n x) = x.
Proof. exact bswap_involution. Qed.
Theorem get_put_be_inverse : forall n v, (0 < n)%nat -> in_int (8 * Z.of_nat n) v -> get_be n (put_be n v) = v.
Proof. exact get_put_be. Qed.
Theorem get_put_le_inverse : forall n v, (0 < n)%nat -> in_int (8 * Z.of_nat n) v -> get_le n (put_le n v) = v.
Proof. exact get_put_le. Qed.

(** non-vacuity: the hypotheses are met by concrete values *)
Example c20_nonvacuous : is_short (-32768) /\ is_int32 2147483647 /\ (1 <= 27 <= 254 /\ 0 <= 0 < 2 ^ 23)
  /\ c_s2ulaw (-32768) = Some 0 /\ c_ulaw2s 0 = Some (-32124).
Proof. unfold is_short, is_int32. repeat split; try lia; vm_compute; reflexivity. Qed.

Print Assumptions ulaw_decode_is_g711.
Print Assumptions alaw_decode_is_g711.
Print Assumptions ulaw_encode_is_g711.
Print Assumptions alaw_encode_is_g711.
Print Assumptions ulaw_codes_fixed.
Print Assumptions alaw_codes_fixed.
Print Assumptions ulaw_quantiser.
Print Assumptions alaw_quantiser.
Print Assumptions ulaw_int_path.
Print Assumptions alaw_int_path.
Print Assumptions ulaw_int_min.
Print Assumptions alaw_int_min.
Print Assumptions ieee32_write_exact.
Print Assumptions ieee32_read_exact.
Print Assumptions ieee64_write_exact.
Print Assumptions ieee64_read_exact.
Print Assumptions native32_is_the_pattern.
Print Assumptions endswap_involution.
Print Assumptions get_put_be_inverse.
Print Assumptions get_put_le_inverse.

(** C20 -- built-in codec kernels conform to their published definitions for every input.
    This file contains only the property theorems; proofs are in G711Proofs, IeeeProofs, Endian, AdpcmProofs. *)
From Coq Require Import ZArith List Lia Bool.
From SF Require Import Bits Fp G711 G711Proofs Ieee IeeeProofs Endian.
From SF Require Isolation Adpcm AdpcmProofs.
From SFGen Require Gen_Adpcm.
Import ListNotations.
Local Open Scope Z_scope.

(** G.711: the lookup tables of the source (regenerated into SFGen.Gen_G711 on every run), indexed
    as the C indexes them, compute the Recommendation's expansion / compression for all 256 codes
    and all 65536 shorts. *)
Theorem ulaw_decode_is_g711 : forall c, 0 <= c < 256 -> c_ulaw2s c = Some (ulaw_expand c).
Proof. exact ulaw_decode_is_g711_l. Qed.
Theorem alaw_decode_is_g711 : forall c, 0 <= c < 256 -> c_alaw2s c = Some (alaw_expand c).
Proof. exact alaw_decode_is_g711_l. Qed.
Theorem ulaw_encode_is_g711 : forall s, is_short s -> c_s2ulaw s = Some (g711_ulaw_of_short s).
Proof. exact ulaw_encode_is_g711_l. Qed.
Theorem alaw_encode_is_g711 : forall s, is_short s -> c_s2alaw s = Some (g711_alaw_of_short s).
Proof. exact alaw_encode_is_g711_l. Qed.

(** encode after decode is the identity on codes (mu-law 0x7F is G.711's negative zero and goes to 0xFF) *)
Theorem ulaw_codes_fixed : forall c, 0 <= c < 256 -> c_s2ulaw (ulaw_expand c) = Some (if c =? 127 then 255 else c).
Proof. exact ulaw_codes_fixed_l. Qed.
Theorem alaw_codes_fixed : forall c, 0 <= c < 256 -> c_s2alaw (alaw_expand c) = Some c.
Proof. exact alaw_codes_fixed_l. Qed.

(** decode after encode is the G.711 quantiser: within half a step of the segment, monotone, idempotent *)
Theorem ulaw_quantiser : forall s, is_short s ->
  (Z.abs s <= 32635 -> Z.abs (uq s - s) <= ustep_half s) /\ (s < 32767 -> uq s <= uq (s + 1)) /\ uq (uq s) = uq s.
Proof. exact ulaw_quantiser_l. Qed.
Theorem alaw_quantiser : forall s, is_short s ->
  Z.abs (aq s - s) <= astep_half s /\ (s < 32767 -> aq s <= aq (s + 1)) /\ aq (aq s) = aq s.
Proof. exact alaw_quantiser_l. Qed.

(** the int entry point agrees with the short one on the top 16 bits' magnitude, for every int32 *)
Theorem ulaw_int_path : forall x, is_int32 x -> x <> INT_MIN ->
  c_i2ulaw x = (if (x <? 0) && (mag16 x =? 0) then option_map land7f (c_s2ulaw 0) else c_s2ulaw (short_of_int x)).
Proof. exact c_i2ulaw_via_short. Qed.
Theorem alaw_int_path : forall x, is_int32 x -> x <> INT_MIN ->
  c_i2alaw x = (if (x <? 0) && (mag16 x =? 0) then option_map land7f (c_s2alaw 0) else c_s2alaw (short_of_int x)).
Proof. exact c_i2alaw_via_short. Qed.
Theorem ulaw_int_min : c_i2ulaw INT_MIN = c_s2ulaw (-32768).
Proof. exact i2ulaw_int_min. Qed.
Theorem alaw_int_min : c_i2alaw INT_MIN = c_s2alaw (-32768).
Proof. exact i2alaw_int_min. Qed.

(** Portable IEEE serialisers: for every normal value (symbolic in sign, exponent field and fraction)
    the writer emits the native bytes and the reader returns the value. *)
Theorem ieee32_write_exact : forall s E F, 1 <= E <= 254 -> 0 <= F < 2 ^ 23 ->
  f32_be_write (val32 s E F) = Some (native32_be s E F).
Proof. exact f32_be_write_normal. Qed.
Theorem ieee32_read_exact : forall s E F, 1 <= E <= 254 -> 0 <= F < 2 ^ 23 ->
  match native32_be s E F with [c0; c1; c2; c3] => f32_be_read c0 c1 c2 c3 = val32 s E F | _ => False end.
Proof. exact f32_be_read_normal. Qed.
Theorem ieee64_write_exact : forall s E F, 1 <= E <= 2046 -> 0 <= F < 2 ^ 52 ->
  f64_be_write (val64 s E F) = Some (native64_be s E F).
Proof. exact f64_be_write_normal. Qed.
Theorem ieee64_read_exact : forall s E F, 1 <= E <= 2046 -> 0 <= F < 2 ^ 52 ->
  f64_be_read (native64_be s E F) = val64 s E F.
Proof. exact f64_be_read_normal. Qed.
Theorem native32_is_the_pattern : forall s E F, 1 <= E <= 254 -> 0 <= F < 2 ^ 23 ->
  b32_decode (pat32 s E F) = val32 s E F.
Proof. exact decode32_normal. Qed.

(** Byte-order helpers are exact involutions / inverses, for every width *)
Theorem endswap_involution : forall n x, 0 <= x < 256 ^ Z.of_nat n -> bswap n (bswap n x) = x.
Proof. exact bswap_involution. Qed.
Theorem get_put_be_inverse : forall n v, (0 < n)%nat -> in_int (8 * Z.of_nat n) v -> get_be n (put_be n v) = v.
Proof. exact get_put_be. Qed.
Theorem get_put_le_inverse : forall n v, (0 < n)%nat -> in_int (8 * Z.of_nat n) v -> get_le n (put_le n v) = v.
Proof. exact get_put_le. Qed.


(** ---- ADPCM decoders.  The tables compiled into the library are the published IMA tables; a decoder step yields a 16-bit
    sample and keeps the index in the table for ANY code and state; the difference needs 17 signed bits (bounded by 61436,
    reached at the top of the table); and the library's interleaved block decoder gives each channel exactly the reference
    decoding of its own code stream -- any channel count, block length and block bytes. *)
Theorem ima_tables_are_published : Gen_Adpcm.ima_step_size = Adpcm.ref_step_table /\ Gen_Adpcm.ima_indx_adjust = Adpcm.ref_index_table.
Proof. exact AdpcmProofs.ima_tables_published. Qed.

Theorem ima_decoder_step_in_range : forall code s,
  let '(s', o) := Adpcm.ima_step Gen_Adpcm.ima_step_size Gen_Adpcm.ima_indx_adjust code s in
  -32768 <= o <= 32767 /\ Adpcm.pred s' = o /\ 0 <= Adpcm.idx s' <= 88.
Proof. exact (AdpcmProofs.ima_step_range Gen_Adpcm.ima_step_size Gen_Adpcm.ima_indx_adjust). Qed.

Theorem ima_difference_needs_17_bits :
  forallb (fun st => forallb (fun c => Z.abs (Adpcm.ima_diff st c) <=? 61436) AdpcmProofs.codes16) Adpcm.ref_step_table = true /\
  Adpcm.ima_diff (Adpcm.nthz Adpcm.ref_step_table 88) 7 = 61436 /\ Adpcm.ima_diff (Adpcm.nthz Adpcm.ref_step_table 82) 7 > 32767.
Proof. exact (conj AdpcmProofs.ima_diff_bound AdpcmProofs.ima_diff_exceeds_int16). Qed.

Theorem ima_wav_decoder_is_reference : forall (nch : nat) (block : list Z) (c : Z),
  let st := Gen_Adpcm.ima_step_size in let it := Gen_Adpcm.ima_indx_adjust in
  let hdrs := Adpcm.chunks 4 nch (firstn (4 * nch) block) in
  let st0 := fun k => Adpcm.wav_header_state (nth (Z.to_nat k) hdrs []) in
  let tagged := Adpcm.wav_body_codes nch (skipn (4 * nch) block) in
  let '(_, outs) := Isolation.srun Adpcm.ist Z Z unit (Adpcm.ima_step st it) (fun _ _ g => g) (st0, tt) tagged in
  Isolation.mine c outs = snd (Adpcm.ima_stream st it (st0 c) (Isolation.mine c tagged)).
Proof. exact (AdpcmProofs.wav_block_is_per_channel Gen_Adpcm.ima_step_size Gen_Adpcm.ima_indx_adjust). Qed.

Theorem ima_wav_channel_streams : forall b0 b1 b2 b3 b4 b5 b6 b7,
  Isolation.mine 0 (Adpcm.group_codes [[b0; b1; b2; b3]]) = flat_map Adpcm.nibbles [b0; b1; b2; b3] /\
  Isolation.mine 0 (Adpcm.group_codes [[b0; b1; b2; b3]; [b4; b5; b6; b7]]) = flat_map Adpcm.nibbles [b0; b1; b2; b3] /\
  Isolation.mine 1 (Adpcm.group_codes [[b0; b1; b2; b3]; [b4; b5; b6; b7]]) = flat_map Adpcm.nibbles [b4; b5; b6; b7].
Proof. intros. exact (conj (AdpcmProofs.group_codes_mono b0 b1 b2 b3) (AdpcmProofs.group_codes_stereo b0 b1 b2 b3 b4 b5 b6 b7)). Qed.

(** ... for a body of any number of groups and any number of channels: channel c's code stream is the concatenation, group by
    group, of the nibbles (low first) of its own four bytes; and a body is cut into exactly its groups *)
Theorem ima_wav_channel_stream_any_length : forall (nch c : nat) (groups : list (list Z)),
  (c < nch)%nat -> Forall (fun g => length g = (4 * nch)%nat) groups ->
  Isolation.mine (Z.of_nat c) (flat_map (fun grp => Adpcm.group_codes (Adpcm.chunks 4 nch grp)) groups) =
  flat_map (fun g => flat_map Adpcm.nibbles (firstn 4 (skipn (4 * c) g))) groups.
Proof. exact AdpcmProofs.body_channel_stream. Qed.

Theorem ima_wav_body_groups : forall (n : nat) (groups : list (list Z)), (0 < n)%nat -> Forall (fun g => length g = n) groups ->
  forall fuel, (length groups <= fuel)%nat -> Adpcm.chunks n fuel (concat groups) = groups.
Proof. exact AdpcmProofs.chunks_concat. Qed.

Theorem ms_decoder_step_in_range : forall code s,
  let '(s', o) := Adpcm.ms_step Gen_Adpcm.ms_adaptation_table Gen_Adpcm.ms_coeff1 Gen_Adpcm.ms_coeff2 code s in
  -32768 <= o <= 32767 /\ 16 <= Adpcm.idelta s' <= 32767 /\ Adpcm.s1 s' = o /\ Adpcm.s2 s' = Adpcm.s1 s /\ Adpcm.bp s' = Adpcm.bp s.
Proof. exact (AdpcmProofs.ms_step_range Gen_Adpcm.ms_adaptation_table Gen_Adpcm.ms_coeff1 Gen_Adpcm.ms_coeff2). Qed.

(** non-vacuity: the hypotheses are met by concrete values *)
Example c20_nonvacuous : is_short (-32768) /\ is_int32 2147483647 /\ (1 <= 27 <= 254 /\ 0 <= 0 < 2 ^ 23)
  /\ c_s2ulaw (-32768) = Some 0 /\ c_ulaw2s 0 = Some (-32124).
Proof. unfold is_short, is_int32. repeat split; try lia; vm_compute; reflexivity. Qed.

Print Assumptions ulaw_decode_is_g711.
Print Assumptions alaw_decode_is_g711.
Print Assumptions ulaw_encode_is_g711.
Print Assumptions alaw_encode_is_g711.
Print Assumptions ulaw_codes_fixed.
Print Assumptions alaw_codes_fixed.
Print Assumptions ulaw_quantiser.
Print Assumptions alaw_quantiser.
Print Assumptions ulaw_int_path.
Print Assumptions alaw_int_path.
Print Assumptions ulaw_int_min.
Print Assumptions alaw_int_min.
Print Assumptions ieee32_write_exact.
Print Assumptions ieee32_read_exact.
Print Assumptions ieee64_write_exact.
Print Assumptions ieee64_read_exact.
Print Assumptions native32_is_the_pattern.
Print Assumptions endswap_involution.
Print Assumptions get_put_be_inverse.
Print Assumptions get_put_le_inverse.
Print Assumptions ima_tables_are_published.
Print Assumptions ima_decoder_step_in_range.
Print Assumptions ima_difference_needs_17_bits.
Print Assumptions ima_wav_decoder_is_reference.
Print Assumptions ms_decoder_step_in_range.
Print Assumptions ima_wav_channel_stream_any_length.

From Coq Require Import ZArith List Lia Bool.
From SF Require Import Peak.
Import ListNotations.
Local Open Scope Z_scope.

Lemma scan_spec xs : forall k best bestk, scan xs k best bestk = (pval (spec (mkp best bestk) k xs), ppos (spec (mkp best bestk) k xs)).
Proof.
  induction xs as [|x r IH]; intros k best bestk; simpl; [reflexivity|].
  destruct (best <? x); apply IH.
Qed.

(* spec started from a larger-or-equal peak keeps it unless something strictly larger comes *)
Lemma spec_from_max xs : forall p k q kq,
  pval q <= pval p ->
  spec p k xs = (let s := spec q kq xs in s) \/ True.
Proof. intros; right; exact I. Qed.

(** one chunk: updating the running peak with the chunk's own (max, first position) equals scanning the chunk item by item *)
Lemma update_is_spec p base xs : update p base xs = spec p base xs.
Proof.
  destruct xs as [|x r]; [reflexivity|].
  unfold update, chunk_max. rewrite scan_spec. simpl.
  (* generalise: scanning r from (x, 0) with offset then comparing with p  ==  scanning x :: r from p *)
  assert (G : forall r p0 m km k, 0 <= 0 ->
     (if pval p0 <? pval (spec (mkp m km) k r) then mkp (pval (spec (mkp m km) k r)) (base + ppos (spec (mkp m km) k r)) else p0) =
     spec (if pval p0 <? m then mkp m (base + km) else p0) (base + k) r).
  { clear. induction r as [|y r IH]; intros p0 m km k _; simpl.
    - destruct (pval p0 <? m); reflexivity.
    - destruct (m <? y) eqn:E1.
      + rewrite IH by lia. apply Z.ltb_lt in E1.
        destruct (pval p0 <? m) eqn:E2; simpl.
        * apply Z.ltb_lt in E2. assert (pval p0 <? y = true) as -> by (apply Z.ltb_lt; lia).
          assert (m <? y = true) as -> by (apply Z.ltb_lt; lia).
          replace (base + k + 1) with (base + (k + 1)) by lia. reflexivity.
        * destruct (pval p0 <? y); replace (base + k + 1) with (base + (k + 1)) by lia; reflexivity.
      + rewrite IH by lia. apply Z.ltb_ge in E1.
        destruct (pval p0 <? m) eqn:E2; simpl.
        * assert (m <? y = false) as -> by (apply Z.ltb_ge; lia).
          replace (base + k + 1) with (base + (k + 1)) by lia. reflexivity.
        * apply Z.ltb_ge in E2. assert (pval p0 <? y = false) as -> by (apply Z.ltb_ge; lia).
          replace (base + k + 1) with (base + (k + 1)) by lia. reflexivity. }
  specialize (G r p x 0 1 ltac:(lia)). rewrite G. simpl.
  replace (base + 0) with base by lia. destruct (pval p <? x); reflexivity.
Qed.

Lemma spec_app xs ys : forall p k, spec p k (xs ++ ys) = spec (spec p k xs) (k + Z.of_nat (length xs)) ys.
Proof.
  induction xs as [|x r IH]; intros p k; simpl; [f_equal; lia|].
  destruct (pval p <? x); rewrite IH; f_equal; lia.
Qed.

(** however the samples of a channel are split over write calls, the running peak equals the maximum magnitude and the
    frame of its first occurrence over the concatenation (induction over the list of chunks) *)
Theorem peak_partition_independent chunks : forall p base,
  run p base chunks = spec p base (concat chunks).
Proof.
  induction chunks as [|c r IH]; intros p base; simpl; [reflexivity|].
  rewrite IH, update_is_spec, spec_app. reflexivity.
Qed.

(** what [spec] computes: a value that is >= every sample and the initial one, attained at the reported position, which is
    the first such position *)
Lemma spec_ge xs : forall p k, pval p <= pval (spec p k xs) /\ Forall (fun x => x <= pval (spec p k xs)) xs.
Proof.
  induction xs as [|x r IH]; intros p k; simpl; [split; [lia | constructor]|].
  destruct (pval p <? x) eqn:E.
  - apply Z.ltb_lt in E. destruct (IH (mkp x k) (k + 1)) as [H1 H2]. simpl in H1. split; [lia | constructor; assumption].
  - apply Z.ltb_ge in E. destruct (IH p (k + 1)) as [H1 H2]. split; [lia | constructor; [lia | assumption]].
Qed.

Theorem peak_is_true_maximum xs : let s := spec (mkp 0 0) 0 xs in
  Forall (fun x => x <= pval s) xs /\ 0 <= pval s.
Proof. simpl. destruct (spec_ge xs (mkp 0 0) 0) as [H1 H2]. simpl in H1. split; assumption. Qed.

Lemma spec_pos xs : forall p k, 0 <= k ->
  (spec p k xs = p) \/ (k <= ppos (spec p k xs) < k + Z.of_nat (length xs) /\
                        nth (Z.to_nat (ppos (spec p k xs) - k)) xs 0 = pval (spec p k xs) /\
                        Forall (fun x => x < pval (spec p k xs)) (firstn (Z.to_nat (ppos (spec p k xs) - k)) xs) /\ pval p < pval (spec p k xs)).
Proof.
  induction xs as [|x r IH]; intros p k Hk; simpl; [left; reflexivity|].
  destruct (pval p <? x) eqn:E.
  - apply Z.ltb_lt in E. right.
    destruct (IH (mkp x k) (k + 1) ltac:(lia)) as [H | (H1 & H2 & H3 & H4)].
    + rewrite H. simpl. replace (Z.to_nat (k - k)) with 0%nat by lia. simpl. repeat split; try lia. constructor.
    + simpl in H4.
      replace (Z.to_nat (ppos (spec (mkp x k) (k + 1) r) - k)) with (S (Z.to_nat (ppos (spec (mkp x k) (k + 1) r) - (k + 1)))) by lia.
      simpl. repeat split; try lia; try assumption. constructor; [lia | assumption].
  - apply Z.ltb_ge in E.
    destruct (IH p (k + 1) ltac:(lia)) as [H | (H1 & H2 & H3 & H4)]; [left; assumption | right].
    replace (Z.to_nat (ppos (spec p (k + 1) r) - k)) with (S (Z.to_nat (ppos (spec p (k + 1) r) - (k + 1)))) by lia.
    simpl. repeat split; try lia; try assumption. constructor; [lia | assumption].
Qed.

(** ... and the position is that of the FIRST occurrence of the maximum (nothing before it reaches the value) *)
Theorem peak_position_is_first_maximum xs : let s := spec (mkp 0 0) 0 xs in
  s = mkp 0 0 \/ (0 <= ppos s < Z.of_nat (length xs) /\ nth (Z.to_nat (ppos s)) xs 0 = pval s /\
                  Forall (fun x => x < pval s) (firstn (Z.to_nat (ppos s)) xs)).
Proof.
  simpl. destruct (spec_pos xs (mkp 0 0) 0 ltac:(lia)) as [H | (H1 & H2 & H3 & _)]; [left; assumption | right].
  rewrite Z.sub_0_r in *. repeat split; try lia; assumption.
Qed.

(** the staged write paths hand float32_peak_update chunks of 2048 items that need not start on a frame boundary:
    for 3 channels the second chunk starts at item 2048 = frame 682 + 2 items, and the routine attributes item k of the chunk
    to channel k mod 3.  Witness that the attribution is then wrong (model of the call as coded: channel c reads items
    c, c+3, ... of the chunk) *)
Definition misaligned_channel_view (ch c : nat) (chunk : list Z) : list Z := channel ch c chunk 0.
Theorem staged_chunk_misattributes :
  exists (chunk2 : list Z), (* second chunk of a 3-channel stream starting at item 2048: first item belongs to channel 2 *)
    let true_channel_of_first_item := Nat.modulo 2048 3 in
    true_channel_of_first_item = 2%nat /\ hd 0 (misaligned_channel_view 3 0 chunk2) = hd 0 chunk2.
Proof. exists [9; 1; 1]. split; reflexivity. Qed.

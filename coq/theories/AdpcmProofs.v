(** AdpcmProofs.v -- C20 for the ADPCM decoders. *)
From Coq Require Import ZArith List Bool Lia.
From SF Require Import Isolation IsolationProofs Adpcm.
From SFGen Require Import Gen_Adpcm.
Import ListNotations.
Local Open Scope Z_scope.

(** the tables compiled into the library are the published ones *)
Lemma ima_tables_published : ima_step_size = ref_step_table /\ ima_indx_adjust = ref_index_table.
Proof. split; vm_compute; reflexivity. Qed.

(** one decoder step, any code (only its low 4 bits count), any state: the sample is a 16-bit value and the index stays in the table *)
Lemma ima_step_range st it code s :
  let '(s', o) := ima_step st it code s in -32768 <= o <= 32767 /\ pred s' = o /\ 0 <= idx s' <= 88.
Proof. unfold ima_step, clamp16, clamp_idx. cbn [pred idx]. lia. Qed.

Lemma ima_stream_range st it codes : forall s,
  Forall (fun o => -32768 <= o <= 32767) (snd (ima_stream st it s codes)).
Proof.
  unfold ima_stream. induction codes as [|c r IH]; intros s; cbn [solo snd]; [constructor|].
  pose proof (ima_step_range st it c s) as H. destruct (ima_step st it c s) as [s1 o]. specialize (IH s1).
  destruct (solo ist Z Z (ima_step st it) s1 r) as [s2 os]. cbn [snd] in *. constructor; [lia | exact IH].
Qed.

(** the difference needs 17 signed bits: it is bounded by 61436 in magnitude over the whole table and all codes, and reaches that *)
Definition codes16 : list Z := [0; 1; 2; 3; 4; 5; 6; 7; 8; 9; 10; 11; 12; 13; 14; 15].
Lemma ima_diff_bound : forallb (fun st => forallb (fun c => Z.abs (ima_diff st c) <=? 61436) codes16) ref_step_table = true.
Proof. vm_compute. reflexivity. Qed.
Lemma ima_diff_exceeds_int16 : ima_diff (nthz ref_step_table 88) 7 = 61436 /\ ima_diff (nthz ref_step_table 82) 7 > 32767.
Proof. split; vm_compute; reflexivity. Qed.

(** a WAV / W64 block decoded as the library does it (one loop over the interleaved sample positions) gives every channel
    exactly the reference decoding of that channel's own code stream, started from that channel's header: for any number
    of channels, any block length, any bytes *)
Theorem wav_block_is_per_channel st it (nch : nat) (block : list Z) (c : Z) :
  let hdrs := chunks 4 nch (firstn (4 * nch) block) in
  let st0 := fun k => wav_header_state (nth (Z.to_nat k) hdrs []) in
  let tagged := wav_body_codes nch (skipn (4 * nch) block) in
  let '(_, outs) := srun ist Z Z unit (ima_step st it) (fun _ _ g => g) (st0, tt) tagged in
  mine c outs = snd (ima_stream st it (st0 c) (mine c tagged)).
Proof.
  cbn zeta.
  pose proof (interleaving_independence ist Z Z unit (ima_step st it) (fun _ _ g => g)
                (wav_body_codes nch (skipn (4 * nch) block))
                (fun k => wav_header_state (nth (Z.to_nat k) (chunks 4 nch (firstn (4 * nch) block)) [])) tt c) as H.
  destruct (srun ist Z Z unit (ima_step st it) (fun _ _ g => g) _ _) as [[m' g'] outs].
  unfold ima_stream. destruct (solo ist Z Z (ima_step st it) _ _) as [s' os]. cbn [snd]. destruct H as [_ H]. exact H.
Qed.

(** what "that channel's own code stream" is, one group at a time: the 8 codes of the channel's 4 bytes, low nibble first *)
Lemma group_codes_mono b0 b1 b2 b3 : mine 0 (group_codes [[b0; b1; b2; b3]]) = flat_map nibbles [b0; b1; b2; b3].
Proof. reflexivity. Qed.
Lemma group_codes_stereo b0 b1 b2 b3 b4 b5 b6 b7 :
  mine 0 (group_codes [[b0; b1; b2; b3]; [b4; b5; b6; b7]]) = flat_map nibbles [b0; b1; b2; b3] /\
  mine 1 (group_codes [[b0; b1; b2; b3]; [b4; b5; b6; b7]]) = flat_map nibbles [b4; b5; b6; b7].
Proof. split; reflexivity. Qed.

(** Microsoft ADPCM as coded: samples are 16-bit, the scale factor stays in [16, 32767] after every step *)
Lemma ms_step_range a c1 c2 code s :
  let '(s', o) := ms_step a c1 c2 code s in -32768 <= o <= 32767 /\ 16 <= idelta s' <= 32767 /\ s1 s' = o /\ s2 s' = s1 s /\ bp s' = bp s.
Proof.
  unfold ms_step, clamp16, wrap16. cbn [idelta s1 s2 bp].
  set (x := Z.shiftr (nthz a (Z.land code 15) * idelta s) 8).
  pose proof (Z.mod_pos_bound x 65536 ltac:(lia)) as Hm.
  destruct (x mod 65536 >=? 32768) eqn:E1.
  - destruct (x mod 65536 - 65536 <? 16) eqn:E2; lia.
  - destruct (x mod 65536 <? 16) eqn:E2; lia.
Qed.

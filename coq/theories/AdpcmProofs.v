(** AdpcmProofs.v -- C20 for the ADPCM decoders. *)
From Coq Require Import ZArith List Bool Lia.
From SF Require Import Isolation IsolationProofs Adpcm.
From SFGen Require Import Gen_Adpcm.
Import ListNotations.
Local Open Scope Z_scope.

(** the tables compiled into the library are the published ones *)
Lemma ima_tables_published : ima_step_size = ref_step_table /\ ima_indx_adjust = ref_index_table.
Proof. split; vm_compute; reflexivity. Qed.

(** one decoder step, any code (only its low 4 bits count), any state: the sample is a 16-bit value and the index stays in the table *)
Lemma ima_step_range st it code s :
  let '(s', o) := ima_step st it code s in -32768 <= o <= 32767 /\ pred s' = o /\ 0 <= idx s' <= 88.
Proof. unfold ima_step, clamp16, clamp_idx. cbn [pred idx]. lia. Qed.

Lemma ima_stream_range st it codes : forall s,
  Forall (fun o => -32768 <= o <= 32767) (snd (ima_stream st it s codes)).
Proof.
  unfold ima_stream. induction codes as [|c r IH]; intros s; cbn [solo snd]; [constructor|].
  pose proof (ima_step_range st it c s) as H. destruct (ima_step st it c s) as [s1 o]. specialize (IH s1).
  destruct (solo ist Z Z (ima_step st it) s1 r) as [s2 os]. cbn [snd] in *. constructor; [lia | exact IH].
Qed.

(** the difference needs 17 signed bits: it is bounded by 61436 in magnitude over the whole table and all codes, and reaches that *)
Definition codes16 : list Z := [0; 1; 2; 3; 4; 5; 6; 7; 8; 9; 10; 11; 12; 13; 14; 15].
Lemma ima_diff_bound : forallb (fun st => forallb (fun c => Z.abs (ima_diff st c) <=? 61436) codes16) ref_step_table = true.
Proof. vm_compute. reflexivity. Qed.
Lemma ima_diff_exceeds_int16 : ima_diff (nthz ref_step_table 88) 7 = 61436 /\ ima_diff (nthz ref_step_table 82) 7 > 32767.
Proof. split; vm_compute; reflexivity. Qed.

(** a WAV / W64 block decoded as the library does it (one loop over the interleaved sample positions) gives every channel
    exactly the reference decoding of that channel's own code stream, started from that channel's header: for any number
    of channels, any block length, any bytes *)
Theorem wav_block_is_per_channel st it (nch : nat) (block : list Z) (c : Z) :
  let hdrs := chunks 4 nch (firstn (4 * nch) block) in
  let st0 := fun k => wav_header_state (nth (Z.to_nat k) hdrs []) in
  let tagged := wav_body_codes nch (skipn (4 * nch) block) in
  let '(_, outs) := srun ist Z Z unit (ima_step st it) (fun _ _ g => g) (st0, tt) tagged in
  mine c outs = snd (ima_stream st it (st0 c) (mine c tagged)).
Proof.
  cbn zeta.
  pose proof (interleaving_independence ist Z Z unit (ima_step st it) (fun _ _ g => g)
                (wav_body_codes nch (skipn (4 * nch) block))
                (fun k => wav_header_state (nth (Z.to_nat k) (chunks 4 nch (firstn (4 * nch) block)) [])) tt c) as H.
  destruct (srun ist Z Z unit (ima_step st it) (fun _ _ g => g) _ _) as [[m' g'] outs].
  unfold ima_stream. destruct (solo ist Z Z (ima_step st it) _ _) as [s' os]. cbn [snd]. destruct H as [_ H]. exact H.
Qed.

(** what "that channel's own code stream" is, one group at a time: the 8 codes of the channel's 4 bytes, low nibble first *)
Lemma group_codes_mono b0 b1 b2 b3 : mine 0 (group_codes [[b0; b1; b2; b3]]) = flat_map nibbles [b0; b1; b2; b3].
Proof. reflexivity. Qed.
Lemma group_codes_stereo b0 b1 b2 b3 b4 b5 b6 b7 :
  mine 0 (group_codes [[b0; b1; b2; b3]; [b4; b5; b6; b7]]) = flat_map nibbles [b0; b1; b2; b3] /\
  mine 1 (group_codes [[b0; b1; b2; b3]; [b4; b5; b6; b7]]) = flat_map nibbles [b4; b5; b6; b7].
Proof. split; reflexivity. Qed.

(** Microsoft ADPCM as coded: samples are 16-bit, the scale factor stays in [16, 32767] after every step *)
Lemma ms_step_range a c1 c2 code s :
  let '(s', o) := ms_step a c1 c2 code s in -32768 <= o <= 32767 /\ 16 <= idelta s' <= 32767 /\ s1 s' = o /\ s2 s' = s1 s /\ bp s' = bp s.
Proof.
  unfold ms_step, clamp16, wrap16. cbn [idelta s1 s2 bp].
  set (x := Z.shiftr (nthz a (Z.land code 15) * idelta s) 8).
  pose proof (Z.mod_pos_bound x 65536 ltac:(lia)) as Hm.
  destruct (x mod 65536 >=? 32768) eqn:E1.
  - destruct (x mod 65536 - 65536 <? 16) eqn:E2; lia.
  - destruct (x mod 65536 <? 16) eqn:E2; lia.
Qed.

(** ---- the channel code streams of a whole block body, any number of channels and groups *)
Lemma mine_app {A} h (a b : list (handle * A)) : mine h (a ++ b) = mine h a ++ mine h b.
Proof. unfold mine. rewrite filter_app, map_app. reflexivity. Qed.

Lemma mine_flat_map {A B} h (f : B -> list (handle * A)) (l : list B) : mine h (flat_map f l) = flat_map (fun x => mine h (f x)) l.
Proof. induction l as [|x r IH]; [reflexivity|]. cbn [flat_map]. rewrite mine_app, IH. reflexivity. Qed.

(* one row of the transposition: tags a, a+1, ... *)
Lemma mine_row (xs : list Z) : forall (a c : nat), (a <= c < a + length xs)%nat ->
  mine (Z.of_nat c) (combine (map Z.of_nat (seq a (length xs))) xs) = [nth (c - a) xs 0].
Proof.
  induction xs as [|x r IH]; intros a c Hc; cbn [length] in *; [lia|].
  cbn [seq map combine]. unfold mine in *. cbn [filter fst].
  destruct (Z.of_nat a =? Z.of_nat c) eqn:E.
  - apply Z.eqb_eq in E. assert (a = c) by lia. subst c. replace (a - a)%nat with 0%nat by lia. cbn [map snd nth].
    f_equal. (* nothing else in the rest carries tag a *)
    clear IH. assert (H : forall (l : list Z) (b : nat), (a < b)%nat -> filter (fun p : Z * Z => fst p =? Z.of_nat a) (combine (map Z.of_nat (seq b (length l))) l) = []).
    { induction l as [|y l IHl]; intros b Hb; [reflexivity|]. cbn [length seq map combine filter fst].
      rewrite (proj2 (Z.eqb_neq (Z.of_nat b) (Z.of_nat a))) by lia. apply IHl. lia. }
    rewrite (H r (S a)) by lia. reflexivity.
  - apply Z.eqb_neq in E. assert (a <> c) by lia.
    specialize (IH (S a) c ltac:(lia)). rewrite IH. replace (c - a)%nat with (S (c - S a)) by lia. reflexivity.
Qed.

Lemma transpose_mine (n : nat) : forall (pc : list (list Z)) (c : nat), (c < length pc)%nat ->
  Forall (fun l => (n <= length l)%nat) pc ->
  mine (Z.of_nat c) (transpose_codes n pc) = firstn n (nth c pc []).
Proof.
  induction n as [|n IH]; intros pc c Hc Hl; [reflexivity|].
  cbn [transpose_codes]. rewrite mine_app.
  pose proof (mine_row (map (fun l => hd 0 l) pc) 0 c) as Hr. rewrite map_length in Hr. rewrite Hr by lia.
  rewrite IH; [| rewrite map_length; exact Hc |].
  - replace (c - 0)%nat with c by lia.
    assert (E1 : nth c (map (fun l => hd 0 l) pc) 0 = hd 0 (nth c pc [])) by exact (map_nth (fun l => hd 0 l) pc [] c).
    assert (E2 : nth c (map (@tl Z) pc) [] = tl (nth c pc [])) by exact (map_nth (@tl Z) pc [] c).
    rewrite E1, E2.
    rewrite Forall_forall in Hl. specialize (Hl (nth c pc []) (nth_In _ _ Hc)).
    destruct (nth c pc []) as [|x r]; cbn [length] in Hl; [lia|]. reflexivity.
  - rewrite Forall_forall in *. intros l Hin. apply in_map_iff in Hin. destruct Hin as (l0 & <- & Hin0).
    specialize (Hl l0 Hin0). destruct l0; cbn [length tl] in *; lia.
Qed.

Lemma skipn_skipn' {A} (b : nat) : forall (a : nat) (l : list A), skipn a (skipn b l) = skipn (b + a) l.
Proof. induction b as [|b IH]; intros a l; [reflexivity|]. destruct l as [|x r]; [destruct a; reflexivity|]. cbn [skipn plus]. apply IH. Qed.

Lemma chunks_nth (n : nat) : forall (fuel c : nat) (l : list Z), (0 < n)%nat -> (c < fuel)%nat -> (n * fuel <= length l)%nat ->
  nth c (chunks n fuel l) [] = firstn n (skipn (n * c) l).
Proof.
  induction fuel as [|f IH]; intros c l Hn Hc Hl; [lia|].
  cbn [chunks]. destruct l as [|x r] eqn:El; [cbn [length] in Hl; lia|]. rewrite <- El in *.
  destruct c as [|c].
  - rewrite Nat.mul_0_r. reflexivity.
  - cbn [nth]. rewrite IH; [| exact Hn | lia | rewrite skipn_length; lia].
    rewrite skipn_skipn'. f_equal. f_equal. lia.
Qed.

Lemma chunks_length (n : nat) : forall (fuel : nat) (l : list Z), (0 < n)%nat -> (n * fuel <= length l)%nat -> length (chunks n fuel l) = fuel.
Proof.
  induction fuel as [|f IH]; intros l Hn Hl; [reflexivity|]. cbn [chunks].
  destruct l as [|x r] eqn:El; [cbn [length] in Hl; lia|]. rewrite <- El in *. cbn [length]. f_equal. apply IH; [exact Hn|]. rewrite skipn_length. lia.
Qed.

Lemma nibbles_len bytes : length (flat_map nibbles bytes) = (2 * length bytes)%nat.
Proof. induction bytes as [|b r IH]; [reflexivity|]. cbn [flat_map nibbles app length]. lia. Qed.

(** one group of 4 * nch bytes: channel c's codes are the 8 nibbles of its own 4 bytes *)
Lemma group_channel_stream (nch c : nat) (grp : list Z) : (c < nch)%nat -> length grp = (4 * nch)%nat ->
  mine (Z.of_nat c) (group_codes (chunks 4 nch grp)) = flat_map nibbles (firstn 4 (skipn (4 * c) grp)).
Proof.
  intros Hc Hl. unfold group_codes.
  assert (Hlen : length (chunks 4 nch grp) = nch) by (apply chunks_length; lia).
  rewrite transpose_mine; [| rewrite map_length; lia |].
  - assert (E : nth c (map (fun bytes => flat_map nibbles bytes) (chunks 4 nch grp)) [] = flat_map nibbles (nth c (chunks 4 nch grp) []))
      by exact (map_nth (fun bytes => flat_map nibbles bytes) (chunks 4 nch grp) [] c).
    rewrite E.
    rewrite chunks_nth by lia.
    apply firstn_all2. rewrite nibbles_len, firstn_length, skipn_length. lia.
  - rewrite Forall_forall. intros l Hin. apply in_map_iff in Hin. destruct Hin as (bs & <- & Hin).
    apply In_nth with (d := []) in Hin. destruct Hin as (k & Hk & <-). rewrite Hlen in Hk.
    rewrite chunks_nth by lia. rewrite nibbles_len, firstn_length, skipn_length. lia.
Qed.

(** a whole block body made of groups: channel c's code stream is the concatenation of its own bytes' nibbles, in order *)
Theorem body_channel_stream (nch c : nat) (groups : list (list Z)) : (c < nch)%nat -> Forall (fun g => length g = (4 * nch)%nat) groups ->
  mine (Z.of_nat c) (flat_map (fun grp => group_codes (chunks 4 nch grp)) groups) =
  flat_map (fun g => flat_map nibbles (firstn 4 (skipn (4 * c) g))) groups.
Proof.
  intros Hc Hg. rewrite mine_flat_map. induction groups as [|g r IH]; [reflexivity|].
  inversion Hg as [|? ? Hg1 Hgr]; subst. cbn [flat_map]. rewrite (group_channel_stream nch c g Hc Hg1). f_equal. exact (IH Hgr).
Qed.

(** the body of a block is cut into exactly these groups *)
Lemma chunks_concat (n : nat) (groups : list (list Z)) : (0 < n)%nat -> Forall (fun g => length g = n) groups ->
  forall fuel, (length groups <= fuel)%nat -> chunks n fuel (concat groups) = groups.
Proof.
  intros Hn Hg. induction groups as [|g r IH]; intros fuel Hf.
  - destruct fuel; reflexivity.
  - inversion Hg as [|? ? Hg1 Hgr]; subst. destruct fuel as [|f]; [cbn [length] in Hf; lia|].
    cbn [concat chunks]. destruct (g ++ concat r) as [|x t] eqn:E.
    { destruct g; [cbn [length] in Hn; lia | discriminate]. }
    rewrite <- E. rewrite firstn_app, firstn_all, Nat.sub_diag. cbn [firstn]. rewrite app_nil_r.
    rewrite skipn_app, skipn_all, Nat.sub_diag. cbn [skipn app]. f_equal. apply IH; [exact Hgr | cbn [length] in Hf; lia].
Qed.

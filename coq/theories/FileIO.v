(** The I/O shim of src/file_io.c: psf_fseek / psf_fread / psf_fwrite / psf_ftell / psf_get_filelen on the two routes.
    Descriptor route: an OS file (bytes, offset) and psf->fileoffset (start of an embedded sound file inside it);
    virtual route: the caller's callbacks on the sound file's own bytes. *)
From Coq Require Import ZArith List Lia Bool.
Import ListNotations.
Local Open Scope Z_scope.

Record osfile := mkf { bytes : list Z; pos : Z }.
Definition len {A} (l : list A) : Z := Z.of_nat (length l).
Definition slice (l : list Z) (a n : Z) : list Z := firstn (Z.to_nat n) (skipn (Z.to_nat a) l).

Inductive op := Seek (off whence : Z) | Read (n : Z) | Tell.
Inductive res := RZ (z : Z) | RBytes (b : list Z).

(** virtual route on the sound file's own bytes (a well behaved memory callback set) *)
Definition vio_step (f : osfile) (o : op) : osfile * res :=
  match o with
  | Seek off w =>
      let np := if w =? 0 then off else if w =? 1 then pos f + off else len (bytes f) + off in
      if np <? 0 then (f, RZ (-1)) else (mkf (bytes f) np, RZ np)
  | Read n => let got := slice (bytes f) (pos f) n in (mkf (bytes f) (pos f + len got), RBytes got)
  | Tell => (f, RZ (pos f))
  end.

(** descriptor route with psf->fileoffset = k: lseek / read on the container file *)
Definition fd_step (k : Z) (f : osfile) (o : op) : osfile * res :=
  match o with
  | Seek off w =>
      let np := if w =? 0 then off + k else if w =? 1 then pos f + off else len (bytes f) + off in
      if np <? 0 then (f, RZ (-1 - k)) else (mkf (bytes f) np, RZ (np - k))
  | Read n => let got := slice (bytes f) (pos f) n in (mkf (bytes f) (pos f + len got), RBytes got)
  | Tell => (f, RZ (pos f - k))
  end.

(** psf_get_filelen in SFM_READ mode: the length recorded by the container's header for an embedded file, else the stat size *)
Definition fd_filelen (k filelength : Z) (f : osfile) : Z := if (0 <? k) && (0 <? filelength) then filelength else len (bytes f).

(** psf_fclose: the descriptor is closed unless the caller kept ownership *)
Definition fclose (do_not_close_descriptor : bool) (fd_open : bool) : bool := if do_not_close_descriptor then fd_open else false.

(** operations a reader performs on an embedded file: seeks relative to the start or the current position that stay inside
    the sound file, reads that stay inside it (the containers bound their reads by the lengths in the header) *)
Definition inside (flen : Z) (p : Z) (o : op) : Prop :=
  match o with
  | Seek off w => (w = 0 /\ 0 <= off <= flen) \/ (w = 1 /\ 0 <= p + off <= flen)
  | Read n => 0 <= n /\ p + n <= flen
  | Tell => True
  end.

Fixpoint run (stp : osfile -> op -> osfile * res) (f : osfile) (ops : list op) : osfile * list res :=
  match ops with
  | [] => (f, [])
  | o :: r => let '(f1, x) := stp f o in let '(f2, xs) := run stp f1 r in (f2, x :: xs)
  end.
(** all operations of a history stay inside the embedded file (positions as the virtual route sees them) *)
Fixpoint all_inside (flen : Z) (F : list Z) (p : Z) (ops : list op) : Prop :=
  match ops with
  | [] => True
  | o :: r => inside flen p o /\ all_inside flen F (pos (fst (vio_step (mkf F p) o))) r
  end.

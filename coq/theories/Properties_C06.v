(** C06 -- decoded audio depends only on frame position (partition and seek consistency).
    Model: Api.v (wrappers + psf_default_seek); proofs in ApiProofs.v.  Block codecs with their own seek
    function are tied by the script correspondence / sequential-decode oracle of checks/c06.py. *)
From Coq Require Import ZArith List Lia Bool.
From SFGen Require Import Gen_Enums.
From SF Require Import Api ApiProofs.
From SF Require Dpcm DpcmProofs.
Import ListNotations.
Local Open Scope Z_scope.

(** sf_seek returns either the requested absolute position (and moves exactly the selected pointers) or -1
    with an error set and nothing else changed; position queries change nothing *)
Theorem seek_returns_position_or_fails : forall off w s,
  let '(s', r) := api_seek off w s in seek_failed s s' r \/ seek_query s s' r \/ seek_moved s s' r.
Proof. exact seek_result. Qed.

Theorem seek_selects_pointers : forall off w s pos, seek_decode s off w = STarget pos ->
  let '(s', r) := api_seek off w s in
  r <> -1 ->
  r = pos /\
  (whence_mode w = c_SFM_READ -> rcur s' = r /\ wcur s' = wcur s) /\
  (whence_mode w = c_SFM_WRITE -> wcur s' = r /\ rcur s' = rcur s) /\
  (whence_mode w = 0 -> mode s = c_SFM_RDWR -> rcur s' = r /\ wcur s' = r) /\
  (whence_mode w = 0 -> mode s = c_SFM_READ -> rcur s' = r /\ wcur s' = wcur s) /\
  (whence_mode w = 0 -> mode s = c_SFM_WRITE -> wcur s' = r /\ rcur s' = rcur s).
Proof. exact seek_pointer_selection. Qed.

(** a zero-offset SEEK_CUR reports the index of the next frame to be delivered *)
Theorem seek_cur_zero_reports_next_frame : forall s, seekable s = true -> mode s = c_SFM_READ ->
  api_seek 0 SEEK_CUR s = (set_err s 0, rcur s).
Proof. exact seek_cur0_read. Qed.
Theorem seek_cur_zero_read_flag_reports_next_frame : forall s, seekable s = true -> mode s <> c_SFM_WRITE ->
  api_seek 0 (SEEK_CUR + c_SFM_READ) s = (set_err s 0, rcur s).
Proof. exact seek_cur0_read_flag. Qed.

(** any partition of a read into calls of any sizes, item or frame variants, delivers the same sequence as
    one sequential read: the concatenation is a slice of the stream that depends on the position only *)
Theorem reads_are_partition_independent : forall rs s, wf s -> mode s <> c_SFM_WRITE -> Forall (read_ok (ch s)) rs ->
  let k := Z.min (total_frames (ch s) rs) (Z.max 0 (frames s - rcur s)) in
  let '(s', l) := do_reads s rs in
  l = slice (data s) (rcur s * ch s) (k * ch s) /\ rcur s' = rcur s + k /\ data s' = data s /\ frames s' = frames s.
Proof. exact read_partition. Qed.

(** after a successful seek to frame k the following reads deliver exactly frames k, k+1, ... *)
Theorem reads_after_seek_start_at_target : forall k w rs s,
  wf s -> mode s = c_SFM_READ -> seekable s = true -> (w = SEEK_SET \/ w = SEEK_SET + c_SFM_READ) ->
  0 <= k <= frames s -> Forall (read_ok (ch s)) rs ->
  let '(s1, r) := api_seek k w s in
  r = k /\
  let m := Z.min (total_frames (ch s) rs) (frames s - k) in
  let '(s2, l) := do_reads s1 rs in l = slice (data s) (k * ch s) (m * ch s) /\ rcur s2 = k + m.
Proof. exact seek_then_read. Qed.

(** the DPCM codec of src/xi.c (its own seek function, dpcm_seek: rewind, decode and discard): reads in any partition deliver
    the one sequential stream, and with a clear predictor (every fresh handle; every handle for target 0) the reads after a
    seek to k are frames k, k+1, ... of it.  The remaining case is stated too: a stale predictor and k > 0 breaks it --
    dpcm_seek does not clear last_16 on that branch; unreachable through the API of the pinned tree (xi_open marks XI as not
    seekable, RDWR switches call it with target 0 or in write mode, which it refuses), K-tied by calling it directly. *)
Theorem dpcm_reads_are_partition_independent : forall calls l, Dpcm.run_calls Dpcm.dles2s l calls = Dpcm.dles2s l (concat calls).
Proof. exact DpcmProofs.dles2s_calls. Qed.
Theorem dpcm16_reads_after_seek_are_sequential : forall cs k, Dpcm.seek_then_read16 0 cs k = skipn k (fst (Dpcm.dles2s 0 cs)).
Proof. exact DpcmProofs.dpcm16_seek_is_sequential. Qed.
Theorem dpcm8_reads_after_seek_are_sequential : forall cs k, Dpcm.seek_then_read8 0 cs k = skipn k (fst (Dpcm.dsc2s 0 cs)).
Proof. exact DpcmProofs.dpcm8_seek_is_sequential. Qed.
Theorem dpcm16_seek_stale_predictor_refuted : exists l cs k, Dpcm.seek_then_read16 l cs k <> skipn k (fst (Dpcm.dles2s 0 cs)).
Proof. exact DpcmProofs.dpcm16_seek_stale_predictor_refuted. Qed.

Example c06_witness :
  let s := opened c_SFM_READ 1 [10;11;12;13;14;15] 6 in
  wf s /\ snd (do_reads s [(true, 2); (false, 3); (true, 5)]) = [10;11;12;13;14;15]
       /\ snd (do_reads (fst (api_seek (-2) SEEK_END s)) [(true, 1); (true, 9)]) = [14;15].
Proof. split; [unfold wf; simpl; repeat split; try lia; try reflexivity; try (intros; left; reflexivity); try (intros; discriminate) | split; reflexivity]. Qed.

Print Assumptions seek_returns_position_or_fails.
Print Assumptions seek_selects_pointers.
Print Assumptions seek_cur_zero_reports_next_frame.
Print Assumptions reads_are_partition_independent.
Print Assumptions reads_after_seek_start_at_target.
Print Assumptions dpcm_reads_are_partition_independent.
Print Assumptions dpcm16_reads_after_seek_are_sequential.
Print Assumptions dpcm8_reads_after_seek_are_sequential.
Print Assumptions dpcm16_seek_stale_predictor_refuted.

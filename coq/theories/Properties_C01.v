(** C01 -- lossless write/read round trip is bit exact.
    Models: PcmConv.v (per-sample conversions), Endian.v / Bits.v (byte layout), Stream.v (staging loops, block writers and
    readers).  Tie: C02's exhaustive conversion correspondence, the script correspondence of the data region (the model
    predicts the stored codes of every written file) and the write / close / re-open / read oracle of checks/c01.py over
    every lossless container x encoding x caller type, channel counts up to the codec maximum, lengths around every block
    boundary, full-range noise. *)
From Coq Require Import ZArith List Lia Bool.
From SF Require Import Bits Endian PcmConv ConvProofs Stream StreamProofs.
From SF Require Dpcm DpcmProofs Sds SdsProofs.
Import ListNotations.
Local Open Scope Z_scope.

(** a short written to PCM at least 16 bits wide comes back bit exact, for every short *)
Theorem short_roundtrip_exact : forall e s, is_short s -> 16 <= width e -> rd_short e (wr_short e s) = s.
Proof. exact short_write_read. Qed.

(** an int comes back with exactly its top [width] bits: bit exact whenever the low 32 - width bits are zero *)
Theorem int_roundtrip_keeps_top_bits : forall e x, is_int32 x ->
  rd_int e (wr_int e x) = x / 2 ^ (32 - width e) * 2 ^ (32 - width e).
Proof. exact int_write_read. Qed.
Theorem int_roundtrip_exact_when_low_bits_zero : forall e x, is_int32 x -> x mod 2 ^ (32 - width e) = 0 ->
  rd_int e (wr_int e x) = x.
Proof.
  intros e x Hx Hm. rewrite int_write_read by assumption.
  pose proof (Z.div_mod x (2 ^ (32 - width e))) as D.
  assert (0 < 2 ^ (32 - width e)) by (apply Z.pow_pos_nonneg; [lia | destruct e; simpl; lia]).
  specialize (D ltac:(lia)). lia.
Qed.

(** the stored bytes of a code are read back as that code, in both byte orders *)
Theorem code_bytes_roundtrip_le : forall n x, 0 <= x < 256 ^ Z.of_nat n -> le_value (le_bytes n x) = x.
Proof. exact le_value_bytes. Qed.
Theorem byte_swap_is_involution : forall n x, 0 <= x < 256 ^ Z.of_nat n -> bswap n (bswap n x) = x.
Proof. exact bswap_involution. Qed.

(** the conversion loops work through an 8 KiB buffer: the result is the plain per-sample map for EVERY length, in
    particular for requests larger than the buffer *)
Theorem staging_loop_is_map : forall (A B : Type) (f : A -> B) n, (0 < n)%nat -> forall fuel xs, (length xs < fuel)%nat ->
  staged f n fuel xs = map f xs.
Proof. exact @staged_is_map. Qed.

(** block codecs (SDS, PAF24, the block structure of ALAC / DWVW packets): for any block length B > 0, any per-block codec
    with dec (enc b) = b, any history of write calls, the closed file decodes to the samples written followed by fewer than
    B zero samples: the first N are bit exact and N <= F < N + B *)
Theorem block_codec_roundtrip : forall B, (0 < B)%nat -> forall enc dec : list Z -> list Z,
  (forall b, length b = B -> dec (enc b) = b) -> forall calls,
  let xs := concat calls in
  exists pad, read_all dec (written_file B enc calls) = xs ++ repeat 0 pad /\ (pad < B)%nat.
Proof. exact block_stream_roundtrip. Qed.

(** the DPCM codecs of src/xi.c, concretely (kernels s2dles / dles2s / i2dles / dles2i / s2dsc / dsc2s as coded, K-tied):
    any shorts, any partition into write calls, any partition of the stored codes into read calls, any length *)
Theorem dpcm16_stream_roundtrip_exact : forall wcalls rcalls,
  Forall DpcmProofs.is_short (concat wcalls) -> concat rcalls = fst (Dpcm.run_calls Dpcm.s2dles 0 wcalls) ->
  fst (Dpcm.run_calls Dpcm.dles2s 0 rcalls) = concat wcalls.
Proof. exact DpcmProofs.dpcm16_stream_roundtrip. Qed.
Theorem dpcm16_int_roundtrip_exact_when_low_bits_zero : forall xs l, Forall DpcmProofs.is_int32 xs ->
  Forall (fun x => x mod 65536 = 0) xs -> fst (Dpcm.dles2i l (fst (Dpcm.i2dles l xs))) = xs.
Proof. exact DpcmProofs.dpcm16_int_roundtrip_exact. Qed.
Theorem dpcm8_short_roundtrip_exact_when_low_bits_zero : forall xs l, Forall DpcmProofs.is_short xs ->
  Forall (fun x => x mod 256 = 0) xs -> fst (Dpcm.dsc2s l (fst (Dpcm.s2dsc l xs))) = xs.
Proof. exact DpcmProofs.dpcm8_short_roundtrip_exact. Qed.
Theorem dpcm8_int_roundtrip_keeps_top_byte : forall xs l, Forall DpcmProofs.is_int32 xs ->
  fst (Dpcm.dsc2i l (fst (Dpcm.i2dsc l xs))) = map (fun x => x / 16777216 * 16777216) xs.
Proof. exact DpcmProofs.dpcm8_int_roundtrip. Qed.

Example c01_dpcm_witness :
  fst (Dpcm.run_calls Dpcm.dles2s 0 [[-32768]; [-1; 1]]) = [-32768; 32767; -32768]
  /\ fst (Dpcm.run_calls Dpcm.s2dles 0 [[-32768; 32767]; [-32768]]) = [-32768; -1; 1].
Proof. split; reflexivity. Qed.

(** the 7-bit sample packing of src/sds.c, concretely (sds_{2,3,4}byte_write / _read per sample, K-tied through SDS files): an int comes back with
    exactly its top 14 / 21 / 28 bits, so the three subtypes the container offers are lossless for ints whose low 24 / 16 / 8 bits are zero *)
Theorem sds_pack_roundtrip : forall s, SdsProofs.is_int32 s ->
  Sds.unpack (Sds.pack2 s) = s / 2 ^ 18 * 2 ^ 18 /\ Sds.unpack (Sds.pack3 s) = s / 2 ^ 11 * 2 ^ 11 /\ Sds.unpack (Sds.pack4 s) = s / 2 ^ 4 * 2 ^ 4.
Proof. intros s R. repeat split; [apply SdsProofs.sds2_roundtrip | apply SdsProofs.sds3_roundtrip | apply SdsProofs.sds4_roundtrip]; exact R. Qed.
Theorem sds_lossless_for_the_subtype : forall s, SdsProofs.is_int32 s ->
  (s mod 2 ^ 24 = 0 -> Sds.unpack (Sds.pack2 s) = s) /\ (s mod 2 ^ 16 = 0 -> Sds.unpack (Sds.pack3 s) = s) /\ (s mod 2 ^ 8 = 0 -> Sds.unpack (Sds.pack4 s) = s).
Proof. intros s R. repeat split; intros M; [apply SdsProofs.sds_lossless_8 | apply SdsProofs.sds_lossless_16 | apply SdsProofs.sds_lossless_24]; assumption. Qed.
Example c01_sds_witness : Sds.pack3 (-2147483648) = [0; 0; 0] /\ Sds.pack3 2147418112 = [127; 127; 96] /\ Sds.unpack [127; 127; 96] = 2147418112.
Proof. repeat split; reflexivity. Qed.

Example c01_witness :
  rd_short P24 (wr_short P24 (-32768)) = -32768 /\ rd_int P16 (wr_int P16 (-2147483648)) = -2147483648 /\
  read_all (fun b => b) (written_file 3 (fun b => b) [[1; 2]; [3; 4; 5; 6]; [7]]) = [1; 2; 3; 4; 5; 6; 7; 0; 0].
Proof. repeat split; reflexivity. Qed.

Print Assumptions short_roundtrip_exact.
Print Assumptions int_roundtrip_exact_when_low_bits_zero.
Print Assumptions staging_loop_is_map.
Print Assumptions block_codec_roundtrip.
Print Assumptions dpcm16_stream_roundtrip_exact.
Print Assumptions dpcm16_int_roundtrip_exact_when_low_bits_zero.
Print Assumptions dpcm8_short_roundtrip_exact_when_low_bits_zero.
Print Assumptions dpcm8_int_roundtrip_keeps_top_byte.
Print Assumptions sds_pack_roundtrip.
Print Assumptions sds_lossless_for_the_subtype.

(** C15 -- I/O failures at any point are contained  (PARTIAL: the return ranges, the position bookkeeping, the transfer loops
    and the header cache are theorems for EVERY sequence of I/O outcomes; the codec block buffers, the per-format header
    writers, memory safety and the time bound are observed on the implementation by complete enumeration of the fault
    points of representative workloads).
    Models: FaultIO.v (psf_fread / psf_fwrite loops), Api.v (the wrappers, with the codec's transfer count [lim] universally
    quantified), HeaderCache.v (header reads over a short-reading layer). *)
From Coq Require Import ZArith List Lia Bool.
From SF Require Import FaultIO FaultIOProofs Api ApiProofs HeaderCache HeaderCacheProofs.
From SFGen Require Import Gen_Enums.
Import ListNotations.
Local Open Scope Z_scope.

(** the transfer primitives, for every request and every sequence of kernel answers (errors, interrupts, short and zero
    transfers): count inside [0, items], only whole items that really moved, bounded number of calls *)
Theorem primitives_contain_faults : forall bytes items outs, 0 <= bytes -> 0 <= items ->
  let r := xfer_desc bytes items outs in
  0 <= FaultIO.ret r <= items /\ FaultIO.ret r * bytes <= moved r /\ moved r < (FaultIO.ret r + 1) * bytes + (if bytes =? 0 then 1 else 0) /\
  0 <= moved r <= items * bytes /\ ncalls r <= moved r + interrupts outs + 1.
Proof. exact xfer_desc_contained. Qed.

Theorem virtual_primitives_contain_faults : forall bytes items k, 0 <= bytes -> 0 <= items ->
  let r := xfer_vio bytes items k in
  0 <= FaultIO.ret r <= items /\ FaultIO.ret r * bytes <= moved r /\ 0 <= moved r <= bytes * items /\ ncalls r <= 1.
Proof. exact xfer_vio_contained. Qed.

(** the read wrappers, whatever the codec could transfer ([lim] arbitrary): return value in range and the read position
    advances by exactly the returned count *)
Theorem read_contains_faults : forall fv n lim s, 0 < ch s -> 0 <= frames s -> 0 <= rcur s ->
  (let '(s', r) := api_read fv n lim s in 0 <= Api.ret r <= Z.max 0 n) /\
  (let '(s', r) := api_read fv n lim s in
     rcur s' = rcur s + frames_of fv (Api.ret r) s \/ (frames s <= rcur s /\ rcur s' = rcur s /\ Api.ret r = 0)).
Proof. intros fv n lim s Hc Hf Hr. split; [exact (read_ret_range fv n lim s Hc Hf Hr) | exact (read_position fv n lim s Hc)]. Qed.

(** the write wrappers likewise; the frame count never shrinks *)
Theorem write_contains_faults : forall fv n lim xs s, 0 < ch s ->
  let '(s', w) := api_write fv n lim xs s in
  0 <= w <= Z.max 0 n /\ (wcur s' = wcur s + (if fv then w else Z.quot w (ch s))) /\
  (frames s <= frames s') /\ (frames s' = frames s \/ frames s' = wcur s').
Proof. exact write_ret_range. Qed.

(** items stored before the write position survive a write the layer accepts only partly or not at all *)
Theorem accepted_items_survive_failed_writes : forall fv n lim xs s k,
  0 <= k -> k <= Api.len (data s) -> k <= (if last_op s =? c_SFM_WRITE then cur s else wcur s * ch s) ->
  firstn (Z.to_nat k) (data (fst (api_write fv n lim xs s))) = firstn (Z.to_nat k) (data s).
Proof. exact write_any_outcome_keeps_prefix. Qed.

(** header parsing over a layer that transfers anything between nothing and everything stays inside the cache *)
Theorem header_cache_contains_faults : forall ops s, HeaderCache.inv s -> Forall HeaderCache.op_ok ops ->
  let '(s', es) := HeaderCache.run s ops in HeaderCache.inv s' /\ Forall (ext_ok (hlen s')) es.
Proof. exact header_cache_safe. Qed.

(** skipping an oversized header chunk on a pipe (header_seek reads and discards): exactly ceil (n / 16 KiB) reads asking for n
    bytes in total, whatever the reads deliver -- in particular it ends when they deliver nothing *)
Theorem pipe_skip_is_bounded : forall skip delivered, 0 <= skip ->
  pipe_skip skip delivered = ((skip + JUNK - 1) / JUNK, skip, 0).
Proof. exact pipe_skip_terminates. Qed.

(** a dead layer ends a transfer after one call *)
Theorem dead_layer_does_not_spin : forall bytes items, 0 < bytes -> 0 < items ->
  ncalls (xfer_desc bytes items [OXfer 0]) = 1 /\ ncalls (xfer_desc bytes items [OErr]) = 1 /\ FaultIO.ret (xfer_desc bytes items [OErr]) = 0.
Proof. exact dead_layer_stops. Qed.

Example c15_witness :
  xfer_desc 4 10 [OIntr; OXfer 7; OXfer 0] = mkio 1 7 3 false /\ xfer_desc 4 10 [OXfer 13; OErr] = mkio 3 13 2 true.
Proof. vm_compute. split; reflexivity. Qed.

Print Assumptions primitives_contain_faults.
Print Assumptions read_contains_faults.
Print Assumptions write_contains_faults.
Print Assumptions accepted_items_survive_failed_writes.
Print Assumptions header_cache_contains_faults.
Print Assumptions pipe_skip_is_bounded.

(** What can really be opened for writing, container by container: a readable table written by hand from the
    codec dispatch of each <container>_open routine (wav.c, aiff.c, au.c, ...), in the decision-list language
    of DecList.v.  It is tied to the implementation by the complete grid enumeration of checks/c10.py
    (open for write, write through the four sample types, close, re-open).  [fc_prog] (Gen_FormatCheck.v)
    is the translation of sf_format_check; the theorems of Properties_C10.v relate the two for ALL channel
    counts and sample rates. *)
From Coq Require Import ZArith List Lia Bool.
From SF Require Import DecList.
From SFGen Require Import Gen_Enums Gen_FormatCheck Gen_Formats.
Import ListNotations.
Local Open Scope Z_scope.

Definition cfalse : cond := Not CTrue.
Definition ors (l : list cond) : cond := fold_right Or cfalse l.
Definition sub_is (l : list Z) : cond := ors (map (Cmp 2%nat Ceq) l).
Definition end_is (l : list Z) : cond := ors (map (Cmp 3%nat Ceq) l).
Definition ch_le (k : Z) : cond := Cmp 0%nat Cle k.
Definition ch_gt (k : Z) : cond := Cmp 0%nat Cgt k.
Definition ch_is (k : Z) : cond := Cmp 0%nat Ceq k.
Definition ok (c : cond) : rule := (c, 1).
Definition no (c : cond) : rule := (c, 0).

Definition PCM_U8 := c_SF_FORMAT_PCM_U8. Definition PCM_S8 := c_SF_FORMAT_PCM_S8. Definition PCM_16 := c_SF_FORMAT_PCM_16.
Definition PCM_24 := c_SF_FORMAT_PCM_24. Definition PCM_32 := c_SF_FORMAT_PCM_32. Definition FLT := c_SF_FORMAT_FLOAT.
Definition DBL := c_SF_FORMAT_DOUBLE. Definition ULAW := c_SF_FORMAT_ULAW. Definition ALAW := c_SF_FORMAT_ALAW.
Definition IMA := c_SF_FORMAT_IMA_ADPCM. Definition MSA := c_SF_FORMAT_MS_ADPCM. Definition GSM := c_SF_FORMAT_GSM610.
Definition NMS := [c_SF_FORMAT_NMS_ADPCM_16; c_SF_FORMAT_NMS_ADPCM_24; c_SF_FORMAT_NMS_ADPCM_32].
Definition DWVW := [c_SF_FORMAT_DWVW_12; c_SF_FORMAT_DWVW_16; c_SF_FORMAT_DWVW_24].
Definition LITTLE_OR_CPU := end_is [c_SF_ENDIAN_LITTLE; c_SF_ENDIAN_CPU].
Definition BIG_OR_CPU := end_is [c_SF_ENDIAN_BIG; c_SF_ENDIAN_CPU].

Definition writable_cases : list (list Z * list rule) := [
  ([c_SF_FORMAT_WAV],   [ok (sub_is [PCM_U8; PCM_16; PCM_24; PCM_32; ULAW; ALAW; FLT; DBL]);
                         ok (And (sub_is [IMA; MSA]) (ch_le 2));
                         ok (And (sub_is ([GSM; c_SF_FORMAT_G721_32] ++ NMS)) (ch_is 1))]);
  ([c_SF_FORMAT_WAVEX], [no BIG_OR_CPU; ok (sub_is [PCM_U8; PCM_16; PCM_24; PCM_32; ULAW; ALAW; FLT; DBL])]);
  ([c_SF_FORMAT_AIFF],  [ok (sub_is [PCM_16; PCM_24; PCM_32]);
                         no (Cmp 3%nat Cne 0);
                         ok (sub_is [PCM_U8; PCM_S8; FLT; DBL; ULAW; ALAW]);
                         ok (And (sub_is (GSM :: DWVW)) (ch_is 1));
                         ok (And (sub_is [IMA]) (Or (ch_is 1) (ch_is 2)))]);
  ([c_SF_FORMAT_AU],    [ok (sub_is [PCM_S8; PCM_16; PCM_24; PCM_32; ULAW; ALAW; FLT; DBL]);
                         ok (And (sub_is [c_SF_FORMAT_G721_32; c_SF_FORMAT_G723_24; c_SF_FORMAT_G723_40]) (ch_is 1))]);
  ([c_SF_FORMAT_CAF],   [ok (sub_is [PCM_S8; PCM_16; PCM_24; PCM_32; ULAW; ALAW; FLT; DBL]);
                         ok (And (sub_is [c_SF_FORMAT_ALAC_16; c_SF_FORMAT_ALAC_20; c_SF_FORMAT_ALAC_24; c_SF_FORMAT_ALAC_32]) (ch_le 8))]);
  ([c_SF_FORMAT_RAW],   [ok (sub_is [PCM_U8; PCM_S8; PCM_16; PCM_24; PCM_32; FLT; DBL; ULAW; ALAW]);
                         ok (And (sub_is ([GSM; c_SF_FORMAT_VOX_ADPCM] ++ DWVW ++ NMS)) (ch_is 1))]);
  ([c_SF_FORMAT_PAF],   [ok (sub_is [PCM_S8; PCM_16; PCM_24])]);
  ([c_SF_FORMAT_SVX],   [no (ch_gt 1); no LITTLE_OR_CPU; ok (sub_is [PCM_S8; PCM_16])]);
  ([c_SF_FORMAT_NIST],  [ok (sub_is [PCM_S8; PCM_16; PCM_24; PCM_32; ULAW; ALAW])]);
  ([c_SF_FORMAT_IRCAM], [no (ch_gt 256); ok (sub_is [PCM_16; PCM_32; ULAW; ALAW; FLT])]);
  ([c_SF_FORMAT_VOC],   [no (ch_gt 2); no BIG_OR_CPU; ok (sub_is [PCM_U8; PCM_16; ULAW; ALAW])]);
  ([c_SF_FORMAT_W64],   [no BIG_OR_CPU; ok (sub_is [PCM_U8; PCM_16; PCM_24; PCM_32; ULAW; ALAW; FLT; DBL]);
                         ok (And (sub_is [IMA; MSA]) (ch_le 2)); ok (And (sub_is [GSM]) (ch_is 1))]);
  ([c_SF_FORMAT_MAT4],  [ok (sub_is [PCM_16; PCM_32; FLT; DBL])]);
  ([c_SF_FORMAT_MAT5],  [ok (sub_is [PCM_U8; PCM_16; PCM_32; FLT; DBL])]);
  ([c_SF_FORMAT_PVF],   [ok (sub_is [PCM_S8; PCM_16; PCM_32])]);
  ([c_SF_FORMAT_XI],    [no (Cmp 0%nat Cne 1); ok (sub_is [c_SF_FORMAT_DPCM_8; c_SF_FORMAT_DPCM_16])]);
  ([c_SF_FORMAT_HTK],   [no (Cmp 0%nat Cne 1); no LITTLE_OR_CPU; ok (sub_is [PCM_16])]);
  ([c_SF_FORMAT_SDS],   [no (Cmp 0%nat Cne 1); no LITTLE_OR_CPU; ok (sub_is [PCM_S8; PCM_16; PCM_24])]);
  ([c_SF_FORMAT_AVR],   [no (ch_gt 2); no LITTLE_OR_CPU; ok (sub_is [PCM_U8; PCM_S8; PCM_16])]);
  ([c_SF_FORMAT_SD2],   [no LITTLE_OR_CPU; ok (sub_is [PCM_S8; PCM_16; PCM_24; PCM_32])]);
  ([c_SF_FORMAT_WVE],   [no (ch_gt 1); no BIG_OR_CPU; ok (sub_is [ALAW])]);
  ([c_SF_FORMAT_MPC2K], [no (ch_gt 2); no BIG_OR_CPU; ok (sub_is [PCM_16])]);
  ([c_SF_FORMAT_RF64],  [no BIG_OR_CPU; ok (sub_is [PCM_U8; PCM_16; PCM_24; PCM_32; ULAW; ALAW; FLT; DBL])])
].

(** global requirements of every write-mode open (psf_open_file / validate_sfinfo): 1..SF_MAX_CHANNELS channels,
    sample rate at least 1 *)
Definition writable_prog : prog :=
  mkprog [no (Or (Cmp 0%nat Clt 1) (Cmp 0%nat Cgt c_SF_MAX_CHANNELS)); no (Cmp 1%nat Clt 1)] 4%nat writable_cases 0.

(** the domain of the property: containers and encodings this build enumerates *)
Definition majors : list Z := map (fun x => fst (fst (fst x))) major_list.
Definition subtypes : list Z := map (fun x => fst (fst (fst x))) subtype_list.
Definition outside_domain : cond := Or (Not (ors (map (Cmp 4%nat Ceq) majors))) (Not (sub_is subtypes)).
Definition guarded (extra : list rule) (p : prog) : prog := mkprog (no outside_domain :: extra ++ pre p) (sw p) (cases p) (final p).

Definition in_domain (e : env) : Prop := In (get e 4%nat) majors /\ In (get e 2%nat) subtypes.

Lemma ors_true e l : eval_cond e (ors l) = existsb (eval_cond e) l.
Proof. induction l as [|c r IH]; simpl; [reflexivity | rewrite IH; reflexivity]. Qed.

Lemma outside_domain_false e : in_domain e -> eval_cond e outside_domain = false.
Proof.
  intros [Hm Hs].
  assert (H1 : eval_cond e (ors (map (Cmp 4%nat Ceq) majors)) = true).
  { rewrite ors_true. apply existsb_exists. exists (Cmp 4%nat Ceq (get e 4%nat)). split; [apply in_map; assumption | simpl; apply Z.eqb_refl]. }
  assert (H2 : eval_cond e (sub_is subtypes) = true).
  { unfold sub_is. rewrite ors_true. apply existsb_exists. exists (Cmp 2%nat Ceq (get e 2%nat)). split; [apply in_map; assumption | simpl; apply Z.eqb_refl]. }
  unfold outside_domain. cbn [eval_cond]. rewrite H1, H2. reflexivity.
Qed.

Lemma guarded_eval extra p e : in_domain e -> eval_rules e extra = None -> eval (guarded extra p) e = eval p e.
Proof.
  intros Hd Hx. unfold eval, guarded. cbn [pre sw cases final eval_rules no fst snd]. rewrite (outside_domain_false e Hd).
  assert (Happ : forall a b, eval_rules e a = None -> eval_rules e (a ++ b) = eval_rules e b).
  { induction a as [|[c k] r IH]; simpl; intros b H; [reflexivity|]. destruct (eval_cond e c); [discriminate | apply IH; assumption]. }
  rewrite Happ by assumption. reflexivity.
Qed.

(** sf_format_check and the write-mode truth agree wherever the sample rate is not 0 ... *)
Definition rate_zero : list rule := [no (Cmp 1%nat Ceq 0)].
Definition agreement_check : bool :=
  agree_on (guarded rate_zero fc_prog) (guarded rate_zero writable_prog)
           (envs_over (doms_from (guarded rate_zero fc_prog) (guarded rate_zero writable_prog) 0%nat 5)).

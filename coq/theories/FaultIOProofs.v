(** FaultIOProofs.v -- C15: whatever the I/O layer answers, the transfer primitives return a count inside [0, items], report
    only whole items that were really moved, and stop after a bounded number of calls. *)
From Coq Require Import ZArith List Bool Lia.
From SF Require Import FaultIO.
Import ListNotations.
Local Open Scope Z_scope.

Definition interrupts (outs : list outcome) : Z := Z.of_nat (length (filter (fun o => match o with OIntr => true | _ => false end) outs)).

Lemma interrupts_nonneg outs : 0 <= interrupts outs.
Proof. unfold interrupts. lia. Qed.

Lemma interrupts_cons o outs : interrupts (o :: outs) = (match o with OIntr => 1 | _ => 0 end) + interrupts outs.
Proof. unfold interrupts. cbn [filter]. destruct o; cbn [length]; lia. Qed.

(** the loop: never moves more than asked, never loses what it counted, and every call that is not an interrupt either
    ends the loop or moves at least one byte -- so calls <= bytes moved + interrupts + 1 *)
Lemma xfer_loop_spec outs : forall remaining tot n, 0 <= remaining ->
  let r := xfer_loop outs remaining tot n in
  tot <= total r <= tot + remaining /\ n <= calls r /\ calls r - n <= (total r - tot) + interrupts outs + 1.
Proof.
  induction outs as [|o outs IH]; intros remaining tot n Hr; cbn [xfer_loop].
  - destruct (remaining <=? 0) eqn:E; cbn [total calls]; unfold interrupts; cbn [filter length]; lia.
  - destruct (remaining <=? 0) eqn:E.
    { cbn [total calls]. pose proof (interrupts_nonneg (o :: outs)). lia. }
    apply Z.leb_gt in E. rewrite interrupts_cons. pose proof (interrupts_nonneg outs) as Hi.
    destruct o as [| |k].
    + cbn [total calls]. lia.
    + specialize (IH remaining tot (n + 1) Hr). cbn zeta in IH. lia.
    + set (c := clamp k (Z.min remaining SENSIBLE_SIZE)).
      assert (Hc : 0 <= c <= remaining) by (subst c; unfold clamp; lia).
      destruct (c =? 0) eqn:Ec.
      * cbn [total calls]. lia.
      * apply Z.eqb_neq in Ec. specialize (IH (remaining - c) (tot + c) (n + 1) ltac:(lia)). cbn zeta in IH. lia.
Qed.

(** psf_fread / psf_fwrite on a descriptor, for every request and every sequence of kernel answers *)
Theorem xfer_desc_contained bytes items outs : 0 <= bytes -> 0 <= items ->
  let r := xfer_desc bytes items outs in
  0 <= ret r <= items /\                                   (* inside the documented range *)
  ret r * bytes <= moved r /\ moved r < (ret r + 1) * bytes + (if bytes =? 0 then 1 else 0) /\   (* whole items that really moved *)
  0 <= moved r <= items * bytes /\
  ncalls r <= moved r + interrupts outs + 1.               (* bounded number of calls *)
Proof.
  intros Hb Hi. unfold xfer_desc.
  destruct ((bytes =? 0) || (items =? 0)) eqn:E0.
  { cbn [ret moved ncalls]. pose proof (interrupts_nonneg outs). destruct (bytes =? 0) eqn:Eb; nia. }
  apply orb_false_iff in E0. destruct E0 as [Eb Ei]. apply Z.eqb_neq in Eb. apply Z.eqb_neq in Ei. rewrite (proj2 (Z.eqb_neq bytes 0) Eb).
  destruct (items * bytes <=? 0) eqn:En; [apply Z.leb_le in En; nia|]. apply Z.leb_gt in En.
  pose proof (xfer_loop_spec outs (items * bytes) 0 0 ltac:(lia)) as H. cbn zeta in H.
  destruct H as ([Ht0 Ht1] & Hc0 & Hc1). cbn [ret moved ncalls].
  set (t := total (xfer_loop outs (items * bytes) 0 0)) in *.
  assert (Hq : 0 <= Z.quot t bytes /\ Z.quot t bytes * bytes <= t < (Z.quot t bytes + 1) * bytes).
  { pose proof (Z.quot_rem' t bytes) as Hqr. pose proof (Z.rem_bound_pos t bytes ltac:(lia) ltac:(lia)) as Hrb.
    assert (0 <= Z.quot t bytes) by (apply Z.quot_pos; lia). nia. }
  assert (Hle : Z.quot t bytes <= items) by nia.
  lia.
Qed.

(** the virtual route: one callback *)
Theorem xfer_vio_contained bytes items k : 0 <= bytes -> 0 <= items ->
  let r := xfer_vio bytes items k in
  0 <= ret r <= items /\ ret r * bytes <= moved r /\ 0 <= moved r <= bytes * items /\ ncalls r <= 1.
Proof.
  intros Hb Hi. unfold xfer_vio.
  destruct ((bytes =? 0) || (items =? 0)) eqn:E0; [cbn [ret moved ncalls]; repeat split; nia|].
  apply orb_false_iff in E0. destruct E0 as [Eb Ei]. apply Z.eqb_neq in Eb. apply Z.eqb_neq in Ei.
  cbn [ret moved ncalls]. set (c := clamp k (bytes * items)).
  assert (Hc : 0 <= c <= bytes * items) by (subst c; unfold clamp; nia).
  pose proof (Z.quot_rem' c bytes) as Hqr. pose proof (Z.rem_bound_pos c bytes ltac:(lia) ltac:(lia)) as Hrb.
  assert (0 <= Z.quot c bytes) by (apply Z.quot_pos; lia).
  assert (Z.quot c bytes <= items) by nia. nia.
Qed.

(** a layer that answers nothing from some point on ends the loop at once: no spinning on a dead descriptor *)
Theorem dead_layer_stops bytes items : 0 < bytes -> 0 < items ->
  ncalls (xfer_desc bytes items [OXfer 0]) = 1 /\ ncalls (xfer_desc bytes items [OErr]) = 1 /\ ret (xfer_desc bytes items [OErr]) = 0.
Proof.
  intros Hb Hi. unfold xfer_desc.
  rewrite (proj2 (Z.eqb_neq bytes 0)) by lia. rewrite (proj2 (Z.eqb_neq items 0)) by lia. cbn [orb].
  destruct (items * bytes <=? 0) eqn:En; [apply Z.leb_le in En; nia|].
  apply Z.leb_gt in En.
  assert (Hc : clamp 0 (Z.min (items * bytes) SENSIBLE_SIZE) = 0) by (unfold clamp, SENSIBLE_SIZE; lia).
  cbn [xfer_loop]. rewrite (proj2 (Z.leb_gt _ _) En). rewrite Hc. cbn [Z.eqb ncalls calls ret total].
  rewrite Z.quot_0_l by lia. repeat split; reflexivity.
Qed.

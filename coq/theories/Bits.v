(** L0: integers of fixed width, wrap-around, sign extension, bytes, table lookup. *)
From Coq Require Import ZArith List Lia Bool.
Import ListNotations.
Local Open Scope Z_scope.

(** Two's-complement wrap of [x] into [w] bits (signed). *)
Definition wrap (w : Z) (x : Z) : Z := ((x + 2^(w-1)) mod 2^w) - 2^(w-1).
Definition uwrap (w : Z) (x : Z) : Z := x mod 2^w.
Definition u8 (x : Z) : Z := x mod 256.
Definition sext (w : Z) (c : Z) : Z := if c <? 2^(w-1) then c else c - 2^w.

Definition in_int (w : Z) (x : Z) : Prop := - 2^(w-1) <= x < 2^(w-1).
Definition in_intb (w : Z) (x : Z) : bool := (- 2^(w-1) <=? x) && (x <? 2^(w-1)).
Definition is_short (x : Z) : Prop := -32768 <= x <= 32767.
Definition is_int32 (x : Z) : Prop := -2147483648 <= x <= 2147483647.
Definition is_byte (x : Z) : Prop := 0 <= x < 256.

(** Array access as the C performs it: [None] is an out-of-bounds access. *)
Definition lookup (l : list Z) (i : Z) : option Z :=
  if i <? 0 then None else nth_error l (Z.to_nat i).

Lemma lookup_Some_range l i v : lookup l i = Some v -> 0 <= i < Z.of_nat (length l).
Proof.
  unfold lookup. destruct (i <? 0) eqn:E; [discriminate|]. intro H.
  apply Z.ltb_ge in E. assert (nth_error l (Z.to_nat i) <> None) as H1 by congruence.
  apply nth_error_Some in H1. lia.
Qed.

(** Enumerations used to close finite domains by computation. *)
Fixpoint zrange_nat (lo : Z) (n : nat) : list Z :=
  match n with O => [] | S k => lo :: zrange_nat (lo + 1) k end.
Definition zrange (lo hi : Z) : list Z := zrange_nat lo (Z.to_nat (hi - lo)).

Lemma zrange_nat_In lo n x : lo <= x < lo + Z.of_nat n -> In x (zrange_nat lo n).
Proof.
  revert lo; induction n as [|n IH]; intros lo H; simpl in *; [lia|].
  destruct (Z.eq_dec lo x); [left; assumption|right; apply IH; lia].
Qed.
Lemma zrange_In lo hi x : lo <= x < hi -> In x (zrange lo hi).
Proof. intro H. apply zrange_nat_In. lia. Qed.

(** Lifting a complete evaluation to a universally quantified statement. *)
Lemma forall_range (P : Z -> bool) lo hi :
  forallb P (zrange lo hi) = true -> forall x, lo <= x < hi -> P x = true.
Proof. intros H x Hx. rewrite forallb_forall in H. apply H, zrange_In, Hx. Qed.

(** Bytes of an integer, little endian, [n] bytes. *)
Fixpoint le_bytes (n : nat) (x : Z) : list Z :=
  match n with O => [] | S k => (x mod 256) :: le_bytes k (x / 256) end.
Fixpoint le_value (bs : list Z) : Z :=
  match bs with [] => 0 | b :: r => b + 256 * le_value r end.
Definition be_bytes (n : nat) (x : Z) : list Z := rev (le_bytes n x).
Definition be_value (bs : list Z) : Z := le_value (rev bs).

Lemma le_bytes_length n x : length (le_bytes n x) = n.
Proof. revert x; induction n; simpl; auto. Qed.

Lemma le_value_bytes n x : 0 <= x < 256 ^ Z.of_nat n -> le_value (le_bytes n x) = x.
Proof.
  revert x; induction n as [|n IH]; intros x H.
  - simpl in *. lia.
  - cbn [le_bytes le_value]. rewrite IH.
    + pose proof (Z.div_mod x 256). lia.
    + rewrite Nat2Z.inj_succ, Z.pow_succ_r in H by lia.
      split; [apply Z.div_pos; lia| apply Z.div_lt_upper_bound; lia].
Qed.

Lemma le_bytes_are_bytes n x : Forall is_byte (le_bytes n x).
Proof.
  revert x; induction n; intros; simpl; constructor; auto.
  unfold is_byte. apply Z.mod_pos_bound. lia.
Qed.

Lemma le_bytes_value bs : Forall is_byte bs -> le_bytes (length bs) (le_value bs) = bs.
Proof.
  induction 1 as [|b r Hb Hr IH]; cbn [length le_bytes le_value]; auto. unfold is_byte in Hb.
  f_equal.
  - replace (b + 256 * le_value r) with (b + le_value r * 256) by lia.
    rewrite Z.mod_add by lia. apply Z.mod_small; lia.
  - replace (b + 256 * le_value r) with (b + le_value r * 256) by lia.
    rewrite Z.div_add by lia. rewrite Z.div_small by lia. rewrite Z.add_0_l. exact IH.
Qed.

Lemma wrap_id w x : 0 < w -> in_int w x -> wrap w x = x.
Proof.
  unfold in_int, wrap. intros Hw H.
  assert (2 ^ w = 2 * 2 ^ (w - 1)) as E.
  { replace w with (Z.succ (w - 1)) at 1 by lia. rewrite Z.pow_succ_r by lia. reflexivity. }
  rewrite Z.mod_small; lia.
Qed.

Lemma wrap_range w x : 0 < w -> in_int w (wrap w x).
Proof.
  unfold in_int, wrap. intros Hw.
  assert (2 ^ w = 2 * 2 ^ (w - 1)) as E.
  { replace w with (Z.succ (w - 1)) at 1 by lia. rewrite Z.pow_succ_r by lia. reflexivity. }
  assert (0 < 2 ^ (w-1)) by (apply Z.pow_pos_nonneg; lia).
  pose proof (Z.mod_pos_bound (x + 2 ^ (w - 1)) (2 ^ w)). lia.
Qed.

(** One linear pass relating a table to a function of the index. *)
Fixpoint tab_ok (f : Z -> Z) (l : list Z) (i : Z) : bool :=
  match l with [] => true | x :: r => (x =? f i) && tab_ok f r (i + 1) end.

Lemma tab_ok_lookup f l : forall i0, tab_ok f l i0 = true ->
  forall i, 0 <= i < Z.of_nat (length l) -> lookup l i = Some (f (i0 + i)).
Proof.
  induction l as [|x r IH]; intros i0 H i Hi.
  - simpl in Hi. lia.
  - cbn [tab_ok] in H. apply andb_prop in H. destruct H as [H1 H2]. apply Z.eqb_eq in H1.
    unfold lookup. destruct (i <? 0) eqn:E; [apply Z.ltb_lt in E; lia|].
    destruct (Z.eq_dec i 0) as [->|Hn].
    + simpl. rewrite Z.add_0_r. congruence.
    + replace (Z.to_nat i) with (S (Z.to_nat (i - 1))) by lia. cbn [nth_error].
      specialize (IH (i0 + 1) H2 (i - 1)).
      unfold lookup in IH. replace (i - 1 <? 0) with false in IH by (symmetry; apply Z.ltb_ge; lia).
      rewrite IH; [f_equal; f_equal; lia|]. cbn [length] in Hi. lia.
Qed.

(** Generic pointwise checkers over a range (kept generic so that the kernel never has to unfold
    the functions being compared when a computed fact is lifted). *)
Definition eqb_chk (f g : Z -> Z) (s : Z) : bool := f s =? g s.
Definition leb_chk (f g : Z -> Z) (s : Z) : bool := f s <=? g s.
Lemma eqb_chk_sound f g lo hi : forallb (eqb_chk f g) (zrange lo hi) = true ->
  forall s, lo <= s < hi -> f s = g s.
Proof. intros H s Hs. pose proof (forall_range _ _ _ H s Hs) as K. unfold eqb_chk in K. apply Z.eqb_eq in K. exact K. Qed.
Lemma leb_chk_sound f g lo hi : forallb (leb_chk f g) (zrange lo hi) = true ->
  forall s, lo <= s < hi -> f s <= g s.
Proof. intros H s Hs. pose proof (forall_range _ _ _ H s Hs) as K. unfold leb_chk in K. apply Z.leb_le in K. exact K. Qed.

(** C09 -- invalid calls fail cleanly; valid calls leave no error.
    Model: Api.v; proofs in ApiProofs.v; the error table is regenerated from src/sndfile.c on every run
    (Gen_Enums.v, T1).  Tie: invalid-call sandwiches through every entry point in checks/c09.py. *)
From Coq Require Import ZArith List Lia Bool.
From SFGen Require Import Gen_Enums.
From SF Require Import Api ApiProofs.
Import ListNotations.
Local Open Scope Z_scope.

(** a rejected read / write returns 0, records a non-zero error and changes NOTHING else: positions, frame
    count, data, file cursor and last_op are those of the state before *)
Theorem rejected_read_changes_only_the_error : forall fv n lim s, n <> 0 -> read_invalid fv n s ->
  exists e, e <> 0 /\ api_read fv n lim s = (set_err s e, mkr 0 nil (TUntouched 0)).
Proof. exact invalid_read_frame. Qed.
Theorem rejected_write_changes_only_the_error : forall fv n lim xs s, n <> 0 -> write_invalid fv n s ->
  exists e, e <> 0 /\ api_write fv n lim xs s = (set_err s e, 0).
Proof. exact invalid_write_frame. Qed.
Theorem rejected_seek_changes_only_the_error : forall off w s,
  seekable s = false \/
  (whence_mode w = c_SFM_WRITE /\ mode s = c_SFM_READ) \/ (whence_mode w = c_SFM_READ /\ mode s = c_SFM_WRITE) \/
  (exists e, seek_decode s off w = SBad e) \/
  (exists pos, seek_decode s off w = STarget pos /\ (pos < 0 \/ (mode s = c_SFM_READ /\ frames s < pos))) ->
  exists e, e <> 0 /\ api_seek off w s = (set_err s e, -1).
Proof. exact invalid_seek_frame. Qed.
Theorem zero_length_calls_are_noops : forall fv lim s xs,
  api_read fv 0 lim s = (s, mkr 0 nil (TUntouched 0)) /\ api_write fv 0 lim xs s = (s, 0).
Proof. exact zero_length_noop. Qed.

(** every call that is not rejected leaves the error at 0, whatever it was before *)
Theorem accepted_read_clears_error : forall fv n lim s, n <> 0 -> ~ read_invalid fv n s -> err (fst (api_read fv n lim s)) = 0.
Proof. exact valid_read_clears_error. Qed.
Theorem accepted_write_clears_error : forall fv n lim xs s, n <> 0 -> ~ write_invalid fv n s -> err (fst (api_write fv n lim xs s)) = 0.
Proof. exact valid_write_clears_error. Qed.
Theorem successful_seek_clears_error : forall off w s, snd (api_seek off w s) <> -1 -> err (fst (api_seek off w s)) = 0.
Proof. exact valid_seek_clears_error. Qed.

(** every error number 0 .. SFE_MAX_ERROR has a non-empty message that is not the placeholder text *)
Theorem every_error_number_has_a_message : forall e, 0 <= e <= c_SFE_MAX_ERROR ->
  exists l bad, nth_error error_number_tab (Z.to_nat e) = Some (e, l, bad) /\ 0 < l /\ bad = false.
Proof. exact error_table_lookup. Qed.

Print Assumptions rejected_read_changes_only_the_error.
Print Assumptions rejected_write_changes_only_the_error.
Print Assumptions rejected_seek_changes_only_the_error.
Print Assumptions accepted_read_clears_error.
Print Assumptions successful_seek_clears_error.
Print Assumptions every_error_number_has_a_message.

(** Resources.v -- the ownership ledger of one handle (C16).

    A live resource (heap block, stdio stream, descriptor, temporary file) is recorded together with what can still reach
    it: an owning field of SF_PRIVATE ([Top f]) or a member of the private struct held by such a field ([Nest p t]).
    psf_close (src/sndfile.c) = run the installed close hooks (they release the nested resources of their struct), then
    free every field of the fixed list [owned] (Gen_Owned.freed_fields, regenerated from psf_close on every run).
    Whatever the ledger still holds after that is leaked; [lost] counts blocks that became unreachable earlier
    (a field overwritten while it held a block, a struct freed while its members were live). *)
From Coq Require Import ZArith List Bool Lia.
Import ListNotations.
Local Open Scope Z_scope.

Inductive holder := Top (f : Z) | Nest (p t : Z).

Definition holder_eqb (a b : holder) : bool :=
  match a, b with
  | Top f, Top g => f =? g
  | Nest p t, Nest q u => (p =? q) && (t =? u)
  | _, _ => false
  end.

Record rs := mkrs { live : list holder ; hooks : list Z ; lost : Z }.

Definition init : rs := mkrs [] [] 0.

(** how an allocation site treats the previous occupant of its field *)
Inductive guard := GNullChecked   (* if (psf->f == NULL) psf->f = alloc : keeps the occupant *)
                 | GFreedFirst    (* free (psf->f) ; psf->f = alloc *)
                 | GBlind.        (* psf->f = alloc : correct only when the field is known to be empty *)

Inductive op :=
  | OAlloc (f : Z) (g : guard)
  | ORelease (f : Z)               (* free (psf->f) ; psf->f = NULL *)
  | OHook (p : Z)                  (* psf->codec_close / container_close = the close function of the struct in field p *)
  | ONest (p t : Z)                (* member t of the struct in field p receives a resource *)
  | OUnnest (p t : Z).

Definition memz (x : Z) (l : list Z) : bool := existsb (Z.eqb x) l.
Definition holds (s : rs) (h : holder) : bool := existsb (holder_eqb h) (live s).
Definition remove_h (h : holder) (l : list holder) : list holder := filter (fun x => negb (holder_eqb h x)) l.
Definition under (p : Z) (h : holder) : bool := match h with Nest q _ => p =? q | _ => false end.
Definition count_under (p : Z) (l : list holder) : Z := Z.of_nat (length (filter (under p) l)).

Definition step (s : rs) (o : op) : rs :=
  match o with
  | OAlloc f GNullChecked => if holds s (Top f) then s else mkrs (Top f :: live s) (hooks s) (lost s)
  | OAlloc f GFreedFirst => mkrs (Top f :: remove_h (Top f) (live s)) (hooks s) (lost s + count_under f (live s))
  | OAlloc f GBlind => if holds s (Top f) then mkrs (live s) (hooks s) (lost s + 1) else mkrs (Top f :: live s) (hooks s) (lost s)
  | ORelease f => mkrs (filter (fun h => negb (under f h)) (remove_h (Top f) (live s))) (hooks s) (lost s + count_under f (live s))
  | OHook p => mkrs (live s) (p :: hooks s) (lost s)
  | ONest p t => if holds s (Nest p t) then mkrs (live s) (hooks s) (lost s + 1) else mkrs (Nest p t :: live s) (hooks s) (lost s)
  | OUnnest p t => mkrs (remove_h (Nest p t) (live s)) (hooks s) (lost s)
  end.

Definition run (s : rs) (ops : list op) : rs := fold_left step ops s.

(** psf_close: hooks first, then the fixed list of frees.  Returns what is left. *)
Definition released_by_close (owned : list Z) (hk : list Z) (h : holder) : bool :=
  match h with
  | Top f => memz f owned
  | Nest p _ => memz p hk
  end.

Definition close (owned : list Z) (s : rs) : list holder * Z :=
  (filter (fun h => negb (released_by_close owned (hooks s) h)) (live s), lost s).

(** the discipline the allocation sites follow (checked per operation against the state it runs in) *)
Definition op_ok (owned : list Z) (s : rs) (o : op) : bool :=
  match o with
  | OAlloc f GBlind => memz f owned && negb (holds s (Top f))
  | OAlloc f GFreedFirst => memz f owned && (count_under f (live s) =? 0)
  | OAlloc f GNullChecked => memz f owned
  | ORelease f => count_under f (live s) =? 0
  | OHook _ => true
  | ONest p t => memz p (hooks s) && negb (holds s (Nest p t))
  | OUnnest _ _ => true
  end.

Fixpoint run_ok (owned : list Z) (s : rs) (ops : list op) : bool :=
  match ops with
  | [] => true
  | o :: r => op_ok owned s o && run_ok owned (step s o) r
  end.

(** the ledger equation the harness observes: number of live blocks of the handle *)
Definition blocks (s : rs) : Z := Z.of_nat (length (live s)) + lost s.

From Coq Require Import ZArith List Lia Bool.
From SF Require Import HeaderCache.
Import ListNotations.
Local Open Scope Z_scope.

Lemma bump_spec len needed : 0 < len <= LIMIT ->
  len <= snd (bump len needed) <= LIMIT /\
  (fst (bump len needed) = false -> (len < needed -> 2 * needed <= snd (bump len needed)) /\ (needed <= len -> snd (bump len needed) = 2 * len)) /\
  (fst (bump len needed) = true -> snd (bump len needed) = len).
Proof.
  intros H. unfold bump. set (L := LIMIT) in *. assert (HL : L = 102400) by reflexivity. unfold INITIAL.
  destruct (len <? needed) eqn:E; [apply Z.ltb_lt in E | apply Z.ltb_ge in E].
  - destruct (L <? 2 * Z.max needed 256) eqn:F; [apply Z.ltb_lt in F | apply Z.ltb_ge in F]; cbn [fst snd].
    + split; [lia|]. split; [discriminate | reflexivity].
    + split; [lia|]. split; [intros _; split; intros; lia | discriminate].
  - destruct (L <? 2 * len) eqn:F; [apply Z.ltb_lt in F | apply Z.ltb_ge in F]; cbn [fst snd].
    + split; [lia|]. split; [discriminate | reflexivity].
    + split; [lia|]. split; [intros _; split; intros; lia | discriminate].
Qed.

Lemma clampio_range io want : 0 <= want -> 0 <= clampio io want <= want.
Proof. unfold clampio; lia. Qed.

(** one operation: the invariant is kept and every byte range of the cache that is written or read lies inside the
    allocation -- for every argument and every answer of the I/O layer *)
Theorem step_safe s o : inv s -> op_ok o ->
  let '(s', es) := step s o in inv s' /\ Forall (ext_ok (hlen s')) es /\ hlen s <= hlen s'.
Proof.
  intros (Hi & He & Hl) Hok. destruct o as [b io | p io | p io]; simpl in *.
  - (* header_read *)
    unfold header_read.
    destruct (hlen s <=? indx s + b) eqn:E1; [apply Z.leb_le in E1 | apply Z.leb_gt in E1].
    + pose proof (bump_spec (hlen s) b Hl) as B. destruct (bump (hlen s) b) as [refused len1]. cbn [fst snd] in B. destruct B as (B1 & B2 & B3).
      destruct refused.
      * simpl. unfold inv. repeat split; try lia. constructor.
      * specialize (B2 eq_refl). destruct B2 as [B2a B2b].
        assert (Hfit : indx s + b <= len1).
        { destruct (Z.lt_ge_cases (hlen s) b) as [F|F]; [specialize (B2a F); lia | specialize (B2b F); lia]. }
        destruct (hend s <? indx s + b) eqn:E2; [apply Z.ltb_lt in E2 | apply Z.ltb_ge in E2].
        -- pose proof (clampio_range io (b - (hend s - indx s)) ltac:(lia)) as C.
           destruct (negb (clampio io (b - (hend s - indx s)) =? b - (hend s - indx s))) eqn:E3; simpl; unfold inv; simpl.
           ++ repeat split; try lia. constructor; [simpl; lia | constructor].
           ++ apply negb_false_iff, Z.eqb_eq in E3. repeat split; try lia.
              constructor; [simpl; lia|]. constructor; [simpl; lia | constructor].
        -- simpl; unfold inv; simpl. repeat split; try lia. constructor; [simpl; lia | constructor].
    + destruct (hend s <? indx s + b) eqn:E2; [apply Z.ltb_lt in E2 | apply Z.ltb_ge in E2].
      * pose proof (clampio_range io (b - (hend s - indx s)) ltac:(lia)) as C.
        destruct (negb (clampio io (b - (hend s - indx s)) =? b - (hend s - indx s))) eqn:E3; simpl; unfold inv; simpl.
        -- repeat split; try lia. constructor; [simpl; lia | constructor].
        -- apply negb_false_iff, Z.eqb_eq in E3. repeat split; try lia.
           constructor; [simpl; lia|]. constructor; [simpl; lia | constructor].
      * simpl; unfold inv; simpl. repeat split; try lia. constructor; [simpl; lia | constructor].
  - (* SEEK_SET *)
    unfold seek_set.
    assert (HL : let len1 := (if hlen s <=? indx s + p then snd (bump (hlen s) p) else hlen s) in hlen s <= len1 <= LIMIT).
    { destruct (hlen s <=? indx s + p); [|simpl; lia]. pose proof (bump_spec (hlen s) p Hl) as B. cbv zeta. lia. }
    set (len1 := if hlen s <=? indx s + p then snd (bump (hlen s) p) else hlen s) in *. cbv zeta in HL.
    destruct (len1 <? p) eqn:E1; [apply Z.ltb_lt in E1 | apply Z.ltb_ge in E1].
    + unfold inv; simpl. repeat split; try lia. constructor.
    + destruct (hend s <? p) eqn:E2; [apply Z.ltb_lt in E2 | apply Z.ltb_ge in E2].
      * pose proof (clampio_range io (p - hend s) ltac:(lia)) as C. unfold inv; simpl. repeat split; try lia.
        constructor; [simpl; lia | constructor].
      * unfold inv; simpl. repeat split; try lia. constructor.
  - (* SEEK_CUR *)
    unfold seek_cur.
    assert (HL : let len1 := (if hlen s <=? indx s + p then snd (bump (hlen s) p) else hlen s) in hlen s <= len1 <= LIMIT).
    { destruct (hlen s <=? indx s + p); [|simpl; lia]. pose proof (bump_spec (hlen s) p Hl) as B. cbv zeta. lia. }
    set (len1 := if hlen s <=? indx s + p then snd (bump (hlen s) p) else hlen s) in *. cbv zeta in HL.
    destruct (indx s + p <? 0) eqn:E0; [unfold inv; simpl; repeat split; try lia; constructor|]. apply Z.ltb_ge in E0.
    destruct (len1 <=? indx s) eqn:E1; [unfold inv; simpl; repeat split; try lia; constructor|]. apply Z.leb_gt in E1.
    destruct (indx s + p <=? hend s) eqn:E2; [apply Z.leb_le in E2; unfold inv; simpl; repeat split; try lia; constructor|]. apply Z.leb_gt in E2.
    destruct (len1 <? indx s + p) eqn:E3; [unfold inv; simpl; repeat split; try lia; constructor|]. apply Z.ltb_ge in E3.
    pose proof (clampio_range io (p - (hend s - indx s)) ltac:(lia)) as C.
    unfold inv; simpl. repeat split; try lia. constructor; [simpl; lia | constructor].
Qed.

Lemma ext_ok_mono len len' e : len <= len' -> ext_ok len e -> ext_ok len' e.
Proof. destruct e; simpl; lia. Qed.

Lemma run_len_mono ops : forall s, inv s -> Forall op_ok ops -> hlen s <= hlen (fst (run s ops)).
Proof.
  induction ops as [|o r IH]; intros s Hi Ho; simpl; [lia|]. inversion Ho as [|? ? H1 H2]; subst.
  pose proof (step_safe s o Hi H1) as S. destruct (step s o) as [sa ea]. destruct S as (Sa & _ & Sc).
  specialize (IH sa Sa H2). destruct (run sa r) as [sb eb]. simpl in *. lia.
Qed.

(** every history of header reads and seeks, with arbitrary sizes / positions taken from the file and arbitrary I/O outcomes
    (short reads, nothing at all), keeps 0 <= indx, end <= len <= 100 KiB and touches the cache only inside its allocation *)
Theorem header_cache_safe ops : forall s, inv s -> Forall op_ok ops ->
  let '(s', es) := run s ops in inv s' /\ Forall (ext_ok (hlen s')) es.
Proof.
  induction ops as [|o r IH]; intros s Hinv Hok; simpl; [split; [assumption | constructor]|].
  inversion Hok as [|? ? Ho Hr]; subst.
  pose proof (step_safe s o Hinv Ho) as S. destruct (step s o) as [s1 e1]. destruct S as (S1 & S2 & S3).
  pose proof (run_len_mono r s1 S1 Hr) as Hmono.
  specialize (IH s1 S1 Hr). destruct (run s1 r) as [s2 e2]. destruct IH as [I1 I2]. simpl in Hmono. split; [assumption|].
  apply Forall_app. split; [|assumption].
  eapply Forall_impl; [|exact S2]. intros e He. eapply ext_ok_mono; eassumption.
Qed.

(** ---- the pipe skip loop ends after ceil (skip / 16 KiB) reads whatever they deliver *)
Ltac Zify.zify_post_hook ::= Z.div_mod_to_equations.
Lemma skip_loop_spec fuel : forall skip delivered calls req, 0 <= skip -> skip <= Z.of_nat fuel * JUNK ->
  skip_loop fuel skip delivered calls req = (calls + (skip + JUNK - 1) / JUNK, req + skip, 0).
Proof.
  unfold JUNK. induction fuel as [|f IH]; intros skip delivered calls req H0 Hf; cbn [skip_loop]; unfold JUNK in *.
  - assert (skip = 0) by lia. subst skip. change (0 <=? 0) with true. cbn iota. (f_equal; try lia); (f_equal; lia).
  - destruct (skip <=? 0) eqn:E.
    + apply Z.leb_le in E. assert (skip = 0) by lia. subst skip. (f_equal; try lia); (f_equal; lia).
    + apply Z.leb_gt in E. rewrite IH by lia.
      assert (Hq : (skip - Z.min skip 16384 + 16384 - 1) / 16384 + 1 = (skip + 16384 - 1) / 16384) by lia.
      (f_equal; try lia); (f_equal; lia).
Qed.

(** whatever the reads deliver (nothing, parts, everything), the skip makes exactly ceil (skip / 16384) calls, asks for exactly
    [skip] bytes in total, and ends *)
Theorem pipe_skip_terminates skip delivered : 0 <= skip ->
  pipe_skip skip delivered = ((skip + JUNK - 1) / JUNK, skip, 0).
Proof.
  intros H. unfold pipe_skip. rewrite skip_loop_spec; [reflexivity | exact H |].
  unfold JUNK. rewrite Z2Nat.id by (pose proof (Z.div_pos skip 16384 H ltac:(lia)); lia).
  pose proof (Z.mod_pos_bound skip 16384 ltac:(lia)). pose proof (Z.div_mod skip 16384 ltac:(lia)). lia.
Qed.

(** C08 -- read/write mode keeps independent, correct read and write positions.
    Model: Api.v (one shared file cursor, last_op, the re-seek on read<->write switch, psf_default_seek,
    SFC_FILE_TRUNCATE); proofs in ApiProofs.v.  Tie: random and bounded-exhaustive RDWR histories against
    the implementation in checks/c08.py, incl. close / re-open through every container that opens SFM_RDWR. *)
From Coq Require Import ZArith List Lia Bool.
From SFGen Require Import Gen_Enums.
From SF Require Import Api ApiProofs.
Import ListNotations.
Local Open Scope Z_scope.

(** the cursor invariant (last_op = READ -> cursor at the read position, last_op = WRITE -> cursor at the
    write position, data region a whole number of frames >= frames) holds in every reachable state of every
    history of reads, writes, seeks with every whence and truncations *)
Theorem rdwr_invariant_every_history : forall ops s, wf s -> Forall (op_ok (ch s)) ops ->
  wf (fst (run s ops)) /\ same_shape s (fst (run s ops)).
Proof. exact run_preserves_wf. Qed.

(** data written at frame p is what a later read at p returns *)
Theorem read_returns_what_was_written : forall n xs s,
  wf s -> mode s = c_SFM_RDWR -> seekable s = true -> 0 < n -> len xs = n * ch s ->
  let '(s1, w) := api_write true n (n * ch s) xs s in
  let '(s2, r) := api_seek (wcur s) (SEEK_SET + c_SFM_READ) s1 in
  let '(s3, o) := api_read true n (n * ch s) s2 in
  w = n /\ r = wcur s /\ items o = xs /\ ret o = n /\ wcur s3 = wcur s + n /\ rcur s3 = wcur s + n.
Proof. exact write_then_read. Qed.

(** writing inside existing data overwrites it without changing the length and without touching anything
    outside the written range; writing at or past the end extends the frame count; the read pointer stays *)
Theorem write_overwrites_or_extends : forall n xs s, wf s -> mode s <> c_SFM_READ -> 0 < n -> len xs = n * ch s ->
  let '(s1, w) := api_write true n (n * ch s) xs s in
  w = n /\
  (wcur s + n <= frames s -> frames s1 = frames s /\ len (data s1) = len (data s) /\
      skipn (Z.to_nat ((wcur s + n) * ch s)) (data s1) = skipn (Z.to_nat ((wcur s + n) * ch s)) (data s)) /\
  (frames s < wcur s + n -> frames s1 = wcur s + n) /\
  (wcur s <= frames s -> firstn (Z.to_nat (wcur s * ch s)) (data s1) = firstn (Z.to_nat (wcur s * ch s)) (data s)) /\
  slice (data s1) (wcur s * ch s) (n * ch s) = xs /\ rcur s1 = rcur s.
Proof. exact write_effect. Qed.

(** whence | SFM_READ moves only the read pointer, whence | SFM_WRITE only the write pointer, plain both *)
Theorem whence_mode_selects_pointer : forall off w s pos, seek_decode s off w = STarget pos ->
  let '(s', r) := api_seek off w s in
  r <> -1 ->
  r = pos /\
  (whence_mode w = c_SFM_READ -> rcur s' = r /\ wcur s' = wcur s) /\
  (whence_mode w = c_SFM_WRITE -> wcur s' = r /\ rcur s' = rcur s) /\
  (whence_mode w = 0 -> mode s = c_SFM_RDWR -> rcur s' = r /\ wcur s' = r) /\
  (whence_mode w = 0 -> mode s = c_SFM_READ -> rcur s' = r /\ wcur s' = wcur s) /\
  (whence_mode w = 0 -> mode s = c_SFM_WRITE -> wcur s' = r /\ rcur s' = rcur s).
Proof. exact seek_pointer_selection. Qed.

(** SFC_FILE_TRUNCATE n leaves exactly the first n frames *)
Theorem truncate_keeps_first_n_frames : forall n s,
  wf s -> (mode s = c_SFM_RDWR \/ mode s = c_SFM_WRITE) -> seekable s = true -> 0 <= n ->
  let '(s1, r) := api_truncate n s in
  r = 0 /\ frames s1 = n /\ data s1 = resize (data s) (n * ch s) /\
  (n <= frames s -> content s1 = firstn (Z.to_nat (n * ch s)) (content s)).
Proof. exact truncate_spec. Qed.

Example c08_witness :
  let s := opened c_SFM_RDWR 1 [1;2;3;4] 4 in
  wf s /\
  fst (run s [OSeek 1 (SEEK_SET + c_SFM_WRITE); OWrite true 2 2 [8;9]; ORead true 4 4; OTrunc 3]) =
  mk c_SFM_RDWR 1 3 3 3 c_SFM_READ 0 3 [1;8;9] true true.
Proof. split; [unfold wf; simpl; repeat split; try lia; try reflexivity; try (intros; left; reflexivity); try (intros; discriminate) | reflexivity]. Qed.

Print Assumptions rdwr_invariant_every_history.
Print Assumptions read_returns_what_was_written.
Print Assumptions write_overwrites_or_extends.
Print Assumptions truncate_keeps_first_n_frames.

(** Byte-order helpers of src/sfendian.h. *)
From Coq Require Import ZArith List Lia Bool.
From SF Require Import Bits.
Import ListNotations.
Local Open Scope Z_scope.

(** ENDSWAP_16/32/64 on the unsigned bit pattern of [n] bytes: reverse the bytes. *)
Definition bswap (n : nat) (x : Z) : Z := le_value (rev (le_bytes n x)).

Lemma rev_bytes l : Forall is_byte l -> Forall is_byte (rev l).
Proof. intro H. apply Forall_forall. intros x Hx. apply in_rev in Hx. rewrite Forall_forall in H. auto. Qed.

Lemma le_value_range bs : Forall is_byte bs -> 0 <= le_value bs < 256 ^ Z.of_nat (length bs).
Proof.
  induction 1 as [|b r Hb Hr IH]; [simpl; lia|].
  cbn [le_value length]. rewrite Nat2Z.inj_succ, Z.pow_succ_r by lia. unfold is_byte in Hb. lia.
Qed.

Lemma bswap_range n x : 0 <= bswap n x < 256 ^ Z.of_nat n.
Proof.
  unfold bswap. pose proof (le_value_range (rev (le_bytes n x)) (rev_bytes _ (le_bytes_are_bytes n x))) as H.
  rewrite rev_length, le_bytes_length in H. exact H.
Qed.

Theorem bswap_involution n x : 0 <= x < 256 ^ Z.of_nat n -> bswap n (bswap n x) = x.
Proof.
  intro H. unfold bswap.
  assert (length (rev (le_bytes n x)) = n) as L by (rewrite rev_length; apply le_bytes_length).
  rewrite <- L at 1. rewrite le_bytes_value by (apply rev_bytes, le_bytes_are_bytes).
  rewrite rev_involutive. apply le_value_bytes. exact H.
Qed.

(** psf_put_be16/32/64, psf_put_le*: the bytes stored for the two's-complement pattern of [v];
    psf_get_*: the signed value assembled from the bytes. *)
Definition put_be (n : nat) (v : Z) : list Z := be_bytes n (v mod 256 ^ Z.of_nat n).
Definition put_le (n : nat) (v : Z) : list Z := le_bytes n (v mod 256 ^ Z.of_nat n).
Definition get_be (n : nat) (bs : list Z) : Z := sext (8 * Z.of_nat n) (be_value bs).
Definition get_le (n : nat) (bs : list Z) : Z := sext (8 * Z.of_nat n) (le_value bs).
(* psf_get_be24 / le24 deliver the 24-bit sample in the top of an int32 *)
Definition get_be24 (bs : list Z) : Z := sext 32 (be_value bs * 256).
Definition get_le24 (bs : list Z) : Z := sext 32 (le_value bs * 256).

Lemma pow256 n : 256 ^ Z.of_nat n = 2 ^ (8 * Z.of_nat n).
Proof. replace 256 with (2 ^ 8) by reflexivity. rewrite <- Z.pow_mul_r by lia. reflexivity. Qed.

Lemma sext_mod w v : 0 < w -> in_int w v -> sext w (v mod 2 ^ w) = v.
Proof.
  unfold in_int, sext. intros Hw H.
  assert (2 ^ w = 2 * 2 ^ (w - 1)) as E.
  { replace w with (Z.succ (w - 1)) at 1 by lia. rewrite Z.pow_succ_r by lia. reflexivity. }
  assert (0 < 2 ^ (w - 1)) by (apply Z.pow_pos_nonneg; lia).
  destruct (Z_lt_le_dec v 0).
  - replace (v mod 2 ^ w) with (v + 2 ^ w).
    + destruct (v + 2 ^ w <? 2 ^ (w - 1)) eqn:K; [apply Z.ltb_lt in K; lia | lia].
    + apply Z.mod_unique with (-1); lia.
  - rewrite Z.mod_small by lia. destruct (v <? 2 ^ (w - 1)) eqn:K; [reflexivity | apply Z.ltb_ge in K; lia].
Qed.

Theorem get_put_le n v : (0 < n)%nat -> in_int (8 * Z.of_nat n) v -> get_le n (put_le n v) = v.
Proof.
  intros Hn H. unfold get_le, put_le. rewrite le_value_bytes.
  - rewrite pow256. apply sext_mod; [lia | exact H].
  - apply Z.mod_pos_bound. apply Z.pow_pos_nonneg; lia.
Qed.
Theorem get_put_be n v : (0 < n)%nat -> in_int (8 * Z.of_nat n) v -> get_be n (put_be n v) = v.
Proof.
  intros Hn H. unfold get_be, put_be, be_value, be_bytes. rewrite rev_involutive. rewrite le_value_bytes.
  - rewrite pow256. apply sext_mod; [lia | exact H].
  - apply Z.mod_pos_bound. apply Z.pow_pos_nonneg; lia.
Qed.
(** the two byte orders are each other's reversal *)
Theorem put_be_rev_le n v : put_be n v = rev (put_le n v).
Proof. reflexivity. Qed.

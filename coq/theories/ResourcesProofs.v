(** ResourcesProofs.v -- C16: under the allocation discipline psf_close leaves nothing, for every history; and each rule of
    the discipline is necessary (dropping it yields a leaking history). *)
From Coq Require Import ZArith List Bool Lia.
From SF Require Import Resources.
Import ListNotations.
Local Open Scope Z_scope.

Section Ledger.
Variable owned : list Z.

Definition inv (s : rs) : Prop :=
  lost s = 0 /\ Forall (fun h => released_by_close owned (hooks s) h = true) (live s).

Lemma inv_init : inv init.
Proof. split; [reflexivity | constructor]. Qed.

Lemma Forall_filter {A} (P : A -> Prop) (f : A -> bool) (l : list A) : Forall P l -> Forall P (filter f l).
Proof.
  induction l as [|a l IH]; cbn [filter]; intros H; [constructor|].
  inversion H as [|? ? Ha Hl]; subst. destruct (f a); [constructor; [exact Ha | exact (IH Hl)] | exact (IH Hl)].
Qed.

Lemma released_mono (hk : list Z) (p : Z) (h : holder) :
  released_by_close owned hk h = true -> released_by_close owned (p :: hk) h = true.
Proof.
  destruct h as [f|q t]; cbn [released_by_close]; [trivial|].
  unfold memz; cbn [existsb]. intros ->. apply orb_true_r.
Qed.

Lemma count_under_zero_filter (f : Z) (l : list holder) :
  count_under f l = 0 -> filter (under f) l = [].
Proof.
  unfold count_under. destruct (filter (under f) l) as [|a r]; [reflexivity|]. cbn [length]. lia.
Qed.

Lemma step_inv (s : rs) (o : op) : inv s -> op_ok owned s o = true -> inv (step s o).
Proof.
  intros [Hl Hf] Hok. destruct o as [f g|f|p|p t|p t]; cbn [step].
  - destruct g; cbn [op_ok] in Hok.
    + destruct (holds s (Top f)); [split; assumption|].
      split; [exact Hl|]. cbn [live hooks]. constructor; [cbn [released_by_close]; exact Hok | exact Hf].
    + apply andb_prop in Hok. destruct Hok as [Ho Hc]. apply Z.eqb_eq in Hc.
      split; [cbn [lost]; lia|]. cbn [live hooks].
      constructor; [cbn [released_by_close]; exact Ho | apply Forall_filter; exact Hf].
    + apply andb_prop in Hok. destruct Hok as [Ho Hh]. apply negb_true_iff in Hh. rewrite Hh.
      split; [exact Hl|]. cbn [live hooks]. constructor; [cbn [released_by_close]; exact Ho | exact Hf].
  - cbn [op_ok] in Hok. apply Z.eqb_eq in Hok.
    split; [cbn [lost]; lia|]. cbn [live hooks]. apply Forall_filter. apply Forall_filter. exact Hf.
  - split; [exact Hl|]. cbn [live hooks].
    eapply Forall_impl; [|exact Hf]. intros h. apply released_mono.
  - cbn [op_ok] in Hok. apply andb_prop in Hok. destruct Hok as [Hm Hh]. apply negb_true_iff in Hh. rewrite Hh.
    split; [exact Hl|]. cbn [live hooks]. constructor; [cbn [released_by_close]; exact Hm | exact Hf].
  - split; [exact Hl|]. cbn [live hooks]. apply Forall_filter. exact Hf.
Qed.

Lemma run_inv (ops : list op) : forall s, inv s -> run_ok owned s ops = true -> inv (run s ops).
Proof.
  induction ops as [|o r IH]; intros s Hi Hok; [exact Hi|].
  cbn [run_ok] in Hok. apply andb_prop in Hok. destruct Hok as [Ho Hr].
  unfold run. cbn [fold_left]. apply IH; [apply step_inv; assumption | exact Hr].
Qed.

Lemma close_of_inv (s : rs) : inv s -> close owned s = ([], 0).
Proof.
  intros [Hl Hf]. unfold close. rewrite Hl. f_equal.
  induction (live s) as [|h l IH]; [reflexivity|].
  inversion Hf as [|? ? Hh Hr]; subst. cbn [filter]. rewrite Hh. cbn [negb]. exact (IH Hr).
Qed.

(** every history that follows the discipline, from a fresh handle: sf_close (and the failing sf_open, which runs the same
    psf_close) leaves no block, stream, descriptor or temporary file behind, whatever the interleaving of allocating calls *)
Theorem close_releases_all (ops : list op) : run_ok owned init ops = true -> close owned (run init ops) = ([], 0).
Proof. intros H. apply close_of_inv. apply run_inv; [exact inv_init | exact H]. Qed.

(** at any cut point of a disciplined history -- an open that fails half way -- the same holds *)
Theorem failed_open_releases_all (ops rest : list op) :
  run_ok owned init (ops ++ rest) = true -> close owned (run init ops) = ([], 0).
Proof.
  intros H. apply close_releases_all.
  revert H. generalize init. induction ops as [|o r IH]; intros s H; [reflexivity|].
  cbn [app run_ok] in *. apply andb_prop in H. destruct H as [Ho Hr]. rewrite Ho. exact (IH _ Hr).
Qed.

(** the ledger equation: a disciplined history never loses a block, so the live blocks are exactly the ledger entries *)
Theorem blocks_are_ledger (ops : list op) : run_ok owned init ops = true -> blocks (run init ops) = Z.of_nat (length (live (run init ops))).
Proof. intros H. destruct (run_inv ops init inv_init H) as [Hl _]. unfold blocks. lia. Qed.

(** necessity of each rule *)
Lemma holds_In (s : rs) (h : holder) : holds s h = true -> exists h', In h' (live s) /\ holder_eqb h h' = true.
Proof. unfold holds. intros H. apply existsb_exists in H. exact H. Qed.

Theorem unowned_field_leaks (s : rs) (f : Z) (g : guard) :
  memz f owned = false -> holds s (Top f) = false -> In (Top f) (fst (close owned (step s (OAlloc f g)))).
Proof.
  intros Hm Hh. unfold close. cbn [fst]. apply filter_In.
  destruct g; cbn [step]; rewrite ?Hh; cbn [live hooks released_by_close]; (split; [left; reflexivity | rewrite Hm; reflexivity]).
Qed.

Theorem blind_overwrite_leaks (s : rs) (f : Z) : holds s (Top f) = true -> lost (step s (OAlloc f GBlind)) = lost s + 1.
Proof. intros H. cbn [step]. rewrite H. reflexivity. Qed.

Theorem late_hook_leaks (s : rs) (p t : Z) :
  memz p (hooks s) = false -> holds s (Nest p t) = false -> In (Nest p t) (fst (close owned (step s (ONest p t)))).
Proof.
  intros Hm Hh. unfold close. cbn [fst step]. rewrite Hh. cbn [live hooks]. apply filter_In.
  split; [left; reflexivity | cbn [released_by_close]; rewrite Hm; reflexivity].
Qed.

End Ledger.

(** ---- the inventory regenerated from the source (Gen_Owned.v) against the discipline *)
From SFGen Require Import Gen_Owned.

Definition is_blind (g : guard) : bool := match g with GBlind => true | _ => false end.
Definition is_freed_first (g : guard) : bool := match g with GFreedFirst => true | _ => false end.
Definition nest_parents : list Z := map (fun '(p, _, _, _) => p) nested_sites.

(** every allocation site stores into a field psf_close frees; a site that does not look at the previous occupant sits in
    an open / init function (the field of a fresh handle is empty); no struct with nested resources is replaced *)
Definition site_ok (x : Z * guard * bool) : bool :=
  let '(f, g, fresh) := x in
  memz f freed_fields && (fresh || negb (is_blind g)) && negb (is_freed_first g && memz f nest_parents).

Lemma alloc_sites_disciplined : forallb site_ok alloc_sites = true.
Proof. vm_compute. reflexivity. Qed.

(** every nested resource hangs off an owned field and is released by the close hook of its file *)
Lemma nested_sites_released : forallb (fun '(p, rel, _, _) => rel && memz p freed_fields) nested_sites = true.
Proof. vm_compute. reflexivity. Qed.

(** psf_close runs both hooks, psf_fclose and psf_close_rsrc; no exit of the open functions abandons an allocated handle *)
Lemma close_runs_everything : forallb (fun b => b) close_calls = true.
Proof. vm_compute. reflexivity. Qed.
Lemma open_exits_release : forallb (fun c => negb (c =? 3)) open_exits = true.
Proof. vm_compute. reflexivity. Qed.

(** link to the model: a site of the inventory, run in a state where (for a site in an open function) its field is still
    empty and no nested resource hangs under a replaced field, satisfies the discipline of the ledger theorem *)
Theorem inventory_site_ok (x : Z * guard * bool) (s : rs) :
  In x alloc_sites ->
  let '(f, g, fresh) := x in
  (fresh = true -> holds s (Top f) = false) -> count_under f (live s) = 0 ->
  op_ok freed_fields s (OAlloc f g) = true.
Proof.
  intros Hin. pose proof alloc_sites_disciplined as H. rewrite forallb_forall in H. specialize (H x Hin).
  destruct x as [[f g] fresh]. intros Hfresh Hc. unfold site_ok in H.
  apply andb_prop in H. destruct H as [H _]. apply andb_prop in H. destruct H as [Ho Hg].
  destruct g; cbn [op_ok]; rewrite Ho; cbn [andb].
  - reflexivity.
  - apply Z.eqb_eq. exact Hc.
  - cbn [is_blind negb] in Hg. rewrite orb_false_r in Hg. rewrite (Hfresh Hg). reflexivity.
Qed.

(** Theorems about the sample conversions (C02, and the PCM part of C01). *)
From Coq Require Import ZArith List Lia Bool.
From SF Require Import Bits Fp FpProofs G711 PcmConv.
Import ListNotations.
Local Open Scope Z_scope.
Ltac Zify.zify_post_hook ::= Z.div_mod_to_equations.

Definition code_ok (e : penc) (c : Z) : Prop := 0 <= c < 2 ^ width e.
Definition sval_ok (e : penc) (v : Z) : Prop := smin e <= v <= smax e.

(* evaluate closed arithmetic sub-terms (widths, powers of two) *)
Ltac consts :=
  repeat match goal with
  | |- context [32 - ?k] => let v := eval vm_compute in (32 - k) in progress change (32 - k) with v
  | |- context [?k - 1] => match k with 8 => change (8 - 1) with 7 | 16 => change (16 - 1) with 15 | 24 => change (24 - 1) with 23 | 32 => change (32 - 1) with 31 end
  | |- context [2 ^ ?k] => match k with
       | 7 => change (2 ^ 7) with 128 | 8 => change (2 ^ 8) with 256 | 15 => change (2 ^ 15) with 32768
       | 16 => change (2 ^ 16) with 65536 | 23 => change (2 ^ 23) with 8388608 | 24 => change (2 ^ 24) with 16777216
       | 31 => change (2 ^ 31) with 2147483648 | 32 => change (2 ^ 32) with 4294967296 | 0 => change (2 ^ 0) with 1 end
  end.
Ltac if_lia := try lia;
  match goal with |- context [if ?a <? ?b then _ else _] => destruct (Z.ltb_spec a b); lia end.
Ltac enc_cases e := destruct e; unfold code_ok, sval_ok, smin, smax, sval, code_of, width, sext in *;
  simpl Z.sub in *; simpl Z.pow in *.

Lemma sval_range e c : code_ok e c -> sval_ok e (sval e c).
Proof. enc_cases e; intro H; if_lia. Qed.

Lemma sval_code_of e v : sval_ok e v -> sval e (code_of e v) = v.
Proof.
  enc_cases e; intro H.
  - if_lia.
  - lia.
  - if_lia.
  - if_lia.
  - if_lia.
Qed.

Lemma code_of_sval e c : code_ok e c -> code_of e (sval e c) = c.
Proof.
  enc_cases e; intro H; if_lia.
Qed.

(** ** integer <-> integer: keep the most significant bits *)

(* reading as int: the sample in the top bits, zero padded *)
Lemma rd_int_is_msb e c : code_ok e c -> rd_int e c = sval e c * 2 ^ (32 - width e) /\ is_int32 (rd_int e c).
Proof.
  intro H. split; [reflexivity|]. pose proof (sval_range e c H) as R. unfold rd_int, is_int32.
  enc_cases e; lia.
Qed.

(* reading as short = the top 16 bits of reading as int *)
Lemma rd_short_is_top e c : code_ok e c -> rd_short e c = rd_int e c / 65536 /\ is_short (rd_short e c).
Proof.
  intro H. pose proof (sval_range e c H) as R. unfold rd_short, rd_int, is_short, wrap.
  destruct e; unfold code_ok, sval_ok, smin, smax, sval, width, sext in *; simpl Z.sub in *; simpl Z.pow in *;
    rewrite ?Z.shiftr_div_pow2 by lia; simpl Z.pow.
  - if_lia.
  - lia.
  - if_lia.
  - if_lia.
  - if_lia.
Qed.

(* writing an int keeps its top [w] bits (truncation), U8 offset by 128 *)
Lemma wr_int_truncates e x : is_int32 x ->
  code_ok e (wr_int e x) /\ sval e (wr_int e x) = x / 2 ^ (32 - width e).
Proof.
  intro H. unfold wr_int. rewrite Z.shiftr_div_pow2 by (destruct e; simpl; lia).
  assert (sval_ok e (x / 2 ^ (32 - width e))) as R.
  { unfold is_int32 in H. enc_cases e; lia. }
  split; [|apply sval_code_of; exact R].
  enc_cases e; lia.
Qed.

Lemma wr_short_via_int e s : is_short s -> wr_short e s = wr_int e (s * 65536).
Proof.
  intro H. unfold is_short in H. unfold wr_short, wr_int.
  destruct e; unfold code_of, width; rewrite ?Z.shiftr_div_pow2 by lia; simpl Z.sub; simpl Z.pow; lia.
Qed.

(* write then read as int: low bits cleared; read then write: identity on codes *)
Theorem int_write_read e x : is_int32 x ->
  rd_int e (wr_int e x) = x / 2 ^ (32 - width e) * 2 ^ (32 - width e).
Proof. intro H. unfold rd_int at 1. destruct (wr_int_truncates e x H) as [_ E]. rewrite E. reflexivity. Qed.

Theorem int_read_write e c : code_ok e c -> wr_int e (rd_int e c) = c.
Proof.
  intro H. unfold wr_int, rd_int. rewrite Z.shiftr_div_pow2 by (destruct e; simpl; lia).
  rewrite Z.div_mul by (destruct e; simpl; lia). apply code_of_sval. exact H.
Qed.

Theorem short_write_read e s : is_short s -> 16 <= width e -> rd_short e (wr_short e s) = s.
Proof.
  intros H Hw. unfold is_short in H. unfold rd_short, wr_short, wrap.
  destruct e; unfold width in Hw; try lia; unfold sval, width, sext; consts.
  all: rewrite ?Z.shiftr_div_pow2 by lia; consts; if_lia.
Qed.

Theorem u8_is_s8_plus_128 c : 0 <= c < 256 -> sval U8 c = sval S8 ((c + 128) mod 256).
Proof.
  intro H. unfold sval, sext, width. simpl Z.sub. simpl Z.pow.
  if_lia.
Qed.

(** ** normalised reads are exact: double for every width, float for every width *)

Definition sgn_abs (v : Z) : fval := Fin (v <? 0) (Z.abs v) 0.
(* value equality of finite values *)
Definition feq (a b : fval) : Prop := fcompare a b = Some Eq.

Lemma of_int_round64 v : Z.abs v < 2 ^ 53 -> round64 (of_int v) = (if v =? 0 then Fin false 0 0 else of_int v).
Proof.
  intro H. unfold of_int. destruct (v =? 0) eqn:E.
  - apply Z.eqb_eq in E. subst v. reflexivity.
  - apply Z.eqb_neq in E. unfold round64. apply round_fmt_exact; try lia.
    + assert (Z.log2 (Z.abs v) < 53) by (apply Z.log2_lt_pow2; lia). lia.
    + assert (Z.log2 (Z.abs v) < 53) by (apply Z.log2_lt_pow2; lia). lia.
Qed.

Lemma mul_pow2_round64 s m k : 0 < m -> m < 2 ^ 53 -> -1000 <= k <= 0 ->
  round64 (fmul_exact (Fin s m 0) (pow2 k)) = Fin s m k.
Proof.
  intros Hm Hb Hk. unfold fmul_exact, pow2. rewrite xorb_false_r, Z.mul_1_r, Z.add_0_l.
  assert (Z.log2 m < 53) by (apply Z.log2_lt_pow2; lia).
  unfold round64. apply round_fmt_exact; lia.
Qed.

(* the double delivered for a stored code is exactly sval * 2^-(w-1): mantissa |sval| (times 2^pad for the
   24-bit path, which loads the sample into the top of an int) at exponent -(w-1) (- pad) *)
Definition pad (e : penc) : Z := match e with P24 => 8 | _ => 0 end.
Definition exact_norm (e : penc) (c : Z) : fval :=
  let v := sval e c in
  if v =? 0 then Fin false 0 0 else Fin (v <? 0) (Z.abs v * 2 ^ pad e) (- (width e - 1) - pad e).

Theorem read_double_normalised e c : code_ok e c -> rd_flt 53 e true c = exact_norm e c.
Proof.
  intro H. pose proof (sval_range e c H) as R.
  assert (forall v k, Z.abs v < 2 ^ 53 -> -1000 <= k <= 0 ->
          fmul_p 53 (round_p 53 (of_int v)) (pow2 k) = if v =? 0 then Fin false 0 0 else Fin (v <? 0) (Z.abs v) k) as G.
  { intros v k Hv Hk. unfold fmul_p, round_p. change (53 =? 24) with false. cbv iota.
    rewrite of_int_round64 by exact Hv. destruct (v =? 0) eqn:E.
    - reflexivity.
    - apply Z.eqb_neq in E. unfold of_int. rewrite mul_pow2_round64 by lia. reflexivity. }
  unfold rd_flt, exact_norm.
  destruct e; unfold code_ok, sval_ok, smin, smax, width, pad in *; consts.
  - rewrite G by lia. rewrite Z.mul_1_r. reflexivity.
  - rewrite G by lia. rewrite Z.mul_1_r. reflexivity.
  - rewrite G by lia. rewrite Z.mul_1_r. reflexivity.
  - unfold rd_int, width. consts. rewrite G by lia.
    replace (sval P24 c * 256 =? 0) with (sval P24 c =? 0).
    2:{ destruct (sval P24 c =? 0) eqn:A; [apply Z.eqb_eq in A | apply Z.eqb_neq in A]; symmetry; [apply Z.eqb_eq | apply Z.eqb_neq]; lia. }
    destruct (sval P24 c =? 0); [reflexivity|].
    replace (sval P24 c * 256 <? 0) with (sval P24 c <? 0).
    2:{ destruct (sval P24 c <? 0) eqn:A; [apply Z.ltb_lt in A | apply Z.ltb_ge in A]; symmetry; [apply Z.ltb_lt | apply Z.ltb_ge]; lia. }
    f_equal. lia.
  - rewrite G by lia. rewrite Z.mul_1_r. reflexivity.
Qed.

(** ** writes with clipping never wrap: for every finite input the stored sample is in range *)

Lemma psf_lrint_in_range s m e a b : 0 <= m -> - 2 ^ 31 <= a -> b < 2 ^ 31 ->
  (if 0 <=? e then a <= sgn_m s (m * 2 ^ e) <= b else a * 2 ^ (- e) <= sgn_m s m <= b * 2 ^ (- e)) ->
  a <= psf_lrint (Fin s m e) <= b.
Proof.
  intros Hm Ha Hb H. pose proof (rne_int_between s m e a b Hm H) as R.
  unfold psf_lrint, lrint.
  replace ((rne_int s m e <? - 2 ^ 31) || (2 ^ 31 <=? rne_int s m e)) with false; [exact R|].
  symmetry. apply orb_false_iff. split; [apply Z.ltb_ge | apply Z.leb_gt]; lia.
Qed.

Lemma round_p_good p s m e : 0 <= m -> good (round_p p (Fin s m e)).
Proof. intro H. unfold round_p. destruct (p =? 24); apply round_fmt_good; exact H. Qed.

(* the scale factors are concrete finite values with non-negative mantissa *)
Lemma nf_shape (p : Z) (e : penc) (norm clip : bool) :
  exists K k, 0 <= K /\
  (if norm then (if clip then of_int (2 ^ (width e - 1)) else round_p p (of_int (2 ^ (width e - 1) - 1))) else of_int 1) = Fin false K k.
Proof.
  unfold round_p. destruct (p =? 24); destruct e; destruct norm; destruct clip; vm_compute;
    eexists; eexists; (split; [|reflexivity]); discriminate.
Qed.

Theorem write_clipped_in_range p e norm s m ex : 0 <= m ->
  sval_ok e (sval e (wr_flt p e norm true (Fin s m ex))).
Proof.
  intro Hm. unfold wr_flt. cbn [andb].
  destruct (nf_shape p e norm true) as [K [k [HK HN]]]. rewrite HN.
  assert (good (fmul_p p (Fin s m ex) (Fin false K k))) as Gd.
  { unfold fmul_p, fmul_exact. apply round_p_good. nia. }
  set (scaled := fmul_p p (Fin s m ex) (Fin false K k)) in *. clearbody scaled.
  assert (sval_ok e (smax e) /\ sval_ok e (smin e) /\ - 2 ^ 31 <= smin e /\ smax e < 2 ^ 31) as [Rmax [Rmin [B1 B2]]].
  { unfold sval_ok, smax, smin. destruct e; simpl; lia. }
  destruct (fge scaled (of_int (smax e))) eqn:G1; [rewrite sval_code_of; assumption|].
  destruct (fle scaled (of_int (smin e))) eqn:G2; [rewrite sval_code_of; assumption|].
  assert (sval_ok e (psf_lrint scaled)) as R.
  { destruct scaled as [s1 m1 e1| s1 |]; simpl in Gd.
    - unfold fge, fle in G1, G2. rewrite fcompare_int in G1, G2.
      unfold sval_ok. apply psf_lrint_in_range; try assumption.
      destruct (0 <=? e1) eqn:E.
      + apply Z.leb_le in E.
        assert (sgn_m s1 m1 * 2 ^ e1 = sgn_m s1 (m1 * 2 ^ e1)) as S by (unfold sgn_m; destruct s1; lia).
        rewrite S in G1, G2.
        destruct (Z.compare_spec (sgn_m s1 (m1 * 2 ^ e1)) (smax e)); try discriminate;
        destruct (Z.compare_spec (sgn_m s1 (m1 * 2 ^ e1)) (smin e)); try discriminate; lia.
      + destruct (Z.compare_spec (sgn_m s1 m1) (smax e * 2 ^ (- e1))); try discriminate;
        destruct (Z.compare_spec (sgn_m s1 m1) (smin e * 2 ^ (- e1))); try discriminate; lia.
    - destruct s1; simpl in G1, G2; discriminate.
    - contradiction. }
  rewrite sval_code_of; exact R.
Qed.

(** without clipping: when the rounded product is inside the range the nearest integer is stored unchanged *)
Theorem write_unclipped_no_wrap (p : Z) (e : penc) (norm s : bool) (m ex : Z) :
  let nf := if norm then round_p p (of_int (2 ^ (width e - 1) - 1)) else of_int 1 in
  let scaled := fmul_p p (Fin s m ex) nf in
  sval_ok e (psf_lrint scaled) ->
  sval e (wr_flt p e norm false (Fin s m ex)) = psf_lrint scaled.
Proof. intros nf scaled H. unfold wr_flt. cbn [andb]. apply sval_code_of. exact H. Qed.

(** ** G.711 through the types: reads are the 16-bit decode placed/scaled by the rules, for all codes;
    float / double writes never index outside the tables, for every input *)
Definition chk_g_rd (l : law) (c : Z) : bool :=
  match g_dec l c, g_rd_int l c, g_rd_flt 53 l true c, g_rd_flt 24 l true c with
  | Some d, Some i, Some x, Some y =>
      (i =? d * 65536) &&
      (match fcompare x (Fin (d <? 0) (Z.abs d) (-15)) with Some Eq => true | _ => false end) &&
      (match fcompare y (Fin (d <? 0) (Z.abs d) (-15)) with Some Eq => true | _ => false end)
  | _, _, _, _ => false
  end.
Lemma g_rd_all_u : forallb (chk_g_rd ULAW) (zrange 0 256) = true. Proof. vm_compute. reflexivity. Qed.
Lemma g_rd_all_a : forallb (chk_g_rd ALAW) (zrange 0 256) = true. Proof. vm_compute. reflexivity. Qed.

Theorem g711_reads_agree l c : 0 <= c < 256 -> chk_g_rd l c = true.
Proof. intro H. destruct l; [exact (forall_range _ 0 256 g_rd_all_u c H) | exact (forall_range _ 0 256 g_rd_all_a c H)]. Qed.

Lemma clamp_idx_range mx r : 0 <= mx -> 0 <= clamp_idx mx r <= mx.
Proof.
  intro H. unfold clamp_idx. destruct ((r <? 0) || (mx <? r)) eqn:C; [lia|].
  apply orb_false_iff in C. destruct C as [C1 C2]. apply Z.ltb_ge in C1. apply Z.ltb_ge in C2. lia.
Qed.

Lemma lookup_in_range l i : 0 <= i < Z.of_nat (length l) -> lookup l i <> None.
Proof.
  intro H. unfold lookup. replace (i <? 0) with false by (symmetry; apply Z.ltb_ge; lia).
  apply nth_error_Some. lia.
Qed.

Theorem g711_float_write_in_table p l norm x : g_wr_flt p l norm x <> None.
Proof.
  unfold g_wr_flt. set (r := psf_lrint _). clearbody r.
  destruct l; unfold c_r2ulaw, c_r2alaw; destruct (f_nonneg x).
  - apply lookup_in_range. pose proof (clamp_idx_range 8192 r ltac:(lia)).
    assert (Z.of_nat (length Gen_G711.ulaw_encode_tab) = 8193) by (vm_compute; reflexivity). lia.
  - pose proof (clamp_idx_range 8192 (wrap 32 (- r)) ltac:(lia)).
    assert (Z.of_nat (length Gen_G711.ulaw_encode_tab) = 8193) by (vm_compute; reflexivity).
    destruct (lookup Gen_G711.ulaw_encode_tab (clamp_idx 8192 (wrap 32 (- r)))) eqn:L; [discriminate|].
    exfalso. revert L. apply lookup_in_range. lia.
  - apply lookup_in_range. pose proof (clamp_idx_range 2048 r ltac:(lia)).
    assert (Z.of_nat (length Gen_G711.alaw_encode_tab) = 2049) by (vm_compute; reflexivity). lia.
  - pose proof (clamp_idx_range 2048 (wrap 32 (- r)) ltac:(lia)).
    assert (Z.of_nat (length Gen_G711.alaw_encode_tab) = 2049) by (vm_compute; reflexivity).
    destruct (lookup Gen_G711.alaw_encode_tab (clamp_idx 2048 (wrap 32 (- r)))) eqn:L; [discriminate|].
    exfalso. revert L. apply lookup_in_range. lia.
Qed.

(** C07 -- output bytes are independent of how writes are split and of when they run.
    Models: Stream.v (block-accumulating writers and the staging loops), Peak.v (PEAK bookkeeping).  Tie / oracle: the byte
    digests of files written through different call partitions, item / frame variants and header updates, with the process
    clock pinned (checks/c07.py); the model side of the stored data is C01 / C05's stored-code prediction. *)
From Coq Require Import ZArith List Lia Bool.
From SF Require Import Stream StreamProofs Peak PeakProofs.
From SF Require Dpcm DpcmProofs.
Import ListNotations.
Local Open Scope Z_scope.

(** block-accumulating writers: the emitted blocks and the flushed final block depend only on the concatenated samples *)
Theorem block_writer_output_independent_of_partition : forall B, (0 < B)%nat -> forall enc dec : list Z -> list Z,
  (forall b, length b = B -> dec (enc b) = b) -> forall calls1 calls2,
  concat calls1 = concat calls2 -> written_file B enc calls1 = written_file B enc calls2.
Proof. exact write_partition_independent. Qed.

(** conversion loops: the bytes produced for a call are the per-sample map, whatever the call length *)
Theorem staged_output_is_per_sample : forall (A C : Type) (f : A -> C) n, (0 < n)%nat -> forall fuel xs, (length xs < fuel)%nat ->
  staged f n fuel xs = map f xs.
Proof. exact @staged_is_map. Qed.
Corollary split_calls_give_the_same_bytes : forall (A C : Type) (f : A -> C) (xs ys : list A), map f xs ++ map f ys = map f (xs ++ ys).
Proof. intros. symmetry. apply map_app. Qed.

(** the PEAK chunk: value and position do not depend on the partition (frame-aligned chunks) *)
Theorem peak_independent_of_partition : forall chunks p base, run p base chunks = spec p base (concat chunks).
Proof. exact peak_partition_independent. Qed.

(** the DPCM writer of src/xi.c carries its predictor from call to call: the stored codes of any partition are those of one call *)
Theorem dpcm_writer_output_independent_of_partition : forall calls1 calls2 l, concat calls1 = concat calls2 ->
  Dpcm.run_calls Dpcm.s2dles l calls1 = Dpcm.run_calls Dpcm.s2dles l calls2.
Proof. intros calls1 calls2 l E. rewrite !DpcmProofs.s2dles_calls, E. reflexivity. Qed.

Print Assumptions block_writer_output_independent_of_partition.
Print Assumptions peak_independent_of_partition.
Print Assumptions dpcm_writer_output_independent_of_partition.

(** The growable header cache every parser reads through: header_read / header_seek / psf_bump_header_allocation of
    src/common.c.  State: the three indices of SF_PRIVATE.header; the bytes themselves do not matter for safety.
    [io] is the I/O oracle: how many bytes the next psf_fread transfers (clamped into [0, want]). *)
From Coq Require Import ZArith List Lia Bool.
Import ListNotations.
Local Open Scope Z_scope.

Record hc := mkh { indx : Z; hend : Z; hlen : Z }.
Definition LIMIT := 100 * 1024.
Definition INITIAL := 256.        (* INITIAL_HEADER_SIZE *)

(* returns (refused?, new length) *)
Definition bump (len needed : Z) : bool * Z :=
  let newlen := if len <? needed then 2 * Z.max needed INITIAL else 2 * len in
  if LIMIT <? newlen then (true, len) else (false, newlen).

Definition clampio (io want : Z) : Z := Z.max 0 (Z.min io want).

(* an extent [lo, hi) of header.ptr that the operation writes (w) or reads (r) *)
Inductive ext := W (lo hi : Z) | R (lo hi : Z).

Definition header_read (s : hc) (bytes io : Z) : hc * Z * list ext :=
  let '(refused, len1) := if hlen s <=? indx s + bytes then bump (hlen s) bytes else (false, hlen s) in
  if refused then (s, 0, []) else
  if hend s <? indx s + bytes then
    let want := bytes - (hend s - indx s) in
    let count := clampio io want in
    if negb (count =? want) then (mkh (indx s) (hend s) len1, count, [W (hend s) (hend s + count)])
    else (mkh (indx s + bytes) (hend s + count) len1, bytes, [W (hend s) (hend s + count); R (indx s) (indx s + bytes)])
  else (mkh (indx s + bytes) (hend s) len1, bytes, [R (indx s) (indx s + bytes)]).

Definition seek_set (s : hc) (position io : Z) : hc * list ext :=
  let len1 := if hlen s <=? indx s + position then snd (bump (hlen s) position) else hlen s in
  if len1 <? position then (mkh 0 0 len1, [])
  else if hend s <? position then
    let count := clampio io (position - hend s) in (mkh position (hend s + count) len1, [W (hend s) (hend s + count)])
  else (mkh position (hend s) len1, []).

Definition seek_cur (s : hc) (position io : Z) : hc * list ext :=
  let len1 := if hlen s <=? indx s + position then snd (bump (hlen s) position) else hlen s in
  if indx s + position <? 0 then (mkh (indx s) (hend s) len1, [])
  else if len1 <=? indx s then (mkh (indx s) (hend s) len1, [])
  else if indx s + position <=? hend s then (mkh (indx s + position) (hend s) len1, [])
  else if len1 <? indx s + position then (mkh (hend s) (hend s) len1, [])
  else let count := clampio io (position - (hend s - indx s)) in
       (mkh (hend s + count) (hend s + count) len1, [W (hend s) (hend s + count)]).

(** header_seek (SEEK_CUR) when the input is a pipe: a jump too large to cache becomes a read-and-discard loop in pieces of at
    most 16 KiB.  [delivered] is what each psf_fread returned -- the loop does not look at it.  Result: calls, bytes requested,
    bytes still to skip. *)
Definition JUNK : Z := 16384.
Fixpoint skip_loop (fuel : nat) (skip : Z) (delivered : list Z) (calls requested : Z) : Z * Z * Z :=
  if skip <=? 0 then (calls, requested, skip) else
  match fuel with
  | O => (calls, requested, skip)
  | S f => let t := Z.min skip JUNK in skip_loop f (skip - t) (tl delivered) (calls + 1) (requested + t)
  end.
Definition pipe_skip (skip : Z) (delivered : list Z) : Z * Z * Z := skip_loop (Z.to_nat (skip / JUNK + 1)) skip delivered 0 0.

(** the cache state after the seek, and (read calls, bytes requested from the I/O layer) *)
Definition seek_cur_pipe (s : hc) (position io : Z) : hc * (Z * Z) :=
  let len1 := if hlen s <=? indx s + position then snd (bump (hlen s) position) else hlen s in
  if indx s + position <? 0 then (mkh (indx s) (hend s) len1, (0, 0))
  else if len1 <=? indx s then (mkh (indx s) (hend s) len1, (0, 0))
  else if indx s + position <=? hend s then (mkh (indx s + position) (hend s) len1, (0, 0))
  else if len1 <? indx s + position then
    let '(c, r, _) := pipe_skip (position - (hend s - indx s)) [] in (mkh (hend s) (hend s) len1, (c, r))
  else let want := position - (hend s - indx s) in
       let count := clampio io want in
       (mkh (hend s + count) (hend s + count) len1, (1, want)).

Inductive op := ORead (bytes io : Z) | OSet (position io : Z) | OCur (position io : Z).
Definition step (s : hc) (o : op) : hc * list ext :=
  match o with
  | ORead b io => let '(s', _, e) := header_read s b io in (s', e)
  | OSet p io => seek_set s p io
  | OCur p io => seek_cur s p io
  end.
Fixpoint run (s : hc) (ops : list op) : hc * list ext :=
  match ops with [] => (s, []) | o :: r => let '(s1, e1) := step s o in let '(s2, e2) := run s1 r in (s2, e1 ++ e2) end.

Definition ext_ok (len : Z) (e : ext) : Prop := match e with W lo hi | R lo hi => 0 <= lo /\ lo <= hi /\ hi <= len end.
Definition inv (s : hc) : Prop := 0 <= indx s <= hlen s /\ 0 <= hend s <= hlen s /\ 0 < hlen s <= LIMIT.
(* the arguments the parsers pass: a read size / absolute position is never negative (relative seeks may be) *)
Definition op_ok (o : op) : Prop := match o with ORead b _ => 0 <= b | OSet p _ => 0 <= p | OCur _ _ => True end.

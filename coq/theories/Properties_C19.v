(** C19 -- handles are isolated from each other and from earlier library use.
    Model: Isolation.v -- per-handle private states plus process-wide cells that no per-handle result reads.
    Tie: the inventory of the library's writable globals is regenerated from the build (nm) on every run and must be covered
    by the classification; the write footprint on those objects is measured by the harness; psf_rand_int32 against the model;
    interleaved vs. solo transcripts (checks/c19.py). *)
From Coq Require Import ZArith List Bool String.
From SF Require Import Isolation IsolationProofs.
From SFGen Require Import Gen_Globals.
Import ListNotations.
Local Open Scope Z_scope.

(** any interleaving of calls on any number of handles: each handle's results and final state are those of its solo run *)
Theorem interleaving_is_invisible : forall (S O Op G : Type) (hstep : Op -> S -> S * O) (gstep : Op -> S -> G -> G)
  (calls : list (handle * Op)) (m : handle -> S) (g : G) (h : handle),
  let '((m', _), outs) := srun S O Op G hstep gstep (m, g) calls in
  let '(s', os) := solo S O Op hstep (m h) (mine h calls) in
  m' h = s' /\ mine h outs = os.
Proof. exact interleaving_independence. Qed.

(** ... and independent of what the process-wide cells held before (earlier use of the library in the process) *)
Theorem earlier_use_is_invisible : forall (S O Op G : Type) (hstep : Op -> S -> S * O) (gstep : Op -> S -> G -> G)
  (calls : list (handle * Op)) (m : handle -> S) (g g' : G),
  snd (srun S O Op G hstep gstep (m, g) calls) = snd (srun S O Op G hstep gstep (m, g') calls) /\
  forall h, fst (fst (srun S O Op G hstep gstep (m, g) calls)) h = fst (fst (srun S O Op G hstep gstep (m, g') calls)) h.
Proof. exact history_independence. Qed.

(** the error state of a handle (part of its private state) is not changed by calls on other handles *)
Theorem error_state_is_private : forall (S O Op G : Type) (hstep : Op -> S -> S * O) (gstep : Op -> S -> G -> G)
  (calls : list (handle * Op)) (m : handle -> S) (g : G) (h : handle),
  (forall c, In c calls -> fst c <> h) -> fst (fst (srun S O Op G hstep gstep (m, g) calls)) h = m h.
Proof. exact other_handles_untouched. Qed.

(** the working tree's writable process-wide objects are exactly of the kinds the model allows *)
Theorem every_global_is_accounted_for : forallb known writable_globals = true.
Proof. exact globals_inventory_closed. Qed.

(** the one generator: a step is injective on its range, so two draws differ unless the state itself recurs; the state stays in range *)
Theorem generator_step_injective : forall v w, 0 <= v < 2147483648 -> 0 <= w < 2147483648 -> lcg v = lcg w -> v = w.
Proof. exact lcg_injective. Qed.
Theorem generator_in_range : forall v, 0 <= v < 2147483648 -> 0 <= rand_next v < 2147483648.
Proof. exact rand_next_range. Qed.

(** a draw always moves the state: two successive results of psf_rand_int32 differ, so two handles opened one after the other
    never get the same temporary file name from an advancing generator *)
Theorem generator_always_advances : forall v, 0 <= v -> rand_next v <> v.
Proof. exact rand_next_moves. Qed.

Print Assumptions interleaving_is_invisible.
Print Assumptions earlier_use_is_invisible.
Print Assumptions every_global_is_accounted_for.
Print Assumptions generator_step_injective.
Print Assumptions generator_always_advances.

(** C05 -- read and write calls honour their count, bounds and position contract.
    Only the property theorems; the model is Api.v (the sf_read_T / sf_readf_T / sf_write_T / sf_writef_T
    wrappers over a sample-granular codec), proofs in ApiProofs.v.  The model is tied to src/sndfile.c by
    the script correspondence of checks/c05.py (every entry point, every request-size class) and by the
    wrapper-uniformity translation check. *)
From Coq Require Import ZArith List Lia Bool.
From SFGen Require Import Gen_Enums.
From SF Require Import Api ApiProofs.
Import ListNotations.
Local Open Scope Z_scope.

(** 0 <= r <= requested, for every request, every state and every amount the I/O layer transfers *)
Theorem read_returns_at_most_requested : forall fv n lim s, 0 < ch s -> 0 <= frames s -> 0 <= rcur s ->
  let '(s', r) := api_read fv n lim s in 0 <= ret r <= Z.max 0 n.
Proof. exact read_ret_range. Qed.

(** the read position advances by exactly the returned number of frames *)
Theorem read_advances_position_by_return : forall fv n lim s, 0 < ch s ->
  let '(s', r) := api_read fv n lim s in
  rcur s' = rcur s + frames_of fv (ret r) s \/ (frames s <= rcur s /\ rcur s' = rcur s /\ ret r = 0).
Proof. exact read_position. Qed.

(** the caller's region is exactly [items] followed by the tail -- nothing outside it is touched; at end of
    data the call returns 0, zero-fills the whole request and sets no error *)
Theorem read_touches_exactly_the_request : forall fv n lim s,
  0 < ch s -> 0 <= frames s -> 0 <= rcur s -> 0 <= cur s -> 0 < n ->
  mode s <> c_SFM_WRITE -> (fv = false -> Z.rem n (ch s) = 0) ->
  let '(s', r) := api_read fv n lim s in
  (frames s <= rcur s \/ len (items r) + tail_n (rtail r) = req fv n s) /\ 0 <= tail_n (rtail r) /\
  (frames s <= rcur s -> items r = [] /\ rtail r = TZero (req fv n s) /\ ret r = 0 /\ err s' = 0).
Proof. exact read_extent. Qed.

(** the items stored are exactly the next items of the stream, a whole number of frames, and the call is
    short only when the data ends: k = min (requested frames) (frames remaining) *)
Theorem read_delivers_next_frames : forall fv n lim s,
  wf s -> mode s <> c_SFM_WRITE -> 0 < n -> (fv = false -> Z.rem n (ch s) = 0) -> req fv n s <= lim ->
  let k := Z.min (nframes fv n s) (Z.max 0 (frames s - rcur s)) in
  let '(s', r) := api_read fv n lim s in
  items r = slice (data s) (rcur s * ch s) (k * ch s) /\
  ret r = (if fv then k else k * ch s) /\
  rcur s' = rcur s + k /\ wf s' /\ err s' = 0 /\
  data s' = data s /\ frames s' = frames s /\ wcur s' = wcur s /\ mode s' = mode s /\ ch s' = ch s.
Proof. exact read_spec. Qed.

(** a write returns the request (no I/O failure), advances the write position and the frame count by it *)
Theorem write_accepts_request_and_advances : forall fv n lim xs s,
  wf s -> mode s <> c_SFM_READ -> 0 < n -> (fv = false -> Z.rem n (ch s) = 0) -> req fv n s <= lim ->
  len xs = req fv n s ->
  let k := nframes fv n s in
  let '(s', w) := api_write fv n lim xs s in
  w = n /\ wcur s' = wcur s + k /\ frames s' = Z.max (frames s) (wcur s + k) /\
  data s' = overwrite (data s) (wcur s * ch s) xs /\
  rcur s' = rcur s /\ err s' = 0 /\ mode s' = mode s /\ ch s' = ch s /\ seekable s' = seekable s /\ wf s'.
Proof. exact write_spec. Qed.

(** whatever the I/O layer does: 0 <= w <= requested and the position moves by exactly w *)
Theorem write_return_in_range_under_any_io : forall fv n lim xs s, 0 < ch s ->
  let '(s', w) := api_write fv n lim xs s in
  0 <= w <= Z.max 0 n /\ (wcur s' = wcur s + (if fv then w else Z.quot w (ch s))) /\
  (frames s <= frames s') /\ (frames s' = frames s \/ frames s' = wcur s').
Proof. exact write_ret_range. Qed.

(** the clause "a whole number of frames" is FALSE of the wrappers as coded when a pad byte follows the audio
    (the full statement needs the hypothesis [Z.rem (len (data s)) (ch s) = 0] that [wf] carries): witness,
    replayed on the implementation by checks/c05.py (known finding read:partial_frame_pad_byte) *)
Theorem read_item_count_whole_frames_refuted :
  exists s n, 0 < n /\ Z.rem n (ch s) = 0 /\ mode s = c_SFM_READ /\ 0 < ch s /\ frames s * ch s <= len (data s) /\
              Z.rem (ret (snd (api_read false n n s))) (ch s) <> 0.
Proof. exact read_whole_frames_refuted. Qed.

(** non-vacuity: a concrete 2-channel state meets the hypotheses and a straddling read behaves as stated *)
Example c05_witness :
  let s := opened c_SFM_READ 2 [1;2;3;4;5;6;7;8;9;10] 5 in
  wf s /\ api_read true 4 100 (fst (api_seek 3 SEEK_SET s)) =
          (mk c_SFM_READ 2 5 5 0 c_SFM_READ 0 10 [1;2;3;4;5;6;7;8;9;10] false true, mkr 2 [7;8;9;10] (TUntouched 4)).
Proof. split; [unfold wf; simpl; repeat split; try lia; try reflexivity; try (intros; left; reflexivity); try (intros; discriminate) | reflexivity]. Qed.

Print Assumptions read_returns_at_most_requested.
Print Assumptions read_advances_position_by_return.
Print Assumptions read_touches_exactly_the_request.
Print Assumptions read_delivers_next_frames.
Print Assumptions write_accepts_request_and_advances.
Print Assumptions write_return_in_range_under_any_io.

(** Sample-type conversions of src/pcm.c, src/ulaw.c, src/alaw.c, src/float32.c, src/double64.c
    as functions on stored codes and values (one sample; the staging loops are in Staging.v). *)
From Coq Require Import ZArith List Lia Bool.
From SF Require Import Bits Fp G711.
Import ListNotations.
Local Open Scope Z_scope.

Inductive penc := S8 | U8 | P16 | P24 | P32.
Definition width (e : penc) : Z := match e with S8 | U8 => 8 | P16 => 16 | P24 => 24 | P32 => 32 end.
Definition nbytes (e : penc) : nat := match e with S8 | U8 => 1 | P16 => 2 | P24 => 3 | P32 => 4 end.

(** sample value denoted by a stored code (unsigned, [width e] bits) and back *)
Definition sval (e : penc) (c : Z) : Z := match e with U8 => c - 128 | _ => sext (width e) c end.
Definition code_of (e : penc) (v : Z) : Z := match e with U8 => (v + 128) mod 256 | _ => v mod 2 ^ width e end.
Definition smax (e : penc) : Z := 2 ^ (width e - 1) - 1.
Definition smin (e : penc) : Z := - 2 ^ (width e - 1).

(** ** integer reads / writes (pcm.c x2s, x2i, s2x, i2x kernels) *)
Definition rd_int (e : penc) (c : Z) : Z := sval e c * 2 ^ (32 - width e).
Definition rd_short (e : penc) (c : Z) : Z :=
  match e with
  | S8 | U8 => wrap 16 (sval e c * 256)
  | P16 => sval e c
  | P24 => wrap 16 (c / 256)                     (* bytes 1 and 2 of the tribyte *)
  | P32 => Z.shiftr (sval e c) 16
  end.
Definition wr_int (e : penc) (x : Z) : Z := code_of e (Z.shiftr x (32 - width e)).
Definition wr_short (e : penc) (s : Z) : Z :=
  match e with
  | S8 | U8 => code_of e (Z.shiftr s 8)
  | P16 => s mod 2 ^ 16
  | P24 => (s mod 2 ^ 16) * 256
  | P32 => (s mod 2 ^ 16) * 65536
  end.

(** ** float / double reads: (T) value * normfact, one rounding for the int->T conversion, the
    product by a power of two is then exact.  [p] = 24 (float) or 53 (double). *)
Definition round_p (p : Z) : fval -> fval := if p =? 24 then round32 else round64.
Definition fmul_p (p : Z) (a b : fval) : fval := round_p p (fmul_exact a b).

Definition rd_flt (p : Z) (e : penc) (norm : bool) (c : Z) : fval :=
  match e with
  | S8 | U8 => fmul_p p (round_p p (of_int (sval e c))) (pow2 (if norm then -7 else 0))
  | P16 => fmul_p p (round_p p (of_int (sval e c))) (pow2 (if norm then -15 else 0))
  | P24 => fmul_p p (round_p p (of_int (rd_int e c))) (pow2 (if norm then -31 else -8))
  | P32 => fmul_p p (round_p p (of_int (sval e c))) (pow2 (if norm then -31 else 0))
  end.

(** ** float / double writes (f2x / d2x kernels, with and without clipping) *)
Definition wr_flt (p : Z) (e : penc) (norm clip : bool) (x : fval) : Z :=
  let w := width e in
  let nf := if norm then (if clip then of_int (2 ^ (w - 1)) else round_p p (of_int (2 ^ (w - 1) - 1))) else of_int 1 in
  let scaled := fmul_p p x nf in
  if clip && fge scaled (of_int (smax e)) then code_of e (smax e)
  else if clip && fle scaled (of_int (smin e)) then code_of e (smin e)
  else code_of e (psf_lrint scaled).

(** ** G.711 through the four types (ulaw.c / alaw.c) *)
Inductive law := ULAW | ALAW.
Definition g_dec (l : law) (c : Z) : option Z := match l with ULAW => c_ulaw2s c | ALAW => c_alaw2s c end.
Definition g_rd_short := g_dec.
Definition g_rd_int (l : law) (c : Z) : option Z := match l with ULAW => c_ulaw2i c | ALAW => c_alaw2i c end.
Definition g_rd_flt (p : Z) (l : law) (norm : bool) (c : Z) : option fval :=
  option_map (fun d => fmul_p p (pow2 (if norm then -15 else 0)) (of_int d)) (g_dec l c).
Definition g_wr_short (l : law) (s : Z) : option Z := match l with ULAW => c_s2ulaw s | ALAW => c_s2alaw s end.
Definition g_wr_int (l : law) (x : Z) : option Z := match l with ULAW => c_i2ulaw x | ALAW => c_i2alaw x end.
(* normfact: ulaw 0.25*0x7FFF or 0.25; alaw 0x7FFF/16 or 1/16; sign test on the input itself *)
Definition g_nf (l : law) (norm : bool) : fval :=
  match l, norm with
  | ULAW, true => Fin false 32767 (-2) | ULAW, false => pow2 (-2)
  | ALAW, true => Fin false 32767 (-4) | ALAW, false => pow2 (-4)
  end.
Definition f_nonneg (x : fval) : bool := fge x fzero.
Definition g_wr_flt (p : Z) (l : law) (norm : bool) (x : fval) : option Z :=
  let r := psf_lrint (fmul_p p (round_p p (g_nf l norm)) x) in
  match l with ULAW => c_r2ulaw (f_nonneg x) r | ALAW => c_r2alaw (f_nonneg x) r end.
(* d2ulaw_array / d2alaw_array store 0 for non-finite input (only the double kernels test it) *)

(** ** float and double files read / written through the integer types (float32.c, double64.c) *)
(* reads: dest = lrint (scale * x); scale = 1 or 0x7FFF / float_max (short), 2^31 / float_max (int) *)
Definition ff_rd_int (p : Z) (clip : bool) (lim_hi lim_lo out_hi out_lo : Z) (wbits : Z) (scale x : fval) : Z :=
  let tmp := fmul_p p scale x in
  if clip && fgt tmp (of_int lim_hi) then out_hi
  else if clip && flt tmp (of_int lim_lo) then out_lo
  else wrap wbits (psf_lrint tmp).
Definition ff_rd_short p clip scale x := ff_rd_int p clip 32767 (-32768) 32767 (-32768) 16 scale x.
Definition ff_rd_i32 p clip scale x := ff_rd_int p clip 2147483647 (-2147483647) 2147483647 (-2147483648) 32 scale x.
(* writes: dest = scale * src; scale = 1 or 2^-15 (short), 2^-31 (int) *)
Definition ff_wr_short (p : Z) (scaled : bool) (s : Z) : fval :=
  fmul_p p (pow2 (if scaled then -15 else 0)) (round_p p (of_int s)).
Definition ff_wr_int (p : Z) (scaled : bool) (x : Z) : fval :=
  fmul_p p (pow2 (if scaled then -31 else 0)) (round_p p (of_int x)).

(** byte layout of a code *)
Definition code_bytes (big : bool) (n : nat) (c : Z) : list Z := if big then be_bytes n c else le_bytes n c.
Definition bytes_code (big : bool) (bs : list Z) : Z := if big then be_value bs else le_value bs.

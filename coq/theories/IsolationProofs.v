(** IsolationProofs.v -- C19: interleaving independence and history independence by induction over the interleaving. *)
From Coq Require Import ZArith List Bool Lia String.
From SF Require Import Isolation.
Import ListNotations.
Local Open Scope Z_scope.

Section Proofs.
Variables (S O Op G : Type).
Variable hstep : Op -> S -> S * O.
Variable gstep : Op -> S -> G -> G.

Notation srun := (srun S O Op G hstep gstep).
Notation solo := (solo S O Op hstep).

Lemma upd_same m h (s : S) : upd S m h s h = s.
Proof. unfold upd. rewrite Z.eqb_refl. reflexivity. Qed.
Lemma upd_other m h k (s : S) : k <> h -> upd S m h s k = m k.
Proof. intros Hk. unfold upd. rewrite (proj2 (Z.eqb_neq k h) Hk). reflexivity. Qed.

(** every handle sees exactly its solo run, in any interleaving, whatever the other handles do and whatever the
    process-wide cells hold *)
Theorem interleaving_independence (calls : list (handle * Op)) : forall (m : handle -> S) (g : G) (h : handle),
  let '((m', _), outs) := srun (m, g) calls in
  let '(s', os) := solo (m h) (mine h calls) in
  m' h = s' /\ mine h outs = os.
Proof.
  induction calls as [|[k op] r IH]; intros m g h.
  - cbn. split; reflexivity.
  - cbn [Isolation.srun sstep].
    destruct (hstep op (m k)) as [sk o] eqn:Ek.
    specialize (IH (upd S m k sk) (gstep op (m k) g) h).
    destruct (srun (upd S m k sk, gstep op (m k) g) r) as [[m' g'] outs] eqn:Er.
    unfold mine in *. cbn [filter fst map snd].
    destruct (k =? h) eqn:Ekh.
    + apply Z.eqb_eq in Ekh. subst k. cbn [map snd Isolation.solo]. rewrite Ek.
      rewrite upd_same in IH.
      destruct (solo sk (map snd (filter (fun c => fst c =? h) r))) as [s' os]. destruct IH as [H1 H2]. rewrite H2. split; [exact H1 | reflexivity].
    + apply Z.eqb_neq in Ekh. rewrite upd_other in IH by congruence.
      destruct (solo (m h) (map snd (filter (fun c => fst c =? h) r))) as [s' os]. exact IH.
Qed.

(** results do not depend on what the library did earlier in the process: the process-wide cells are never read *)
Theorem history_independence (calls : list (handle * Op)) : forall (m : handle -> S) (g g' : G),
  snd (srun (m, g) calls) = snd (srun (m, g') calls) /\
  forall h, fst (fst (srun (m, g) calls)) h = fst (fst (srun (m, g') calls)) h.
Proof.
  induction calls as [|[k op] r IH]; intros m g g'.
  - cbn. split; reflexivity.
  - cbn [Isolation.srun sstep]. destruct (hstep op (m k)) as [sk o].
    specialize (IH (upd S m k sk) (gstep op (m k) g) (gstep op (m k) g')).
    destruct (srun (upd S m k sk, gstep op (m k) g) r) as [[m1 g1] o1].
    destruct (srun (upd S m k sk, gstep op (m k) g') r) as [[m2 g2] o2].
    cbn [fst snd] in *. destruct IH as [H1 H2]. split; [rewrite H1; reflexivity | exact H2].
Qed.

(** calls on other handles leave a handle's private state -- its error state included -- untouched *)
Theorem other_handles_untouched (calls : list (handle * Op)) : forall (m : handle -> S) (g : G) (h : handle),
  (forall c, In c calls -> fst c <> h) -> fst (fst (srun (m, g) calls)) h = m h.
Proof.
  induction calls as [|[k op] r IH]; intros m g h Hn; [reflexivity|].
  cbn [Isolation.srun sstep]. destruct (hstep op (m k)) as [sk o].
  specialize (IH (upd S m k sk) (gstep op (m k) g) h (fun c Hc => Hn c (or_intror Hc))).
  destruct (srun (upd S m k sk, gstep op (m k) g) r) as [[m1 g1] o1]. cbn [fst] in *.
  rewrite IH. apply upd_other. intros E. exact (Hn (k, op) (or_introl eq_refl) (eq_sym E)).
Qed.
End Proofs.

(** the shape is necessary: when a result reads a process-wide cell that calls on another handle write, interleavings are
    visible.  Instance: two writers that take their temporary file name from a generator that does not advance. *)
Section Counterexample.
(* state of a handle: the name of its temporary file; the "disk" is process-wide: name -> owner of the last write *)
Inductive cop := CName | CWrite (v : Z) | CReadBack.
Definition disk := Z -> Z.
(* a system where the name comes from a stuck generator (always 7) and the temp file content lives on the shared disk *)
Definition stuck_step (h : Z) (op : cop) (name : Z) (d : disk) : Z * disk * Z :=
  match op with
  | CName => (7, d, 7)
  | CWrite v => (name, (fun k => if k =? name then v else d k), 0)
  | CReadBack => (name, d, d name)
  end.
Example stuck_generator_interferes :
  let '(n1, d1, _) := stuck_step 1 CName 0 (fun _ => 0) in
  let '(n2, d2, _) := stuck_step 2 CName 0 d1 in
  let '(_, d3, _) := stuck_step 1 (CWrite 11) n1 d2 in
  let '(_, d4, _) := stuck_step 2 (CWrite 22) n2 d3 in
  let '(_, _, r) := stuck_step 1 CReadBack n1 d4 in
  r = 22.        (* handle 1 reads back what handle 2 wrote: alone it would read 11 *)
Proof. reflexivity. Qed.
End Counterexample.

(** psf_rand_int32's generator: one step is a bijection of [0, 2^31) (11117 is odd, its inverse modulo 2^31 is 760321637),
    so the state never merges two histories and stays in range *)
Definition lcg_inv (w : Z) : Z := Z.land (760321637 * (w - 211231)) 2147483647.

Lemma land_mod v : Z.land v 2147483647 = v mod 2147483648.
Proof. change 2147483647 with (Z.ones 31). rewrite Z.land_ones by lia. reflexivity. Qed.

Lemma lcg_range v : 0 <= lcg v < 2147483648.
Proof. unfold lcg. rewrite land_mod. apply Z.mod_pos_bound. lia. Qed.

Lemma lcg_inverse v : 0 <= v < 2147483648 -> lcg_inv (lcg v) = v.
Proof.
  intros Hv. unfold lcg_inv, lcg. rewrite !land_mod.
  pose proof (Z.div_mod (11117 * v + 211231) 2147483648 ltac:(lia)) as H1.
  pose proof (Z.mod_pos_bound (11117 * v + 211231) 2147483648 ltac:(lia)) as B1.
  set (r1 := (11117 * v + 211231) mod 2147483648) in *. set (q1 := (11117 * v + 211231) / 2147483648) in *. clearbody r1 q1.
  pose proof (Z.div_mod (760321637 * (r1 - 211231)) 2147483648 ltac:(lia)) as H2.
  pose proof (Z.mod_pos_bound (760321637 * (r1 - 211231)) 2147483648 ltac:(lia)) as B2.
  set (r2 := (760321637 * (r1 - 211231)) mod 2147483648) in *. set (q2 := (760321637 * (r1 - 211231)) / 2147483648) in *. clearbody r2 q2.
  (* 760321637 * 11117 = 1 + 2^31 * 3936 *)
  assert (E : r2 - v = 2147483648 * (3936 * v - 760321637 * q1 - q2)) by lia.
  lia.
Qed.

Theorem lcg_injective v w : 0 <= v < 2147483648 -> 0 <= w < 2147483648 -> lcg v = lcg w -> v = w.
Proof. intros Hv Hw E. rewrite <- (lcg_inverse v Hv), <- (lcg_inverse w Hw), E. reflexivity. Qed.

Lemma iter_range n : forall v, 0 <= v < 2147483648 -> 0 <= iter n v < 2147483648.
Proof. induction n as [|n IH]; intros v Hv; cbn [iter]; [exact Hv | apply IH, lcg_range]. Qed.

Theorem rand_next_range v : 0 <= v < 2147483648 -> 0 <= rand_next v < 2147483648.
Proof. intros Hv. unfold rand_next. apply iter_range. exact Hv. Qed.

(** the generator modulo 16 *)
Definition lcg16 (r : Z) : Z := (11117 * r + 211231) mod 16.
Fixpoint iter16 (n : nat) (r : Z) : Z := match n with O => r | S k => iter16 k (lcg16 r) end.

Lemma lcg_mod16 v : (lcg v) mod 16 = lcg16 (v mod 16).
Proof.
  unfold lcg, lcg16. rewrite land_mod. Z.div_mod_to_equations. lia.
Qed.

Lemma iter_mod16 n : forall v, (iter n v) mod 16 = iter16 n (v mod 16).
Proof.
  induction n as [|n IH]; intros v; cbn [iter iter16]; [reflexivity|].
  rewrite IH, lcg_mod16. reflexivity.
Qed.

Definition residues : list Z := [0; 1; 2; 3; 4; 5; 6; 7; 8; 9; 10; 11; 12; 13; 14; 15].
Definition counts : list nat := [4; 5; 6; 7; 8; 9; 10; 11]%nat.
Lemma no_return_mod16 : forallb (fun k => forallb (fun r => negb (iter16 k r =? r)) residues) counts = true.
Proof. vm_compute. reflexivity. Qed.

(** a draw never returns the state it started from: successive results of psf_rand_int32 differ *)
Theorem rand_next_moves v : 0 <= v -> rand_next v <> v.
Proof.
  intros Hv E. unfold rand_next in E.
  assert (Hk : In (Z.to_nat (4 + Z.land v 7)) counts).
  { change 7 with (Z.ones 3). rewrite Z.land_ones by lia. pose proof (Z.mod_pos_bound v (2 ^ 3) ltac:(lia)) as Hm. change (2 ^ 3) with 8 in *.
    assert (Hc : v mod 8 = 0 \/ v mod 8 = 1 \/ v mod 8 = 2 \/ v mod 8 = 3 \/ v mod 8 = 4 \/ v mod 8 = 5 \/ v mod 8 = 6 \/ v mod 8 = 7) by lia.
    unfold counts. destruct Hc as [H|[H|[H|[H|[H|[H|[H|H]]]]]]]; rewrite H; cbn; auto 10. }
  assert (Hr : In (v mod 16) residues).
  { pose proof (Z.mod_pos_bound v 16 ltac:(lia)) as Hm. unfold residues.
    assert (Hc : v mod 16 = 0 \/ v mod 16 = 1 \/ v mod 16 = 2 \/ v mod 16 = 3 \/ v mod 16 = 4 \/ v mod 16 = 5 \/ v mod 16 = 6 \/ v mod 16 = 7 \/
                 v mod 16 = 8 \/ v mod 16 = 9 \/ v mod 16 = 10 \/ v mod 16 = 11 \/ v mod 16 = 12 \/ v mod 16 = 13 \/ v mod 16 = 14 \/ v mod 16 = 15) by lia.
    repeat (destruct Hc as [H|Hc]; [rewrite H; cbn; auto 20|]). rewrite Hc. cbn. auto 20. }
  pose proof no_return_mod16 as H. rewrite forallb_forall in H. specialize (H _ Hk). rewrite forallb_forall in H. specialize (H _ Hr).
  apply negb_true_iff in H. apply Z.eqb_neq in H. apply H. rewrite <- iter_mod16. rewrite E. reflexivity.
Qed.

(** ---- the inventory regenerated from the build (Gen_Globals.v): every writable process-wide object of the library is one
    the classification knows; none of the classes is read by a per-handle result (Diagnostic: only through the NULL-handle
    queries; Scratch: written before it is read inside one call; Generator: names and ids only; Table: never written) *)
From SFGen Require Import Gen_Globals.

Definition known (name : string) : bool := match class_of name with Some _ => true | None => false end.

Lemma globals_inventory_closed : forallb known writable_globals = true.
Proof. vm_compute. reflexivity. Qed.

Lemma one_generator : List.length (filter (fun n => match class_of n with Some Generator => true | _ => false end) writable_globals) = 1%nat.
Proof. vm_compute. reflexivity. Qed.

(** Metadata helpers of src/common.c and src/strings.c:
    - psf_strlcpy_crlf: line-end normalisation of the bext coding history / cart tag text;
    - psf_store_string / psf_get_string: the 32-slot string table. *)
From Coq Require Import ZArith List Lia Bool.
Import ListNotations.
Local Open Scope Z_scope.

Definition CR := 13. Definition LF := 10.

(** psf_strlcpy_crlf (dest, src, destmax, srcmax) as a one-character-at-a-time machine: [pending] is the line-end character
    just expanded (its partner, if it comes next, is swallowed); [room] = bytes that may still be produced before
    dest + destmax - 2 is reached (the loop condition) *)
Definition is_le (c : Z) : bool := (c =? CR) || (c =? LF).
Definition partner (pending c : Z) : bool := ((pending =? CR) && (c =? LF)) || ((pending =? LF) && (c =? CR)).
Fixpoint norm_r (src : list Z) (pending room : Z) : list Z :=
  match src with
  | [] => []
  | c :: r =>
      if room <=? 0 then []
      else if partner pending c then norm_r r 0 room
      else if is_le c then CR :: LF :: norm_r r c (room - 2)
      else c :: norm_r r 0 (room - 1)
  end.
Definition strlcpy_crlf (src : list Z) (destmax : Z) : list Z := norm_r src 0 (destmax - 2).

(** the same without a size limit, and the number of line ends it sees (CR LF and LF CR count once) *)
Fixpoint norm (src : list Z) (pending : Z) : list Z :=
  match src with
  | [] => []
  | c :: r => if partner pending c then norm r 0 else if is_le c then CR :: LF :: norm r c else c :: norm r 0
  end.
Fixpoint line_ends (src : list Z) (pending : Z) : Z :=
  match src with
  | [] => 0
  | c :: r => if partner pending c then line_ends r 0 else if is_le c then 1 + line_ends r c else line_ends r 0
  end.
(** a text is normalised when every CR is followed by LF and every LF preceded by CR; [count_crlf] counts its lines *)
Fixpoint normalised (l : list Z) : bool :=
  match l with
  | [] => true
  | a :: r => if a =? CR then (match r with b :: r' => (b =? LF) && normalised r' | [] => false end)
              else if a =? LF then false else normalised r
  end.
Fixpoint count_crlf (l : list Z) : Z :=
  match l with
  | [] => 0
  | a :: t => match t with
              | b :: r => if (a =? CR) && (b =? LF) then 1 + count_crlf r else count_crlf t
              | [] => 0
              end
  end.

(** * the string table *)
Record slot := mks { stype : Z; stext : list Z }.     (* type 0 = free, -1 = dead (replaced) *)
Definition table := list slot.                         (* SF_MAX_STRINGS slots *)
Definition empty_table : table := repeat (mks 0 []) 32.

Fixpoint store_walk (t : table) (ty : Z) : table * option nat :=   (* clear matching entries up to the first free slot; index of that slot *)
  match t with
  | [] => ([], None)
  | s :: r =>
      let s' := if stype s =? ty then mks (-1) (stext s) else s in
      if stype s' =? 0 then (s' :: r, Some O)
      else let '(r', k) := store_walk r ty in (s' :: r', option_map S k)
  end.
Fixpoint set_nth {A} (l : list A) (n : nat) (x : A) : list A :=
  match l, n with
  | [], _ => []
  | _ :: r, O => x :: r
  | a :: r, S n' => a :: set_nth r n' x
  end.
(** psf_store_string for a valid type and non-empty string in write mode: (new table, 0) or (table with the old entry cleared, error) *)
Definition store_string (t : table) (ty : Z) (s : list Z) : table * bool :=
  let '(t', k) := store_walk t ty in
  match k with
  | Some n => (set_nth t' n (mks ty s), true)
  | None => (t', false)
  end.
Fixpoint get_string (t : table) (ty : Z) : option (list Z) :=
  match t with
  | [] => None
  | s :: r => if stype s =? ty then Some (stext s) else get_string r ty
  end.
Definition free_slots (t : table) : Z := Z.of_nat (length (filter (fun s => stype s =? 0) t)).

(** The 7-bit sample packing of MIDI Sample Dump files (src/sds.c): sds_{2,3,4}byte_write / _read, per sample.
    A sample is an int (the library's internal 32-bit left-justified value); `sample += 0x80000000` in unsigned arithmetic
    makes it offset binary, the top 14 / 21 / 28 bits go out most significant first in 7-bit bytes.  The readers OR the
    shifted bytes together in 32-bit unsigned arithmetic (a byte with bit 7 set spills into its neighbour / off the top),
    subtract 0x80000000 and convert to int. *)
From Coq Require Import ZArith List Lia Bool.
Import ListNotations.
Local Open Scope Z_scope.

Definition u32 (x : Z) : Z := x mod 2 ^ 32.
Definition s32 (x : Z) : Z := (x + 2 ^ 31) mod 2 ^ 32 - 2 ^ 31.

Definition pack2 (s : Z) : list Z := let u := u32 (s + 2 ^ 31) in [u / 2 ^ 25 mod 128; u / 2 ^ 18 mod 128].
Definition pack3 (s : Z) : list Z := let u := u32 (s + 2 ^ 31) in [u / 2 ^ 25 mod 128; u / 2 ^ 18 mod 128; u / 2 ^ 11 mod 128].
Definition pack4 (s : Z) : list Z :=
  let u := u32 (s + 2 ^ 31) in [u / 2 ^ 25 mod 128; u / 2 ^ 18 mod 128; u / 2 ^ 11 mod 128; u / 2 ^ 4 mod 128].

Definition unpack (bs : list Z) : Z :=
  match bs with
  | [b0; b1] => s32 (Z.lor (u32 (b0 * 2 ^ 25)) (u32 (b1 * 2 ^ 18)) - 2 ^ 31)
  | [b0; b1; b2] => s32 (Z.lor (Z.lor (u32 (b0 * 2 ^ 25)) (b1 * 2 ^ 18)) (b2 * 2 ^ 11) - 2 ^ 31)
  | [b0; b1; b2; b3] => s32 (Z.lor (Z.lor (Z.lor (u32 (b0 * 2 ^ 25)) (b1 * 2 ^ 18)) (b2 * 2 ^ 11)) (b3 * 2 ^ 4) - 2 ^ 31)
  | _ => 0
  end.

(** PEAK bookkeeping of float32.c / double64.c: float32_peak_update / double64_peak_update and its use by the write paths.
    Magnitudes are modelled as integers (|x| of a finite float is order-isomorphic to its bit pattern); a chunk is the list
    of interleaved magnitudes handed to one call, [base] the frame index of its first item (write_current + indx). *)
From Coq Require Import ZArith List Lia Bool.
Import ListNotations.
Local Open Scope Z_scope.

Record peak := mkp { pval : Z; ppos : Z }.

(* scan of one channel inside a chunk: items chan, chan + ch, ... ; the first strictly larger value wins *)
Fixpoint scan (xs : list Z) (k : Z) (best bestk : Z) : Z * Z :=   (* xs: this channel's magnitudes, frame by frame *)
  match xs with
  | [] => (best, bestk)
  | x :: r => if best <? x then scan r (k + 1) x k else scan r (k + 1) best bestk
  end.
Definition chunk_max (xs : list Z) : Z * Z :=
  match xs with [] => (0, 0) | x :: r => scan r 1 x 0 end.

(* update of one channel's peak by a chunk whose frames for this channel are xs, starting at frame [base] *)
Definition update (p : peak) (base : Z) (xs : list Z) : peak :=
  match xs with
  | [] => p
  | _ => let '(m, k) := chunk_max xs in if pval p <? m then mkp m (base + k) else p
  end.

(* a write history for one channel: the chunks (as this channel sees them), written one after another from frame 0 *)
Fixpoint run (p : peak) (base : Z) (chunks : list (list Z)) : peak :=
  match chunks with
  | [] => p
  | c :: r => run (update p base c) (base + Z.of_nat (length c)) r
  end.

(** the specification: maximum magnitude and the index of its first occurrence, over the whole signal, starting from
    the initial peak (value 0 at position 0) *)
Fixpoint spec (p : peak) (k : Z) (xs : list Z) : peak :=
  match xs with
  | [] => p
  | x :: r => if pval p <? x then spec (mkp x k) (k + 1) r else spec p (k + 1) r
  end.

(** de-interleaving: the items of channel c in an interleaved, frame-aligned chunk *)
Fixpoint channel (ch c : nat) (xs : list Z) (i : nat) : list Z :=
  match xs with
  | [] => []
  | x :: r => if Nat.eqb (Nat.modulo i ch) c then x :: channel ch c r (S i) else channel ch c r (S i)
  end.

(** C11 -- after a header update the bytes on disk are already a valid file (crash points).
    Model: Stream.v.  Tie / oracle: snapshots of the backing store after every write call (auto-update mode) or explicit
    update, parsed by a second handle (checks/c11.py). *)
From Coq Require Import ZArith List Lia Bool.
From SF Require Import Stream StreamProofs.
From SF Require Api ApiProofs.
From SFGen Require Gen_Enums.
Import ListNotations.
Local Open Scope Z_scope.

(** at every point of every write history the blocks already emitted decode to exactly the first floor (N / B) * B items of
    the N written so far (sample-granular encodings: B = 1, the whole prefix) *)
Theorem image_holds_whole_block_prefix : forall B, (0 < B)%nat -> forall enc dec : list Z -> list Z,
  (forall b, length b = B -> dec (enc b) = b) -> forall calls,
  let '(bs, k) := write_calls B enc [] calls in
  let xs := concat calls in
  read_all dec bs = firstn (length xs - length k) xs /\ (length k < B)%nat /\
  length (read_all dec bs) = (length xs / B * B)%nat.
Proof. exact crash_image_is_whole_block_prefix. Qed.

(** requesting updates in between does not change the finished file: the written blocks depend on the samples only *)
Theorem updates_do_not_change_the_audio : forall B, (0 < B)%nat -> forall enc dec : list Z -> list Z,
  (forall b, length b = B -> dec (enc b) = b) -> forall calls1 calls2,
  concat calls1 = concat calls2 -> written_file B enc calls1 = written_file B enc calls2.
Proof. exact write_partition_independent. Qed.

(** the frame count a header update announces (sf.frames) and the length of the data region are not reduced by rewriting frames
    that were written before: an update issued with the write position in the middle of the file still describes all of it *)
Theorem rewriting_earlier_frames_keeps_the_announced_count : forall n xs s,
  ApiProofs.wf s -> Api.mode s <> Gen_Enums.c_SFM_READ -> 0 < n -> Api.len xs = n * Api.ch s -> Api.wcur s + n <= Api.frames s ->
  Api.frames (fst (Api.api_write true n (n * Api.ch s) xs s)) = Api.frames s /\
  Api.len (Api.data (fst (Api.api_write true n (n * Api.ch s) xs s))) = Api.len (Api.data s).
Proof. exact ApiProofs.overwrite_keeps_frames. Qed.

Print Assumptions image_holds_whole_block_prefix.
Print Assumptions rewriting_earlier_frames_keeps_the_announced_count.

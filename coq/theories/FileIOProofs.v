From Coq Require Import ZArith List Lia Bool.
From SF Require Import FileIO.
Import ListNotations.
Local Open Scope Z_scope.

Lemma len_app {A} (a b : list A) : len (a ++ b) = len a + len b. Proof. unfold len; rewrite app_length; lia. Qed.
Lemma len_nonneg {A} (l : list A) : 0 <= len l. Proof. unfold len; lia. Qed.

Lemma skipn_app_l {A} (a b : list A) n : (n <= length a)%nat -> skipn n (a ++ b) = skipn n a ++ b.
Proof. intros H. rewrite skipn_app. replace (n - length a)%nat with 0%nat by lia. reflexivity. Qed.
Lemma firstn_app_l {A} (a b : list A) n : (n <= length a)%nat -> firstn n (a ++ b) = firstn n a.
Proof. intros H. rewrite firstn_app. replace (n - length a)%nat with 0%nat by lia. simpl. apply app_nil_r. Qed.

(** reading inside the embedded file sees the same bytes on both routes *)
Lemma slice_embedded pre F post p n : 0 <= p -> 0 <= n -> p + n <= len F ->
  slice (pre ++ F ++ post) (len pre + p) n = slice F p n.
Proof.
  intros Hp Hn Hb. unfold slice, len in *.
  replace (Z.to_nat (Z.of_nat (length pre) + p)) with (length pre + Z.to_nat p)%nat by lia.
  rewrite <- (Nat.add_comm (Z.to_nat p)). 
  assert (E : forall (l : list Z) a b, skipn (a + b) l = skipn a (skipn b l)).
  { intros l a b. revert l. induction b as [|b IH]; intros l; [rewrite Nat.add_0_r; reflexivity|].
    rewrite Nat.add_succ_r. destruct l; [destruct a; reflexivity | apply IH]. }
  rewrite E. rewrite skipn_app. rewrite skipn_all, Nat.sub_diag. simpl.
  rewrite skipn_app_l by lia. apply firstn_app_l. rewrite skipn_length. lia.
Qed.

Lemma len_slice_inside F p n : 0 <= p -> 0 <= n -> p + n <= len F -> len (slice F p n) = n.
Proof. intros. unfold len, slice in *. rewrite firstn_length, skipn_length. lia. Qed.

Lemma step_refines pre F post p o : 0 <= p <= len F -> inside (len F) p o ->
  let '(v', r) := vio_step (mkf F p) o in
  fd_step (len pre) (mkf (pre ++ F ++ post) (len pre + p)) o = (mkf (pre ++ F ++ post) (len pre + pos v'), r) /\ 0 <= pos v' <= len F.
Proof.
  intros Hp Hin. pose proof (len_nonneg pre) as Hk.
  destruct o as [off w | n |]; simpl in *.
  - destruct Hin as [[-> Ho] | [-> Ho]]; simpl.
    + destruct (off <? 0) eqn:E1; [apply Z.ltb_lt in E1; lia|].
      destruct (off + len pre <? 0) eqn:E2; [apply Z.ltb_lt in E2; lia|]. simpl.
      split; [f_equal; [f_equal; lia | f_equal; lia] | lia].
    + destruct (p + off <? 0) eqn:E1; [apply Z.ltb_lt in E1; lia|].
      destruct (len pre + p + off <? 0) eqn:E2; [apply Z.ltb_lt in E2; lia|]. simpl.
      split; [f_equal; [f_equal; lia | f_equal; lia] | lia].
  - destruct Hin as [Hn Hb]. rewrite slice_embedded by lia. rewrite len_slice_inside by lia.
    split; [f_equal; f_equal; lia | lia].
  - split; [f_equal; f_equal; lia | lia].
Qed.

(** C14: for every sequence of read-mode operations that stay inside the embedded sound file, the descriptor route at
    fileoffset |pre| on  pre ++ F ++ post  returns the same results as the virtual route on F (induction over the history) *)
Theorem route_refinement ops : forall pre F post p, 0 <= p <= len F -> all_inside (len F) F p ops ->
  let '(fv, rs) := run vio_step (mkf F p) ops in
  run (fd_step (len pre)) (mkf (pre ++ F ++ post) (len pre + p)) ops = (mkf (pre ++ F ++ post) (len pre + pos fv), rs).
Proof.
  induction ops as [|o r IH]; intros pre F post p Hp Hin; simpl; [reflexivity|].
  destruct Hin as [Hi Hr].
  pose proof (step_refines pre F post p o Hp Hi) as S.
  destruct (vio_step (mkf F p) o) as [v' x] eqn:EV. destruct S as [S1 S2]. rewrite S1.
  simpl in Hr. assert (Hv : v' = mkf F (pos v')).
  { destruct o; simpl in EV; [destruct (_ <? 0) in EV; inversion EV; subst; reflexivity | inversion EV; reflexivity | inversion EV; reflexivity]. }
  rewrite Hv. cbn [pos]. specialize (IH pre F post (pos v') S2 Hr).
  destruct (run vio_step (mkf F (pos v')) r) as [fv rs]. rewrite IH. reflexivity.
Qed.

(** the length answered for an embedded file is the one the container's header recorded, not the container file's size *)
Theorem embedded_length_is_the_sound_files pre F post : 0 < len pre -> 0 < len F ->
  fd_filelen (len pre) (len F) (mkf (pre ++ F ++ post) 0) = len F.
Proof. intros H1 H2. unfold fd_filelen. destruct (0 <? len pre) eqn:A; destruct (0 <? len F) eqn:B; simpl; try reflexivity; apply Z.ltb_ge in A || apply Z.ltb_ge in B; lia. Qed.

(** sf_close closes the descriptor exactly when the caller did not keep ownership *)
Theorem descriptor_ownership keep : fclose keep true = keep.
Proof. destruct keep; reflexivity. Qed.

(** Adpcm.v -- IMA ADPCM (DVI / IMA Digital Audio Focus recommended practices 3.00) and the block layouts of the WAV / W64
    and AIFF ('ima4') containers, plus the code-shaped Microsoft ADPCM block decoder (C20).

    The reference decoder is a per-channel state machine over 4-bit codes; a WAV block carries the channels interleaved in
    groups of 8 codes, an AIFF block is one channel.  The container decoders are written over the generic system of
    Isolation.v (channels = handles, codes = operations), so "decoding the interleaved block = decoding every channel's own
    code stream" is an instance of the interleaving theorem. *)
From Coq Require Import ZArith List Bool Lia.
From SF Require Import Isolation.
Import ListNotations.
Local Open Scope Z_scope.

(** the published tables *)
Definition ref_step_table : list Z := [
  7; 8; 9; 10; 11; 12; 13; 14; 16; 17; 19; 21; 23; 25; 28; 31; 34; 37; 41; 45; 50; 55; 60; 66; 73; 80; 88; 97; 107; 118; 130; 143; 157; 173; 190; 209; 230;
  253; 279; 307; 337; 371; 408; 449; 494; 544; 598; 658; 724; 796; 876; 963; 1060; 1166; 1282; 1411; 1552; 1707; 1878; 2066; 2272; 2499; 2749; 3024; 3327;
  3660; 4026; 4428; 4871; 5358; 5894; 6484; 7132; 7845; 8630; 9493; 10442; 11487; 12635; 13899; 15289; 16818; 18500; 20350; 22385; 24623; 27086; 29794; 32767].
Definition ref_index_table : list Z := [-1; -1; -1; -1; 2; 4; 6; 8; -1; -1; -1; -1; 2; 4; 6; 8].

Definition clamp16 (x : Z) : Z := Z.max (-32768) (Z.min 32767 x).
Definition clamp_idx (i : Z) : Z := Z.max 0 (Z.min 88 i).
Definition nthz (l : list Z) (i : Z) : Z := nth (Z.to_nat i) l 0.

Section Ima.
Variables (step_tab idx_tab : list Z).        (* instantiated with the tables dumped from the source *)

(** difference for one code: step/8 + (bit0: step/4) + (bit1: step/2) + (bit2: step), negated by bit 3 *)
Definition ima_diff (step code : Z) : Z :=
  let d := Z.shiftr step 3 + (if Z.testbit code 0 then Z.shiftr step 2 else 0) + (if Z.testbit code 1 then Z.shiftr step 1 else 0)
           + (if Z.testbit code 2 then step else 0) in
  if Z.testbit code 3 then - d else d.

Record ist := mki { pred : Z ; idx : Z }.

Definition ima_step (code : Z) (s : ist) : ist * Z :=
  let c := Z.land code 15 in
  let p := clamp16 (pred s + ima_diff (nthz step_tab (idx s)) c) in
  (mki p (clamp_idx (idx s + nthz idx_tab c)), p).

Definition ima_stream (s : ist) (codes : list Z) : ist * list Z := solo ist Z Z ima_step s codes.

(** ---- WAV / W64 block: 4 header bytes per channel (predictor int16 little endian, step index, zero), then groups of
    4 bytes per channel; within a channel's 4 bytes the low nibble comes first *)
Definition s16 (lo hi : Z) : Z := let v := lo + 256 * hi in if v >=? 32768 then v - 65536 else v.
Definition nibbles (b : Z) : list Z := [Z.land b 15; Z.land (Z.shiftr b 4) 15].
Definition wav_header_state (hdr : list Z) : ist := mki (s16 (nthz hdr 0) (nthz hdr 1)) (clamp_idx (nthz hdr 2)).

(** one group: [cb] is, per channel, that channel's 4 bytes; the decode loop walks sample positions in ascending order, i.e.
    code j of every channel before code j+1 *)
Fixpoint transpose_codes (n : nat) (per_chan : list (list Z)) : list (Z * Z) :=
  match n with
  | O => []
  | S k => (combine (map Z.of_nat (seq 0 (length per_chan))) (map (fun l => hd 0 l) per_chan)) ++ transpose_codes k (map (@tl Z) per_chan)
  end.
Definition group_codes (cb : list (list Z)) : list (Z * Z) := transpose_codes 8 (map (fun bytes => flat_map nibbles bytes) cb).

Fixpoint chunks (n : nat) (fuel : nat) (l : list Z) : list (list Z) :=
  match fuel with
  | O => []
  | S f => match l with [] => [] | _ => firstn n l :: chunks n f (skipn n l) end
  end.

(** the tagged code sequence of a whole block body (after the headers) for [nch] channels *)
Definition wav_body_codes (nch : nat) (body : list Z) : list (Z * Z) :=
  flat_map (fun grp => group_codes (chunks 4 nch grp)) (chunks (4 * nch) (length body) body).

(** block decoder: header predictors are the first frame, then the decode loop over the tagged codes with one state per channel *)
Definition wav_block_decode (nch : nat) (block : list Z) : list Z :=
  let hdrs := chunks 4 nch (firstn (4 * nch) block) in
  let st0 : Z -> ist := fun c => wav_header_state (nth (Z.to_nat c) hdrs []) in
  let '(_, outs) := srun ist Z Z unit ima_step (fun _ _ g => g) (st0, tt) (wav_body_codes nch (skipn (4 * nch) block)) in
  map (fun c => pred (st0 (Z.of_nat c))) (seq 0 nch) ++ map snd outs.

(** ---- AIFF 'ima4' packet: 34 bytes for one channel: predictor = top 9 bits of a big endian int16, step index = low 7 bits,
    then 32 bytes = 64 codes, low nibble first *)
Definition aiff_header_state (b0 b1 : Z) : ist :=
  mki (s16 (Z.land b1 128) b0) (clamp_idx (Z.land b1 127)).
Definition aiff_packet_decode (pkt : list Z) : list Z :=
  snd (ima_stream (aiff_header_state (nthz pkt 0) (nthz pkt 1)) (flat_map nibbles (skipn 2 pkt))).
End Ima.

(** ---- Microsoft ADPCM block decoder, as coded (src/ms_adpcm.c): idelta and the sample history live in C shorts *)
Definition wrap16 (x : Z) : Z := let m := x mod 65536 in if m >=? 32768 then m - 65536 else m.
Section Ms.
Variables (adapt c1 c2 : list Z).
Record mst := mkm { bp : Z ; idelta : Z ; s1 : Z ; s2 : Z }.     (* s1 = previous sample, s2 = the one before *)
Definition ms_step (code : Z) (s : mst) : mst * Z :=
  let c := Z.land code 15 in
  let nd := wrap16 (Z.shiftr (nthz adapt c * idelta s) 8) in
  let nd := if nd <? 16 then 16 else nd in
  let sc := if Z.testbit c 3 then c - 16 else c in
  let predict := Z.shiftr (s1 s * nthz c1 (bp s) + s2 s * nthz c2 (bp s)) 8 in
  let cur := clamp16 (sc * idelta s + predict) in
  (mkm (bp s) nd cur (s1 s), cur).
Definition ms_bpred (v : Z) : Z := if v >=? 7 then 0 else v.
Definition u16 (lo hi : Z) : Z := lo + 256 * hi.
Definition ms_codes (nch : nat) (body : list Z) : list (Z * Z) :=
  let nibs := flat_map (fun b => [Z.land (Z.shiftr b 4) 15; Z.land b 15]) body in
  combine (map (fun k => Z.of_nat (k mod nch)) (seq 0 (length nibs))) nibs.
Definition ms_block_decode (nch : nat) (block : list Z) : list Z :=
  let b := nthz block in
  let st0 : Z -> mst :=
    if Nat.eqb nch 1 then fun _ => mkm (ms_bpred (b 0)) (wrap16 (u16 (b 1) (b 2))) (wrap16 (u16 (b 3) (b 4))) (wrap16 (u16 (b 5) (b 6)))
    else fun c => if c =? 0 then mkm (ms_bpred (b 0)) (wrap16 (u16 (b 2) (b 3))) (wrap16 (u16 (b 6) (b 7))) (wrap16 (u16 (b 10) (b 11)))
                  else mkm (ms_bpred (b 1)) (wrap16 (u16 (b 4) (b 5))) (wrap16 (u16 (b 8) (b 9))) (wrap16 (u16 (b 12) (b 13))) in
  let hdr := (7 * nch)%nat in
  let '(_, outs) := srun mst Z Z unit ms_step (fun _ _ g => g) (st0, tt) (ms_codes nch (skipn hdr block)) in
  map (fun c => s2 (st0 (Z.of_nat c))) (seq 0 nch) ++ map (fun c => s1 (st0 (Z.of_nat c))) (seq 0 nch) ++ map snd outs.
End Ms.

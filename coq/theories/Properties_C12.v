(** C12 -- metadata set before the audio survives close and re-open unchanged.
    Model: StrMeta.v (psf_strlcpy_crlf, the 32-slot string table); proofs in StrMetaProofs.v.
    Tie: K correspondence of psf_strlcpy_crlf / psf_store_string / psf_get_string called directly; the containers' metadata
    chunk writers and readers are covered by the set / close / re-open / get oracle of checks/c12.py. *)
From Coq Require Import ZArith List Lia Bool.
From SF Require Import StrMeta StrMetaProofs.
Import ListNotations.
Local Open Scope Z_scope.

(** the only change to a coding history / cart text is line-end normalisation: the result has no bare CR or LF ... *)
Theorem crlf_output_is_normalised : forall src destmax, normalised (strlcpy_crlf src destmax) = true.
Proof. exact strlcpy_crlf_output_normalised. Qed.
(** ... every line end (CR LF, LF CR, CR, LF) becomes exactly one CR LF, so the number of lines is preserved -- two bare line
    ends in a row stay an empty line ... *)
Theorem crlf_preserves_line_count : forall src pending, count_crlf (norm src pending) = line_ends src pending.
Proof. exact norm_preserves_lines. Qed.
(** ... every other character passes through in order, and with room nothing is cut *)
Theorem crlf_keeps_the_text : forall src pending, strip (norm src pending) = strip src.
Proof. exact norm_keeps_text. Qed.
Theorem crlf_not_truncated_when_room : forall src pending room, 2 * Z.of_nat (length src) < room -> norm_r src pending room = norm src pending.
Proof. exact norm_r_enough. Qed.

(** the string table refines a map type -> string: after a successful set the get returns exactly that string (last set wins) ... *)
Theorem get_returns_last_set : forall t ty s, ty <> 0 -> ty <> -1 -> snd (store_string t ty s) = true ->
  get_string (fst (store_string t ty s)) ty = Some s.
Proof. exact store_then_get. Qed.
(** ... and no other type's string changes, whether the set succeeded or was refused *)
Theorem set_leaves_other_strings : forall t ty s ty', ty <> 0 -> ty <> -1 -> ty' <> ty -> ty' <> 0 -> ty' <> -1 ->
  get_string (fst (store_string t ty s)) ty' = get_string t ty'.
Proof. exact store_keeps_other_types. Qed.

Example c12_witness :
  norm [108; 10; 10; 109; 13; 10; 110; 10; 13] 0 = [108; 13; 10; 13; 10; 109; 13; 10; 110; 13; 10] /\
  line_ends [108; 10; 10; 109; 13; 10; 110; 10; 13] 0 = 4.
Proof. split; reflexivity. Qed.

Print Assumptions crlf_output_is_normalised.
Print Assumptions crlf_preserves_line_count.
Print Assumptions get_returns_last_set.
Print Assumptions set_leaves_other_strings.

(** Proofs relating the translation of sf_format_check (Gen_FormatCheck.v) to the write-mode table Writable.v,
    and soundness of the enumeration lists (Gen_Formats.v). *)
From Coq Require Import ZArith List Lia Bool.
From SF Require Import DecList Writable.
From SFGen Require Import Gen_Enums Gen_FormatCheck Gen_Formats.
Import ListNotations.
Local Open Scope Z_scope.

Lemma agreement_check_true :
  agree_on (guarded rate_zero fc_prog) (guarded rate_zero writable_prog)
           (envs_over (doms_from (guarded rate_zero fc_prog) (guarded rate_zero writable_prog) 0%nat 5)) = true.
Proof. vm_cast_no_check (eq_refl true). Qed.

Lemma agreement_all : forall e, length e = 5%nat -> eval (guarded rate_zero fc_prog) e = eval (guarded rate_zero writable_prog) e.
Proof. exact (agree_everywhere (guarded rate_zero fc_prog) (guarded rate_zero writable_prog) 5 agreement_check_true). Qed.

Theorem fc_agrees_with_writable : forall e, length e = 5%nat -> in_domain e -> get e 1%nat <> 0 ->
  eval fc_prog e = eval writable_prog e.
Proof.
  intros e Hl Hd Hr.
  pose proof (agreement_all e Hl) as H.
  assert (Hx : eval_rules e rate_zero = None).
  { unfold rate_zero, no. cbn [eval_rules eval_cond eval_cmp]. destruct (get e 1%nat =? 0) eqn:E; [apply Z.eqb_eq in E; contradiction | reflexivity]. }
  rewrite !guarded_eval in H by assumption. exact H.
Qed.

Definition writable (format channels samplerate : Z) : Z := eval writable_prog (fc_env format channels samplerate).

Theorem format_check_iff_writable : forall format channels samplerate,
  In (Z.land format c_SF_FORMAT_TYPEMASK) majors -> In (Z.land format c_SF_FORMAT_SUBMASK) subtypes -> samplerate <> 0 ->
  fc format channels samplerate = writable format channels samplerate.
Proof.
  intros f c r Hm Hs Hr. unfold fc, writable. apply fc_agrees_with_writable; [reflexivity | split; assumption | assumption].
Qed.

(** at sample rate 0 the two differ: sf_format_check accepts, every open refuses (validate_sfinfo) *)
Theorem format_check_iff_writable_refuted :
  exists format channels samplerate,
    In (Z.land format c_SF_FORMAT_TYPEMASK) majors /\ In (Z.land format c_SF_FORMAT_SUBMASK) subtypes /\
    fc format channels samplerate = 1 /\ writable format channels samplerate = 0.
Proof.
  exists (c_SF_FORMAT_WAV + c_SF_FORMAT_PCM_16), 1, 0. vm_compute. repeat split; try reflexivity.
  - right; right; right; right; right; right; right; right; right; right; right; right; right; right; right; right; right; right; left. reflexivity.
  - right. left. reflexivity.
Qed.

(** * the enumeration lists *)
Definition fmt_of (x : Z * Z * Z * Z) : Z := fst (fst (fst x)).
Definition hash_of (x : Z * Z * Z * Z) : Z := snd (fst (fst x)).
Definition nlen_of (x : Z * Z * Z * Z) : Z := snd (fst x).
Fixpoint distinctb (l : list Z) : bool := match l with [] => true | x :: r => negb (existsb (Z.eqb x) r) && distinctb r end.
Definition list_ok (l : list (Z * Z * Z * Z)) : bool :=
  distinctb (map fmt_of l) && distinctb (map hash_of l) && forallb (fun x => (0 <? nlen_of x) && (0 <=? fmt_of x)) l.
Definition simple_passes (x : Z * Z * Z * Z) : bool := (fc (fmt_of x) 1 44100 =? 1) || (fc (fmt_of x) 2 44100 =? 1).
Definition major_usable (m : Z * Z * Z * Z) : bool :=
  existsb (fun s => existsb (fun en => fc (fmt_of m + fmt_of s + en) 1 44100 =? 1) [0; c_SF_ENDIAN_LITTLE; c_SF_ENDIAN_BIG]) subtype_list.
Definition lists_check : bool :=
  list_ok simple_list && list_ok major_list && list_ok subtype_list &&
  forallb simple_passes simple_list && forallb major_usable major_list &&
  (simple_list_out_of_range_accepted =? 0) && (major_list_out_of_range_accepted =? 0) && (subtype_list_out_of_range_accepted =? 0) &&
  (* SFC_GET_FORMAT_INFO knows every listed major and subtype under the same name, and no code that is not listed *)
  (format_info_mismatches =? 0) && (format_info_unlisted_accepted =? 0).
Theorem lists_sound : lists_check = true.
Proof. vm_compute. reflexivity. Qed.

Lemma distinctb_NoDup l : distinctb l = true -> NoDup l.
Proof.
  induction l as [|x r IH]; simpl; intros H; [constructor|].
  apply andb_true_iff in H. destruct H as [H1 H2]. constructor; [|apply IH; assumption].
  intros Hin. apply negb_true_iff in H1. assert (existsb (Z.eqb x) r = true); [|congruence].
  apply existsb_exists. exists x. split; [assumption | apply Z.eqb_refl].
Qed.

Theorem lists_sound_spelled_out :
  NoDup (map fmt_of simple_list) /\ NoDup (map fmt_of major_list) /\ NoDup (map fmt_of subtype_list) /\
  NoDup (map hash_of simple_list) /\ NoDup (map hash_of major_list) /\ NoDup (map hash_of subtype_list) /\
  (forall x, In x simple_list -> fc (fmt_of x) 1 44100 = 1 \/ fc (fmt_of x) 2 44100 = 1) /\
  (forall m, In m major_list -> exists s en, In s subtype_list /\ fc (fmt_of m + fmt_of s + en) 1 44100 = 1).
Proof.
  pose proof lists_sound as H. unfold lists_check in H.
  repeat (apply andb_true_iff in H; destruct H as [H ?]).
  unfold list_ok in *.
  repeat match goal with Hx : (_ && _) = true |- _ => apply andb_true_iff in Hx; destruct Hx end.
  repeat split; try (apply distinctb_NoDup; assumption).
  - intros x Hx. match goal with Hs : forallb simple_passes simple_list = true |- _ => rewrite forallb_forall in Hs; specialize (Hs x Hx) end.
    unfold simple_passes in *. match goal with Hs : (_ || _) = true |- _ => apply orb_true_iff in Hs; destruct Hs as [Hs|Hs]; apply Z.eqb_eq in Hs; auto end.
  - intros m Hm. match goal with Hs : forallb major_usable major_list = true |- _ => rewrite forallb_forall in Hs; specialize (Hs m Hm) end.
    unfold major_usable in *. match goal with Hs : existsb _ subtype_list = true |- _ => apply existsb_exists in Hs; destruct Hs as (s & Hs1 & Hs2) end.
    apply existsb_exists in Hs2. destruct Hs2 as (en & _ & Hen). apply Z.eqb_eq in Hen. exists s, en. auto.
Qed.

(** FaultIO.v -- the transfer loops of psf_fread / psf_fwrite (src/file_io.c) over an I/O layer that may fail at any call (C15).

    One call of read(2) / write(2) answers [OErr] (-1 with an errno other than EINTR), [OIntr] (-1 / EINTR) or [OXfer k]
    (k bytes moved, 0 <= k <= asked; 0 = end of file / nothing accepted).  The descriptor route loops until everything is
    moved, an error, or a zero transfer; the virtual route makes exactly one callback.  The result is a count of whole items. *)
From Coq Require Import ZArith List Bool Lia.
Import ListNotations.
Local Open Scope Z_scope.

Inductive outcome := OErr | OIntr | OXfer (k : Z).

Definition SENSIBLE_SIZE : Z := 1073741824.

(** what the kernel can answer to a request for [asked] bytes *)
Definition clamp (k asked : Z) : Z := Z.max 0 (Z.min k asked).

Record loop_result := mkl { total : Z ; calls : Z ; errored : bool }.

(** while (items > 0) { count = read (fd, ptr + total, min (items, SENSIBLE_SIZE)) ; ... }  -- [outs] is consumed in order;
    an exhausted oracle answers like end of file *)
Fixpoint xfer_loop (outs : list outcome) (remaining tot n : Z) : loop_result :=
  if remaining <=? 0 then mkl tot n false else
  match outs with
  | [] => mkl tot (n + 1) false
  | OErr :: _ => mkl tot (n + 1) true
  | OIntr :: r => xfer_loop r remaining tot (n + 1)
  | OXfer k :: r =>
      let c := clamp k (Z.min remaining SENSIBLE_SIZE) in
      if c =? 0 then mkl tot (n + 1) false else xfer_loop r (remaining - c) (tot + c) (n + 1)
  end.

Record io_result := mkio { ret : Z ; moved : Z ; ncalls : Z ; syserr : bool }.

(** psf_fread / psf_fwrite on the descriptor route *)
Definition xfer_desc (bytes items : Z) (outs : list outcome) : io_result :=
  if (bytes =? 0) || (items =? 0) then mkio 0 0 0 false else
  let n := items * bytes in
  if n <=? 0 then mkio 0 0 0 false else
  let r := xfer_loop outs n 0 0 in
  mkio (Z.quot (total r) bytes) (total r) (calls r) (errored r).

(** ... and on the virtual route: one callback whose answer k is inside the callback contract 0 <= k <= bytes * items *)
Definition xfer_vio (bytes items k : Z) : io_result :=
  if (bytes =? 0) || (items =? 0) then mkio 0 0 0 false else
  let c := clamp k (bytes * items) in
  mkio (Z.quot c bytes) c 1 false.

From Coq Require Import ZArith List Lia Bool.
From SF Require Import Ext80.
Import ListNotations.
Local Open Scope Z_scope.
Ltac Zify.zify_post_hook ::= Z.div_mod_to_equations.

Definition core (L r : Z) : Z :=
  let n := r * 2 ^ (31 - L) in
  ((n / 2 ^ 24 mod 256) * 2 ^ 23 + (n / 2 ^ 16 mod 256) * 2 ^ 15 + (n / 2 ^ 8 mod 256) * 2 ^ 7 + (n mod 256) / 2) / 2 ^ (29 - (L - 1)).

Lemma core_exact L : 1 <= L <= 29 -> forall r, 2 ^ L <= r < 2 ^ (L + 1) -> core L r = r.
Proof.
  intros HL.
  assert (H : L = 1 \/ L = 2 \/ L = 3 \/ L = 4 \/ L = 5 \/ L = 6 \/ L = 7 \/ L = 8 \/ L = 9 \/ L = 10 \/ L = 11 \/ L = 12 \/ L = 13 \/ L = 14 \/ L = 15 \/
              L = 16 \/ L = 17 \/ L = 18 \/ L = 19 \/ L = 20 \/ L = 21 \/ L = 22 \/ L = 23 \/ L = 24 \/ L = 25 \/ L = 26 \/ L = 27 \/ L = 28 \/ L = 29) by lia.
  repeat (destruct H as [H | H]); subst L; intros r Hr; unfold core;
    repeat match goal with |- context [2 ^ ?k] => let v := eval compute in (2 ^ k) in change (2 ^ k) with v end;
    repeat match goal with H : context [2 ^ ?k] |- _ => let v := eval compute in (2 ^ k) in change (2 ^ k) with v in H end;
    lia.
Qed.

(** every sample rate from 1 to 2^30 - 1 Hz survives the 80-bit field exactly *)
Theorem ext80_roundtrip r : 1 <= r < 2 ^ 30 -> dec80 (enc80 r) = r.
Proof.
  intros Hr. unfold enc80.
  destruct (r <=? 1) eqn:E1; [apply Z.leb_le in E1; assert (r = 1) by lia; subst; reflexivity|].
  destruct (2 ^ 30 <=? r) eqn:E2; [apply Z.leb_le in E2; lia|].
  apply Z.leb_gt in E1. apply Z.leb_gt in E2.
  pose proof (Z.log2_spec r ltac:(lia)) as [L1 L2].
  assert (HL : 1 <= Z.log2 r <= 29).
  { split; [apply Z.log2_le_pow2; simpl; lia | ]. assert (Z.log2 r < 30); [apply Z.log2_lt_pow2; lia | lia]. }
  set (L := Z.log2 r) in *. replace (Z.succ L) with (L + 1) in L2 by lia.
  cbn [dec80]. cbv zeta.
  assert (64 <? 64 = false) as -> by reflexivity. assert (128 <=? 64 = false) as -> by reflexivity. assert (64 <=? 63 = false) as -> by reflexivity.
  destruct (28 <? L - 1) eqn:E3; [apply Z.ltb_lt in E3; lia|].
  apply (core_exact L HL r). split; assumption.
Qed.

(** from 2^30 Hz upwards the writer stores only the exponent byte and the reader answers 800000000 *)
Theorem ext80_roundtrip_refuted : exists r, 2 ^ 30 <= r < 2 ^ 31 /\ dec80 (enc80 r) <> r.
Proof. exists (2 ^ 30). split; [simpl; lia | vm_compute; discriminate]. Qed.

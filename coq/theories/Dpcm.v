(** The differential PCM codecs of src/xi.c (SF_FORMAT_DPCM_16 and SF_FORMAT_DPCM_8, XI and RAW containers), integer entries:
      s2dles_array / i2dles_array / dles2s_array / dles2i_array   (16-bit little-endian deltas)
      s2dsc_array  / i2dsc_array  / dsc2s_array  / dsc2i_array    (8-bit deltas of the top byte)
    The codec state is XI_PRIVATE.last_16 (a short).  Stored codes are modelled as the signed values of the
    delta fields (a short / a signed char); their byte layout is Endian.v's business.
    C arithmetic made explicit: `diff = src [k] - last_val` is computed in int and narrowed to short / signed char
    (modulo 2^16 / 2^8 with gcc and clang); `last_val += code` likewise; `>>` on negative values is arithmetic
    (Z division rounds down, as the shift does). *)
From Coq Require Import ZArith List Lia Bool.
Import ListNotations.
Local Open Scope Z_scope.

(** two's complement narrowing to a signed field of modulus M = 2 * H *)
Definition wrap (H x : Z) : Z := (x + H) mod (2 * H) - H.
Definition in_range (H x : Z) : Prop := - H <= x < H.

(** delta encoder: one code per sample, the predictor is the previous sample *)
Fixpoint enc (H last : Z) (xs : list Z) : list Z :=
  match xs with
  | [] => []
  | x :: r => wrap H (x - last) :: enc H x r
  end.

(** delta decoder: running sum with narrowing after every addition *)
Fixpoint dec (H last : Z) (cs : list Z) : list Z :=
  match cs with
  | [] => []
  | c :: r => let l := wrap H (last + c) in l :: dec H l r
  end.

(** the predictor left behind by a call: the last value of the call, or the incoming one for an empty call *)
Definition carry (last0 : Z) (vs : list Z) : Z := List.last vs last0.

Definition H16 := 32768.
Definition H8 := 128.

(** the eight integer kernels as coded: (output items, new last_16) *)
Definition s2dles (last16 : Z) (src : list Z) : list Z * Z := (enc H16 last16 src, carry last16 src).
Definition i2dles (last16 : Z) (src : list Z) : list Z * Z := s2dles last16 (map (fun x => x / 65536) src).
Definition dles2s (last16 : Z) (cs : list Z) : list Z * Z :=
  let out := dec H16 last16 cs in (out, carry last16 out).
Definition dles2i (last16 : Z) (cs : list Z) : list Z * Z :=
  let out := dec H16 last16 cs in (map (fun v => v * 65536) out, carry last16 out).

Definition s2dsc (last16 : Z) (src : list Z) : list Z * Z :=
  let l := last16 / 256 in let cur := map (fun x => x / 256) src in (enc H8 l cur, carry l cur * 256).
Definition i2dsc (last16 : Z) (src : list Z) : list Z * Z :=
  let l := last16 / 256 in let cur := map (fun x => x / 16777216) src in (enc H8 l cur, carry l cur * 256).
Definition dsc2s (last16 : Z) (cs : list Z) : list Z * Z :=
  let l := last16 / 256 in let out := dec H8 l cs in (map (fun v => v * 256) out, carry l out * 256).
Definition dsc2i (last16 : Z) (cs : list Z) : list Z * Z :=
  let l := last16 / 256 in let out := dec H8 l cs in (map (fun v => v * 16777216) out, carry l out * 256).

(** a sequence of calls on one handle: the state is threaded from call to call (dpcm_write_* / dpcm_read_* and their
    staging loops call the kernels with successive pieces of the request) *)
Fixpoint run_calls (k : Z -> list Z -> list Z * Z) (last16 : Z) (calls : list (list Z)) : list Z * Z :=
  match calls with
  | [] => ([], last16)
  | c :: r => let (o, l) := k last16 c in let (o', l') := run_calls k l r in (o ++ o', l')
  end.

(** dpcm_seek (psf, SFM_READ, k) as coded: k = 0 rewinds and clears the predictor; k > 0 rewinds and decodes-and-discards
    k items WITHOUT clearing the predictor first (it starts from whatever last_16 the handle holds).  Returns the
    predictor left behind; the next read decodes from there. *)
Definition dpcm_seek16 (last16 : Z) (cs : list Z) (k : nat) : Z :=
  match k with O => 0 | _ => snd (dles2s last16 (firstn k cs)) end.
Definition dpcm_seek8 (last16 : Z) (cs : list Z) (k : nat) : Z :=
  match k with O => 0 | _ => snd (dsc2s last16 (firstn k cs)) end.
Definition seek_then_read16 (last16 : Z) (cs : list Z) (k : nat) : list Z :=
  fst (dles2s (dpcm_seek16 last16 cs k) (skipn k cs)).
Definition seek_then_read8 (last16 : Z) (cs : list Z) (k : nat) : list Z :=
  fst (dsc2s (dpcm_seek8 last16 cs k) (skipn k cs)).

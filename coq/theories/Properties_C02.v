(** C02 -- sample-type conversions follow the documented rules exactly.
    Only the property theorems; proofs in ConvProofs / FpProofs.  The model (PcmConv.v, Fp.v) is tied
    to the implementation by the exhaustive / boundary correspondence run of checks/c02.py. *)
From Coq Require Import ZArith List Lia Bool.
From SF Require Import Bits Fp FpProofs G711 PcmConv ConvProofs.
Local Open Scope Z_scope.

(** integer to integer: keep the most significant bits *)
Theorem int_read_is_msb_zero_padded : forall e c, code_ok e c ->
  rd_int e c = sval e c * 2 ^ (32 - width e) /\ is_int32 (rd_int e c).
Proof. exact rd_int_is_msb. Qed.
Theorem short_read_is_top_of_int_read : forall e c, code_ok e c ->
  rd_short e c = rd_int e c / 65536 /\ is_short (rd_short e c).
Proof. exact rd_short_is_top. Qed.
Theorem int_write_truncates : forall e x, is_int32 x ->
  code_ok e (wr_int e x) /\ sval e (wr_int e x) = x / 2 ^ (32 - width e).
Proof. exact wr_int_truncates. Qed.
Theorem short_write_is_int_write : forall e s, is_short s -> wr_short e s = wr_int e (s * 65536).
Proof. exact wr_short_via_int. Qed.
Theorem int_write_then_read : forall e x, is_int32 x ->
  rd_int e (wr_int e x) = x / 2 ^ (32 - width e) * 2 ^ (32 - width e).
Proof. exact int_write_read. Qed.
Theorem int_read_then_write : forall e c, code_ok e c -> wr_int e (rd_int e c) = c.
Proof. exact int_read_write. Qed.
Theorem short_roundtrip_wide : forall e s, is_short s -> 16 <= width e -> rd_short e (wr_short e s) = s.
Proof. exact short_write_read. Qed.
Theorem unsigned8_offset_128 : forall c, 0 <= c < 256 -> sval U8 c = sval S8 ((c + 128) mod 256).
Proof. exact u8_is_s8_plus_128. Qed.

(** normalised double reads return exactly value / 2^(w-1), for every stored code of every width *)
Theorem double_read_normalised_exact : forall e c, code_ok e c -> rd_flt 53 e true c = exact_norm e c.
Proof. exact read_double_normalised. Qed.

(** rounding primitive: nearest integer, within half a unit (ties to even by definition) *)
Theorem lrint_is_nearest : forall s m k, 0 <= m -> 0 < k ->
  2 * Z.abs (rne_int s m (- k) * 2 ^ k - sgn_m s m) <= 2 ^ k.
Proof. exact rne_int_half. Qed.

(** with clipping, every finite input is stored inside the integer range: saturation, never wrap-around *)
Theorem clipped_write_never_wraps : forall p e norm s m ex, 0 <= m ->
  sval_ok e (sval e (wr_flt p e norm true (Fin s m ex))).
Proof. exact write_clipped_in_range. Qed.
(** without clipping the nearest integer of the scaled value is stored as is whenever it is in range *)
Theorem unclipped_write_in_range_exact : forall (p : Z) (e : penc) (norm s : bool) (m ex : Z),
  let nf := if norm then round_p p (of_int (2 ^ (width e - 1) - 1)) else of_int 1 in
  let scaled := fmul_p p (Fin s m ex) nf in
  sval_ok e (psf_lrint scaled) -> sval e (wr_flt p e norm false (Fin s m ex)) = psf_lrint scaled.
Proof. exact write_unclipped_no_wrap. Qed.

(** G.711 through the four types: int = decode * 2^16, float/double = decode / 2^15 exactly, all 256 codes;
    float/double writes index inside the tables for every input *)
Theorem g711_type_paths_agree : forall l c, 0 <= c < 256 -> chk_g_rd l c = true.
Proof. exact g711_reads_agree. Qed.
Theorem g711_float_write_total : forall p l norm x, g_wr_flt p l norm x <> None.
Proof. exact g711_float_write_in_table. Qed.

Example c02_nonvacuous :
  code_ok P24 8388608 /\ sval P24 8388608 = -8388608 /\ is_int32 (-2147483648) /\
  rd_flt 53 P16 true 32768 = Fin true 32768 (-15) /\
  sval S8 (wr_flt 24 S8 true true (Fin false 3 0)) = 127 /\ sval S8 (wr_flt 24 S8 true false (Fin false 3 0)) <> 127.
Proof. unfold code_ok, is_int32. repeat split; try (vm_compute; reflexivity); try (vm_compute; intuition discriminate); vm_compute; discriminate. Qed.

Print Assumptions int_read_is_msb_zero_padded.
Print Assumptions short_read_is_top_of_int_read.
Print Assumptions int_write_truncates.
Print Assumptions short_write_is_int_write.
Print Assumptions int_write_then_read.
Print Assumptions int_read_then_write.
Print Assumptions short_roundtrip_wide.
Print Assumptions unsigned8_offset_128.
Print Assumptions double_read_normalised_exact.
Print Assumptions lrint_is_nearest.
Print Assumptions clipped_write_never_wraps.
Print Assumptions unclipped_write_in_range_exact.
Print Assumptions g711_type_paths_agree.
Print Assumptions g711_float_write_total.

From Coq Require Import ZArith List Lia Bool.
From SF Require Import Stream.
Import ListNotations.
Local Open Scope Z_scope.

(** the staging loop is a plain map, whatever the buffer size and however long the request (in particular longer than the
    8 KiB BUF_UNION) *)
Theorem staged_is_map {A B} (f : A -> B) n : (0 < n)%nat -> forall fuel xs, (length xs < fuel)%nat ->
  staged f n fuel xs = map f xs.
Proof.
  intros Hn. induction fuel as [|k IH]; intros xs Hf; [lia|].
  destruct xs as [|x r]; [reflexivity|].
  cbn [staged]. rewrite IH.
  - rewrite <- map_app, firstn_skipn. reflexivity.
  - rewrite skipn_length. simpl length in *. lia.
Qed.

Section BlockProofs.
  Context (B : nat) (HB : (0 < B)%nat) (enc dec : list Z -> list Z).
  Context (Hdec : forall b, length b = B -> dec (enc b) = b).

  Lemma emit_spec : forall fuel xs, (length xs < fuel)%nat ->
    let '(bs, c) := emit B enc fuel xs in
    read_all dec bs ++ c = xs /\ (length c < B)%nat /\ Forall (fun b => exists raw, length raw = B /\ b = enc raw) bs.
  Proof.
    induction fuel as [|k IH]; intros xs Hf; [lia|].
    cbn [emit]. destruct (Nat.leb B (length xs)) eqn:E.
    - apply Nat.leb_le in E.
      specialize (IH (skipn B xs)). rewrite skipn_length in IH. specialize (IH ltac:(lia)).
      destruct (emit B enc k (skipn B xs)) as [bs c]. destruct IH as (H1 & H2 & H3).
      split; [|split; [assumption|]].
      + unfold read_all in *. cbn [map concat]. rewrite Hdec by (rewrite firstn_length; lia).
        rewrite <- app_assoc, H1. apply firstn_skipn.
      + constructor; [|assumption]. exists (firstn B xs). split; [rewrite firstn_length; lia | reflexivity].
    - apply Nat.leb_gt in E. unfold read_all. simpl. split; [reflexivity | split; [assumption | constructor]].
  Qed.

  (** any history of write calls: what has been emitted decodes to a prefix of the concatenated samples, the rest is the carry *)
  Lemma write_calls_spec : forall calls carry, (length carry < B)%nat ->
    let '(bs, k) := write_calls B enc carry calls in
    read_all dec bs ++ k = carry ++ concat calls /\ (length k < B)%nat.
  Proof.
    induction calls as [|c r IH]; intros carry Hc; cbn [write_calls].
    - unfold read_all. simpl. rewrite app_nil_r. split; [reflexivity | assumption].
    - unfold write_call. pose proof (emit_spec (S (length (carry ++ c))) (carry ++ c) ltac:(lia)) as E.
      destruct (emit B enc (S (length (carry ++ c))) (carry ++ c)) as [b1 k1]. destruct E as (E1 & E2 & _).
      specialize (IH k1 E2). destruct (write_calls B enc k1 r) as [b2 k2]. destruct IH as [I1 I2].
      split; [|assumption].
      unfold read_all in *. rewrite map_app, concat_app, <- app_assoc, I1.
      cbn [concat]. rewrite !app_assoc. f_equal. exact E1.
  Qed.

  (** C01 / C04: the closed file decodes to exactly the samples written followed by the zero padding of the last block:
      the first N items are bit exact and the count F satisfies N <= F < N + B *)
  Theorem block_stream_roundtrip calls :
    let xs := concat calls in
    exists pad, read_all dec (written_file B enc calls) = xs ++ repeat 0 pad /\ (pad < B)%nat.
  Proof.
    cbn zeta. unfold written_file.
    pose proof (write_calls_spec calls [] ltac:(simpl; lia)) as W.
    destruct (write_calls B enc [] calls) as [bs k]. destruct W as [W1 W2]. simpl in W1.
    unfold close_flush. destruct k as [|x k'].
    - exists 0%nat. rewrite app_nil_r in *. simpl. rewrite app_nil_r. split; [exact W1 | lia].
    - exists (B - length (x :: k'))%nat. split; [|simpl length in *; lia].
      unfold read_all in *. rewrite map_app, concat_app. cbn [map concat]. rewrite app_nil_r.
      rewrite Hdec by (rewrite app_length, repeat_length; lia).
      rewrite app_assoc, W1. reflexivity.
  Qed.

  (** C07: the emitted blocks and the carried partial block depend only on the concatenated samples, not on how they were
      split over write calls *)
  Theorem write_partition_independent calls1 calls2 : concat calls1 = concat calls2 ->
    written_file B enc calls1 = written_file B enc calls2.
  Proof.
    intros Hc. unfold written_file.
    pose proof (write_calls_spec calls1 [] ltac:(simpl; lia)) as W1.
    pose proof (write_calls_spec calls2 [] ltac:(simpl; lia)) as W2.
    (* both histories emit exactly the blocks of the one-call history of the concatenation *)
    assert (G : forall calls carry, (length carry < B)%nat ->
               write_calls B enc carry calls = emit B enc (S (length (carry ++ concat calls))) (carry ++ concat calls)).
    { clear W1 W2 Hc. induction calls as [|c r IH]; intros carry Hc.
      - cbn [write_calls concat]. rewrite app_nil_r. cbn [emit].
        destruct (Nat.leb B (length carry)) eqn:E; [apply Nat.leb_le in E; lia | reflexivity].
      - cbn [write_calls concat]. unfold write_call.
        (* emitting from carry ++ c and then continuing with r equals emitting from carry ++ c ++ concat r *)
        assert (E : forall fuel xs ys, (length xs < fuel)%nat ->
                   let '(b1, k1) := emit B enc fuel xs in
                   forall fuel2, (length (k1 ++ ys) < fuel2)%nat -> forall fuel3, (length (xs ++ ys) < fuel3)%nat ->
                   (let '(b2, k2) := emit B enc fuel2 (k1 ++ ys) in (b1 ++ b2, k2)) = emit B enc fuel3 (xs ++ ys)).
        { clear IH. induction fuel as [|k IHf]; intros xs ys Hf; [lia|].
          cbn [emit]. destruct (Nat.leb B (length xs)) eqn:E1.
          - apply Nat.leb_le in E1. specialize (IHf (skipn B xs) ys). rewrite skipn_length in IHf. specialize (IHf ltac:(lia)).
            destruct (emit B enc k (skipn B xs)) as [b1 k1]. intros fuel2 H2 fuel3 H3.
            specialize (IHf fuel2 H2).
            destruct fuel3 as [|f3]; [lia|]. cbn [emit].
            assert (Nat.leb B (length (xs ++ ys)) = true) as -> by (apply Nat.leb_le; rewrite app_length; lia).
            rewrite firstn_app, skipn_app. replace (B - length xs)%nat with 0%nat by lia. simpl firstn. simpl skipn. rewrite app_nil_r.
            specialize (IHf f3). rewrite app_length, skipn_length in IHf. rewrite app_length in H3. specialize (IHf ltac:(lia)).
            destruct (emit B enc fuel2 (k1 ++ ys)) as [b2 k2]. rewrite <- IHf. reflexivity.
          - intros fuel2 H2 fuel3 H3. cbn [app].
            (* nothing emitted from xs alone: both sides are emit on xs ++ ys with enough fuel: fuel irrelevance *)
            assert (FI : forall f1 f2 zs, (length zs < f1)%nat -> (length zs < f2)%nat -> emit B enc f1 zs = emit B enc f2 zs).
            { clear - HB. induction f1 as [|a IHa]; intros f2 zs H1 H2; [lia|]. destruct f2 as [|b]; [lia|]. cbn [emit].
              destruct (Nat.leb B (length zs)) eqn:E; [|reflexivity]. apply Nat.leb_le in E.
              rewrite (IHa b (skipn B zs)) by (rewrite skipn_length; lia). reflexivity. }
            rewrite (FI fuel2 fuel3 (xs ++ ys) H2 H3). destruct (emit B enc fuel3 (xs ++ ys)); reflexivity. }
        specialize (E (S (length (carry ++ c))) (carry ++ c) (concat r) ltac:(lia)).
        pose proof (emit_spec (S (length (carry ++ c))) (carry ++ c) ltac:(lia)) as ES.
        destruct (emit B enc (S (length (carry ++ c))) (carry ++ c)) as [b1 k1]. destruct ES as (_ & Hk1 & _).
        rewrite (IH k1 Hk1).
        specialize (E (S (length (k1 ++ concat r))) ltac:(lia) (S (length (carry ++ c ++ concat r)))).
        rewrite <- app_assoc in E. specialize (E ltac:(lia)). exact E. }
    rewrite (G calls1 [] ltac:(simpl; lia)), (G calls2 [] ltac:(simpl; lia)). simpl. rewrite Hc. reflexivity.
  Qed.
End BlockProofs.

(** C11: at any point of a write history (a crash point) the blocks already emitted decode to exactly the first
    floor (N / B) * B of the N items written so far; the rest (fewer than B items) is still in the writer's memory *)
Section CrashPoints.
  Context (B : nat) (HB : (0 < B)%nat) (enc dec : list Z -> list Z).
  Context (Hdec : forall b, length b = B -> dec (enc b) = b).

  Lemma emit_whole_blocks : forall fuel xs, exists m, length (read_all dec (fst (emit B enc fuel xs))) = (m * B)%nat.
  Proof.
    induction fuel as [|f IH]; intros xs; [exists 0%nat; reflexivity|]. cbn [emit].
    destruct (Nat.leb B (length xs)) eqn:E; [|exists 0%nat; reflexivity]. apply Nat.leb_le in E.
    destruct (IH (skipn B xs)) as [m Hm]. destruct (emit B enc f (skipn B xs)) as [b c]. simpl in *. exists (S m).
    unfold read_all in *. cbn [map concat]. rewrite app_length, Hdec by (rewrite firstn_length; lia).
    rewrite firstn_length. simpl. lia.
  Qed.

  Lemma write_calls_whole_blocks : forall calls carry, exists m, length (read_all dec (fst (write_calls B enc carry calls))) = (m * B)%nat.
  Proof.
    induction calls as [|c r IH]; intros carry; cbn [write_calls]; [exists 0%nat; reflexivity|].
    unfold write_call. destruct (emit_whole_blocks (S (length (carry ++ c))) (carry ++ c)) as [m1 H1].
    destruct (emit B enc (S (length (carry ++ c))) (carry ++ c)) as [b1 k1]. destruct (IH k1) as [m2 H2].
    destruct (write_calls B enc k1 r) as [b2 k2]. simpl in *. exists (m1 + m2)%nat.
    unfold read_all in *. rewrite map_app, concat_app, app_length, H1, H2. lia.
  Qed.

  Theorem crash_image_is_whole_block_prefix calls :
    let '(bs, k) := write_calls B enc [] calls in
    let xs := concat calls in
    read_all dec bs = firstn (length xs - length k) xs /\ (length k < B)%nat /\
    length (read_all dec bs) = (length xs / B * B)%nat.
  Proof.
    pose proof (write_calls_spec B HB enc dec Hdec calls [] ltac:(simpl; lia)) as W.
    pose proof (write_calls_whole_blocks calls []) as [m Hm].
    destruct (write_calls B enc [] calls) as [bs k]. destruct W as [W1 W2]. simpl in W1, Hm.
    assert (Hlen : (length (read_all dec bs) + length k = length (concat calls))%nat) by (rewrite <- W1, app_length; reflexivity).
    split; [|split; [assumption|]].
    - rewrite <- W1 at 2. rewrite firstn_app.
      replace (length (concat calls) - length k)%nat with (length (read_all dec bs)) by lia.
      rewrite firstn_all, Nat.sub_diag. simpl. rewrite app_nil_r. reflexivity.
    - rewrite Hm in *. assert ((length (concat calls) / B)%nat = m); [|subst; reflexivity].
      symmetry. apply Nat.div_unique with (r := length k); lia.
  Qed.
End CrashPoints.

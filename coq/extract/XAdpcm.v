From Coq Require Import ZArith List.
From Coq Require Extraction ExtrOcamlBasic.
From SF Require Import Adpcm.
From SFGen Require Import Gen_Adpcm.
Extraction Language OCaml.
Definition wav_decode (nch : nat) (block : list Z) : list Z := wav_block_decode ima_step_size ima_indx_adjust nch block.
Definition aiff_decode (pkt : list Z) : list Z := aiff_packet_decode ima_step_size ima_indx_adjust pkt.
Definition ms_decode (nch : nat) (block : list Z) : list Z := ms_block_decode ms_adaptation_table ms_coeff1 ms_coeff2 nch block.
Extraction "sfmodel.ml" wav_decode aiff_decode ms_decode.

From Coq Require Import ZArith List.
From Coq Require Extraction ExtrOcamlBasic.
From SF Require Import DecList OpenGate.
From SFGen Require Import Gen_Enums Gen_Gate.
Extraction Language OCaml.
Extraction "sfmodel.ml" eval gate_prog c_SF_FORMAT_TYPEMASK c_SF_FORMAT_SUBMASK.

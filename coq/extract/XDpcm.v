From Coq Require Import ZArith List.
From Coq Require Extraction ExtrOcamlBasic.
From SF Require Import Dpcm.
Extraction Language OCaml.
Extraction "sfmodel.ml" s2dles i2dles dles2s dles2i s2dsc i2dsc dsc2s dsc2i run_calls dpcm_seek16 dpcm_seek8 seek_then_read16 seek_then_read8.

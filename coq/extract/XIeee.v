From Coq Require Import ZArith List.
From Coq Require Extraction ExtrOcamlBasic.
From SF Require Import Bits Fp Ieee Endian.
Extraction Language OCaml.
Extraction "sfmodel.ml" b32_decode b32_encode b64_decode b64_encode
  f32_le_write f32_be_write f32_le_read f32_be_read f64_le_write f64_be_write f64_le_read f64_be_read
  bswap put_be put_le get_be get_le get_be24 get_le24.

From Coq Require Import ZArith List.
From Coq Require Extraction ExtrOcamlBasic.
From SF Require Import Bits G711.
Extraction Language OCaml.
Extraction "sfmodel.ml" c_ulaw2s c_alaw2s c_ulaw2i c_alaw2i c_s2ulaw c_s2alaw c_i2ulaw c_i2alaw c_r2ulaw c_r2alaw
  ulaw_expand alaw_expand g711_ulaw_of_short g711_alaw_of_short.

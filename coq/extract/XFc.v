From Coq Require Import ZArith List.
From Coq Require Extraction ExtrOcamlBasic.
From SF Require Import DecList Writable WritableProofs.
From SFGen Require Import Gen_Enums Gen_FormatCheck Gen_Formats.
Extraction Language OCaml.
Extraction "sfmodel.ml" fc writable majors subtypes.

From Coq Require Import ZArith List.
From Coq Require Extraction ExtrOcamlBasic.
From SF Require Import StrMeta.
Extraction Language OCaml.
Extraction "sfmodel.ml" strlcpy_crlf store_string get_string empty_table norm.

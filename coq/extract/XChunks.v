From Coq Require Import ZArith List.
From Coq Require Extraction ExtrOcamlBasic.
From SF Require Import Chunks.
Extraction Language OCaml.
Extraction "sfmodel.ml" store_read save_write iterate empty hash_of_id marker32 mkc used count.

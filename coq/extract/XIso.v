From Coq Require Import ZArith List.
From Coq Require Extraction ExtrOcamlBasic.
From SF Require Import Isolation.
Extraction Language OCaml.
Extraction "sfmodel.ml" rand_next.

From Coq Require Import ZArith List.
From Coq Require Extraction ExtrOcamlBasic.
From SF Require Import Bits Fp.
Extraction Language OCaml.
Extraction "sfmodel.ml" b32_decode b32_encode b64_decode b64_encode fmul32 fmul64 psf_lrint round32 round64
  of_int fge fle fdiv32 fdiv64.

From Coq Require Import ZArith List.
From Coq Require Extraction ExtrOcamlBasic.
From SF Require Import Bits Fp G711 PcmConv.
Extraction Language OCaml.
Extraction "sfmodel.ml" b32_decode b32_encode b64_decode b64_encode round32 round64 fmul32 fmul64 fdiv32 fdiv64 of_int
  rd_short rd_int rd_flt wr_short wr_int wr_flt
  g_rd_short g_rd_int g_rd_flt g_wr_short g_wr_int g_wr_flt
  ff_rd_short ff_rd_i32 ff_wr_short ff_wr_int.

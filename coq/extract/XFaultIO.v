From Coq Require Import ZArith List.
From Coq Require Extraction ExtrOcamlBasic.
From SF Require Import FaultIO.
Extraction Language OCaml.
Extraction "sfmodel.ml" xfer_desc xfer_vio.

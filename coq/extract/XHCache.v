From Coq Require Import ZArith List.
From Coq Require Extraction ExtrOcamlBasic.
From SF Require Import HeaderCache.
Extraction Language OCaml.
Extraction "sfmodel.ml" header_read seek_set seek_cur seek_cur_pipe mkh.

From Coq Require Import ZArith List.
From Coq Require Extraction ExtrOcamlBasic.
From SF Require Import Bits Fp G711 PcmConv Api.
Extraction Language OCaml.
Extraction "sfmodel.ml" b32_decode b32_encode b64_decode b64_encode round32 round64 of_int
  rd_short rd_int rd_flt wr_short wr_int wr_flt
  g_rd_short g_rd_int g_rd_flt g_wr_short g_wr_int g_wr_flt
  api_read api_write api_seek api_truncate opened set_err len.

From Coq Require Import ZArith List.
From Coq Require Extraction ExtrOcamlBasic.
From SF Require Import Peak.
Extraction Language OCaml.
Extraction "sfmodel.ml" run spec mkp.

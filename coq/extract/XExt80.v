From Coq Require Import ZArith List.
From Coq Require Extraction ExtrOcamlBasic.
From SF Require Import Ext80.
Extraction Language OCaml.
Extraction "sfmodel.ml" enc80 dec80.

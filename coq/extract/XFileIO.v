From Coq Require Import ZArith List.
From Coq Require Extraction ExtrOcamlBasic.
From SF Require Import FileIO.
Extraction Language OCaml.
Extraction "sfmodel.ml" vio_step fd_step fd_filelen mkf len.

From Coq Require Import ZArith List.
From Coq Require Extraction ExtrOcamlBasic.
From SF Require Import Resources.
From SFGen Require Import Gen_Owned.
Extraction Language OCaml.
Extraction "sfmodel.ml" init step run run_ok close blocks freed_fields.

From Coq Require Import ZArith List.
From Coq Require Extraction ExtrOcamlBasic.
From SF Require Import Sds.
Extraction Language OCaml.
Extraction "sfmodel.ml" pack2 pack3 pack4 unpack.

"""S tie plumbing: run a script through harness/sfdrive (the implementation) and through the extracted
Api.v model (model/driver_api.ml), compare the fields the model predicts, line by line."""
import os, re, subprocess
import vlib

ENC_OF_SUB = {0x1: "s8", 0x5: "u8", 0x2: "p16", 0x3: "p24", 0x4: "p32", 0x10: "ul", 0x11: "al", 0x6: "f32", 0x7: "f64"}
BW = {"s8": 1, "u8": 1, "p16": 2, "p24": 3, "p32": 4, "ul": 1, "al": 1, "f32": 4, "f64": 8}
MODE = {"r": 16, "w": 32, "x": 48}


def harness():
    return vlib.cc_harness("sfdrive", ["sfdrive.c"], kind="asan", extra="-Wl,--wrap=time")


def model():
    return vlib.build_model("api", "XApi.v", "driver_api.ml")


def parse_line(l):
    """'<n> op k=v ...' -> (n, op, dict)"""
    parts = l.split()
    if len(parts) < 2 or not parts[0].isdigit():
        return None
    d = {}
    for p in parts[2:]:
        if "=" in p:
            k, v = p.split("=", 1)
            d[k] = v
    return int(parts[0]), parts[1], d


# coverage audit: re-opens of stores the library itself has just written (and nobody touched since) that FAIL are counted per format; a check
# that silently skips such files has a hole (this is how the header-less block codecs once escaped the C05 / C06 oracles)
REOPEN_FAILURES = {}


def audit_reopens(script_text, lines):
    import formats
    wrote = {}
    for ln, raw in enumerate(script_text.split("\n"), 1):
        t = raw.split()
        if len(t) < 3:
            continue
        if t[0] == "store" and t[2] in ("hex", "append", "poke", "trunc", "copy", "clear", "reload"):
            wrote.pop(t[1], None)
        elif t[0] == "fault":
            wrote.pop(t[1], None)
        elif t[0] == "open" and len(t) > 4 and ln in lines:
            d = lines[ln][1]
            sid = t[2]
            if t[3] == "w":
                wrote.pop(sid, None)
                if d.get("ok") == "1":
                    try:
                        wrote[sid] = formats.name(int(t[4], 16))
                    except Exception:
                        wrote[sid] = t[4]
            elif t[3] == "r" and sid in wrote and d.get("ok") != "1":
                REOPEN_FAILURES[wrote[sid]] = REOPEN_FAILURES.get(wrote[sid], 0) + 1


def run_harness(script_text, tag, timeout=600, env=None):
    tmpd = os.path.join(vlib.BUILD, "tmp")
    os.makedirs(tmpd, exist_ok=True)
    sp = os.path.join(tmpd, "%s_%d.sfs" % (tag, os.getpid()))
    open(sp, "w").write(script_text)
    rc, out, err = vlib.run([harness(), sp], timeout=timeout, env=env)
    os.unlink(sp)
    lines = {}
    for l in out.split("\n"):
        p = parse_line(l)
        if p:
            lines[p[0]] = (p[1], p[2], l)
    try:
        audit_reopens(script_text, lines)
    except Exception:
        pass
    return rc, lines, err


def region_codes(hexs, bw, big):
    out = []
    b = bytes.fromhex(hexs)
    for k in range(0, len(b) - bw + 1, bw):
        chunk = b[k:k + bw]
        out.append("%x" % int.from_bytes(chunk, "big" if big else "little"))
    return out


def model_script(script_text, hl, lim_from_ret=False):
    """Build the model driver input from the script and the harness transcript (open parameters, external
    store contents).  Returns (text, modelled line numbers)."""
    out = []
    modelled = set()
    handle_ok = {}
    hvirtual = {}
    hch = {}
    external = {}     # sid -> True when content was set outside the library since the model last knew it
    for ln, raw in enumerate(script_text.split("\n"), 1):
        t = raw.split()
        if not t or t[0].startswith("#"):
            continue
        op = t[0]
        if op == "store":
            if t[2] in ("hex", "append", "poke", "trunc", "copy", "clear", "reload"):
                external[int(t[1])] = True
        elif op == "open":
            h, sid, mode = int(t[1]), int(t[2]), t[3]
            handle_ok[h] = False
            if ln not in hl or hl[ln][1].get("ok") != "1":
                continue
            f = hl[ln][1]
            if len(t) > 8 and t[8] not in "vpdD":
                continue
            virtual = len(t) <= 8 or t[8] == "v"
            enc = ENC_OF_SUB.get(int(f["fmt"], 16) & 0xFFFF)
            import formats
            if not formats.is_granular(int(f["fmt"], 16)):
                enc = None
            if enc is None or int(f["bytewidth"]) != BW[enc] or f.get("seekable") == "0" and mode != "w":
                if mode == "w":
                    external[sid] = True
                continue
            if mode != "w":
                if not external.get(sid, True):
                    # content produced under the model's eyes: the model states what a fresh open must see
                    out.append("mexpect %d %d %s" % (ln, sid, f["ch"]))
                elif "region" not in f:
                    continue
                if "region" in f:
                    # adopt the physical data region (it may carry a pad byte / trailing bytes after the audio)
                    codes = region_codes(f["region"][1:], BW[enc], f["endian"] == "B")
                    out.append("setdata %d %s %s" % (sid, f["frames"], " ".join(codes)))
            external[sid] = False
            out.append("mopen %d %d %d %d %s %s" % (ln, h, sid, MODE[mode], f["ch"], enc))
            handle_ok[h] = True
            hch[h] = int(f["ch"])
            hvirtual[h] = virtual
            modelled.add(ln)
        elif op == "close":
            h = int(t[1])
            if handle_ok.get(h):
                out.append("mclose %d %d" % (ln, h))
            handle_ok[h] = False
        elif op in ("r", "w"):
            h = int(t[1])
            if not handle_ok.get(h):
                continue
            lim = 1 << 40
            if lim_from_ret and ln in hl and "ret" in hl[ln][1]:
                # fault runs: the codec's transfer count is whatever the I/O layer allowed; the model is driven by the observed count
                r = int(hl[ln][1]["ret"])
                lim = r * hch.get(h, 1) if t[3] == "f" else r
            out.append("m%s %d %d %s %s %s %d %s" % (op, ln, h, t[2], t[3], t[4], lim, " ".join(t[5:])))
            modelled.add(ln)
        elif op == "seek":
            h = int(t[1])
            if handle_ok.get(h):
                out.append("mseek %d %d %s %s" % (ln, h, t[2], t[3]))
                modelled.add(ln)
        elif op == "cmd" and len(t) > 3 and t[2] == "FILE_TRUNCATE":
            h = int(t[1])
            if handle_ok.get(h):
                if hvirtual.get(h, True):
                    # virtual I/O cannot ftruncate (psf_ftruncate works on the descriptor): not modelled on this route
                    handle_ok[h] = False
                else:
                    out.append("mtrunc %d %d %s" % (ln, h, t[3]))
                    modelled.add(ln)
    return "\n".join(out) + "\n", modelled


def run_model(mtext, tag, timeout=600):
    tmpd = os.path.join(vlib.BUILD, "tmp")
    mp = os.path.join(tmpd, "%s_%d.msc" % (tag, os.getpid()))
    open(mp, "w").write(mtext)
    rc, out, err = vlib.run("%s < %s" % (model(), mp), timeout=timeout)
    os.unlink(mp)
    lines = {}
    for l in out.split("\n"):
        parts = l.split()
        if parts and parts[0].isdigit():
            d = {}
            for p in parts[1:]:
                k, v = p.split("=", 1)
                d[k] = v
            lines.setdefault(int(parts[0]), {}).update(d)
    return rc, lines, out, err


def compare(script_text, hl, ml, ignore=()):
    """-> (n compared lines, list of (lineno, field, impl, model, script line))"""
    src = script_text.split("\n")
    bad = []
    n = 0
    # format of the handle each line talks to (for finding keys)
    import formats
    hfmt, fam_of = {}, {}
    for ln in sorted(hl):
        op, d, raw = hl[ln]
        t = src[ln - 1].split()
        if op == "open" and len(t) > 1:
            if d.get("ok") == "1":
                hfmt[t[1]] = formats.family(int(d["fmt"], 16))
            fam_of[ln] = hfmt.get(t[1], "?")
        elif len(t) > 1:
            fam_of[ln] = hfmt.get(t[1], "?")
    compare.family = fam_of
    for ln, md in sorted(ml.items()):
        if ln not in hl:
            bad.append((ln, "<missing>", "", "", src[ln - 1]))
            continue
        n += 1
        hd = hl[ln][1]
        if hl[ln][0] == "open" and "frames" in md and hd.get("frames") != md["frames"]:
            # C04 allows one pad frame where the container pads an odd byte count (AIFF u-law/A-law/8-bit ...)
            try:
                fi, fm, bwid = int(hd["frames"]), int(md["frames"]), int(hd["blockwidth"])
                if fi == fm + 1 and (fm * bwid) % 2 == 1 and bwid % 2 == 1:
                    continue
            except (KeyError, ValueError):
                pass
        for k, v in md.items():
            if k in ignore:
                continue
            if k == "cur" and (k not in hd or hd[k].startswith("b")):
                continue        # cursor inside a trailing partial item (pad byte): not an item position
            if k == "tail" and hd.get(k) == "m" and v == "u":
                continue        # bytes of a trailing partial item landed in the (requested) region beyond the returned items
            if k in ("dig", "rdig"):
                same = hd.get(k, "").lower() == v.lower()
            else:
                same = hd.get(k) == v
            if not same:
                bad.append((ln, k, hd.get(k), v, src[ln - 1][:200]))
                break
    return n, bad


def s_tie(ctx, name, script_text, rule, key=None, ignore=(), require_clean=True, lim_from_ret=False):
    """Run script on implementation and model, record the tie, report mismatches as violations.
    Returns (harness lines, model lines, mismatches)."""
    rc, hl, err = run_harness(script_text, ctx.pid + "_" + name)
    key = key or name
    open(os.path.join(vlib.BUILD, "tmp", "%s_%s.last.sfs" % (ctx.pid, name)), "w").write(script_text)
    if rc != 0:
        first = err.strip().split("\n")
        ctx.violation(key + ":sanitizer", "implementation run of %s ended with rc=%d: %s" % (name, rc, " | ".join(first[:3])[:400]),
                      "script:\n%s\n\nstderr:\n%s" % (script_text[-6000:], err[-6000:]))
        return hl, {}, []
    mtext, modelled = model_script(script_text, hl, lim_from_ret)
    rc2, ml, mout, merr = run_model(mtext, ctx.pid + "_" + name)
    if rc2 != 0 or "DONE" not in mout:
        ctx.violation(key + ":model", "model driver failed on %s: %s" % (name, (mout + merr)[-400:]), mtext[-4000:], found_input=False)
        return hl, ml, []
    n, bad = compare(script_text, hl, ml, ignore)
    ops = {}
    for ln in ml:
        ops[hl[ln][0]] = ops.get(hl[ln][0], 0) + 1 if ln in hl else 0
    distinct = len(set(script_text.split("\n")[ln - 1] for ln in ml))
    ctx.tie(name, "S", n, distinct, rule + " (distinct = distinct script lines compared with the model)", mismatches=len(bad), ops=ops)
    groups = {}
    for b in bad:
        groups.setdefault("%s:%s" % (compare.family.get(b[0], "?"), b[1]), []).append(b)
    shown = sorted(groups.items(), key=lambda kv: kv[1][0][0])
    known_first = [kv for kv in shown if ("%s:mismatch:%s" % (key, kv[0])) in ctx.known]
    others = [kv for kv in shown if kv not in known_first]
    if len(others) > 5:
        ctx.notes.append("%s: %d further mismatch groups not listed as separate violations: %s" % (name, len(others) - 5, ", ".join(g for g, _ in others[5:])))
    for g, bs in known_first + others[:5]:
        ln, k, a, b, srcl = bs[0]
        ctx.violation("%s:mismatch:%s" % (key, g),
                      "%d of %d script lines of %s disagree with the model (%s); first: line %d field %s impl=%s model=%s [%s]" % (len(bs), n, name, g, ln, k, a, b, srcl[:120]),
                      "correspondence %s\nscript (replay with build/bin/sfdrive.asan <file>):\n%s\n\nmismatches (line field impl model):\n%s" % (
                          name, section_prefix(script_text, ln), "\n".join("%d %s impl=%s model=%s | %s" % x for x in bs[:40])))
    return hl, ml, bad


def minimal_prefix(script_text, upto):
    return "\n".join(script_text.split("\n")[:upto])


def section_prefix(script_text, ln):
    """lines from the last point where the store of line ln was created (open .. w / store .. clear|hex|copy) up to ln"""
    src = script_text.split("\n")
    start = ln - 1
    depth = 0
    while start > 0:
        t = src[start].split()
        if t and ((t[0] == "open" and len(t) > 3 and t[3] == "w") or (t[0] == "store" and len(t) > 2 and t[2] in ("clear", "hex", "copy"))):
            break
        start -= 1
    # include the lines that prepared a copied store
    if start > 0 and src[start].startswith("store") and "copy" in src[start]:
        pre = [l for l in src[:start] if l.split() and l.split()[0] in ("open", "w", "close")][:3]
        return "\n".join(pre + src[start:ln])
    return "\n".join(src[start:ln])

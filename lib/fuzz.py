"""Structure-aware input generation and batch execution for C03 / C15 / C16 (support for the ties and the search,
never presented as proof).  Corpus = files the library itself writes for every writable format (with metadata) +
hand-built chunk soups for the chunked containers; mutations aim at length fields, counts, truncation points."""
import os, struct, subprocess, concurrent.futures
import vlib, sdrive, formats, gens


# ---------------------------------------------------------------- corpus

def library_files(ctx, rng, per_format_channels=(1, 2)):
    """valid files of every writable format, written by the library under test (with metadata where the container takes it)"""
    L, names = [], []
    for (f, ch) in formats.writable(channels=per_format_channels):
        name = formats.name(f)
        mj, sb = name.split("/")
        if mj == "SD2":
            continue
        t = "f" if sb in ("FLOAT", "DOUBLE") else "s"
        L.append("open 0 0 w %x %d 8000" % (f, ch))
        if mj in ("WAV", "WAVEX", "RF64", "AIFF", "CAF"):
            L.append("str 0 set 1 %s" % "7469746c65207465787420")
            L.append("str 0 set 5 %s" % "636f6d6d656e74")
            L.append("chunk set 0 54657374 0102030405")
        if mj in ("WAV", "WAVEX", "RF64"):
            L.append("bext 0 set 64657363 6f726967 6c696e65310a6c696e6532")
            L.append("cue 0 set 3")
            L.append("inst 0 set 60 0 0 2")
        if mj in ("WAV", "RF64"):
            L.append("cart 0 set 7469746c65 746167")
        L.append("w 0 %s f 700 %s" % (t, " ".join(gens.values(rng, t, 40, sb if sb in ("ULAW", "ALAW") else None))))
        L.append("close 0")
        L.append("store 0 dump")
        names.append((len(L), "%s_%dch" % (name.replace("/", "_"), ch)))
    rc, hl, err = sdrive.run_harness("\n".join(L) + "\n", "fuzz_corpus", timeout=600)
    out = []
    for ln, nm in names:
        if ln in hl and "hex" in hl[ln][1]:
            out.append((nm, bytes.fromhex(hl[ln][1]["hex"])))
    return out


def ck(tag, data, be=False, pad=True):
    d = bytes(data)
    s = tag + struct.pack(">I" if be else "<I", len(d)) + d
    if pad and len(d) % 2:
        s += b"\0"
    return s


def pstr(s):
    b = bytes([len(s)]) + s
    return b + (b"\0" if len(b) % 2 else b"")


def soups():
    """hand-built files that carry the chunk types the library's writers never produce (its readers parse them)"""
    out = []
    pcm = bytes(range(64)) * 2
    # AIFF / AIFC with MARK, INST, APPL, COMT, NAME, AUTH, (c) , ANNO, basc, PEAK, CHAN in several orders
    ext80 = bytes([0x40, 0x0B, 0xFA, 0, 0, 0, 0, 0, 0, 0])
    comm = ck(b"COMM", struct.pack(">hIh", 2, 32, 16) + ext80, be=True)
    marks = struct.pack(">H", 3) + b"".join(struct.pack(">HI", i + 1, 4 * i) + pstr(b"mark%d" % i) for i in range(3))
    mark = ck(b"MARK", marks, be=True)
    inst = ck(b"INST", struct.pack(">bbbbbbh", 60, 0, 0, 127, 1, 127, 0) + struct.pack(">hhh", 1, 1, 2) + struct.pack(">hhh", 0, 0, 0), be=True)
    ssnd = ck(b"SSND", struct.pack(">II", 0, 0) + pcm, be=True)
    extra = ck(b"NAME", b"a name", be=True) + ck(b"AUTH", b"author", be=True) + ck(b"(c) ", b"copy", be=True) + ck(b"ANNO", b"anno", be=True) + \
        ck(b"APPL", b"m3ga" + b"software string", be=True) + ck(b"COMT", struct.pack(">H", 1) + struct.pack(">IhH", 0, 1, 4) + b"cmnt", be=True) + \
        ck(b"basc", struct.pack(">IIHHHHHH", 1, 8, 60, 0, 4, 4, 1, 0) + b"\0" * 66, be=True) + ck(b"PEAK", struct.pack(">II", 1, 0) + struct.pack(">fI", 0.5, 3) * 2, be=True)
    for order, nm in (([comm, mark, inst, extra, ssnd], "aiff_comm_mark_inst_ssnd"), ([mark, comm, ssnd, inst], "aiff_mark_before_comm"),
                      ([mark, inst, extra], "aiff_mark_no_comm"), ([comm, ssnd, mark, extra], "aiff_ssnd_then_mark"), ([ck(b"MARK", struct.pack(">H", 500) + b"".join(struct.pack(">HI", i, i) + pstr(b"m") for i in range(500)), be=True), comm, ssnd], "aiff_mark500")):
        body = b"AIFF" + b"".join(order)
        out.append((nm, b"FORM" + struct.pack(">I", len(body)) + body))
    # AIFC variants
    for enc, nm in ((b"NONE", "aifc_none"), (b"sowt", "aifc_sowt"), (b"ulaw", "aifc_ulaw"), (b"ima4", "aifc_ima4"), (b"fl32", "aifc_fl32"), (b"GSM ", "aifc_gsm"), (b"DWVW", "aifc_dwvw")):
        commc = ck(b"COMM", struct.pack(">hIh", 1, 64, 16) + ext80 + enc + pstr(b"not compressed"), be=True)
        body = b"AIFC" + ck(b"FVER", struct.pack(">I", 0xA2805140), be=True) + commc + mark + ssnd
        out.append((nm, b"FORM" + struct.pack(">I", len(body)) + body))
    # WAV with every chunk the reader knows
    fmt16 = ck(b"fmt ", struct.pack("<HHIIHH", 1, 2, 8000, 32000, 4, 16))
    cue = ck(b"cue ", struct.pack("<I", 2) + b"".join(struct.pack("<II4sIII", i + 1, 10 * i, b"data", 0, 0, 10 * i) for i in range(2)))
    smpl = ck(b"smpl", struct.pack("<IIIIIIIII", 0, 0, 125000, 60, 0, 0, 0, 2, 0) + struct.pack("<IIIIII", 0, 0, 2, 20, 0, 0) * 2)
    adtl = ck(b"LIST", b"adtl" + ck(b"labl", struct.pack("<I", 1) + b"label one\0") + ck(b"note", struct.pack("<I", 2) + b"note\0") + ck(b"ltxt", struct.pack("<IIIHHHH", 1, 5, 0, 0, 0, 0, 0)))
    info = ck(b"LIST", b"INFO" + ck(b"INAM", b"title\0") + ck(b"IART", b"artist\0") + ck(b"ICMT", b"comment\0") + ck(b"ISFT", b"soft\0") + ck(b"ICRD", b"2026\0"))
    bext = ck(b"bext", b"d" * 256 + b"o" * 32 + b"r" * 32 + b"2026-09-30" + b"12:00:00" + struct.pack("<IIH", 1, 0, 1) + b"\0" * 254 + b"A=PCM\r\n")
    cart = ck(b"cart", b"0101" + b"t" * 64 + b"a" * 64 + b"\0" * (64 * 4 + 10 * 2 + 8 * 2 + 64 * 3 + 4) + b"\0" * (8 * 8) + b"\0" * 276 + b"\0" * 1024 + b"tag text")
    others = ck(b"fact", struct.pack("<I", 32)) + ck(b"PEAK", struct.pack("<II", 1, 0) + struct.pack("<fI", 0.25, 1) * 2) + ck(b"acid", struct.pack("<IHHfIHHf", 1, 60, 0, 0.0, 4, 4, 4, 120.0)) + \
        ck(b"DISP", struct.pack("<I", 1) + b"display") + ck(b"PAD ", b"\0" * 10) + ck(b"JUNK", b"j" * 7) + ck(b"exif", b"exif data") + ck(b"id3 ", b"ID3\x03\0\0\0\0\0\x0a" + b"\0" * 10)
    data = ck(b"data", pcm)
    for order, nm in (([fmt16, cue, smpl, adtl, info, bext, cart, others, data], "wav_all_chunks"), ([fmt16, data, info, cue, adtl], "wav_chunks_after_data"),
                      ([cue, fmt16, data], "wav_cue_before_fmt"), ([fmt16, ck(b"cue ", struct.pack("<I", 2500) + b"".join(struct.pack("<II4sIII", i, i, b"data", 0, 0, i) for i in range(2500))), data], "wav_cue2500")):
        body = b"WAVE" + b"".join(order)
        out.append((nm, b"RIFF" + struct.pack("<I", len(body)) + body))
        out.append((nm.replace("wav_", "rifx_"), b"RIFX" + struct.pack(">I", len(body)) + body))
    # WAVE_FORMAT_EXTENSIBLE and odd codecs
    for tag, bits, extra_b, nm in ((0xFFFE, 24, struct.pack("<HHI", 22, 24, 3) + bytes.fromhex("0100000000001000800000aa00389b71"), "wavex_pcm24"), (2, 4, struct.pack("<HHH", 32, 500, 7) + b"\0" * 28, "wav_msadpcm"),
                                 (0x11, 4, struct.pack("<HH", 2, 505), "wav_ima"), (0x31, 0, struct.pack("<HH", 2, 320), "wav_gsm"), (7, 8, b"", "wav_ulaw"), (3, 32, b"", "wav_float"), (0x40, 4, struct.pack("<HH", 2, 0), "wav_g721")):
        blockalign = 256 if tag in (2, 0x11) else 65 if tag == 0x31 else max(1, bits // 8 * 2)
        f = ck(b"fmt ", struct.pack("<HHIIHH", tag, 2 if tag not in (0x31, 0x40) else 1, 8000, 8000, blockalign, bits) + extra_b)
        body = b"WAVE" + f + ck(b"fact", struct.pack("<I", 100)) + ck(b"data", bytes(range(256)) * 3)
        out.append((nm, b"RIFF" + struct.pack("<I", len(body)) + body))
    # CAF with chan, info, pakt, uuid, free, peak, strg ...
    def cck(tag, d):
        return tag + struct.pack(">q", len(d)) + d
    desc = cck(b"desc", struct.pack(">d4sIIIII", 8000.0, b"lpcm", 2, 4, 1, 2, 16))
    cafx = cck(b"chan", struct.pack(">III", 0x650002, 0, 0)) + cck(b"info", struct.pack(">I", 2) + b"title\0a title\0artist\0me\0") + cck(b"free", b"\0" * 20) + \
        cck(b"peak", struct.pack(">I", 1) + struct.pack(">fq", 0.5, 3) * 2) + cck(b"uuid", b"\x11" * 16 + b"payload") + cck(b"kuki", b"cookie") + cck(b"pakt", struct.pack(">qqii", 1, 64, 0, 0) + b"\x10")
    out.append(("caf_all_chunks", b"caff" + struct.pack(">HH", 1, 0) + desc + cafx + cck(b"data", struct.pack(">I", 0) + pcm)))
    out.append(("caf_data_first", b"caff" + struct.pack(">HH", 1, 0) + desc + cck(b"data", struct.pack(">I", 0) + pcm) + cafx))
    alac_desc = cck(b"desc", struct.pack(">d4sIIIII", 44100.0, b"alac", 1, 0, 4096, 2, 0))
    out.append(("caf_alac_no_pakt", b"caff" + struct.pack(">HH", 1, 0) + alac_desc + cck(b"kuki", b"\0" * 24) + cck(b"data", struct.pack(">I", 0) + pcm)))
    # W64, AU, VOC, 8SVX, NIST, PAF, IRCAM, headerless odds
    # NIST Sphere: text header; fields missing or zero
    def nist(lines):
        h = ("NIST_1A\n   1024\n" + "".join(l + "\n" for l in lines) + "end_head\n").encode()
        return h + b"\0" * (1024 - len(h)) + pcm
    full = ["channel_count -i 2", "sample_rate -i 8000", "sample_n_bytes -i 2", "sample_sig_bits -i 16", "sample_coding -s3 pcm", "sample_byte_format -s2 01", "sample_count -i 32"]
    out.append(("nist_zero_channels", nist(["channel_count -i 0"] + full[1:])))
    out.append(("nist_no_channel_count", nist(full[1:])))
    out.append(("nist_zero_bytes", nist(full[:2] + ["sample_n_bytes -i 0"] + full[3:])))
    out.append(("nist_ulaw_no_rate", nist(["channel_count -i 1", "sample_n_bytes -i 1", "sample_coding -s4 ulaw", "sample_count -i 100"])))
    out.append(("au_basic", b".snd" + struct.pack(">IIIII", 28, 0xFFFFFFFF, 3, 8000, 2) + b"info" + pcm))
    out.append(("au_g721", b".snd" + struct.pack(">IIIII", 24, 60, 23, 8000, 1) + bytes(range(60))))
    out.append(("voc_blocks", b"Creative Voice File\x1a" + struct.pack("<HHH", 26, 0x010A, 0x1129) + bytes([1]) + struct.pack("<I", 34)[:3] + bytes([156, 0]) + bytes(range(32)) +
                bytes([5]) + struct.pack("<I", 5)[:3] + b"text\0" + bytes([9]) + struct.pack("<I", 44)[:3] + struct.pack("<IBBHI", 8000, 16, 2, 4, 0) + bytes(range(32)) + bytes([0])))
    out.append(("svx_16sv", (lambda b: b"FORM" + struct.pack(">I", len(b)) + b)(b"16SV" + ck(b"VHDR", struct.pack(">IIIHBBI", 32, 0, 0, 8000, 1, 0, 0x10000), be=True) + ck(b"NAME", b"name", be=True) + ck(b"ANNO", b"anno", be=True) + ck(b"CHAN", struct.pack(">I", 6), be=True) + ck(b"BODY", pcm, be=True))))
    out.append(("sds_blocks", bytes([0xF0, 0x7E, 0, 1, 0, 0, 16]) + bytes([0x20, 0x4E, 0x00]) + bytes([60, 0, 0]) * 3 + bytes([0, 0xF7]) + (bytes([0xF0, 0x7E, 0, 2, 0]) + bytes(120) + bytes([0x7C, 0xF7])) * 2))
    return out


def dup_chunks(data):
    """variants of a RIFF / RIFX / FORM / caff file with one top-level chunk repeated (a second cue / smpl / PEAK / MARK / chan ...):
    the second parse of a chunk must release or reuse what the first one allocated"""
    out = []
    if data[:4] in (b"RIFF", b"RIFX", b"FORM") and len(data) > 12:
        be = data[:4] != b"RIFF"
        pos, spans = 12, []
        while pos + 8 <= len(data):
            n = struct.unpack(">I" if be else "<I", data[pos + 4:pos + 8])[0]
            end = min(len(data), pos + 8 + n + (n & 1))
            spans.append((pos, end))
            pos = end
        for (a, b) in spans:
            if b - a > 40000:
                continue
            body = data[8:b] + data[a:b] + data[b:]
            out.append(data[:4] + struct.pack(">I" if be else "<I", len(body)) + body)
            # ... and repeated with a different leading field (a second COMM / fmt chunk announcing MORE channels than the first: tables sized by the
            # first one -- PEAK, channel map -- must not be used with the second one's count)
            if b - a >= 12:
                for patch_at, val in ((8, b"\x00\x08"), (10, b"\x08\x00")):
                    dup = data[a:a + patch_at] + val + data[a + patch_at + 2:b]
                    body = data[8:b] + data[b:]
                    # the modified copy goes to the END of the header chunks seen so far (after everything that followed the original)
                    body2 = data[8:len(data)]
                    tail_at = len(data)
                    for (a2, b2) in spans:
                        if data[a2:a2 + 4] in (b"SSND", b"data"):
                            tail_at = a2
                            break
                    if tail_at > b:
                        body2 = data[8:tail_at] + dup + data[tail_at:]
                        out.append(data[:4] + struct.pack(">I" if be else "<I", len(body2)) + body2)
    elif data[:4] == b"caff" and len(data) > 8:
        pos, spans = 8, []
        while pos + 12 <= len(data):
            n = struct.unpack(">q", data[pos + 4:pos + 12])[0]
            end = len(data) if n < 0 else min(len(data), pos + 12 + n)
            spans.append((pos, end))
            pos = end
        for (a, b) in spans:
            if b - a <= 40000:
                out.append(data[:b] + data[a:b] + data[b:])
    return out


def field_sweep(data, upto, full=True):
    """every 1 / 2 / 4 byte field of the first `upto` bytes forced to all zeros and to all ones: zero channel counts, widths, rates, sizes
    (full=False: only the 4 byte fields, only zeros)"""
    out = []
    for off in range(0, min(len(data), upto)):
        if not full:
            if off + 4 <= len(data):
                out.append(data[:off] + b"\0" * 4 + data[off + 4:])
            continue
        for w in (1, 2, 4):
            if off + w <= len(data):
                out.append(data[:off] + b"\0" * w + data[off + w:])
                out.append(data[:off] + b"\xff" * w + data[off + w:])
    return out


# ---------------------------------------------------------------- mutation

def mutate(rng, data, n):
    """n mutants of data aimed at structure: truncations, length / count fields, byte flips in the header"""
    out = []
    L = len(data)
    for k in range(n):
        b = bytearray(data)
        kind = rng.below(10)
        if kind == 0 and L > 1:
            b = b[:rng.below(min(L, 256))]                       # truncate inside the header region
        elif kind == 1 and L > 1:
            b = b[:rng.below(L)]                                   # truncate anywhere
        elif kind in (2, 3) and L >= 8:
            pos = rng.below(min(L - 4, 300)) & ~1
            val = rng.choice([0, 1, 2, 0x7FFFFFFF, 0xFFFFFFFF, 0x80000000, 0xFFFFFFFE, L, L - 1, L + 1, 0x00010000, 0xFFFF, 1025, 0x10000000])
            b[pos:pos + 4] = struct.pack(rng.choice(["<I", ">I"]), val & 0xFFFFFFFF)
        elif kind == 4 and L >= 4:
            pos = rng.below(min(L - 2, 200))
            b[pos:pos + 2] = struct.pack(rng.choice(["<H", ">H"]), rng.choice([0, 1, 0xFFFF, 0x8000, 1025, 0x7FFF, 3, 255, 256]))
        elif kind == 5 and L > 0:
            for _ in range(rng.range(1, 4)):
                b[rng.below(min(L, 400))] = rng.below(256)
        elif kind == 6 and L > 16:
            a = rng.below(L - 8)
            b = b[:a] + b[a + rng.range(1, 8):]                 # delete a few bytes
        elif kind == 7 and L > 16:
            a = rng.below(min(L, 300))
            b = b[:a] + bytes(rng.below(256) for _ in range(rng.range(1, 9))) + b[a:]
        elif kind == 8 and L > 40:
            a, c = sorted((rng.below(min(L, 400)), rng.below(min(L, 400))))
            b = b[:c] + b[a:c] + b[c:]                           # duplicate a stretch (chunks)
        else:
            b = b + bytes(rng.below(256) for _ in range(rng.range(1, 40)))
        out.append(bytes(b))
    return out


# ---------------------------------------------------------------- exercise script for one input

def exercise(data, sid=1, h=1, route="v", deep=True):
    """script lines: present `data` as a file, open it, and if that works run a call sequence over it"""
    L = ["store %d hex %s" % (sid, data.hex() if data else "-")]
    L.append("open %d %d r 0 0 0 0 %s" % (h, sid, route))
    L.append("err -")
    L.append("info %d" % h)
    if deep:
        L += ["cmd %d 0x1044" % h, "cmd %d 0x1045" % h, "r %d s f 33" % h, "r %d i i 64" % h, "seek %d 0 0" % h, "r %d f f 1000" % h, "seek %d -1 2" % h, "r %d d f 5" % h, "seek %d 7 1" % h, "seek %d 0 17" % h,
              "str %d get 1" % h, "str %d get 3" % h, "chunk iter %d - short" % h, "bext %d get" % h, "cue %d get" % h, "inst %d get" % h, "cmd %d 0x1040" % h,
              "seek %d 0 0" % h, "r %d s f 100000" % h, "r %d s f 3" % h]
    L.append("close %d" % h)
    return L


SANE_CODECS = set(formats.SUBS.values()) | {0x60, 0x61, 0x62, 0x64, 0x80, 0x81, 0x82, 0x52, 0x43}
SANE_MAJORS = set(formats.MAJORS.values()) | {0x150000, 0x170000, 0x200000, 0x230000}


def info_problem(d):
    """the SF_INFO returned for an accepted file must be sane"""
    try:
        ch, rate, frames, sections, fmt = int(d["ch"]), int(d["rate"]), int(d["frames"]), int(d["sections"]), int(d["fmt"], 16)
    except (KeyError, ValueError):
        return "no_info"
    if not (1 <= ch <= 1024):
        return "channels=%d" % ch
    if rate < 1:
        return "samplerate=%d" % rate
    if frames < 0:
        return "frames=%d" % frames
    if sections < 1:
        return "sections=%d" % sections
    if (fmt & 0x0FFF0000) not in SANE_MAJORS or (fmt & 0xFFFF) not in SANE_CODECS:
        return "format=%x" % fmt
    return None


def run_batches(scripts, tag, timeout=120, env=None):
    """scripts: list of (name, [lines]).  Runs them in batches across the cores; returns list of (name, rc, lines dict, stderr)
    where a batch that crashes or hangs is re-run one script at a time to isolate the culprit."""
    h = sdrive.harness()
    tmpd = os.path.join(vlib.BUILD, "tmp")
    os.makedirs(tmpd, exist_ok=True)
    # private temporary directories of harness runs that were killed (time budget, sanitizer abort) are left behind: drop the old ones
    import shutil, time as _time
    for e in os.listdir(tmpd):
        if e.startswith("lt_"):
            pth = os.path.join(tmpd, e)
            try:
                if _time.time() - os.path.getmtime(pth) > 900:
                    shutil.rmtree(pth, ignore_errors=True)
            except OSError:
                pass
    batch = max(1, min(60, len(scripts) // (2 * vlib.NCPU) + 1))
    groups = [scripts[i:i + batch] for i in range(0, len(scripts), batch)]

    def run_group(gi, grp, to):
        text = ""
        offsets = []
        ln = 0
        for name, lines in grp:
            offsets.append((name, ln + 1, ln + len(lines)))
            text += "\n".join(lines) + "\n"
            ln += len(lines)
        sp = os.path.join(tmpd, "%s_%d_%d.sfs" % (tag, os.getpid(), gi))
        open(sp, "w").write(text)
        e = dict(os.environ)
        e.setdefault("ASAN_OPTIONS", "detect_leaks=1:abort_on_error=0:exitcode=99:allocator_may_return_null=1:max_allocation_size_mb=2048")
        e.setdefault("UBSAN_OPTIONS", "print_stacktrace=0:halt_on_error=0")
        e.setdefault("SFD_BUDGET", "20")
        if env:
            e.update(env)
        try:
            p = subprocess.run([h, sp], stdout=subprocess.PIPE, stderr=subprocess.PIPE, timeout=to, env=e)
            rc, out, err = p.returncode, p.stdout.decode("utf8", "replace"), p.stderr.decode("utf8", "replace")
            if rc == -14:
                rc, err = 124, err + "\n[per-call time budget of %s s exceeded: SIGALRM]" % e.get("SFD_BUDGET")
        except subprocess.TimeoutExpired as ex:
            rc, out, err = 124, (ex.stdout or b"").decode("utf8", "replace"), "[timeout after %ds]" % to
        os.unlink(sp)
        lines = {}
        for l in out.split("\n"):
            pr = sdrive.parse_line(l)
            if pr:
                lines[pr[0]] = (pr[1], pr[2], l)
        return rc, lines, err, offsets

    def settle(gi, grp, to, depth=0):
        """results of one group; on a crash / hang only the script that was running is re-run alone and the rest of the group continues as a new group"""
        rc, lines, err, offsets = run_group(gi, grp, to)
        if rc == 0:
            return [(name, 0, {k - a + 1: v for k, v in lines.items() if a <= k <= b}, "") for (name, a, b) in offsets]
        complete = 0
        for (name, a, b) in offsets:
            if b in lines:
                complete += 1
            else:
                break
        out = []
        if complete == len(grp):
            # every line was printed: the failure was reported at exit (LeakSanitizer): isolate each script
            for i, (name, ls) in enumerate(grp):
                if len(grp) == 1:
                    out.append((name, rc, {k: v for k, v in lines.items()}, err))
                else:
                    rc1, lines1, err1, _ = run_group(100000 + gi * 1000 + i, [(name, ls)], max(20, to // 3))
                    out.append((name, rc1, lines1, err1))
            return out
        for (name, a, b) in offsets[:complete]:
            out.append((name, 0, {k - a + 1: v for k, v in lines.items() if a <= k <= b}, ""))
        # the script that was running when the process died (crash, sanitizer abort, time budget) is the first incomplete one
        name, a, b = offsets[complete]
        out.append((name, rc, {k - a + 1: v for k, v in lines.items() if a <= k <= b}, err))
        rest = grp[complete + 1:]
        if rest:
            out += settle(300000 + gi * 1000 + complete + depth * 100, rest, to, depth + 1)
        return out

    results = []
    with concurrent.futures.ThreadPoolExecutor(max_workers=vlib.NCPU) as ex:
        futs = [ex.submit(settle, gi, grp, timeout) for gi, grp in enumerate(groups)]
        for fu in concurrent.futures.as_completed(futs):
            results += fu.result()
    return results

"""K tie of Dpcm.v (the DPCM codecs of src/xi.c) shared by C01 / C06 / C07."""
import os
import vlib


def run(ctx, cases, sides="wr"):
    h = vlib.cc_harness("kern_dpcm", ["kern_dpcm.c"], kind="asan")
    m = vlib.build_model("dpcm", "XDpcm.v", "driver_dpcm.ml")
    tmpd = os.path.join(vlib.BUILD, "tmp")
    os.makedirs(tmpd, exist_ok=True)
    vlib.k_tie(ctx, "xi_dpcm_codec", "%s %d %d %s %s" % (h, ctx.seed, cases, tmpd, sides), m,
               "the eight integer DPCM kernels of src/xi.c (static, reached by including the file) on random and wrap-boundary inputs with arbitrary incoming "
               "predictors; XI files written through sf_write_short / sf_write_int in random call partitions (lengths 0, 1, around 4096 and 8192, up to 11000: "
               "beyond the staging buffer) whose stored delta codes the model predicts; the same files read back in other partitions, fresh and after "
               "dpcm_seek (called directly after an optional first read: XI is not seekable through sf_seek) with the predictor the handle held"
               + {"wr": "", "w": " [this run: the write side only -- encoder kernels and stored codes]", "r": " [this run: the read side only -- decoder kernels, reads, dpcm_seek]"}[sides],
               key="dpcm")
    ctx.trusted += ["Dpcm.v: the float / double entries of the DPCM codec (f2dles, d2dles, dles2f, ...) are not modelled (they are lossy by definition); "
                    "C narrowing conversions int -> short / signed char are taken modulo 2^16 / 2^8 (gcc, clang)"]


def run_sds(ctx, files):
    h = vlib.cc_harness("kern_sds", ["kern_sds.c"], kind="asan")
    m = vlib.build_model("sds", "XSds.v", "driver_sds.ml")
    vlib.k_tie(ctx, "sds_sample_packing", "%s %d %d" % (h, ctx.seed, files), m,
               "SDS files of all three subtypes written through sf_write_int (full-range ints, extremes, single bits): the 2 / 3 / 4 packed bytes of every sample of the "
               "first two blocks against Sds.pack; the same files with arbitrary data bytes (bit 7 set in a quarter of them) read through sf_read_int against Sds.unpack",
               key="sds_pack")

"""Format words of include/sndfile.h used by the generators (values re-checked against Gen_Enums.v by T1)."""
MAJORS = {"WAV": 0x010000, "AIFF": 0x020000, "AU": 0x030000, "RAW": 0x040000, "PAF": 0x050000, "SVX": 0x060000, "NIST": 0x070000,
          "VOC": 0x080000, "IRCAM": 0x0A0000, "W64": 0x0B0000, "MAT4": 0x0C0000, "MAT5": 0x0D0000, "PVF": 0x0E0000, "XI": 0x0F0000,
          "HTK": 0x100000, "SDS": 0x110000, "AVR": 0x120000, "WAVEX": 0x130000, "SD2": 0x160000, "CAF": 0x180000, "WVE": 0x190000,
          "MPC2K": 0x210000, "RF64": 0x220000}
SUBS = {"PCM_S8": 1, "PCM_16": 2, "PCM_24": 3, "PCM_32": 4, "PCM_U8": 5, "FLOAT": 6, "DOUBLE": 7, "ULAW": 0x10, "ALAW": 0x11,
        "IMA_ADPCM": 0x12, "MS_ADPCM": 0x13, "GSM610": 0x20, "VOX_ADPCM": 0x21, "NMS_ADPCM_16": 0x22, "NMS_ADPCM_24": 0x23,
        "NMS_ADPCM_32": 0x24, "G721_32": 0x30, "G723_24": 0x31, "G723_40": 0x32, "DWVW_12": 0x40, "DWVW_16": 0x41, "DWVW_24": 0x42,
        "DPCM_8": 0x50, "DPCM_16": 0x51, "ALAC_16": 0x70, "ALAC_20": 0x71, "ALAC_24": 0x72, "ALAC_32": 0x73}
ENDIANS = {"FILE": 0, "LITTLE": 0x10000000, "BIG": 0x20000000, "CPU": 0x30000000}
GRANULAR = ["PCM_S8", "PCM_16", "PCM_24", "PCM_32", "PCM_U8", "FLOAT", "DOUBLE", "ULAW", "ALAW"]
INT_GRANULAR = ["PCM_S8", "PCM_16", "PCM_24", "PCM_32", "PCM_U8", "ULAW", "ALAW"]
BLOCK = {"IMA_ADPCM", "MS_ADPCM", "GSM610", "VOX_ADPCM", "NMS_ADPCM_16", "NMS_ADPCM_24", "NMS_ADPCM_32", "G721_32", "G723_24", "G723_40",
         "DWVW_12", "DWVW_16", "DWVW_24", "DPCM_8", "DPCM_16", "ALAC_16", "ALAC_20", "ALAC_24", "ALAC_32"}
SUBNAME = {v: k for k, v in SUBS.items()}
MAJNAME = {v: k for k, v in MAJORS.items()}


def fmt(major, sub, endian="FILE"):
    return MAJORS[major] | SUBS[sub] | ENDIANS[endian]


def name(word):
    return "%s/%s%s" % (MAJNAME.get(word & 0x0FFF0000, hex(word & 0x0FFF0000)), SUBNAME.get(word & 0xFFFF, hex(word & 0xFFFF)),
                        {0: "", 0x10000000: "/LE", 0x20000000: "/BE", 0x30000000: "/CPU"}[word & 0x30000000])


_cache = {}


def writable(channels=(1, 2), rate=8000, subs=None, endians=("FILE",)):
    """All (format word, channels) the working tree's library opens for writing (probed through sfdrive)."""
    import sdrive
    key = (tuple(channels), rate, tuple(subs) if subs else None, tuple(endians))
    if key in _cache:
        return _cache[key]
    lines = []
    combos = []
    for mj in MAJORS:
        for sb in (subs or SUBS):
            for en in endians:
                for ch in channels:
                    combos.append((fmt(mj, sb, en), ch))
                    lines.append("open 0 0 w %x %d %d" % (fmt(mj, sb, en), ch, rate))
                    lines.append("close 0")
    rc, hl, err = sdrive.run_harness("\n".join(lines) + "\n", "probe")
    out = []
    for i, c in enumerate(combos):
        l = hl.get(2 * i + 1)
        if l and l[1].get("ok") == "1":
            out.append(c)
    _cache[key] = out
    return out


def is_granular(word):
    """sample-granular encodings read / written straight through psf_fread / psf_fwrite (PAF 24-bit, SDS and XI are block codecs)"""
    mj, sb = MAJNAME.get(word & 0x0FFF0000), SUBNAME.get(word & 0xFFFF)
    if sb not in GRANULAR:
        return False
    if mj == "SDS" or mj == "XI":
        return False
    if mj == "PAF" and sb == "PCM_24":
        return False
    return True


def family(word):
    """codec / container family used in finding keys"""
    n = name(word)
    if n.startswith("SDS/"):
        return "SDS"
    if n.startswith("PAF/PCM_24"):
        return "PAF24"
    if n.startswith("VOC/"):
        return "VOC"
    if n.startswith("SD2/"):
        return "SD2"
    if n.startswith("RAW/DWVW"):
        return "RAW/DWVW"
    if n.startswith("AIFF/DWVW"):
        return "AIFF/DWVW"
    if n.startswith("XI/"):
        return "XI"
    return n

"""T2-lite: the hand-written wrapper model Api.v was transcribed from sf_read_short / sf_readf_short /
sf_write_short / sf_writef_short / sf_seek / the SFC_FILE_TRUNCATE branch.  This module extracts the 32 typed
wrappers + sf_seek + the truncate branch from the *current* src/sndfile.c, normalises away the sample type, and
compares them with the committed transcription source (translator/wrapper_templates.json).  A difference means
the translation the model rests on no longer matches the code: the S tie then has to find the failing input."""
import hashlib, json, os, re
import vlib

TEMPLATES = os.path.join(vlib.VERIF, "translator", "wrapper_templates.json")
TYPES = ("short", "int", "float", "double")


def _strip(src):
    src = re.sub(r"/\*.*?\*/", " ", src, flags=re.S)
    return re.sub(r"\s+", " ", src).strip()


def extract(src_text):
    """-> dict name -> normalised body"""
    out = {}
    for m in re.finditer(r"^(sf_(readf|read|writef|write)_(short|int|float|double))\s*\(.*?^\} /\* \1 \*/", src_text, re.S | re.M):
        name, var, t = m.group(1), m.group(2), m.group(3)
        body = _strip(m.group(0))
        body = body.replace(name, "sf_%s_T" % var)
        body = re.sub(r"\b(read|write)_%s\b" % t, r"\1_T", body)
        body = re.sub(r"sizeof \(%s\)" % t, "sizeof (T)", body)
        body = re.sub(r"\b(const )?%s \*ptr" % t, r"\1T *ptr", body)
        out[name] = body
    m = re.search(r"^sf_seek\s*\(.*?^\} /\* sf_seek \*/", src_text, re.S | re.M)
    if m:
        out["sf_seek"] = _strip(m.group(0))
    m = re.search(r"case SFC_FILE_TRUNCATE :.*?break ;", src_text, re.S)
    if m:
        out["SFC_FILE_TRUNCATE"] = _strip(m.group(0))
    m = re.search(r"^psf_default_seek\s*\(.*?^\} /\* psf_default_seek \*/", open(os.path.join(vlib.REPO, "src", "common.c")).read(), re.S | re.M)
    if m:
        out["psf_default_seek"] = _strip(m.group(0))
    m = re.search(r"#define\s+VALIDATE_SNDFILE_AND_ASSIGN_PSF.*?\n\s*\}\s*\n", src_text, re.S)
    if m:
        out["VALIDATE_SNDFILE_AND_ASSIGN_PSF"] = _strip(m.group(0))
    return out


def current():
    return extract(open(os.path.join(vlib.REPO, "src", "sndfile.c")).read())


def write_templates():
    cur = current()
    t = {}
    for var in ("read", "readf", "write", "writef"):
        t["sf_%s_T" % var] = cur["sf_%s_short" % var]
    for k in ("sf_seek", "SFC_FILE_TRUNCATE", "psf_default_seek", "VALIDATE_SNDFILE_AND_ASSIGN_PSF"):
        t[k] = cur[k]
    json.dump(t, open(TEMPLATES, "w"), indent=1, sort_keys=True)


def check():
    """-> (n_checked, list of names whose text differs from the transcription source)"""
    t = json.load(open(TEMPLATES))
    cur = current()
    diff = []
    n = 0
    for var in ("read", "readf", "write", "writef"):
        for ty in TYPES:
            name = "sf_%s_%s" % (var, ty)
            n += 1
            if cur.get(name) != t["sf_%s_T" % var]:
                diff.append(name)
    for k in ("sf_seek", "SFC_FILE_TRUNCATE", "psf_default_seek", "VALIDATE_SNDFILE_AND_ASSIGN_PSF"):
        n += 1
        if cur.get(k) != t[k]:
            diff.append(k)
    return n, diff


def tie(ctx, relevant=None):
    """record the translation tie; returns the list of differing functions (restricted to `relevant` prefixes)"""
    n, diff = check()
    if relevant:
        diff = [d for d in diff if any(d.startswith(r) for r in relevant)]
    ctx.tie("wrapper_transcription", "T2", n, n, "normalised source text of the 32 typed wrappers, sf_seek, psf_default_seek, the truncate branch and the "
            "validation macro equals the text Api.v was transcribed from (translator/wrapper_templates.json)", exhaustive=True, differing=diff)
    return diff

"""Script generators shared by the S-tie checks.  Every random choice derives from the Ctx seed (vlib.Rng)."""
import struct
import formats, vlib

TYPES = "sifd"


def f32hex(x):
    return "%x" % struct.unpack("<I", struct.pack("<f", x))[0]


def f64hex(x):
    return "%x" % struct.unpack("<Q", struct.pack("<d", x))[0]


def values(rng, t, n, sub=None):
    """n sample values of caller type t as script tokens.  Floats stay inside [-1, 1) on a 2^-15 grid plus noise
    so that every integer encoding has a defined (non-clipping) result."""
    out = []
    for _ in range(n):
        k = rng.below(8)
        if t == "s":
            v = rng.range(-32768, 32767) if k else rng.choice([-32768, 32767, 0, -1, 1])
            out.append(str(v))
        elif t == "i":
            v = rng.range(-2 ** 31, 2 ** 31 - 1) if k else rng.choice([-2 ** 31, 2 ** 31 - 1, 0, -1, 65536])
            out.append(str(v))
        else:
            v = (rng.range(-32768, 32767) + (rng.below(1024) / 1024.0 if k > 3 else 0)) / 32768.0
            if not (-1.0 <= v < 1.0):
                v = 0.5
            if sub in ("ULAW", "ALAW"):
                v = max(-0.99, min(0.99, v))
            out.append(f32hex(v) if t == "f" else f64hex(v))
    return out


def types_for(sub):
    """caller types the model can convert for this encoding"""
    return "fd" if sub in ("FLOAT", "DOUBLE") else "sifd"


def granular_formats(rng, channels=(1, 2, 3), per_major=None, endians=("FILE",)):
    """(format word, channels) over sample-granular encodings of every container that opens for write"""
    w = formats.writable(channels=channels, subs=formats.GRANULAR, endians=endians)
    return w

"""Common machinery for the /verif checks: builds from /repo's working tree, Coq driver,
extraction build, evidence, violation / known-finding reporting.

Everything a registered check needs lives under /verif (build output under /verif/build).
"""
import fcntl, hashlib, json, os, re, shutil, subprocess, sys, time

VERIF = os.path.dirname(os.path.dirname(os.path.abspath(__file__)))
REPO = os.environ.get("VERIF_REPO", "/repo")
BUILD = os.path.join(VERIF, "build")
COQ = os.path.join(VERIF, "coq")
ASAN_DIR = os.path.join(BUILD, "asan")
GUARD = "LIBSNDFILE_VERIF"
NCPU = os.cpu_count() or 4

SAN_FLAGS = ("-O1 -g -fno-omit-frame-pointer -fsanitize=address,undefined "
             "-fno-sanitize=shift -fno-sanitize-recover=address -D%s=1" % GUARD)
# plain (no sanitizer) flags: used by kernel harnesses that are compute heavy
PLAIN_FLAGS = "-O2 -g -D%s=1" % GUARD


def log(*a):
    print(*a, file=sys.stderr, flush=True)


def run(cmd, cwd=None, timeout=None, env=None, check=False, inp=None):
    """Run a command, return (rc, stdout, stderr). cmd: list or string (shell)."""
    e = dict(os.environ)
    e.setdefault("ASAN_OPTIONS", "detect_leaks=1:abort_on_error=0:exitcode=99:allocator_may_return_null=1")
    e.setdefault("UBSAN_OPTIONS", "print_stacktrace=0:halt_on_error=0")
    if env:
        e.update(env)
    try:
        p = subprocess.run(cmd, cwd=cwd, shell=isinstance(cmd, str), timeout=timeout, env=e,
                           input=inp, stdout=subprocess.PIPE, stderr=subprocess.PIPE)
        rc, out, err = p.returncode, p.stdout, p.stderr
    except subprocess.TimeoutExpired as ex:
        rc, out, err = 124, ex.stdout or b"", (ex.stderr or b"") + b"\n[timeout]"
    out = out.decode("utf-8", "replace")
    err = err.decode("utf-8", "replace")
    if check and rc != 0:
        raise RuntimeError("command failed rc=%d: %s\n%s\n%s" % (rc, cmd, out[-4000:], err[-4000:]))
    return rc, out, err


class Lock:
    def __init__(self, name):
        os.makedirs(BUILD, exist_ok=True)
        self.path = os.path.join(BUILD, "." + name + ".lock")

    def __enter__(self):
        self.f = open(self.path, "w")
        fcntl.flock(self.f, fcntl.LOCK_EX)
        return self

    def __exit__(self, *a):
        fcntl.flock(self.f, fcntl.LOCK_UN)
        self.f.close()


# ------------------------------------------------------------------------------------------
# library build from the working tree

def ensure_lib(kind="asan"):
    """Configure (once) and incrementally build libsndfile from /repo's working tree.
    kind: 'asan' (ASan+UBSan) or 'plain'.  Returns the build directory."""
    d = os.path.join(BUILD, kind)
    flags = SAN_FLAGS if kind == "asan" else PLAIN_FLAGS
    with Lock("lib_" + kind):
        if not os.path.exists(os.path.join(d, "build.ninja")):
            os.makedirs(d, exist_ok=True)
            run(["cmake", "-G", "Ninja", "-S", REPO, "-B", d, "-DCMAKE_BUILD_TYPE=None",
                 "-DCMAKE_C_COMPILER=clang", "-DCMAKE_C_FLAGS=" + flags + " -Wno-error -w",
                 "-DBUILD_TESTING=OFF", "-DBUILD_PROGRAMS=OFF", "-DBUILD_EXAMPLES=OFF",
                 "-DBUILD_REGTEST=OFF", "-DENABLE_EXTERNAL_LIBS=OFF", "-DENABLE_MPEG=OFF",
                 "-DENABLE_CPACK=OFF", "-DENABLE_PACKAGE_CONFIG=OFF", "-DBUILD_SHARED_LIBS=OFF",
                 "-DINSTALL_MANPAGES=OFF", "-DINSTALL_PKGCONFIG_MODULE=OFF"],
                timeout=600, check=True)
        rc, out, err = run(["cmake", "--build", d, "--target", "sndfile", "-j", str(NCPU)], timeout=1200)
        if rc != 0:
            raise BuildError("library build failed (%s):\n%s\n%s" % (kind, out[-6000:], err[-3000:]))
    return d


class BuildError(Exception):
    pass


def cc_harness(name, sources, kind="asan", extra="", libs=True, includes_c=False):
    """Compile a C harness.  sources: list of paths (relative to /verif/harness or absolute).
    If libs: link against libsndfile.a of the build `kind`.  Returns binary path.
    Harnesses that #include library .c files always get -I for src and config.h."""
    d = ensure_lib(kind)
    outdir = os.path.join(BUILD, "bin")
    os.makedirs(outdir, exist_ok=True)
    out = os.path.join(outdir, name + "." + kind)
    flags = SAN_FLAGS if kind == "asan" else PLAIN_FLAGS
    srcs = [s if os.path.isabs(s) else os.path.join(VERIF, "harness", s) for s in sources]
    cmd = ("clang %s -w -DHAVE_CONFIG_H -I%s/src -I%s/src -I%s/include -I%s/include -I%s/harness %s %s -o %s %s -lm"
           % (flags, d, REPO, d, REPO, VERIF, extra, " ".join(srcs), out + ".new%d" % os.getpid(),
              (d + "/libsndfile.a") if libs else ""))
    with Lock("cc_" + name + kind):
        rc, o, e = run(cmd, timeout=900)
        if rc == 0:
            # (checks running side by side share harness binaries: the new file replaces the old one atomically, a run in progress keeps its inode)
            os.replace(out + ".new%d" % os.getpid(), out)
    if rc != 0:
        raise BuildError("harness %s failed to compile:\n%s" % (name, e[-6000:]))
    return out


# ------------------------------------------------------------------------------------------
# Coq

def write_if_changed(path, content):
    try:
        if open(path).read() == content:
            return False
    except FileNotFoundError:
        pass
    os.makedirs(os.path.dirname(path), exist_ok=True)
    tmp = path + ".tmp%d" % os.getpid()
    open(tmp, "w").write(content)
    os.replace(tmp, path)
    return True


def coq_project():
    """(Re)generate _CoqProject and Makefile when the file set changed."""
    files = []
    for sub in ("theories", "gen"):
        for f in sorted(os.listdir(os.path.join(COQ, sub))):
            if f.endswith(".v"):
                files.append(sub + "/" + f)
    content = "-Q theories SF\n-Q gen SFGen\n-arg -w -arg -notation-overridden,-deprecated-hint-without-locality,-deprecated-instance-without-locality\n" + "\n".join(files) + "\n"
    changed = write_if_changed(os.path.join(COQ, "_CoqProject"), content)
    if changed or not os.path.exists(os.path.join(COQ, "Makefile")):
        run(["coq_makefile", "-f", "_CoqProject", "-o", "Makefile"], cwd=COQ, check=True)


def coq_make(targets, timeout=1500):
    """make -k the given .vo targets (paths relative to coq/). Returns (ok, output)."""
    with Lock("coq"):
        coq_project()
        rc, out, err = run(["make", "-k", "-j", str(NCPU)] + targets, cwd=COQ, timeout=timeout,
                           env={"TIMED": "", "COQEXTRAFLAGS": ""})
    return rc == 0, out + "\n" + err


THEOREM_RE = re.compile(r"^\s*(Theorem|Lemma|Corollary|Example|Fact)\s+([A-Za-z0-9_']+)", re.M)


def coq_property_file(pid, deps_timeout=1500, timeout=900):
    """Build the dependencies of Properties_<pid>.v with make, then compile the property file
    itself with coqc (always, so that Print Assumptions output is captured on every run).
    Returns dict(ok, theorems, assumptions, failed, log)."""
    fname = "theories/Properties_%s.v" % pid
    path = os.path.join(COQ, fname)
    src = open(path).read()
    theorems = [m.group(2) for m in THEOREM_RE.finditer(src)]
    with Lock("coq"):
        coq_project()
        rc, out, err = run("coqdep -Q theories SF -Q gen SFGen %s 2>/dev/null" % fname, cwd=COQ)
        deps = []
        m = re.search(r":\s*(.*)$", out.replace("\\\n", " "), re.S)
        if m:
            deps = [d for d in m.group(1).split() if d.endswith(".vo")]
        ok = True
        mk_log = ""
        if deps:
            rc, o, e = run(["make", "-k", "-j", str(NCPU)] + deps, cwd=COQ, timeout=deps_timeout)
            mk_log = o + "\n" + e
            ok = rc == 0
        res = {"ok": False, "theorems": theorems, "assumptions": {}, "failed": [], "log": mk_log}
        if not ok:
            res["failed"] = _failing_lemmas(mk_log) or ["<dependency build>"]
            res["failed_detail"] = _first_coq_error(mk_log)
            return res
        rc, o, e = run(["coqc", "-Q", "theories", "SF", "-Q", "gen", "SFGen", "-w",
                        "-notation-overridden,-deprecated-hint-without-locality", fname],
                       cwd=COQ, timeout=timeout)
    res["log"] = mk_log + "\n" + o + "\n" + e
    if rc != 0:
        # locate the failing theorem from the error line number
        m = re.search(r'line (\d+), characters', e)
        failing = "<unknown>"
        if m:
            ln = int(m.group(1))
            pre = "\n".join(src.split("\n")[:ln])
            ms = list(THEOREM_RE.finditer(pre))
            if ms:
                failing = ms[-1].group(2)
        res["failed"] = [failing]
        res["failed_detail"] = e[-3000:]
        return res
    # parse Print Assumptions output
    assum = {}
    cur = None
    blocks = re.split(r"(?m)^(?=Closed under the global context|Axioms:|Fetching opaque)", o)
    # Print Assumptions prints in order; map sequentially to the 'Print Assumptions x.' commands
    names = re.findall(r"Print Assumptions\s+([A-Za-z0-9_'.]+)\s*\.", src)
    outs = [b.strip() for b in blocks if b.strip().startswith(("Closed under", "Axioms:"))]
    for i, n in enumerate(names):
        assum[n] = outs[i] if i < len(outs) else "<missing>"
    res["assumptions"] = assum
    res["ok"] = True
    return res


def _failing_lemmas(text):
    """names of the lemmas enclosing each 'File "...", line N' error of a make log"""
    out = []
    for m in re.finditer(r'File "\./([^"]+)", line (\d+), characters', text):
        path = os.path.join(COQ, m.group(1))
        try:
            src = open(path).read().split("\n")
        except OSError:
            continue
        pre = "\n".join(src[:int(m.group(2))])
        ms = list(THEOREM_RE.finditer(pre))
        nm = "%s:%s" % (os.path.basename(m.group(1)), ms[-1].group(2) if ms else "?")
        if nm not in out:
            out.append(nm)
    return out


def _first_coq_error(text):
    m = re.search(r"(File \"[^\"]+\", line \d+, characters[^\n]*\n(?:.*\n){0,12})", text)
    return m.group(1) if m else text[-2000:]


# ------------------------------------------------------------------------------------------
# OCaml extraction build

def build_model(name, extract_v, driver_ml, timeout=900):
    """coqc the extraction file coq/extract/<extract_v> (writes <mod>.ml/.mli into build/ml/<name>),
    then compile with the driver model/<driver_ml>.  Returns binary path."""
    outdir = os.path.join(BUILD, "ml", name)
    os.makedirs(outdir, exist_ok=True)
    with Lock("coq"):
        coq_project()
    src = os.path.join(COQ, "extract", extract_v)
    with Lock("ml_" + name):
        # dependencies must be compiled
        rc, out, err = run("coqdep -Q theories SF -Q gen SFGen -Q extract SFX extract/%s 2>/dev/null" % extract_v, cwd=COQ)
        m = re.search(r":\s*(.*)$", out.replace("\\\n", " "), re.S)
        deps = [d for d in (m.group(1).split() if m else []) if d.endswith(".vo")]
        if deps:
            with Lock("coq"):
                rc, o, e = run(["make", "-k", "-j", str(NCPU)] + deps, cwd=COQ, timeout=timeout)
            if rc != 0:
                raise BuildError("model deps failed:\n" + _first_coq_error(o + e))
        rc, o, e = run(["coqc", "-Q", os.path.join(COQ, "theories"), "SF", "-Q", os.path.join(COQ, "gen"), "SFGen",
                        "-w", "-extraction-opaque-accessed,-extraction-reserved-identifier,-notation-overridden",
                        "-o", os.path.join(outdir, os.path.basename(src) + "o"), src], cwd=outdir, timeout=timeout)
        if rc != 0:
            raise BuildError("extraction failed:\n" + e[-3000:])
        shutil.copy(os.path.join(VERIF, "model", driver_ml), os.path.join(outdir, "driver_" + name + ".ml"))
        shutil.copy(os.path.join(VERIF, "model", "zutil.ml"), os.path.join(outdir, "zutil.ml"))
        mods = ["sfmodel.mli", "sfmodel.ml", "zutil.ml"]
        binp = os.path.join(BUILD, "bin", "model_" + name)
        os.makedirs(os.path.dirname(binp), exist_ok=True)
        rc, o, e = run(["ocamlfind", "ocamlopt", "-O2", "-w", "-a", "-package", "str", "-linkpkg"] + mods +
                       ["driver_" + name + ".ml", "-o", binp], cwd=outdir, timeout=timeout)
        if rc != 0:
            rc, o, e = run(["ocamlfind", "ocamlopt", "-w", "-a", "-package", "str", "-linkpkg"] + mods +
                           ["driver_" + name + ".ml", "-o", binp], cwd=outdir, timeout=timeout)
        if rc != 0:
            raise BuildError("ocaml build failed:\n" + e[-3000:])
    return binp


# ------------------------------------------------------------------------------------------
# PRNG (splitmix64): every random choice of a run derives from VERIF_SEED

def dhash(t):
    """deterministic replacement for hash() of a tuple (Python randomises string hashes per process)"""
    import zlib
    return zlib.crc32(repr(t).encode())


class Rng:
    def __init__(self, seed):
        self.s = (seed * 0x9E3779B97F4A7C15 + 0x1234567) & 0xFFFFFFFFFFFFFFFF

    def next(self):
        self.s = (self.s + 0x9E3779B97F4A7C15) & 0xFFFFFFFFFFFFFFFF
        z = self.s
        z = ((z ^ (z >> 30)) * 0xBF58476D1CE4E5B9) & 0xFFFFFFFFFFFFFFFF
        z = ((z ^ (z >> 27)) * 0x94D049BB133111EB) & 0xFFFFFFFFFFFFFFFF
        return z ^ (z >> 31)

    def below(self, n):
        return self.next() % n

    def choice(self, xs):
        return xs[self.below(len(xs))]

    def range(self, lo, hi):
        return lo + self.below(hi - lo + 1)


# ------------------------------------------------------------------------------------------
# check context: evidence + violations

class Ctx:
    def __init__(self, pid, tier, seed):
        self.pid, self.tier, self.seed = pid, tier, seed
        self.t0 = time.time()
        self.obligations = []      # theorem names
        self.discharged = []
        self.assumptions = {}      # theorem -> Print Assumptions text
        self.ties = []             # dicts: name, kind, evaluations, distinct_nontrivial, rule, exhaustive
        self.samples = []
        self.violations = []       # (key, text, replay)
        self.known_hits = []
        self.notes = []
        self.trusted = []
        self.distribution = {}
        self.broken_proofs = []
        self.found_inputs = []     # (key, text, replay path) of violations that carry a concrete input
        kf = json.load(open(os.path.join(VERIF, "known_findings.json")))
        self.known = {f["key"]: f for f in kf.get("findings", []) if f["property"] == pid}
        self.fixed = [f for f in kf.get("fixed", []) if f["property"] == pid]

    # -- reporting --
    def violation(self, key, text, replay_content, found_input=True):
        """key: stable identifier of the failing input class, e.g. 'chunk.count32'."""
        if key in self.known:
            if key not in self.known_hits:
                self.known_hits.append(key)
                print("KNOWN-FINDING: property=%s %s [%s]" % (self.pid, self.known[key]["what"], key), flush=True)
            return
        os.makedirs(os.path.join(VERIF, "replays"), exist_ok=True)
        safe = re.sub(r"[^A-Za-z0-9_.-]", "_", key)[:80]
        path = os.path.join(VERIF, "replays", "%s_%s.txt" % (self.pid, safe))
        with open(path, "w") as f:
            f.write("property: %s\nkey: %s\nwhat: %s\nseed: %d tier: %s\n---\n%s\n" % (self.pid, key, text, self.seed, self.tier, replay_content))
        self.violations.append((key, text, path))
        if found_input:
            self.found_inputs.append((key, text, path))
        tail = "" if found_input else " no-failing-input-found"
        print("VIOLATION property=%s replay=%s%s" % (self.pid, path, tail), flush=True)
        log("  -> " + text)

    def expect_known(self, key, reproduced, detail=""):
        """A known finding's witness was re-run on the implementation: reproduced => KNOWN-FINDING line.
        If it no longer reproduces the entry is stale: note it (not an alarm)."""
        if key not in self.known:
            return
        if reproduced:
            if key not in self.known_hits:
                self.known_hits.append(key)
                print("KNOWN-FINDING: property=%s %s [%s]" % (self.pid, self.known[key]["what"], key), flush=True)
        else:
            self.notes.append("known finding %s no longer reproduces %s" % (key, detail))

    def tie(self, name, kind, evaluations, distinct, rule, exhaustive=False, **kw):
        d = dict(name=name, kind=kind, evaluations=int(evaluations), distinct_nontrivial=int(distinct),
                 rule=rule, exhaustive=exhaustive)
        d.update(kw)
        self.ties.append(d)

    def add_samples(self, xs, cap=6):
        for x in xs[:cap]:
            self.samples.append(x)

    def proofs(self, res):
        self.obligations += res["theorems"]
        if res["ok"]:
            self.discharged += res["theorems"]
        self.assumptions.update(res["assumptions"])

    def report_broken_proofs(self):
        for thm, detail, search in self.broken_proofs:
            found = None
            if search:
                try:
                    found = search()
                except Exception as ex:   # the search is best effort
                    log("search failed: %r" % ex)
            body = "broken obligation: %s (reached from coq/theories/Properties_%s.v)\n%s\n" % (thm, self.pid, detail)
            if found and found[0]:
                self.violation("proof:" + thm, "proof obligation %s no longer checks; failing input: %s" % (thm, found[1]), body + found[2])
            elif self.found_inputs:
                body += "\nfailing inputs found by this run's correspondence / oracle runs:\n" + "\n".join(
                    "  %s: %s (replay %s)" % f for f in self.found_inputs)
                try:
                    body += "\n\n" + open(self.found_inputs[0][2]).read()
                except OSError:
                    pass
                self.violation("proof:" + thm, "proof obligation %s no longer checks; failing input found (%s)" % (thm, self.found_inputs[0][1][:200]), body)
            else:
                self.violation("proof:" + thm, "proof obligation %s no longer checks" % thm, body, found_input=False)
        self.broken_proofs = []

    def finish(self, checker_cmd):
        self.report_broken_proofs()
        ev_total = sum(t["evaluations"] for t in self.ties)
        dn_total = sum(t["distinct_nontrivial"] for t in self.ties)
        axioms = sorted(set(v for v in self.assumptions.values()))
        ev = {
            "property_id": self.pid, "tier": self.tier, "seed": self.seed, "level": "proof",
            "coverage": {
                "obligations": len(self.obligations), "discharged": len(self.discharged),
                "checker_cmd": checker_cmd,
                "trusted_base": [
                    "Coq 8.16.1 kernel (coqc, vm_compute; no native_compute)",
                    "Print Assumptions per theorem: " + json.dumps(self.assumptions, sort_keys=True),
                    "extraction: ExtrOcamlBasic only, no Extract Constant; OCaml 4.13.1 drivers in /verif/model",
                    "T1 table dump / T2 translator (translator/) and K/S/X harnesses (harness/), clang 14 ASan+UBSan build of the working tree",
                ] + self.trusted,
                "theorems": self.obligations,
                "evaluations": ev_total, "distinct_nontrivial": dn_total,
                "rule": "; ".join("%s[%s]: %s" % (t["name"], t["kind"], t["rule"]) for t in self.ties),
                "ties": self.ties,
                "samples": self.samples if self.samples else ["(no correspondence case recorded)"],
                "exhaustive": bool(self.ties) and all(t["exhaustive"] for t in self.ties),
                "known_findings_reproduced": self.known_hits,
                "distribution": self.distribution,
                "notes": self.notes,
            },
            "assumptions": self.trusted,
            "wall_s": round(time.time() - self.t0, 2),
            "violations": len(self.violations),
        }
        os.makedirs(os.path.join(VERIF, "evidence"), exist_ok=True)
        with open(os.path.join(VERIF, "evidence", self.pid + ".json"), "w") as f:
            json.dump(ev, f, indent=1, sort_keys=True)
        return 1 if self.violations else 0


def proof_step(ctx, search=None):
    """Compile Properties_<pid>.v.  A broken obligation is recorded; it is reported at the end of the
    check (Ctx.finish) together with the failing input the ties / oracles found, or as
    no-failing-input-found if they found none.  `search`: optional extra callable run at that point,
    returning (found, text, replay_content)."""
    res = coq_property_file(ctx.pid)
    ctx.proofs(res)
    if not res["ok"]:
        ctx.broken_proofs.append((",".join(res["failed"]), res.get("failed_detail", ""), search))
    return res


# ------------------------------------------------------------------------------------------
# K tie: harness output lines "<kernel> <input...> <output>" re-computed by the extracted model

def k_tie(ctx, name, harness_cmd, model_bin, rule, exhaustive=False, key=None, timeout=1500,
          mismatch_is_violation=True, sample_n=4, parallel=1):
    """Runs `harness_cmd` (shell string), stores its lines, feeds them to the model driver.
    Returns (n, bad, mismatches).  Each mismatch is a failing input of the correspondence."""
    tmpd = os.path.join(BUILD, "tmp")
    os.makedirs(tmpd, exist_ok=True)
    f = os.path.join(tmpd, "%s_%s_%d.lines" % (ctx.pid, name, os.getpid()))
    rc, out, err = run("%s > %s" % (harness_cmd, f), timeout=timeout)
    if rc != 0:
        ctx.violation((key or name) + ":harness", "harness %s failed (rc=%d): %s" % (name, rc, err[-1500:]),
                      "command: %s\nstderr:\n%s" % (harness_cmd, err[-4000:]))
        return 0, 0, []
    if parallel > 1:
        rc, out, err = run("split -n l/%d %s %s.part. && ls %s.part.* | xargs -P%d -I{} sh -c '%s < {} > {}.out' ; cat %s.part.*.out; rm -f %s.part.*"
                           % (parallel, f, f, f, parallel, model_bin, f, f), timeout=timeout)
        dones = re.findall(r"DONE (\d+) (\d+)", out)
        if len(dones) == parallel:
            out += "\nDONE %d %d\n" % (sum(int(a) for a, b in dones), sum(int(b) for a, b in dones))
            m = list(re.finditer(r"DONE (\d+) (\d+)", out))[-1]
        else:
            m = None
    else:
        rc, out, err = run("%s < %s" % (model_bin, f), timeout=timeout)
        m = re.search(r"DONE (\d+) (\d+)", out)
    if rc != 0 or not m:
        ctx.violation((key or name) + ":model", "model driver for %s failed: %s" % (name, (out + err)[-1500:]),
                      "command: %s < %s\n%s" % (model_bin, f, (out + err)[-4000:]), found_input=False)
        return 0, 0, []
    n, bad = int(m.group(1)), int(m.group(2))
    mism = [l for l in out.split("\n") if l.startswith("MISMATCH")]
    rc2, o2, e2 = run("rev %s | cut -d' ' -f2- | rev | sort -u | wc -l" % f)
    try:
        distinct = int(o2.strip())
    except ValueError:
        distinct = 0
    rc3, o3, e3 = run("awk 'NR%%%d==1' %s | head -%d" % (max(1, n // max(1, sample_n)), f, sample_n))
    ctx.add_samples(["%s: %s" % (name, l) for l in o3.strip().split("\n") if l], cap=sample_n)
    ctx.tie(name, "K", n, distinct, rule + " (distinct = distinct (kernel,input) pairs)", exhaustive=exhaustive, mismatches=bad)
    try:
        os.unlink(f)
    except OSError:
        pass
    if bad and mismatch_is_violation:
        ctx.violation((key or name) + ":mismatch",
                      "%d of %d evaluations of %s disagree with the model (which the theorems relate to the definition); first: %s"
                      % (bad, n, name, mism[0] if mism else "?"),
                      "correspondence: %s\nharness: %s\nmismatching inputs (kernel input impl model):\n%s" % (name, harness_cmd, "\n".join(mism)))
    return n, bad, mism
